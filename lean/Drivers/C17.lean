import VizierModel.Driver.SpaceJson
import VizierModel.Model.PresentSpec
open Lean VizierModel.Driver VizierModel.Space

def jsonOfOptPVal : Option PVal → Json
  | none => Json.null
  | some v => jsonOfPVal v

def jsonOfPresented : Presented → Json
  | .one v => Json.mkObj [("one", jsonOfOptPVal v)]
  | .many vs => Json.mkObj [("many", Json.arr (vs.map jsonOfOptPVal).toArray)]

def optPValOfJson : Json → Except String (Option PVal)
  | .null => .ok none
  | j => (pvalOfJson j).map some

def presentedOfJson (j : Json) : Except String Presented := do
  match j.getObjVal? "many" with
  | .ok (.arr a) => return .many (← a.toList.mapM optPValOfJson)
  | _ => return .one (← optPValOfJson (← j.getObjVal? "one"))

def outOfJson (j : Json) : Except String (List (String × Presented)) := do
  let a ← fromJson? (α := Array Json) j
  a.toList.mapM fun e => do
    match e with
    | .arr #[n, p] => pure ((← fromJson? (α := String) n), (← presentedOfJson p))
    | _ => throw "bad out entry"

def jsonOfOut (o : List (String × Presented)) : Json :=
  Json.arr (o.map fun e => Json.arr #[Json.str e.1, jsonOfPresented e.2]).toArray

def handle (j : Json) : Except String Json := do
  let op ← getStr j "op"
  match op with
  | "present" =>
    let ss ← (← getArr j "pcs").toList.mapM pcOfJson
    let t ← assignOfJson (← j.getObjVal? "trial")
    let w ← getBool j "wire"
    let cfg := cfgOfJson j
    let r := if w then trialParameters cfg ss t else pytrialParameters cfg ss t
    return jsonOfResult jsonOfOut r
  | "judge" =>
    let ss ← (← getArr j "pcs").toList.mapM pcOfJson
    let t ← assignOfJson (← j.getObjVal? "stored")
    let known := trialKnown ss t
    match j.getObjVal? "out" with
    | .ok .null => return Json.mkObj [("known", Json.bool known), ("uniq", Json.bool (activeNamesUnique ss t)), ("extOK", Json.bool ((allSpace ss).all fun p => extOK p.h)), ("treeNamesUnique", Json.bool (decide ((names (allSpace ss)).Nodup))), ("why", Json.null),
        ("active", toJson ((activePresent ss t).map (·.1.name)).toArray)]
    | .ok o =>
      let out ← outOfJson o
      return Json.mkObj [("known", Json.bool known), ("uniq", Json.bool (activeNamesUnique ss t)), ("extOK", Json.bool ((allSpace ss).all fun p => extOK p.h)), ("treeNamesUnique", Json.bool (decide ((names (allSpace ss)).Nodup))),
        ("why", match judge ss t out with | none => Json.null | some w => Json.str w),
        ("active", toJson ((activePresent ss t).map (·.1.name)).toArray)]
    | .error e => throw e
  | "autocast" =>
    let fv ← pvalList (← j.getObjVal? "feasible")
    let ac ← getBool j "auto_cast"
    let r := addDiscreteArgs "x" fv none none ac
    return Json.mkObj [("model", jsonOfResult (fun a => Json.str (stringOfExt a.ext)) r), ("allIntegral", Json.bool (allIntegral fv))]
  | "parse" =>
    let n ← getStr j "name"
    return match parseIndexed n with
      | none => Json.mkObj [("parsed", Json.null)]
      | some (b, i) => Json.mkObj [("parsed", Json.arr #[Json.str b, toJson i])]
  | "cast" =>
    let v ← pvalOfJson (← j.getObjVal? "v")
    let e ← extOfString (← getStr j "ext")
    return jsonOfResult jsonOfOptPVal (cast e v)
  | "wire" =>
    let v ← pvalOfJson (← j.getObjVal? "v")
    return Json.mkObj [("v", jsonOfPVal (wire v))]
  | _ => throw s!"unknown op {op}"

def main : IO Unit := serve handle
