import VizierModel.Driver.Util
import VizierModel.Model.Namespace
import VizierModel.Model.Meta
import VizierModel.Model.MetadataApi
open Lean VizierModel.Driver VizierModel

def keyLt := Meta.keyLt

abbrev K := String × String

def kvOfJson (j : Json) : Except String (K × String) := do
  let a ← fromJson? (α := Array String) j
  if a.size != 3 then throw "kv: need [ns,key,val]"
  return ((a[0]!, a[1]!), a[2]!)

def jsonOfKv (e : K × String) : Json := toJson #[e.1.1, e.1.2, e.2]

def kvsOfJson (j : Json) : Except String (List (K × String)) := do
  let a ← fromJson? (α := Array Json) j
  a.toList.mapM kvOfJson

def updOfJson (j : Json) : Except String (Meta.Upd K String) := do
  let t ← j.getObjVal? "t"
  let tgt ← match t with
    | .null => pure Meta.Target.study
    | _ => do let n ← fromJson? (α := Nat) t; pure (Meta.Target.trial n)
  let kv ← kvOfJson (← j.getObjVal? "kv")
  return { tgt := tgt, k := kv.1, v := kv.2 }

def storeJson (s : Meta.Store K String) : Json :=
  Json.mkObj [("study", toJson (s.study.map jsonOfKv).toArray),
    ("trials", toJson (s.trials.map fun t => Json.mkObj [("id", toJson t.1), ("md", toJson (t.2.map jsonOfKv).toArray)]).toArray)]

/-- run a history; `atomic=false` selects the RAM datastore as written at the pinned commit -/
def runHistory (atomic : Bool) (ops : List Json) : Except String Json := do
  let mut s : Meta.Store K String := { study := [], trials := [] }
  let mut outs : Array Json := #[]
  for o in ops do
    let kind ← getStr o "op"
    if kind == "update" then
      let us ← (← getArr o "us").toList.mapM updOfJson
      let (ok, s') : Bool × Meta.Store K String :=
        if atomic then
          match Meta.updateAtomic keyLt s us with
          | .ok s' => (true, s')
          | .error _ => (false, s)
        else
          let (r, s') := Meta.updateRamLegacy keyLt s us
          (match r with | .ok _ => true | .error _ => false, s')
      s := s'
      if ok then
        outs := outs.push "ok"
        -- algorithm decision: the suggested trials are stored after the delta was accepted
        match o.getObjVal? "algo_new" with
        | .ok (.arr news) =>
          for nw in news do
            let id ← getNat nw "id"
            let md ← kvsOfJson (← nw.getObjVal? "md")
            s := Meta.step keyLt s (.addTrial id md)
        | _ => pure ()
      else outs := outs.push (if atomic then "notFound" else "keyErrorRaw")
    else if kind == "addTrial" then
      let id ← getNat o "id"
      let md ← kvsOfJson (← o.getObjVal? "md")
      s := Meta.step keyLt s (.addTrial id md); outs := outs.push "ok"
    else if kind == "delTrial" then
      let id ← getNat o "id"
      s := Meta.step keyLt s (.delTrial id); outs := outs.push "ok"
    else throw s!"bad op {kind}"
  return Json.mkObj [("outs", toJson outs), ("store", storeJson s)]

/-- {"op":"mdapi","ops":[…]}: a sequence of Metadata-class calls on up to three trees ("m0","m1","m2").
    set/del/update/attach mutate; get/keys/len/namespaces/subnamespaces read.  Namespaces are lists. -/
def mdApi (j : Json) : Except String Json := do
  let ops ← getArr j "ops"
  let mut trees : Array MetadataApi.Tree := #[.empty, .empty, .empty]
  let mut outs : Array Json := #[]
  let nsOf (o : Json) (f : String) : Except String (List String) := do
    let a ← fromJson? (α := Array String) (← o.getObjVal? f)
    pure a.toList
  for o in ops do
    let kind ← getStr o "op"
    let ti ← getNat o "m"
    let t : MetadataApi.Tree := trees[ti]!
    match kind with
    | "set" =>
      trees := trees.set! ti (t.set (← nsOf o "ns") (← getStr o "k") (← getStr o "v")); outs := outs.push "ok"
    | "del" =>
      match t.del (← nsOf o "ns") (← getStr o "k") with
      | some t' => trees := trees.set! ti t'; outs := outs.push "ok"
      | none => outs := outs.push "KeyError"
    | "update" =>
      let kvs ← (← getArr o "kvs").toList.mapM fun (x : Json) => do
        let a ← fromJson? (α := Array String) x
        pure (a[0]!, a[1]!)
      trees := trees.set! ti (t.update (← nsOf o "ns") kvs); outs := outs.push "ok"
    | "attach" =>
      let oi ← getNat o "other"
      trees := trees.set! ti (t.attach (← nsOf o "ns") trees[oi]! (← nsOf o "src")); outs := outs.push "ok"
    | "get" =>
      outs := outs.push (match t.get (← nsOf o "ns") (← getStr o "k") with | some v => Json.str v | none => Json.null)
    | "keys" => outs := outs.push (toJson (t.keys (← nsOf o "ns")).toArray)
    | "namespaces" => outs := outs.push (toJson (t.namespaces.map (·.toArray)).toArray)
    | "subnamespaces" => outs := outs.push (toJson ((t.subnamespaces (← nsOf o "ns")).map (·.toArray)).toArray)
    | _ => throw s!"bad mdapi op {kind}"
  return Json.mkObj [("outs", toJson outs)]

def handle (j : Json) : Except String Json := do
  let op ← getStr j "op"
  match op with
  | "mdapi" => mdApi j
  | "encode" =>
    let ns ← (← getArr j "ns").toList.mapM charsOfJson
    return Json.mkObj [("enc", jsonOfChars (NS.encode ns)), ("trailingBS", toJson (NS.trailingBS ns))]
  | "decode" =>
    let s ← charsOfJson (← j.getObjVal? "s")
    return Json.mkObj [("ns", toJson ((NS.decode s).map jsonOfChars).toArray)]
  | "roundtrip" =>
    let ns ← (← getArr j "ns").toList.mapM charsOfJson
    let e := NS.encode ns
    let d := NS.decode e
    return Json.mkObj [("enc", jsonOfChars e), ("dec", toJson (d.map jsonOfChars).toArray),
      ("ok", toJson (decide (d = ns))), ("trailingBS", toJson (NS.trailingBS ns))]
  | "merge" =>
    let old ← kvsOfJson (← j.getObjVal? "old")
    let new ← kvsOfJson (← j.getObjVal? "new")
    return Json.mkObj [("merged", toJson ((Meta.merge keyLt old new).map jsonOfKv).toArray)]
  | "history" =>
    let atomic ← getBool j "atomic"
    runHistory atomic (← getArr j "ops").toList
  | _ => throw s!"unknown op {op}"

def main : IO Unit := serve handle
