import VizierModel.Driver.Util
import VizierModel.Model.Resources
open Lean VizierModel.Driver VizierModel VizierModel.Res

/-
Line protocol of the resource-name model.  Strings travel as arrays of code points.
  {"op":"name","kind":K,"c":[comp…],"id":int?}        -> {"name":[…]} | {"err":E}   (constructor + .name)
  {"op":"fromName","kind":K,"s":[…]}                  -> {"ok":{"c":[comp…],"id":nat|null}} | {"err":E}
  {"op":"pyInt","s":[…]}                              -> {"v":int|null,"wf":bool,"value":int,"canonical":bool}
  {"op":"trialResource","c":[owner,study],"s":[…]}    -> {"ok":{…}} | {"err":E}
  {"op":"digits","n":nat}                             -> {"s":[…]}
K in owner|study|trial|es|sug.
-/

def errStr : ParseErr → String
  | .notName => "notName" | .notInt => "notInt" | .negative => "negative"
  | .badComp => "badComp" | .notPositive => "notPositive"

def errJson (e : ParseErr) : Json := Json.mkObj [("err", Json.str (errStr e))]

def okJson (cs : List (List Char)) (id : Option Nat) : Json :=
  Json.mkObj [("ok", Json.mkObj [("c", toJson (cs.map jsonOfChars).toArray),
    ("id", match id with | some n => toJson n | none => Json.null)])]

def outOwner : Except ParseErr Owner → Json
  | .ok r => okJson [r.owner] none | .error e => errJson e
def outStudy : Except ParseErr Study → Json
  | .ok r => okJson [r.owner, r.study] none | .error e => errJson e
def outTrial : Except ParseErr Trial → Json
  | .ok r => okJson [r.owner, r.study] (some r.id) | .error e => errJson e
def outEs : Except ParseErr EsOp → Json
  | .ok r => okJson [r.owner, r.study] (some r.id) | .error e => errJson e
def outSug : Except ParseErr SugOp → Json
  | .ok r => okJson [r.owner, r.study, r.client] (some r.num) | .error e => errJson e

def nameJson {α : Type} (r : Except ParseErr α) (nm : α → List Char) : Json :=
  match r with
  | .ok x => Json.mkObj [("name", jsonOfChars (nm x))]
  | .error e => errJson e

def comps (j : Json) (n : Nat) : Except String (List (List Char)) := do
  let cs ← (← getArr j "c").toList.mapM charsOfJson
  if cs.length != n then throw s!"need {n} components"
  return cs

def handle (j : Json) : Except String Json := do
  let op ← getStr j "op"
  match op with
  | "name" =>
    let kind ← getStr j "kind"
    match kind with
    | "owner" => let cs ← comps j 1; return nameJson (mkOwner cs[0]!) ownerName
    | "study" => let cs ← comps j 2; return nameJson (mkStudy cs[0]! cs[1]!) studyName
    | "trial" => let cs ← comps j 2; return nameJson (mkTrial cs[0]! cs[1]! (← getInt j "id")) trialName
    | "es" => let cs ← comps j 2; return nameJson (mkEsOp cs[0]! cs[1]! (← getInt j "id")) esName
    | "sug" => let cs ← comps j 3; return nameJson (mkSugOp cs[0]! cs[1]! cs[2]! (← getInt j "id")) sugName
    | _ => throw s!"bad kind {kind}"
  | "fromName" =>
    let kind ← getStr j "kind"
    let s ← charsOfJson (← j.getObjVal? "s")
    match kind with
    | "owner" => return outOwner (ownerFromName s)
    | "study" => return outStudy (studyFromName s)
    | "trial" => return outTrial (trialFromName s)
    | "es" => return outEs (esFromName s)
    | "sug" => return outSug (sugFromName s)
    | _ => throw s!"bad kind {kind}"
  | "pyInt" =>
    let s ← charsOfJson (← j.getObjVal? "s")
    return Json.mkObj [("v", match pyInt s with | some v => toJson v | none => Json.null),
      ("wf", toJson (wellFormedInt s)), ("value", toJson (value s)), ("canonical", toJson (isCanonical s))]
  | "trialResource" =>
    let cs ← comps j 2
    let s ← charsOfJson (← j.getObjVal? "s")
    return outTrial (trialResource ⟨cs[0]!, cs[1]!⟩ s)
  | "digits" =>
    return Json.mkObj [("s", jsonOfChars (digits (← getNat j "n")))]
  | _ => throw s!"unknown op {op}"

def main : IO Unit := serve handle
