import VizierModel.Driver.SpaceJson
import VizierModel.Model.SpaceSpec
open Lean VizierModel.Driver VizierModel.Space

def chooseOfJson (j : Json) : Except String (PC → Option PVal) := do
  let a ← fromJson? (α := Array Json) j
  let tbl ← a.toList.mapM fun e => do
    match e with
    | .arr #[n, .null] => pure ((← fromJson? (α := String) n), (none : Option PVal))
    | .arr #[n, v] => pure ((← fromJson? (α := String) n), some (← pvalOfJson v))
    | _ => throw "bad choice entry"
  return fun p => match tbl.find? (fun e => e.1 == p.name) with
    | some (_, v) => v
    | none => none

def pcsOfJson (j : Json) (k : String) : Except String (List PC) := do
  (← getArr j k).toList.mapM pcOfJson

def handle (j : Json) : Except String Json := do
  let op ← getStr j "op"
  let cfg := cfgOfJson j
  match op with
  | "build" =>
    -- one builder call (with children) -> normalised config or error class
    return jsonOfResult jsonOfPC (← buildNode cfg (← j.getObjVal? "node"))
  | "space" =>
    -- a sequence of builder calls on the root of one space
    let mut ss : List PC := []
    for nj in (← getArr j "nodes").toList do
      match ← buildNode cfg nj with
      | .error e => return Json.mkObj [("err", Json.str (stringOfErr e))]
      | .ok p => match spaceAdd ss p with
        | .error e => return Json.mkObj [("err", Json.str (stringOfErr e))]
        | .ok ss' => ss := ss'
    return Json.mkObj [("ok", Json.arr (ss.map jsonOfPC).toArray)]
  | "contains" =>
    -- model verdict and specification verdict on configs dumped from the real objects
    let ss ← pcsOfJson j "pcs"
    let a ← assignOfJson (← j.getObjVal? "assign")
    return Json.mkObj [
      ("model", jsonOfResult (fun b => Json.bool b) (contains cfg ss a)),
      ("spec", Json.bool (memberSpec ss a)),
      ("wf", Json.bool (ss.all fun p => p.h.wf)),
      ("conditional", Json.bool (isConditional ss))]
  | "pccontains" =>
    let p ← pcOfJson (← j.getObjVal? "pc")
    let v ← pvalOfJson (← j.getObjVal? "v")
    return Json.mkObj [
      ("model", jsonOfResult (fun b => Json.bool b) (pcContains cfg p.h v)),
      ("spec", Json.bool (typeOK p.h v && inDomain p.h v))]
  | "normalised" =>
    let p ← pcOfJson (← j.getObjVal? "pc")
    let bad := (allOf p).filterMap fun q => (notNormalised q.h).map fun w => w
    return Json.mkObj [("normalised", Json.bool bad.isEmpty), ("why", Json.str (bad.head?.getD ""))]
  | "walk" =>
    let ss ← pcsOfJson j "pcs"
    let bfs ← getBool j "bfs"
    let choose ← chooseOfJson (← j.getObjVal? "choice")
    let res := walk cfg bfs choose (sizeSpace ss) ss
    return Json.mkObj [
      ("model", jsonOfResult (fun l => toJson (l.map PC.name).toArray) res),
      ("active", toJson ((activeSpace choose ss).map PC.name).toArray),
      -- hypotheses of c16_builder_visits_active that can be decided on the tree itself
      ("uniqueNames", Json.bool (decide ((names (allSpace ss)).Nodup))),
      ("nodeOK", Json.bool ((allSpace ss).all nodeOK))]
  | _ => throw s!"unknown op {op}"

def main : IO Unit := serve handle
