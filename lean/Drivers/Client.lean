import VizierModel.Driver.SvcJson
import VizierModel.Model.ClientSpec
open Lean VizierModel VizierModel.Svc VizierModel.Client VizierModel.Driver VizierModel.Driver.SvcJson

/-! Line driver of the client-layer model (same protocol and codecs as `Drivers/Svc.lean`).

{"op":"run","cfg":{..},"fuel":n,"handle":{"owner","sid","cid"},"calls":[call..],"snaps":bool}
   -> {"obs":[..],"reqs":[[request kinds of call i]..],"snaps":[DB..],"final":DB}
{"op":"judge","before":DB,"after":DB,"handle":..,"call":..,"obs":..,"getops":n,"bound":n,
 "viewBefore":[trial..]|null,"viewAfter":[trial..]|null}
   -> verdicts of the predicates of `Model/ClientSpec.lean` on an observed step of the REAL client -/

def handleOfJson (j : Json) : Except String Handle := do
  return { owner := ← getStr j "owner", sid := ← getStr j "sid", cid := ← getStr j "cid" }

def cstateOf : String → Except String CState
  | "ACTIVE" => pure .active | "ABORTED" => pure .aborted | "COMPLETED" => pure .completed
  | s => throw s!"bad client study state {s}"

def cstateStr : CState → String
  | .active => "ACTIVE" | .aborted => "ABORTED" | .completed => "COMPLETED"

def optStr (j : Json) (k : String) : Option String :=
  match j.getObjVal? k with
  | .ok (.str s) => some s
  | _ => none

def optNat (j : Json) (k : String) : Option Nat := (j.getObjValAs? Nat k).toOption

def callOfJson (j : Json) : Except String Call := do
  match ← getStr j "c" with
  | "create" => return .fromStudyConfig ((j.getObjValAs? Nat "spec").toOption.getD 0) (← mdOfJson ((j.getObjVal? "md").toOption.getD (Json.arr #[])))
  | "from_resource_name" => return .fromResourceName (← getStr j "sid")
  | "suggest" => return .suggest (← getNat j "count") (← getStr j "worker") (← algOfJson (← j.getObjVal? "alg"))
  | "get_suggestions" => return .getSuggestions (← getNat j "count") (← algOfJson (← j.getObjVal? "alg"))
  | "request" => return .request (← getNat j "params") (← mdOfJson ((j.getObjVal? "md").toOption.getD (Json.arr #[])))
  | "add_trial" =>
    return .addTrial (← getNat j "params") (← optMeasOfJson ((j.getObjVal? "final").toOption.getD .null))
      ((j.getObjValAs? Bool "inSpace").toOption.getD true)
  | "get_trial" => return .getTrial (← getNat j "id")
  | "materialize" => return .materialize (← getNat j "id")
  | "trials" => return .trials
  | "complete" => return .complete (← getNat j "id") (← optMeasOfJson ((j.getObjVal? "m").toOption.getD .null)) (optStr j "reason")
  | "add_measurement" => return .addMeasurement (← getNat j "id") (← measOfJson (← j.getObjVal? "m"))
  | "check_early_stopping" => return .checkEarlyStopping (← getNat j "id") (← esOfJson (← j.getObjVal? "es"))
  | "stop" => return .stop (← getNat j "id")
  | "delete_trial" => return .deleteTrial (← getNat j "id")
  | "update_metadata" =>
    let kvs ← mdOfJson (← j.getObjVal? "kvs")
    return .updateMetadata (optNat j "id") kvs
  | "set_state" => return .setState (← cstateOf (← getStr j "state"))
  | "materialize_state" => return .materializeState
  | "delete_study" => return .deleteStudy
  | "optimal" => return .optimalTrials
  | c => throw s!"unknown client call {c}"

def cerrStr : CErr → String
  | .resourceNotFound => "ResourceNotFoundError" | .runtimeError => "RuntimeError" | .valueError => "ValueError"
  | .failedPrecondition => "FAILED_PRECONDITION" | .notFound => "NOT_FOUND" | .alreadyExists => "ALREADY_EXISTS"
  | .other => "OTHER"

def cerrOf : String → CErr
  | "ResourceNotFoundError" => .resourceNotFound | "RuntimeError" => .runtimeError | "ValueError" => .valueError
  | "FAILED_PRECONDITION" => .failedPrecondition | "NOT_FOUND" => .notFound | "ALREADY_EXISTS" => .alreadyExists
  | _ => .other

def jsonOfObs : Obs → Json
  | .unit => Json.mkObj [("k", "ok")]
  | .study o s => Json.mkObj [("k", "study"), ("owner", o), ("sid", s)]
  | .handles ids => Json.mkObj [("k", "handles"), ("ids", toJson ids.toArray)]
  | .handle id => Json.mkObj [("k", "handle"), ("id", toJson id)]
  | .trial t => Json.mkObj [("k", "trial"), ("v", jsonOfTrial t)]
  | .trials l => Json.mkObj [("k", "trials"), ("v", toJson (l.map jsonOfTrial).toArray)]
  | .measurement m => Json.mkObj [("k", "measurement"), ("v", match m with | some x => jsonOfMeas x | none => .null)]
  | .flag b => Json.mkObj [("k", "flag"), ("v", toJson b)]
  | .state s => Json.mkObj [("k", "state"), ("v", cstateStr s)]
  | .exc e => Json.mkObj [("k", "exc"), ("cls", cerrStr e)]
  | .pollExhausted => Json.mkObj [("k", "polling")]

def obsOfJson (j : Json) : Except String Obs := do
  match ← getStr j "k" with
  | "ok" => return .unit
  | "study" => return .study (← getStr j "owner") (← getStr j "sid")
  | "handles" => return .handles (← fromJson? (α := Array Nat) (← j.getObjVal? "ids")).toList
  | "handle" => return .handle (← getNat j "id")
  | "trial" => return .trial (← trialOfJson (← j.getObjVal? "v"))
  | "trials" => return .trials (← (← getArr j "v").toList.mapM trialOfJson)
  | "measurement" => return .measurement (← optMeasOfJson ((j.getObjVal? "v").toOption.getD .null))
  | "flag" => return .flag (← getBool j "v")
  | "state" => return .state (← cstateOf (← getStr j "v"))
  | "exc" => return .exc (cerrOf (← getStr j "cls"))
  | "polling" => return .pollExhausted
  | k => throw s!"unknown observation {k}"

def reqKind : Req → String
  | .createStudy .. => "CreateStudy" | .getStudy .. => "GetStudy" | .listStudies .. => "ListStudies"
  | .deleteStudy .. => "DeleteStudy" | .setStudyState .. => "SetStudyState" | .createTrial .. => "CreateTrial"
  | .suggest .. => "SuggestTrials" | .getOperation .. => "GetOperation" | .getTrial .. => "GetTrial"
  | .listTrials .. => "ListTrials" | .addMeasurement .. => "AddTrialMeasurement" | .complete .. => "CompleteTrial"
  | .stop .. => "StopTrial" | .deleteTrial .. => "DeleteTrial" | .checkEarlyStop .. => "CheckTrialEarlyStoppingState"
  | .updateMetadata .. => "UpdateMetadata" | .listOptimal .. => "ListOptimalTrials"

/-- the client id a SuggestTrials request carries (what the service is told about who asks) -/
def reqClient : Req → Json
  | .suggest _ _ c _ _ => Json.str c
  | _ => .null

def runProgram (j : Json) : Except String Json := do
  let cfg := cfgOfJson ((j.getObjVal? "cfg").toOption.getD (Json.mkObj []))
  let fuel := (j.getObjValAs? Nat "fuel").toOption.getD 5
  let h ← handleOfJson (← j.getObjVal? "handle")
  let calls ← (← getArr j "calls").toList.mapM callOfJson
  let wantSnaps := (j.getObjValAs? Bool "snaps").toOption.getD false
  let mut db := DB.empty
  let mut obs : Array Json := #[]
  let mut reqs : Array Json := #[]
  let mut snaps : Array Json := #[]
  for c in calls do
    let o := clientExec cfg fuel h c db
    db := o.db
    obs := obs.push (jsonOfObs o.obs)
    reqs := reqs.push (toJson (o.reqs.map fun r => Json.arr #[Json.str (reqKind r), reqClient r]).toArray)
    if wantSnaps then snaps := snaps.push (jsonOfDB db)
  return Json.mkObj [("obs", toJson obs), ("reqs", toJson reqs), ("snaps", toJson snaps), ("final", jsonOfDB db)]

def optTrials (j : Json) (k : String) : Except String (Option (List Trial)) :=
  match j.getObjVal? k with
  | .ok (.arr a) => do let l ← a.toList.mapM trialOfJson; pure (some l)
  | _ => pure none

/-- verdicts of all predicates on ONE observed step -/
def judgeStep (before after : DB) (h : Handle) (call : Call) (obs : Obs) (getops bound : Nat)
    (viewBefore viewAfter : Option (List Trial)) : Json :=
  let sug : Option (Nat × String × AlgOutcome) := match call with
    | .suggest count w alg => some (count, w, alg)
    | .getSuggestions count alg => some (count, h.cid, alg)
    | _ => none
  let infeasible := match call with | .complete id _ reason => infeasibleOK before after h id reason | _ => true
  let assigned := match sug with | some (_, w, _) => assignedOK after h w obs | none => true
  let reported := match sug with | some (count, w, alg) => failureReportedOK before h w count alg obs | none => true
  let poll := match sug with | some _ => decide (getops ≤ bound) && !stillPolling obs | none => true
  let views := match viewBefore, viewAfter with | some a, some b => viewsOK a b | _, _ => true
  let completable' := match call with | .complete id _ _ => completable before h id | _ => false
  let needs := match sug with | some (count, w, _) => needsAlgorithm before h w count | none => false
  let nothing := match call with | .complete id m none => nothingToSelect before h id m | _ => false
  Json.mkObj [("lifecycle", toJson (lifecycleOK before after)), ("infeasible", toJson infeasible),
    ("promised", toJson (promisedOK before h call obs)), ("valueError", toJson (valueErrorOK before h call obs)),
    ("earlyStop", toJson (earlyStopOK after h call obs)), ("nothingToSelect", toJson nothing),
    ("effects", toJson (effectsOK before after h call obs)),
    ("assigned", toJson assigned), ("reported", toJson reported), ("poll", toJson poll), ("views", toJson views),
    ("completable", toJson completable'), ("needsAlgorithm", toJson needs)]

def judge (j : Json) : Except String Json := do
  let before ← dbOfJson (← j.getObjVal? "before")
  let after ← dbOfJson (← j.getObjVal? "after")
  let h ← handleOfJson (← j.getObjVal? "handle")
  let call ← callOfJson (← j.getObjVal? "call")
  let obs ← obsOfJson (← j.getObjVal? "obs")
  let getops := (j.getObjValAs? Nat "getops").toOption.getD 0
  let bound := (j.getObjValAs? Nat "bound").toOption.getD 0
  return judgeStep before after h call obs getops bound (← optTrials j "viewBefore") (← optTrials j "viewAfter")

/-- {"op":"judgeProgram","handle":..,"bound":n,"calls":[..],"obs":[..],"snaps":[DB..],"getops":[n..],"views":[[trial..]|null..]}
    -> {"verdicts":[..]}: every step judged against the snapshot / view of the step before (the empty service first) -/
def judgeProgram (j : Json) : Except String Json := do
  let h ← handleOfJson (← j.getObjVal? "handle")
  let bound := (j.getObjValAs? Nat "bound").toOption.getD 0
  let calls ← (← getArr j "calls").toList.mapM callOfJson
  let obs ← (← getArr j "obs").toList.mapM obsOfJson
  let snaps ← (← getArr j "snaps").toList.mapM dbOfJson
  let getops ← fromJson? (α := Array Nat) (← j.getObjVal? "getops")
  let views ← (← getArr j "views").toList.mapM fun v =>
    match v with
    | .arr a => do let l ← a.toList.mapM trialOfJson; pure (some l)
    | _ => pure (none : Option (List Trial))
  let mut prev := DB.empty
  let mut prevView : Option (List Trial) := none
  let mut out : Array Json := #[]
  let mut i := 0
  for c in calls do
    match obs[i]?, snaps[i]? with
    | some o, some after =>
      let view := (views[i]?).getD none
      out := out.push (judgeStep prev after h c o (getops[i]?.getD 0) bound prevView view)
      prev := after
      prevView := view
    | _, _ => throw "judgeProgram: calls / obs / snaps of different lengths"
    i := i + 1
  return Json.mkObj [("verdicts", toJson out)]

def handle (j : Json) : Except String Json := do
  match ← getStr j "op" with
  | "run" => runProgram j
  | "judge" => judge j
  | "judgeProgram" => judgeProgram j
  | op => throw s!"unknown op {op}"

def main : IO Unit := serve handle
