import VizierModel.Driver.Util
import VizierModel.Driver.CodecJson
import VizierModel.Model.FeatureMapper
open Lean VizierModel.Driver VizierModel VizierModel.Codec VizierModel.Driver.CodecJson

/-- one (space, converter configuration) case: encode the points, decode the arrays and judge
assignments with `inSpace` -/
def handleCodec (j : Json) : Except String Json := do
  let f32 ← getBool j "f32"
  let ops := floatOps f32 f32
  let cfg ← cfgOfJson (← j.getObjVal? "cfg")
  let ps ← (← getArr j "params").toList.mapM paramOfJson
  let points := (j.getObjValAs? (Array Json) "points").toOption.getD #[]
  let arrays := (j.getObjValAs? (Array Json) "arrays").toOption.getD #[]
  let assigns := (j.getObjValAs? (Array Json) "assigns").toOption.getD #[]
  let mut enc : Array Json := #[]
  for pt in points do
    let a ← assignOfJson pt
    enc := enc.push (match encode ops cfg ps a with
      | .ok fs => Json.mkObj [("ok", toJson (fs.map jsonOfFeat).toArray)]
      | .error e => Json.mkObj [("err", Json.str e)])
  -- per array: is it a float32 array (arithmetic in float32)?  default: the converter's dtype
  let a32 := (j.getObjValAs? (Array Bool) "arith32").toOption.getD #[]
  let mut dec : Array Json := #[]
  for ar in arrays, k in [0:arrays.size] do
    let fs ← (← fromJson? (α := Array Json) ar).toList.mapM featOfJson
    let ops := floatOps f32 (a32.getD k f32)
    dec := dec.push (match decode ops cfg ps fs with
      | .ok a => Json.mkObj [("ok", jsonOfAssign a), ("in", toJson (inSpace ops ps a))]
      | .error e => Json.mkObj [("err", Json.str e)])
  let mut ins : Array Json := #[]
  for asg in assigns do
    let a ← assignOfJson asg
    ins := ins.push (toJson (inSpace (floatOps false false) ps a))
  let widths := ps.map (fun p => blockWidth ops cfg p)
  return Json.mkObj [("enc", toJson enc), ("dec", toJson dec), ("ins", toJson ins), ("widths", toJson widths.toArray)]

def handleLabels (j : Json) : Except String Json := do
  let f32 ← getBool j "f32"
  let ops := floatOps f32 f32
  let flip ← getBool j "flip"
  let shift ← match j.getObjVal? "shift" with
    | .ok (.str s) => do pure (some (← floatOfHex s))
    | _ => pure none
  let mc : MetricCfg Float := { flip := flip, shift := shift }
  let xs ← (← getArr j "xs").toList.mapM (fun x => do floatOfHex (← fromJson? (α := String) x))
  let conv := xs.map (fun x => convertLabel ops mc (ops.cast x))
  let back := conv.map (toMetric ops mc)
  return Json.mkObj [("conv", toJson (conv.map hexOfFloat).toArray), ("back", toJson (back.map hexOfFloat).toArray)]

/-- {"op":"fmap","specs":[0 | n>0 …],"rows":[[cell…]]}: cell = string (continuous value, opaque) or
    list of 0/1 (one-hot block).  Per row: the mapped value and the row rebuilt from it. -/
def handleFmap (j : Json) : Except String Json := do
  let specNums ← fromJson? (α := Array Nat) (← j.getObjVal? "specs")
  let specs : List FeatureMapper.Spec := specNums.toList.map fun n => if n == 0 then .cont else .onehot n
  let rows ← getArr j "rows"
  let mut out : Array Json := #[]
  for r in rows do
    let cells ← (← fromJson? (α := Array Json) r).toList.mapM fun (cj : Json) => do
      match cj with
      | .str v => pure (FeatureMapper.Cell.c v)
      | _ => do
        let bits ← fromJson? (α := Array Nat) cj
        pure (FeatureMapper.Cell.block (bits.toList.map (· != 0)))
    let m := FeatureMapper.mapRow cells
    let back := FeatureMapper.unmapRow specs m
    let cellJson : FeatureMapper.Cell String → Json
      | .c v => Json.str v
      | .block bits => toJson (bits.map fun b => if b then (1 : Nat) else 0).toArray
    out := out.push (Json.mkObj [("cont", toJson m.cont.toArray), ("cat", toJson m.cat.toArray),
      ("back", match back with | some row => toJson (row.map cellJson).toArray | none => Json.null)])
  return Json.mkObj [("rows", toJson out)]

def handle (j : Json) : Except String Json := do
  let op ← getStr j "op"
  match op with
  | "codec" => handleCodec j
  | "labels" => handleLabels j
  | "fmap" => handleFmap j
  | _ => throw s!"unknown op {op}"

def main : IO Unit := serve handle
