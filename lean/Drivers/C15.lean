import VizierModel.Driver.Util
import VizierModel.Driver.CodecJson
open Lean VizierModel.Driver VizierModel VizierModel.Codec VizierModel.Driver.CodecJson

/-- one (space, converter configuration) case: encode the points, decode the arrays and judge
assignments with `inSpace` -/
def handleCodec (j : Json) : Except String Json := do
  let f32 ← getBool j "f32"
  let ops := floatOps f32 f32
  let cfg ← cfgOfJson (← j.getObjVal? "cfg")
  let ps ← (← getArr j "params").toList.mapM paramOfJson
  let points := (j.getObjValAs? (Array Json) "points").toOption.getD #[]
  let arrays := (j.getObjValAs? (Array Json) "arrays").toOption.getD #[]
  let assigns := (j.getObjValAs? (Array Json) "assigns").toOption.getD #[]
  let mut enc : Array Json := #[]
  for pt in points do
    let a ← assignOfJson pt
    enc := enc.push (match encode ops cfg ps a with
      | .ok fs => Json.mkObj [("ok", toJson (fs.map jsonOfFeat).toArray)]
      | .error e => Json.mkObj [("err", Json.str e)])
  -- per array: is it a float32 array (arithmetic in float32)?  default: the converter's dtype
  let a32 := (j.getObjValAs? (Array Bool) "arith32").toOption.getD #[]
  let mut dec : Array Json := #[]
  for ar in arrays, k in [0:arrays.size] do
    let fs ← (← fromJson? (α := Array Json) ar).toList.mapM featOfJson
    let ops := floatOps f32 (a32.getD k f32)
    dec := dec.push (match decode ops cfg ps fs with
      | .ok a => Json.mkObj [("ok", jsonOfAssign a), ("in", toJson (inSpace ops ps a))]
      | .error e => Json.mkObj [("err", Json.str e)])
  let mut ins : Array Json := #[]
  for asg in assigns do
    let a ← assignOfJson asg
    ins := ins.push (toJson (inSpace (floatOps false false) ps a))
  let widths := ps.map (fun p => blockWidth ops cfg p)
  return Json.mkObj [("enc", toJson enc), ("dec", toJson dec), ("ins", toJson ins), ("widths", toJson widths.toArray)]

def handleLabels (j : Json) : Except String Json := do
  let f32 ← getBool j "f32"
  let ops := floatOps f32 f32
  let flip ← getBool j "flip"
  let shift ← match j.getObjVal? "shift" with
    | .ok (.str s) => do pure (some (← floatOfHex s))
    | _ => pure none
  let mc : MetricCfg Float := { flip := flip, shift := shift }
  let xs ← (← getArr j "xs").toList.mapM (fun x => do floatOfHex (← fromJson? (α := String) x))
  let conv := xs.map (fun x => convertLabel ops mc (ops.cast x))
  let back := conv.map (toMetric ops mc)
  return Json.mkObj [("conv", toJson (conv.map hexOfFloat).toArray), ("back", toJson (back.map hexOfFloat).toArray)]

def handle (j : Json) : Except String Json := do
  let op ← getStr j "op"
  match op with
  | "codec" => handleCodec j
  | "labels" => handleLabels j
  | _ => throw s!"unknown op {op}"

def main : IO Unit := serve handle
