import VizierModel.Driver.Util
import VizierModel.Model.Pareto
import VizierModel.Model.ParetoService
open Lean VizierModel.Driver VizierModel.Pareto

/-! Driver for C11.  Coordinates travel as integers (the harness sends an order
embedding of the floats: small integers, ±inf as ±10^9), NaN as `null`. -/

def ltI (a b : Int) : Bool := decide (a < b)
def cI : Cmp Int := Cmp.ofLt ltI
def big : Int := 1000000000
def oI : OrderOps Int := { cmp := cI, neg := fun a => -a, top := big, bot := -big }

def rowsOfJson (j : Json) : Except String (List (List Int)) := do
  let a ← fromJson? (α := Array (Array Int)) j
  return a.toList.map (·.toList)

def boolsJson (l : List Bool) : Json := toJson l.toArray
def optBoolsJson : Option (List Bool) → Json
  | none => Json.null
  | some l => boolsJson l

def natsOfJson (j : Json) : Except String (List Nat) := do
  let a ← fromJson? (α := Array Nat) j
  return a.toList

def valOfJson (j : Json) : Except String (Val Int) :=
  match j with
  | .null => pure .nan
  | _ => do let n ← fromJson? (α := Int) j; pure (.num n)

def goalOfJson (j : Json) : Except String Goal := do
  let s ← fromJson? (α := String) j
  if s == "MAXIMIZE" then pure .maximize else if s == "MINIMIZE" then pure .minimize else throw s!"goal {s}"

def stateOfString (s : String) : Except String TState :=
  match s with
  | "REQUESTED" => pure .requested
  | "ACTIVE" => pure .active
  | "STOPPING" => pure .stopping
  | "SUCCEEDED" => pure .succeeded
  | "INFEASIBLE" => pure .infeasible
  | _ => throw s!"state {s}"

def metricsOfJson (j : Json) : Except String (List (String × Val Int)) := do
  let a ← fromJson? (α := Array Json) j
  a.toList.mapM fun e => do
    let p ← fromJson? (α := Array Json) e
    if p.size != 2 then throw "metric: need [id, value]"
    let k ← fromJson? (α := String) p[0]!
    let v ← valOfJson p[1]!
    pure (k, v)

def specOfJson (j : Json) : Except String (List (String × Goal)) := do
  let a ← fromJson? (α := Array Json) j
  a.toList.mapM fun e => do
    let p ← fromJson? (α := Array Json) e
    if p.size != 2 then throw "spec: need [id, goal]"
    pure ((← fromJson? (α := String) p[0]!), (← goalOfJson p[1]!))

def safetyOfJson (j : Json) : Except String (List (String × Goal × Int)) := do
  let a ← fromJson? (α := Array Json) j
  a.toList.mapM fun e => do
    let p ← fromJson? (α := Array Json) e
    if p.size != 3 then throw "safety: need [id, goal, threshold]"
    pure ((← fromJson? (α := String) p[0]!), (← goalOfJson p[1]!), (← fromJson? (α := Int) p[2]!))

def strialOfJson (j : Json) : Except String (STrial String Int) := do
  let id ← getNat j "id"
  let st ← stateOfString (← getStr j "state")
  let fm ← metricsOfJson (← j.getObjVal? "final")
  pure { id := id, state := st, final := fm }

def ptrialOfJson (j : Json) : Except String (PTrial String Int) := do
  let id ← getNat j "id"
  let inf ← getBool j "infeasible"
  let f ← j.getObjVal? "final"
  let fm ← match f with
    | .null => pure none
    | _ => do pure (some (← metricsOfJson f))
  pure { id := id, infeasible := inf, final := fm }

def handle (j : Json) : Except String Json := do
  let op ← getStr j "op"
  match op with
  | "pareto" =>
    let ps ← rowsOfJson (← j.getObjVal? "pts")
    let thrs ← natsOfJson (← j.getObjVal? "thrs")
    let shards ← natsOfJson (← j.getObjVal? "shards")
    return Json.mkObj [
      ("front", boolsJson (front cI ps)),
      ("naive", boolsJson (naive cI ps)),
      ("jaxRank", toJson (jaxRank cI ps).toArray),
      ("nsgaRank", toJson (nsgaRank cI ps).toArray),
      ("sharded", toJson (shards.map fun k => boolsJson (isFrontier cI k ps)).toArray),
      ("shardIdx", toJson (shards.map fun k => toJson (shardIdx k ps.length).toArray).toArray),
      ("fast", toJson (thrs.map fun t => optBoolsJson (fastTop cI (argsortStable cI) false t ps)).toArray),
      ("fastClean", toJson (thrs.map fun t => optBoolsJson (fastTop cI (argsortStable cI) true t ps)).toArray)]
  | "against" =>
    let ps ← rowsOfJson (← j.getObjVal? "pts")
    let ag ← rowsOfJson (← j.getObjVal? "ag")
    let strict ← getBool j "strict"
    let thrs ← natsOfJson (← j.getObjVal? "thrs")
    return Json.mkObj [
      ("def", boolsJson (ps.map (isOptAgainst cI ag strict))),
      ("naive", boolsJson (naiveAgainst cI ps ag strict)),
      ("jax", boolsJson (jaxAgainst cI ps ag strict)),
      ("fast", toJson (thrs.map fun t => optBoolsJson (fastAgainstTop cI (argsortStable cI) t ps ag strict)).toArray)]
  | "service" =>
    let spec ← specOfJson (← j.getObjVal? "spec")
    let trials ← (← getArr j "trials").toList.mapM strialOfJson
    let skipNaN ← getBool j "skipNaN"
    return Json.mkObj [
      ("model", toJson ((listOptimal cI (fun a => -a) skipNaN spec trials).map (·.id)).toArray),
      ("def", toJson ((optimalDef cI spec trials).map (·.id)).toArray)]
  | "getbest" =>
    let objs ← specOfJson (← j.getObjVal? "objs")
    let safety ← safetyOfJson (← j.getObjVal? "safety")
    let trials ← (← getArr j "trials").toList.mapM ptrialOfJson
    let count ← match (← j.getObjVal? "count") with
      | .null => pure none
      | c => do pure (some (← fromJson? (α := Nat) c))
    let filt ← getBool j "filterEligible"
    let allTied ← match j.getObjVal? "allTied" with       -- optional, default true
      | .ok v => fromJson? (α := Bool) v
      | .error _ => pure true
    let valJson : Val Int → Json := fun v => match v with | .nan => Json.null | .num n => toJson n
    return Json.mkObj [
      ("model", match getBest oI objs safety filt allTied count trials with
        | none => Json.null
        | some l => toJson (l.map (·.id)).toArray),
      ("labels", toJson ((trials.map (labelRow oI objs safety)).map fun r => toJson (r.map valJson).toArray).toArray),
      ("eligible", toJson ((trials.filter (eligibleP objs)).map (·.id)).toArray),
      ("def", toJson ((bestDef oI objs safety trials).map (·.id)).toArray)]
  | _ => throw s!"unknown op {op}"

def main : IO Unit := serve handle
