import VizierModel.Driver.SvcJson
open Lean VizierModel VizierModel.Svc VizierModel.Driver VizierModel.Driver.SvcJson

/-- {"op":"run","cfg":{..},"reqs":[..],"snaps":bool} -> responses, final snapshot, optional per-step snapshots -/
def runHistory (j : Json) : Except String Json := do
  let cfg := cfgOfJson ((j.getObjVal? "cfg").toOption.getD (Json.mkObj []))
  let reqs ← (← getArr j "reqs").toList.mapM reqOfJson
  let wantSnaps := (j.getObjValAs? Bool "snaps").toOption.getD false
  let mut db := DB.empty
  let mut resps : Array Json := #[]
  let mut snaps : Array Json := #[]
  for r in reqs do
    let (resp, db') := step cfg db r
    db := db'
    resps := resps.push (jsonOfResp resp)
    if wantSnaps then snaps := snaps.push (jsonOfDB db)
  return Json.mkObj [("resps", toJson resps), ("final", jsonOfDB db), ("snaps", toJson snaps)]

def handle (j : Json) : Except String Json := do
  match ← getStr j "op" with
  | "run" => runHistory j
  | op => throw s!"unknown op {op}"

def main : IO Unit := serve handle
