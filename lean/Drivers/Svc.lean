import VizierModel.Driver.SvcJson
import VizierModel.Model.ServiceInv
import VizierModel.Model.Crash
open Lean VizierModel VizierModel.Svc VizierModel.Driver VizierModel.Driver.SvcJson

/-- {"op":"run","cfg":{..},"reqs":[..],"snaps":bool} -> responses, final snapshot, optional per-step snapshots -/
def runHistory (j : Json) : Except String Json := do
  let cfg := cfgOfJson ((j.getObjVal? "cfg").toOption.getD (Json.mkObj []))
  let reqs ← (← getArr j "reqs").toList.mapM reqOfJson
  let wantSnaps := (j.getObjValAs? Bool "snaps").toOption.getD false
  let mut db := DB.empty
  let mut resps : Array Json := #[]
  let mut snaps : Array Json := #[]
  for r in reqs do
    let (resp, db') := step cfg db r
    db := db'
    resps := resps.push (jsonOfResp resp)
    if wantSnaps then snaps := snaps.push (jsonOfDB db)
  return Json.mkObj [("resps", toJson resps), ("final", jsonOfDB db), ("snaps", toJson snaps)]

def findKey (db : DB) (k : String × String) : Option Study := db.studies.find? (fun s => keyOf' s == k)
  where keyOf' (s : Study) : String × String := (s.owner, s.sid)

/-- judge one observed step of the REAL service with the predicates of `Model/ServiceInv.lean`:
    {"op":"judge","before":DB,"after":DB,"req":Req?,"handed":[Trial]} -/
def judge (j : Json) : Except String Json := do
  let before ← dbOfJson (← j.getObjVal? "before")
  let after ← dbOfJson (← j.getObjVal? "after")
  let mut lifecycle := true
  let mut fresh := true
  let mut nodup := true
  let mut clients := true
  let mut pendingFree := true
  let mut noActiveEs := true
  let mut bad : Array Json := #[]
  for st' in after.studies do
    if !idsNodup st'.trials then nodup := false; bad := bad.push (Json.str s!"duplicate trial ids in {st'.sid}")
    if !clientsOK st'.trials then clients := false
    if !allOpsDone st' then pendingFree := false
    if !noActiveEsOp st' then noActiveEs := false
    match before.studies.find? (fun s => s.owner == st'.owner && s.sid == st'.sid) with
    | none => pure ()
    | some st =>
      if !trialsStepOK st.trials st'.trials then
        lifecycle := false
        for t in st.trials do
          for t' in st'.trials do
            if t.id == t'.id && !trialStepOK t t' then
              bad := bad.push (Json.mkObj [("trial", toJson t.id), ("before", jsonOfTrial t), ("after", jsonOfTrial t')])
      if !freshIdsOK st.trials st'.trials then fresh := false
  -- suggest-specific predicates (C02)
  let mut handedOK := true
  let mut countOK := true
  let mut surplusOK := true
  let mut expected : Json := .null
  match j.getObjVal? "req" with
  | .ok rq =>
    if (rq.getObjValAs? String "op").toOption == some "suggest" then
      let handed ← (← getArr j "handed").toList.mapM trialOfJson
      let client ← getStr rq "client"
      let count ← getNat rq "count"
      let o := (rq.getObjValAs? String "owner").toOption.getD "o"
      let s := (rq.getObjValAs? String "sid").toOption.getD "s"
      handedOK := handed.all fun t => t.state == .active && t.client == client
      -- … and that is what is STORED: the record of every handed trial is ACTIVE for this worker
      match after.studies.find? (fun x => x.owner == o && x.sid == s) with
      | none => if !handed.isEmpty then handedOK := false
      | some st' =>
        if !(handed.all fun t => st'.trials.any fun u => u.id == t.id && u.state == .active && u.client == client) then
          handedOK := false
      match before.studies.find? (fun x => x.owner == o && x.sid == s) with
      | none => pure ()
      | some st =>
        let own := (ownActive st client).length
        let pl := (pool st).length
        let alg := (rq.getObjVal? "alg").toOption.getD .null
        let delivered := match alg.getObjValAs? (Array Json) "sugg" with | .ok a => a.size | .error _ => 0
        let want := min count (own + pl + delivered)
        expected := toJson want
        if (j.getObjValAs? Bool "countApplies").toOption.getD false then
          countOK := handed.length == want
        -- nothing the algorithm delivered is dropped, nothing is invented (c02_surplus_queued): the trials
        -- that are NEW after the call are exactly the delivered suggestions when the algorithm had to be
        -- consulted (own + queued < count) and none otherwise; those not handed out wait as REQUESTED
        if (j.getObjValAs? Bool "countApplies").toOption.getD false then
          match after.studies.find? (fun x => x.owner == o && x.sid == s) with
          | none => surplusOK := false
          | some st' =>
            let fresh' := st'.trials.filter fun t => !(st.trials.any fun u => u.id == t.id)
            let consulted := own + pl < count
            if fresh'.length != (if consulted then delivered else 0) then surplusOK := false
            if !(fresh'.all fun t => (handed.any fun h => h.id == t.id) || (t.state == .requested && t.client == "")) then
              surplusOK := false
        -- sticky: enough own trials -> exactly the first `count` of them, in datastore order
        if own ≥ count && (j.getObjValAs? Bool "countApplies").toOption.getD false then
          if handed.map (·.id) != ((ownActive st client).take count).map (·.id) then countOK := false
  | .error _ => pure ()
  -- the documented error table (c01_error_table) on the state BEFORE the call
  let spec : Json := match j.getObjVal? "req" with
    | .ok rq => match reqOfJson rq with
      | .ok r => match specError before r with
        | some (c, v) => toJson #[codeStr c, (match v with | .handled => "handled" | .raw => "raw")]
        | none => .null
      | .error _ => .null
    | .error _ => .null
  return Json.mkObj [("specError", spec), ("lifecycle", toJson lifecycle), ("fresh", toJson fresh), ("nodup", toJson nodup),
    ("clients", toJson clients), ("pendingFree", toJson pendingFree), ("noActiveEs", toJson noActiveEs),
    ("handedOK", toJson handedOK), ("countOK", toJson countOK), ("surplusOK", toJson surplusOK), ("expectedCount", expected), ("bad", toJson bad)]
  where
    ownActive (st : Study) (client : String) : List Trial := st.trials.filter fun t => t.state == .active && t.client == client
    pool (st : Study) : List Trial := st.trials.filter (·.state == .requested)

/-- {"op":"crash","cfg":..,"prefix":[reqs],"req":req} -> the states a restarted server may find -/
def crash (j : Json) : Except String Json := do
  let cfg := cfgOfJson ((j.getObjVal? "cfg").toOption.getD (Json.mkObj []))
  let pre ← (← getArr j "prefix").toList.mapM reqOfJson
  let rq ← reqOfJson (← j.getObjVal? "req")
  let db := run cfg DB.empty pre
  let states := crashStates cfg db rq
  let (resp, after) := step cfg db rq
  return Json.mkObj [("states", toJson (states.map jsonOfDB).toArray), ("before", jsonOfDB db),
    ("after", jsonOfDB after), ("resp", jsonOfResp resp)]

def handle (j : Json) : Except String Json := do
  match ← getStr j "op" with
  | "run" => runHistory j
  | "judge" => judge j
  | "crash" => crash j
  | op => throw s!"unknown op {op}"

def main : IO Unit := serve handle
