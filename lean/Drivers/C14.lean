import VizierModel.Driver.Util
import VizierModel.Model.Provenance
open Lean VizierModel.Driver VizierModel.Prov

/-! Driver for C14: evaluates the model's decidable criteria (`allowed`, `seedUsed`,
`inlineSites`, `chainThreaded`, `compose`) on site tables sent as JSON, and runs the
transparent semantics on two ambients. -/

partial def provOfJson (j : Json) : Except String Prov :=
  match j with
  | .str "seedArg" => pure .seedArg
  | .str "constNone" => pure .constNone
  | .str "const" => pure .const
  | .str "problem" => pure .problem
  | .str "history" => pure .history
  | .str "globalNumpy" => pure .globalNumpy
  | .str "globalPython" => pure .globalPython
  | .str "globalJax" => pure .globalJax
  | .str "clock" => pure .clock
  | .str "pid" => pure .pid
  | .str "entropy" => pure .entropy
  | .str s => throw s!"bad provenance atom {s}"
  | _ => do
    let a ← j.getObjValAs? (Array Json) "derived"
    let ps ← a.toList.mapM provOfJson
    pure (.derived ps)

partial def jsonOfProv : Prov → Json
  | .seedArg => "seedArg" | .constNone => "constNone" | .const => "const"
  | .problem => "problem" | .history => "history" | .globalNumpy => "globalNumpy"
  | .globalPython => "globalPython" | .globalJax => "globalJax" | .clock => "clock"
  | .pid => "pid" | .entropy => "entropy"
  | .derived ps => Json.mkObj [("derived", toJson (ps.map jsonOfProv).toArray)]

def guardOfStr : String → Except String Guard
  | "always" => pure .always | "seedNone" => pure .seedNone
  | "seedSome" => pure .seedSome | "never" => pure .never
  | s => throw s!"bad guard {s}"

def strOfGuard : Guard → String
  | .always => "always" | .seedNone => "seedNone" | .seedSome => "seedSome" | .never => "never"

def kindOfStr : String → Except String Kind
  | "construct" => pure .construct | "draw" => pure .draw
  | "forward" => pure .forward | "read" => pure .read
  | s => throw s!"bad kind {s}"

def strOfKind : Kind → String
  | .construct => "construct" | .draw => "draw" | .forward => "forward" | .read => "read"

def effectOfStr : String → Except String Effect
  | "output" => pure .output | "telemetry" => pure .telemetry
  | s => throw s!"bad effect {s}"

def strOfEffect : Effect → String
  | .output => "output" | .telemetry => "telemetry"

def siteOfJson (j : Json) : Except String Site := do
  return { kind := ← kindOfStr (← getStr j "kind"), api := ← getStr j "api",
           guard := ← guardOfStr (← getStr j "guard"), prov := ← provOfJson (← j.getObjVal? "prov"),
           effect := ← effectOfStr (← getStr j "effect") }

def jsonOfSite (s : Site) : Json :=
  Json.mkObj [("kind", strOfKind s.kind), ("api", s.api), ("guard", strOfGuard s.guard),
    ("prov", jsonOfProv s.prov), ("effect", strOfEffect s.effect)]

partial def jsonOfVal : Val → Json
  | .atom n => toJson n
  | .tup vs => toJson (vs.map jsonOfVal).toArray

def handle (j : Json) : Except String Json := do
  let op ← getStr j "op"
  match op with
  | "table" =>
    let sites ← (← getArr j "sites").toList.mapM siteOfJson
    let a1 : Ambient := ⟨0, 0, 0, 0, 0, 0⟩
    let a2 : Ambient := ⟨1, 1, 1, 1, 1, 1⟩
    let i : Inputs := ⟨some (.atom 7), .atom 100, .atom 200⟩
    let i' : Inputs := ⟨some (.atom 8), .atom 100, .atom 200⟩
    let r1 := run Interp.transparent sites a1 i
    let r2 := run Interp.transparent sites a2 i
    let r3 := run Interp.transparent sites a1 i'
    return Json.mkObj [("allowed", toJson (sites.map allowed).toArray),
      ("allAllowed", toJson (sites.all allowed)), ("seedUsed", toJson (seedUsed sites)),
      ("sameAcrossAmbients", toJson ((r1.map jsonOfVal) == (r2.map jsonOfVal))),
      ("differsAcrossSeeds", toJson ((r1.map jsonOfVal) != (r3.map jsonOfVal)))]
  | "inline" =>
    let sites ← (← getArr j "sites").toList.mapM siteOfJson
    let g ← guardOfStr (← getStr j "guard")
    let q ← provOfJson (← j.getObjVal? "prov")
    return Json.mkObj [("sites", toJson ((inlineSites g q sites).map jsonOfSite).toArray)]
  | "chain" =>
    let ls ← (← getArr j "links").toList.mapM fun l => do
      return ({ caller := ← getStr l "caller", callee := ← getStr l "callee",
                seedProv := ← provOfJson (← l.getObjVal? "prov") } : Link)
    return Json.mkObj [("threaded", toJson (chainThreaded ls)), ("compose", jsonOfProv (compose ls)),
      ("composeMentionsSeed", toJson (compose ls).mentionsSeed)]
  | _ => throw s!"bad op {op}"

def main : IO Unit := serve handle
