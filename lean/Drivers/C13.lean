import VizierModel.Driver.Util
import VizierModel.Model.Restart
open Lean VizierModel.Driver VizierModel VizierModel.Restart

/-- grids travel as `[[name, [value, …]], …]`, values as canonical strings -/
def gridsOfJson (j : Json) : Except String (GridValues String) := do
  let a ← fromJson? (α := Array Json) j
  a.toList.mapM fun g => do
    let pr ← fromJson? (α := Array Json) g
    if pr.size != 2 then throw "grid entry: need [name, values]"
    let n ← fromJson? (α := String) pr[0]!
    let vs ← fromJson? (α := Array String) pr[1]!
    return (n, vs.toList)

def jsonOfPoint (p : List (String × String)) : Json :=
  toJson (p.map fun e => toJson #[e.1, e.2]).toArray

def pointOfJson (j : Json) : Except String (List (String × String)) := do
  let a ← fromJson? (α := Array (Array String)) j
  a.toList.mapM fun e => if e.size != 2 then throw "point entry: need [name, value]" else pure (e[0]!, e[1]!)

def optIntOfJson (j : Json) : Except String (Option Int) :=
  match j with
  | .null => pure none
  | _ => do let n ← fromJson? (α := Int) j; pure (some n)

/-- restart entries: `null` = no restart, `{"k": null | int}` = dump → fresh(k) → load -/
def restartsOfJson {κ : Type} (f : Json → Except String κ) (j : Json) : Except String (List (Option κ)) := do
  let a ← fromJson? (α := Array Json) j
  a.toList.mapM fun r => match r with
    | .null => pure none
    | _ => do let k ← f (← r.getObjVal? "k"); pure (some k)

def stepsOfCounts (cs : List Nat) : List (Step Unit) := cs.map fun n => ((), n)

/-- split into consecutive blocks of `n` (n > 0) -/
partial def blocks {α : Type} (n : Nat) (l : List α) : List (List α) :=
  if l.isEmpty || n == 0 then [] else l.take n :: blocks n (l.drop n)

def handle (j : Json) : Except String Json := do
  let op ← getStr j "op"
  match op with
  | "grid_run" =>
    let base ← gridsOfJson (← j.getObjVal? "base")
    let seed ← optIntOfJson (← j.getObjVal? "seed")
    let shuffled ← match j.getObjVal? "shuffled" with
      | .ok .null => pure base
      | .ok g => gridsOfJson g
      | .error _ => pure base
    let c : GridCfg String := { base := base, shuffle := fun _ _ => shuffled }
    let counts ← fromJson? (α := Array Nat) (← j.getObjVal? "counts")
    let rs ← restartsOfJson optIntOfJson (← j.getObjVal? "restarts")
    let D := gridDesigner Unit c
    let steps := stepsOfCounts counts.toList
    let out := D.runRestart (D.fresh seed) steps rs
    let fin := D.endRestart (D.fresh seed) steps rs
    let md := D.dump fin
    return Json.mkObj [("batches", toJson (out.map fun b => toJson (b.map jsonOfPoint).toArray).toArray),
      ("dump", Json.mkObj [("current_index", toJson md.current),
        ("shuffle_seed", match md.seed with | none => Json.null | some s => toJson s)])]
  | "grid_enum" =>
    let gv ← gridsOfJson (← j.getObjVal? "grids")
    let upto ← match j.getObjVal? "upto" with
      | .ok n => fromJson? (α := Nat) n
      | .error _ => pure (gridSize gv)
    return Json.mkObj [("size", toJson (gridSize gv)),
      ("enum", toJson ((List.range upto).map fun i => jsonOfPoint (pointAt gv i)).toArray)]
  | "each_once" =>
    -- judge REAL observations: every complete block of N suggestions is a permutation of the
    -- grid; an incomplete last block has no repetition and only grid points
    let gv ← gridsOfJson (← j.getObjVal? "grids")
    let obs ← (← getArr j "obs").toList.mapM pointOfJson
    let enum := gridEnum gv
    let n := gridSize gv
    let bs := blocks n obs
    let verdicts := bs.map fun b =>
      if b.length == n then eachOnceB enum b
      else decide b.Nodup && b.all (fun p => enum.contains p)
    return Json.mkObj [("size", toJson n), ("blocks", toJson verdicts.toArray),
      ("ok", toJson (verdicts.all id))]
  | "balanced" =>
    let gv ← gridsOfJson (← j.getObjVal? "grids")
    let bs ← (← getArr j "batches").toList.mapM fun b => do
      let a ← fromJson? (α := Array Json) b
      a.toList.mapM pointOfJson
    let bad := firstUnbalanced (gridEnum gv) [] 0 bs
    return Json.mkObj [("size", toJson (gridSize gv)), ("ok", toJson bad.isNone),
      ("first_bad", match bad with | some i => toJson i | none => Json.null)]
  | "same_order_repeat" =>
    -- the designer-level statement: suggestion number i+N equals suggestion number i
    let gv ← gridsOfJson (← j.getObjVal? "grids")
    let obs ← (← getArr j "obs").toList.mapM pointOfJson
    let n := gridSize gv
    let ok := (List.range (obs.length - n)).all fun i => obs[i]? == obs[i + n]?
    return Json.mkObj [("ok", toJson ok)]
  | "halton_run" =>
    let skip0 ← getNat j "skip0"
    let seed ← getInt j "seed"
    let counts ← fromJson? (α := Array Nat) (← j.getObjVal? "counts")
    let rs ← restartsOfJson (fun x => fromJson? (α := Int) x) (← j.getObjVal? "restarts")
    -- the sequence is abstract: the model answers with (engine seed, index) pairs
    let c : HaltonCfg (Int × Nat) (Int × Nat) := { H := fun s k => (s, k), toSuggestion := id, skip0 := skip0 }
    let D := haltonDesigner Unit c
    let steps := stepsOfCounts counts.toList
    let out := D.runRestart (D.fresh seed) steps rs
    let md := D.dump (D.endRestart (D.fresh seed) steps rs)
    return Json.mkObj [("batches", toJson (out.map fun b => toJson (b.map fun e => toJson (#[toJson e.1, toJson e.2] : Array Json)).toArray).toArray),
      ("dump", Json.mkObj [("skip_points", toJson md.skip), ("seed", toJson md.seed)])]
  | "evo_run" =>
    let dumpsSeen ← getBool j "dumps_seen"
    let fsa ← getNat j "first_survival_after"
    let stepsJ ← fromJson? (α := Array (Array Nat)) (← j.getObjVal? "steps")
    let rsJ ← fromJson? (α := Array Bool) (← j.getObjVal? "restarts")
    let D := evoDesigner dumpsSeen fsa
    -- only the number of completed trials matters for the phase
    let steps : List (Step (List Nat)) := stepsJ.toList.map fun s => (List.replicate (s[0]!) 0, s[1]!)
    let rs : List (Option Unit) := rsJ.toList.map fun b => if b then some () else none
    let out := D.runRestart (D.fresh ()) steps rs
    let fin := D.endRestart (D.fresh ()) steps rs
    let phases := out.map fun b => match b.head? with
      | some (Phase.sampling, _) => "sampling"
      | some (Phase.mutation, _) => "mutation"
      | none => "none"
    return Json.mkObj [("phases", toJson phases.toArray), ("seen", toJson fin.seen)]
  | _ => throw s!"unknown op {op}"

def main : IO Unit := serve handle
