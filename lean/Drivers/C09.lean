import VizierModel.Driver.Util
import VizierModel.Model.WireEndpoint
open Lean VizierModel.Driver VizierModel VizierModel.Wire

/-! JSON line driver for C09.  Strings travel as arrays of code points, rationals as "p/q",
integers as JSON numbers.  Request: {"op": T, "cfg": [readNanos, defaultHasField,
recurseBeforeCopy, infeasibleEndTime], "x": <python-side value>, "back": <optional observed value>}.
Answer: {"proto", "back", "again", "norm", "norm_mback" (normal form of the model's own result),
"norm_back"? (normal form of the observed result), "ok"?}. -/

abbrev E := Except String

def fld (j : Json) (k : String) : E Json := j.getObjVal? k
def optFld (j : Json) (k : String) : Json := (j.getObjVal? k).toOption.getD Json.null

def strOf (j : Json) : E String := do return String.ofList (← charsOfJson j)
def jStr (s : String) : Json := jsonOfChars s.toList
def optOf {α : Type} (f : Json → E α) (j : Json) : E (Option α) :=
  if j.isNull then pure none else some <$> f j
def jOpt {α : Type} (f : α → Json) : Option α → Json
  | none => Json.null
  | some a => f a
def listOf {α : Type} (f : Json → E α) (j : Json) : E (List α) := do
  let a ← j.getArr?
  a.toList.mapM f
def jList {α : Type} (f : α → Json) (l : List α) : Json := Json.arr (l.map f).toArray
def pairOf {α β : Type} (f : Json → E α) (g : Json → E β) (j : Json) : E (α × β) := do
  let a ← j.getArr?
  if a.size != 2 then throw "pair expected"
  return (← f a[0]!, ← g a[1]!)
def jPair {α β : Type} (f : α → Json) (g : β → Json) (p : α × β) : Json := Json.arr #[f p.1, g p.2]

def ratOf (j : Json) : E Rat := do
  let s ← j.getStr?
  match s.splitOn "/" with
  | [a, b] =>
    match a.toInt?, b.toNat? with
    | some n, some d => if d = 0 then throw "zero denominator" else pure (mkRat n d)
    | _, _ => throw s!"bad rational {s}"
  | _ => throw s!"bad rational {s}"
def jRat (q : Rat) : Json := Json.str s!"{q.num}/{q.den}"
def intOf (j : Json) : E Int := j.getInt?
def natOf (j : Json) : E Nat := j.getNat?
def jInt (i : Int) : Json := toJson i
def jNat (n : Nat) : Json := toJson n
def boolOf (j : Json) : E Bool := j.getBool?
def jBool (b : Bool) : Json := toJson b
def tagOf (j : Json) : E String := j.getStr?

def cfgOf (j : Json) : E Cfg := do
  let a ← listOf boolOf j
  match a with
  | [a, b, c, d] => pure ⟨a, b, c, d⟩
  | _ => throw "cfg: four booleans"

/-! ### parameter configs -/

def valOf (j : Json) : E Val := do
  match j.getObjVal? "i", j.getObjVal? "q", j.getObjVal? "s" with
  | .ok v, _, _ => .int <$> intOf v
  | _, .ok v, _ => .num <$> ratOf v
  | _, _, .ok v => .str <$> strOf v
  | _, _, _ => throw "val"
def jVal : Val → Json
  | .int i => Json.mkObj [("i", jInt i)]
  | .num q => Json.mkObj [("q", jRat q)]
  | .str s => Json.mkObj [("s", jStr s)]

def domOf (j : Json) : E Dom := do
  let k ← tagOf (← fld j "k")
  let d := optFld j "d"
  match k with
  | "double" => return .double (← ratOf (← fld j "lo")) (← ratOf (← fld j "hi")) (← optOf ratOf d)
  | "integer" => return .integer (← intOf (← fld j "lo")) (← intOf (← fld j "hi")) (← optOf intOf d)
  | "discrete" => return .discrete (← listOf ratOf (← fld j "vs")) (← optOf ratOf d)
  | "categorical" => return .categorical (← listOf strOf (← fld j "vs")) (← optOf strOf d)
  | _ => throw s!"dom {k}"
def jDom : Dom → Json
  | .double lo hi d => Json.mkObj [("k", "double"), ("lo", jRat lo), ("hi", jRat hi), ("d", jOpt jRat d)]
  | .integer lo hi d => Json.mkObj [("k", "integer"), ("lo", jInt lo), ("hi", jInt hi), ("d", jOpt jInt d)]
  | .discrete vs d => Json.mkObj [("k", "discrete"), ("vs", jList jRat vs), ("d", jOpt jRat d)]
  | .categorical vs d => Json.mkObj [("k", "categorical"), ("vs", jList jStr vs), ("d", jOpt jStr d)]
def jKind : PKind → Json
  | .double lo hi d => Json.mkObj [("k", "double"), ("lo", jRat lo), ("hi", jRat hi), ("d", jOpt jRat d)]
  | .integer lo hi d => Json.mkObj [("k", "integer"), ("lo", jInt lo), ("hi", jInt hi), ("d", jOpt jInt d)]
  | .discrete vs d => Json.mkObj [("k", "discrete"), ("vs", jList jRat vs), ("d", jOpt jRat d)]
  | .categorical vs d => Json.mkObj [("k", "categorical"), ("vs", jList jStr vs), ("d", jOpt jStr d)]

def scaleOf (j : Json) : E (Option Scale) := do
  if j.isNull then return none
  match ← tagOf j with
  | "LINEAR" => return some .linear
  | "LOG" => return some .log
  | "REVERSE_LOG" => return some .reverseLog
  | "UNIFORM_DISCRETE" => return some .uniformDiscrete
  | s => throw s!"scale {s}"
def jScale : Option Scale → Json
  | none => Json.null
  | some .linear => "LINEAR"
  | some .log => "LOG"
  | some .reverseLog => "REVERSE_LOG"
  | some .uniformDiscrete => "UNIFORM_DISCRETE"
def jPScale : PScale → Json
  | .unspecified => "UNSPECIFIED"
  | .linear => "LINEAR"
  | .log => "LOG"
  | .reverseLog => "REVERSE_LOG"
def extOf (j : Json) : E Ext := do
  match ← tagOf j with
  | "INTERNAL" => return .internal
  | "BOOLEAN" => return .boolean
  | "INTEGER" => return .integer
  | "FLOAT" => return .float
  | s => throw s!"ext {s}"
def jExt : Ext → Json
  | .internal => "INTERNAL"
  | .boolean => "BOOLEAN"
  | .integer => "INTEGER"
  | .float => "FLOAT"

partial def pcOf (j : Json) : E PC := do
  let h : Hdr := { name := ← strOf (← fld j "name"), dom := ← domOf (← fld j "dom"),
                   scale := ← scaleOf (optFld j "scale"), ext := ← extOf (← fld j "ext") }
  let cs ← listOf (pairOf valOf (listOf pcOf)) (← fld j "children")
  return .mk h cs
partial def jPC : PC → Json
  | .mk h cs => Json.mkObj [("name", jStr h.name), ("dom", jDom h.dom), ("scale", jScale h.scale),
      ("ext", jExt h.ext), ("children", jList (jPair jVal (jList jPC)) cs)]
def jParent : PParent → Json
  | .unset => Json.null
  | .discrete vs => Json.mkObj [("discrete", jList jRat vs)]
  | .ints vs => Json.mkObj [("ints", jList jInt vs)]
  | .cats vs => Json.mkObj [("cats", jList jStr vs)]
partial def jPSpec : PSpec → Json
  | .mk h conds => Json.mkObj [("id", jStr h.id), ("kind", jKind h.kind), ("scale", jPScale h.scale),
      ("ext", jExt h.ext), ("conds", jList (jPair jParent jPSpec) conds)]

/-! ### metrics, measurements -/

def metricOf (j : Json) : E MetricInfo := do
  let goal ← match ← tagOf (← fld j "goal") with
    | "MAXIMIZE" => pure Goal.maximize
    | "MINIMIZE" => pure Goal.minimize
    | s => throw s!"goal {s}"
  return { name := ← strOf (← fld j "name"), goal := goal,
           safetyThreshold := ← optOf ratOf (optFld j "thr"),
           desiredMinSafeFraction := ← optOf ratOf (optFld j "frac") }
def jMetric (m : MetricInfo) : Json :=
  Json.mkObj [("name", jStr m.name), ("goal", match m.goal with | .maximize => "MAXIMIZE" | .minimize => "MINIMIZE"),
    ("thr", jOpt jRat m.safetyThreshold), ("frac", jOpt jRat m.desiredMinSafeFraction)]
def jPMetric (m : PMetricSpec) : Json :=
  Json.mkObj [("id", jStr m.id),
    ("goal", match m.goal with | .unspecified => "UNSPECIFIED" | .maximize => "MAXIMIZE" | .minimize => "MINIMIZE"),
    ("safety", jOpt (fun s => Json.mkObj [("thr", jRat s.threshold), ("frac", jOpt jRat s.desiredMinSafeFraction)]) m.safety)]

def measOf (j : Json) : E Meas := do
  let ms ← listOf (pairOf strOf (fun m => do
    return ({ value := ← ratOf (← fld m "v"), std := ← optOf ratOf (optFld m "std") } : Metric))) (← fld j "metrics")
  return { metrics := ms, elapsedSecs := ← ratOf (← fld j "elapsed"), steps := ← intOf (← fld j "steps"),
           checkpointPath := ← strOf (← fld j "ckpt") }
def jMeas (m : Meas) : Json :=
  Json.mkObj [("metrics", jList (jPair jStr (fun x => Json.mkObj [("v", jRat x.value), ("std", jOpt jRat x.std)])) m.metrics),
    ("elapsed", jRat m.elapsedSecs), ("steps", jInt m.steps), ("ckpt", jStr m.checkpointPath)]
def jPMeas (m : PMeas) : Json :=
  Json.mkObj [("dur", jOpt (fun d => Json.mkObj [("s", jInt d.seconds), ("n", jInt d.nanos)]) m.duration), ("steps", jInt m.stepCount),
    ("metrics", jList (jPair jStr jRat) m.metrics)]

/-! ### metadata -/

def mdValOf (j : Json) : E MdVal := do
  match j.getObjVal? "s", j.getObjVal? "any", j.getObjVal? "msg" with
  | .ok v, _, _ => .str <$> strOf v
  | _, .ok v, _ => .any <$> strOf v
  | _, _, .ok v => .msg <$> strOf v
  | _, _, _ => throw "mdval"
def jMdVal : MdVal → Json
  | .str s => Json.mkObj [("s", jStr s)]
  | .any a => Json.mkObj [("any", jStr a)]
  | .msg a => Json.mkObj [("msg", jStr a)]
def mdOf (j : Json) : E Md := listOf (pairOf (listOf charsOfJson) (listOf (pairOf strOf mdValOf))) j
def jMd (md : Md) : Json := jList (jPair (jList jsonOfChars) (jList (jPair jStr jMdVal))) md
def jKV (kv : KV) : Json :=
  Json.mkObj [("ns", jsonOfChars kv.ns), ("key", jStr kv.key),
    ("val", match kv.val with
      | .unset => Json.null
      | .value s => Json.mkObj [("value", jStr s)]
      | .proto a => Json.mkObj [("proto", jStr a)])]
def deltaOf (j : Json) : E Delta := do
  return { onStudy := ← mdOf (← fld j "study"), onTrials := ← listOf (pairOf intOf mdOf) (← fld j "trials") }
def jDelta (d : Delta) : Json :=
  Json.mkObj [("study", jMd d.onStudy), ("trials", jList (jPair jInt jMd) d.onTrials)]
def jUMU (u : UMU) : Json := Json.mkObj [("tid", jOpt jInt u.trialId), ("kv", jKV u.kv)]

/-! ### parameter values, suggestions, trials -/

def pyValOf (j : Json) : E PyVal := do
  match j.getObjVal? "i", j.getObjVal? "f", j.getObjVal? "s", j.getObjVal? "b" with
  | .ok v, _, _, _ => .int <$> intOf v
  | _, .ok v, _, _ => .float <$> ratOf v
  | _, _, .ok v, _ => .str <$> strOf v
  | _, _, _, .ok v => .bool <$> boolOf v
  | _, _, _, _ => throw "pyval"
def jPyVal : PyVal → Json
  | .int i => Json.mkObj [("i", jInt i)]
  | .float q => Json.mkObj [("f", jRat q)]
  | .str s => Json.mkObj [("s", jStr s)]
  | .bool b => Json.mkObj [("b", jBool b)]
def jPValue : PValue → Json
  | .unset => Json.null
  | .null => "null"
  | .number q => Json.mkObj [("n", jRat q)]
  | .string s => Json.mkObj [("s", jStr s)]
  | .boolean b => Json.mkObj [("b", jBool b)]
  | .other => "other"
def paramsOf (j : Json) : E Params := listOf (pairOf strOf pyValOf) j
def jParams (ps : Params) : Json := jList (jPair jStr jPyVal) ps
def jPParams (ps : List (String × PValue)) : Json := jList (jPair jStr jPValue) ps

def suggestionOf (j : Json) : E Suggestion := do
  return { params := ← paramsOf (← fld j "params"), metadata := ← mdOf (← fld j "md") }
def jSuggestion (s : Suggestion) : Json := Json.mkObj [("params", jParams s.params), ("md", jMd s.metadata)]
def jPSuggestion (s : PSuggestion) : Json :=
  Json.mkObj [("params", jPParams s.params), ("md", jList jKV s.metadata)]

def trialOf (j : Json) : E Trial := do
  return { id := ← intOf (← fld j "id"), description := ← optOf strOf (optFld j "desc"),
           isRequested := ← boolOf (← fld j "req"), assignedWorker := ← optOf strOf (optFld j "worker"),
           stoppingReason := ← optOf strOf (optFld j "stop"), infeasibilityReason := ← optOf strOf (optFld j "infeas"),
           relatedLinks := ← listOf (pairOf strOf strOf) (← fld j "links"), params := ← paramsOf (← fld j "params"),
           final := ← optOf measOf (optFld j "final"), measurements := ← listOf measOf (← fld j "meas"),
           creationTime := ← optOf natOf (optFld j "ctime"), completionTime := ← optOf natOf (optFld j "etime"),
           metadata := ← mdOf (← fld j "md") }
def jTrial (t : Trial) : Json :=
  Json.mkObj [("id", jInt t.id), ("desc", jOpt jStr t.description), ("req", jBool t.isRequested),
    ("worker", jOpt jStr t.assignedWorker), ("stop", jOpt jStr t.stoppingReason),
    ("infeas", jOpt jStr t.infeasibilityReason), ("links", jList (jPair jStr jStr) t.relatedLinks),
    ("params", jParams t.params), ("final", jOpt jMeas t.final), ("meas", jList jMeas t.measurements),
    ("ctime", jOpt jNat t.creationTime), ("etime", jOpt jNat t.completionTime), ("md", jMd t.metadata)]
def jTs (t : Ts) : Json := Json.mkObj [("s", jNat t.seconds), ("n", jNat t.nanos)]
def jPState : PState → Json
  | .unspecified => "STATE_UNSPECIFIED"
  | .requested => "REQUESTED"
  | .active => "ACTIVE"
  | .stopping => "STOPPING"
  | .succeeded => "SUCCEEDED"
  | .infeasible => "INFEASIBLE"
def jPTrial (t : PTrial) : Json :=
  Json.mkObj [("name", jStr t.name), ("id", jInt t.id), ("state", jPState t.state), ("params", jPParams t.params),
    ("final", jOpt jPMeas t.final), ("meas", jList jPMeas t.measurements), ("start", jOpt jTs t.startTime),
    ("end", jOpt jTs t.endTime), ("client", jStr t.clientId), ("infeas", jStr t.infeasibleReason),
    ("md", jList jKV t.metadata)]

/-! ### problem, study, requests, decisions -/

def problemOf (j : Json) : E Problem := do
  return { space := ← listOf pcOf (← fld j "space"), metrics := ← listOf metricOf (← fld j "metrics"),
           metadata := ← mdOf (← fld j "md") }
def jProblem (p : Problem) : Json :=
  Json.mkObj [("space", jList jPC p.space), ("metrics", jList jMetric p.metrics), ("md", jMd p.metadata)]
def jPProblem (p : PProblem) : Json :=
  Json.mkObj [("space", jList jPSpec p.space), ("metrics", jList jPMetric p.metrics), ("md", jList jKV p.metadata)]

def noiseOf (j : Json) : E Noise := do
  match ← tagOf j with
  | "UNSPECIFIED" => return .unspecified
  | "LOW" => return .low
  | "HIGH" => return .high
  | s => throw s!"noise {s}"
def jNoise : Noise → Json
  | .unspecified => "UNSPECIFIED"
  | .low => "LOW"
  | .high => "HIGH"
def studyOf (j : Json) : E Study := do
  return { space := ← listOf pcOf (← fld j "space"), metrics := ← listOf metricOf (← fld j "metrics"),
           metadata := ← mdOf (← fld j "md"), algorithm := ← strOf (← fld j "alg"),
           noise := ← noiseOf (← fld j "noise"), autoStop := ← boolOf (← fld j "auto"),
           cachedStopping := ← boolOf (← fld j "cached") }
def jStudy (s : Study) : Json :=
  Json.mkObj [("space", jList jPC s.space), ("metrics", jList jMetric s.metrics), ("md", jMd s.metadata),
    ("alg", jStr s.algorithm), ("noise", jNoise s.noise), ("auto", jBool s.autoStop), ("cached", jBool s.cachedStopping)]
def jPStudy (s : PStudy) : Json :=
  Json.mkObj [("metrics", jList jPMetric s.metrics), ("params", jList jPSpec s.params), ("alg", jStr s.algorithm),
    ("stopping", jBool s.stopping), ("noise", jNoise s.noise), ("md", jList jKV s.metadata)]

/-- a study config with its `pythia_endpoint` (field "endpoint": absent / null = `None`) -/
def studyEOf (j : Json) : E StudyE := do
  let e ← match j.getObjVal? "endpoint" with
    | .ok .null => pure none
    | .ok v => some <$> mdValOf v
    | .error _ => pure none
  return { base := ← studyOf j, endpoint := e }
def jStudyE (s : StudyE) : Json :=
  (jStudy s.base).mergeObj (Json.mkObj [("endpoint", match s.endpoint with | none => Json.null | some v => jMdVal v)])

def descriptorOf (j : Json) : E Descriptor := do
  return { config := ← problemOf (← fld j "config"), guid := ← strOf (← fld j "guid"), maxTrialId := ← intOf (← fld j "max") }
def jDescriptor (d : Descriptor) : Json :=
  Json.mkObj [("config", jProblem d.config), ("guid", jStr d.guid), ("max", jInt d.maxTrialId)]
def jPDescriptor (d : PDescriptor) : Json :=
  Json.mkObj [("config", jPProblem d.config), ("guid", jStr d.guid), ("max", jInt d.maxTrialId)]

def sreqOf (j : Json) : E SuggestRequest := do
  return { descriptor := ← descriptorOf (← fld j "desc"), count := ← intOf (← fld j "count"),
           checkpointDir := ← optOf strOf (optFld j "ckpt") }
def jSReq (r : SuggestRequest) : Json :=
  Json.mkObj [("desc", jDescriptor r.descriptor), ("count", jInt r.count), ("ckpt", jOpt jStr r.checkpointDir)]
def jPSReq (r : PSuggestRequest) : Json :=
  Json.mkObj [("desc", jPDescriptor r.descriptor), ("count", jInt r.count), ("ckpt", jStr r.checkpointDir)]

def sdecOf (j : Json) : E SuggestDecision := do
  return { suggestions := ← listOf suggestionOf (← fld j "suggestions"), metadata := ← deltaOf (← fld j "md") }
def jSDec (d : SuggestDecision) : Json :=
  Json.mkObj [("suggestions", jList jSuggestion d.suggestions), ("md", jDelta d.metadata)]
def jPSDec (d : PSuggestDecision) : Json :=
  Json.mkObj [("suggestions", jList jPSuggestion d.suggestions), ("md", jList jUMU d.metadata)]

def esreqOf (j : Json) : E EarlyStopRequest := do
  return { descriptor := ← descriptorOf (← fld j "desc"), trialIds := ← optOf (listOf intOf) (optFld j "ids"),
           checkpointDir := ← optOf strOf (optFld j "ckpt") }
def jESReq (r : EarlyStopRequest) : Json :=
  Json.mkObj [("desc", jDescriptor r.descriptor), ("ids", jOpt (jList jInt) r.trialIds), ("ckpt", jOpt jStr r.checkpointDir)]
def jPESReq (r : PEarlyStopRequest) : Json :=
  Json.mkObj [("desc", jPDescriptor r.descriptor), ("ids", jList jInt r.trialIds), ("ckpt", jStr r.checkpointDir)]

def esdOf (j : Json) : E EarlyStopDecision := do
  return { id := ← intOf (← fld j "id"), reason := ← strOf (← fld j "reason"), shouldStop := ← boolOf (← fld j "stop"),
           predicted := ← optOf measOf (optFld j "pred") }
def jESD (d : EarlyStopDecision) : Json :=
  Json.mkObj [("id", jInt d.id), ("reason", jStr d.reason), ("stop", jBool d.shouldStop), ("pred", jOpt jMeas d.predicted)]
def jPESD (d : PEarlyStopDecision) : Json :=
  Json.mkObj [("id", jInt d.id), ("reason", jStr d.reason), ("stop", jBool d.shouldStop), ("pred", jOpt jPMeas d.predicted)]
def esdecOf (j : Json) : E EarlyStopDecisions := do
  return { decisions := ← listOf esdOf (← fld j "decisions"), metadata := ← deltaOf (← fld j "md") }
def jESDec (d : EarlyStopDecisions) : Json :=
  Json.mkObj [("decisions", jList jESD d.decisions), ("md", jDelta d.metadata)]
def jPESDec (d : PEarlyStopDecisions) : Json :=
  Json.mkObj [("decisions", jList jPESD d.decisions), ("md", jList jUMU d.metadata)]

/-! ### the generic answer -/

/-- one pair: decode, convert there, back, there again; normal forms of the input and of the
observed real result -/
def answer {α π : Type} (j : Json) (dec : Json → E α) (enc : α → Json) (encP : π → Json)
    (to : α → π) (frm : π → α) (norm : α → α) (extra : α → List (String × Json) := fun _ => []) : E Json := do
  let x ← dec (← fld j "x")
  let p := to x
  let b := frm p
  let base := [("proto", encP p), ("back", enc b), ("again", encP (to b)), ("norm", enc (norm x)),
    ("norm_mback", enc (norm b))] ++ extra x
  match j.getObjVal? "back" with
  | .ok rb => do
    let y ← dec rb
    return Json.mkObj (base ++ [("norm_back", enc (norm y))])
  | .error _ => return Json.mkObj base

def handle (j : Json) : E Json := do
  let op ← getStr j "op"
  let cfg ← match j.getObjVal? "cfg" with
    | .ok c => cfgOf c
    | .error _ => pure Cfg.fixed
  match op with
  | "pc" => (answer j pcOf jPC jPSpec (toProto cfg) (fromProto cfg) id
      (fun p => [("ok", jBool (p.ok cfg)), ("wf", jBool p.wf), ("depth", jNat p.depth)]))
  | "metric" => answer j metricOf jMetric jPMetric metricToProto metricFromProto id
  | "meas" => answer j measOf jMeas jPMeas measToProto (measFromProto cfg) measNorm
  | "md" => answer j mdOf jMd (jList jKV) mdToProto mdFromProto mdNorm
  | "delta" => answer j deltaOf jDelta (jList jUMU) deltaToProto deltaFromProto deltaNorm
  | "suggestion" => answer j suggestionOf jSuggestion jPSuggestion suggestionToProto suggestionFromProto suggestionNorm
  | "trial" => answer j trialOf jTrial jPTrial trialToProto (trialFromProto cfg) trialNorm
  | "problem" => answer j problemOf jProblem jPProblem (problemToProto cfg) (problemFromProto cfg) problemNorm
  | "study" =>
    -- "endpointMerged": which variant of StudyConfig.to_proto's endpoint write the current tree has
    let merged := (j.getObjValAs? Bool "endpointMerged").toOption.getD true
    answer j studyEOf jStudyE jPStudy (studyEToProto cfg merged) (studyEFromProto cfg) studyENorm
  | "sreq" => answer j sreqOf jSReq jPSReq (suggestRequestToProto cfg) (suggestRequestFromProto cfg) suggestRequestNorm
  | "sdec" => answer j sdecOf jSDec jPSDec suggestDecisionToProto suggestDecisionFromProto suggestDecisionNorm
  | "esreq" => answer j esreqOf jESReq jPESReq (earlyStopRequestToProto cfg) (earlyStopRequestFromProto cfg) earlyStopRequestNorm
  | "esdec" =>
    -- "optPred": which variant of the early-stop decision converters the current tree has
    let o := (j.getObjValAs? Bool "optPred").toOption.getD true
    answer j esdecOf jESDec jPESDec (earlyStopDecisionsToProto o) (earlyStopDecisionsFromProto o cfg) earlyStopDecisionsNorm
  | "time" =>
    let ts ← listOf natOf (← fld j "ts")
    return Json.mkObj [("back", jList (fun t => jNat (fromTs (toTs t))) ts),
      ("ts", jList (fun t => jTs (toTs t)) ts)]
  | _ => throw s!"unknown op {op}"

def main : IO Unit := serve handle
