import VizierModel.Driver.Util
import VizierModel.Model.TopK
open Lean VizierModel.Driver VizierModel VizierModel.TopK

/-! Driver for C19.  Rewards and continuous features travel as integer keys of the float32
IEEE total order (order isomorphic; computed by the harness), categorical features as naturals. -/

abbrev F := Feat Int
abbrev E := Entry F Int

def leI (a b : Int) : Bool := decide (a ≤ b)

def featOfJson (j : Json) : Except String F := do
  let c ← fromJson? (α := Array Int) (← j.getObjVal? "c")
  let k ← fromJson? (α := Array Nat) (← j.getObjVal? "k")
  return { cont := c.toList, cat := k.toList }

def jsonOfFeat (f : F) : List (String × Json) :=
  [("c", toJson f.cont.toArray), ("k", toJson f.cat.toArray)]

def entryOfJson (j : Json) : Except String E := do
  let f ← featOfJson j
  let r ← getInt j "r"
  return ⟨f, r⟩

def jsonOfEntry (e : E) : Json := Json.mkObj (jsonOfFeat e.feat ++ [("r", toJson e.reward)])

def layoutOfJson (j : Json) : Except String Layout := do
  let a ← fromJson? (α := Array Nat) (← j.getObjVal? "arities")
  return { nCont := ← getNat j "nCont", nContPad := ← getNat j "nContPad", arities := a.toList,
           nCatPad := ← getNat j "nCatPad" }

/-- the score function of a replay: the recorded (features ↦ reward) table; `miss` otherwise -/
def tableScore (table : List E) (miss : Int) (f : F) : Int :=
  match table.find? (fun e => e.feat == f) with
  | some e => e.reward
  | none => miss

instance : BEq F := ⟨fun a b => decide (a = b)⟩

/-- replay strategy: state = iteration number, `suggest` = the recorded raw batch -/
def replayStrategy (raw : Array (List F)) : Strategy Unit Nat Int Int :=
  { init := fun _ _ => 0, suggest := fun _ i => raw.getD i [], update := fun _ i _ => i + 1 }

def unitKeys : Keys Unit := ⟨fun _ => ((), ()), fun _ => ((), (), ())⟩

def handle (j : Json) : Except String Json := do
  let op ← getStr j "op"
  match op with
  | "optimize" =>
    let L ← layoutOfJson (← j.getObjVal? "layout")
    let zero ← getInt j "zero"
    let ph ← getInt j "ph"
    let miss ← getInt j "miss"
    let count ← getNat j "count"
    let seeded ← getBool j "seeded"
    let raw ← (← getArr j "raw").mapM fun b => do
      let a ← fromJson? (α := Array Json) b
      a.toList.mapM featOfJson
    let table ← (← getArr j "table").toList.mapM entryOfJson
    let priors : Option (List F × Nat × Nat) ← match j.getObjVal? "priors" with
      | .ok (.null) => pure none
      | .ok p => do
        let rows ← (← getArr p "rows").toList.mapM featOfJson
        pure (some (rows, ← getNat p "vc", ← getNat p "vk"))
      | .error _ => pure none
    let r := optimize ⟨seeded⟩ unitKeys (replayStrategy raw) leI zero ph L (fun _ => tableScore table miss)
      count raw.size priors ()
    let scored := scoredPriors zero ph L (tableScore table miss) priors
    -- the same result through the plain fold (the object of the theorems)
    let viaFold := if seeded then runTopKSeeded leI count (zerosFeat zero L) ph scored r.2
                   else runTopK leI count (zerosFeat zero L) ph r.2
    return Json.mkObj [("res", toJson (r.1.map jsonOfEntry).toArray),
      ("trace", toJson (r.2.map fun b => toJson (b.map jsonOfEntry).toArray).toArray),
      ("scoredPriors", toJson (scored.map jsonOfEntry).toArray),
      ("foldAgrees", toJson (decide (viaFold = r.1)))]
  | "project" =>
    let zero ← getInt j "zero"
    let one ← getInt j "one"
    let pre ← (← getArr j "pre").toList.mapM featOfJson
    return Json.mkObj [("post", toJson ((pre.map (project leI zero one)).map (Json.mkObj ∘ jsonOfFeat)).toArray)]
  | "check" =>
    let L ← layoutOfJson (← j.getObjVal? "layout")
    let zero ← getInt j "zero"
    let one ← getInt j "one"
    let fs ← (← getArr j "feats").toList.mapM featOfJson
    return Json.mkObj [("inBounds", toJson (fs.map (inBounds leI zero one L)).toArray),
      ("rawOk", toJson (fs.map (rawOk leI zero one L)).toArray),
      ("maskFixed", toJson (fs.map fun f => decide (maskFeat zero L f = f)).toArray)]
  | "istopk" =>
    -- the specification `IsTopK` (c19_topk) on an observed result
    let k ← getNat j "count"
    let all ← (← getArr j "all").toList.mapM entryOfJson
    let res ← (← getArr j "res").toList.mapM entryOfJson
    return Json.mkObj [("isTopK", toJson (isTopKB leI k all res))]
  | "totrials" =>
    -- `best_candidates_to_trials` on rows given as (candidate ids of the row, reward key)
    let rows ← (← getArr j "rows").toList.mapM fun r => do
      let ids ← (← getArr r "ids").toList.mapM fun x => fromJson? (α := Nat) x
      return (⟨ids, ← getInt r "r"⟩ : Entry (List Nat) Int)
    let ts := toTrials leI (fun n : Nat => n) rows
    return Json.mkObj [("trials", toJson (ts.map fun t => Json.mkObj [("id", toJson t.1), ("r", toJson t.2)]).toArray)]
  | "witness" =>
    -- the data of `c19_not_worse_than_prior_counterexample`, both variants
    let S : Strategy Unit Unit Nat Nat :=
      { init := fun _ _ => (), suggest := fun _ _ => [⟨[0], []⟩], update := fun _ _ _ => () }
    let sc : Unit → Feat Nat → Nat := fun _ f => if f.cont = [7] then 10 else 1
    let run := fun (b : Bool) => (optimize ⟨b⟩ unitKeys S (fun a b : Nat => decide (a ≤ b)) 0 0
      ⟨1, 1, [], 0⟩ sc 1 2 (some ([⟨[7], []⟩], 1, 1)) ()).1.map (·.reward)
    return Json.mkObj [("asWritten", toJson (run false).toArray), ("fixed", toJson (run true).toArray),
      ("priorScore", toJson (10 : Nat))]
  | _ => throw s!"unknown op {op}"

def main : IO Unit := serve handle
