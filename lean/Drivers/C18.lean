/-
C18 driver: runs the warper model (`VizierModel.Model.Warp`) at two carriers.
  * `Float`  — values, compared with the real outputs under a tolerance;
  * `Rat`    — exact, with surrogate library functions that satisfy the hypotheses of the
               theorems (Φ⁻¹ q = q − ½, sqrt = id, log1p = id, log o = o − 1, exp y = 1 + y):
               by the theorems the ORDER TYPE of the output does not depend on that choice,
               so it is the exact order type the real output must have.
One JSON request per line:
  {"op": ..., "x": [entry…], "fix": bool, "umed": bool, "lo":…, "hi":…}
  entry = "nan" | "-inf" | "+inf" | {"b": "<uint64 bits, decimal>", "p": "<int>", "q": "<nat>"}
Answer: {"vals":[bits|null…], "ord":[rank|null…]} or {"err": "..."}.
-/
import VizierModel.Driver.Util
import VizierModel.Model.Warp
open Lean VizierModel.Driver VizierModel VizierModel.Warp

instance : NatCast Float := ⟨Float.ofNat⟩

/-! ## Float library functions -/

def pdf (x : Float) : Float := Float.exp (-(x * x) / 2) / Float.sqrt (2 * 3.141592653589793238)

/-- Φ(x) for x ≤ 0 by Marsaglia's series ½ − φ(x)·Σ |x|^{2k+1}/(2k+1)!! -/
def cdfNeg (x : Float) : Float := Id.run do
  let a := Float.abs x
  let mut term := a
  let mut s := a
  let mut k : Nat := 0
  while k < 200 && term > 1e-18 * s do
    k := k + 1
    term := term * a * a / (Float.ofNat (2 * k + 1))
    s := s + term
  return 0.5 - pdf a * s

/-- Φ⁻¹(q): Abramowitz–Stegun 26.2.23 start, then Newton on the series (q in (0, ½); other
arguments by symmetry / limits) -/
partial def ppfF (q : Float) : Float :=
  if q.isNaN then q
  else if q <= 0 then (-1.0) / 0.0
  else if q >= 1 then 1.0 / 0.0
  else if q == 0.5 then 0
  else if q > 0.5 then -(ppfF (1 - q))
  else Id.run do
    let t := Float.sqrt (-2 * Float.log q)
    let mut x := -(t - (2.515517 + 0.802853 * t + 0.010328 * t * t) /
      (1 + 1.432788 * t + 0.189269 * t * t + 0.001308 * t * t * t))
    for _ in [0:5] do
      x := x - (cdfNeg x - q) / pdf x
      if x > 0 then x := 0
    return x

def log1pF (x : Float) : Float :=
  let u := 1 + x
  if u == 1 then x else Float.log u * x / (u - 1)

def floatFns : Fns Float :=
  { ppf := ppfF, sqrt := Float.sqrt, log1p := log1pF, log := Float.log, exp := Float.exp,
    gauss := id }

/-! ## generic runner -/

section
variable {α : Type} [Add α] [Sub α] [Mul α] [Div α] [LT α] [DecidableLT α] [NatCast α]

structure Params (α : Type) where
  offset : α
  z : α
  lo : α
  hi : α
  fix : Bool
  umed : Bool

def withValidate (raw : List (Raw α)) (f : List (Option α) → List (Option α)) :
    Except String (List (Option α)) :=
  match validate raw with
  | .error e => .error e
  | .ok l => .ok (f l)

/-- unwarp(warp(x)) of the half-rank component for every finite entry (model of the lookup) -/
def hrRoundTrip (F : Fns α) (fix umed : Bool) (l : List (Option α)) : List (Option α) :=
  if l.length = 1 then l else if (fins l).isEmpty then l else
  let c := hrCtx F fix l
  let tbl := hrTable F c
  let thr := hrUnwarpThr umed c
  (l.map (hrPt F c)).map fun o => o.map (hrUnwarpPt thr tbl)

def runOp (F : Fns α) (P : Params α) (op : String) (raw : List (Raw α)) :
    Except String (List (Option α)) :=
  match op with
  | "validate" => withValidate raw id
  | "halfrank" => withValidate raw (halfRank F P.fix)
  | "halfrank_rt" => withValidate raw (hrRoundTrip F P.fix P.umed)
  | "log" => withValidate raw (logWarp F P.offset)
  | "infeasible" => withValidate raw infeasible
  | "detect" => withValidate raw (detectOutliers F P.z)
  | "zscore" => withValidate raw (zscore F)
  | "normalize" => withValidate raw (normalize P.lo P.hi)
  | "gauss" => withValidate raw (transformToGaussian F)
  | "default" => defaultWarp F P.offset P.fix raw
  | "outlier" => outlierWarp F P.z raw
  | "outlier_pre" => pipeline [detectOutliers F P.z, infeasible] raw
  | "linear" => withValidate raw fun l =>
      match lmin (fins l), lmax (fins l) with
      | some mn, some mx => l.map fun o => o.map (linWarp P.lo P.hi mn mx)
      | _, _ => l
  | "linear_rt" => withValidate raw fun l =>
      match lmin (fins l), lmax (fins l) with
      | some mn, some mx => l.map fun o => o.map fun y => linUnwarp P.lo P.hi mn mx (linWarp P.lo P.hi mn mx y)
      | _, _ => l
  | _ => .error s!"unknown op {op}"

/-- order type: dense rank of every finite output among the finite outputs, `none` for NaN -/
def ordOf (l : List (Option α)) : List (Option Nat) :=
  let u := unique (fins l)
  l.map fun o => o.map (countLt u)

end

/-! ## JSON glue -/

def natOfStr (s : String) : Except String Nat :=
  match s.toNat? with | some n => .ok n | none => .error s!"bad nat {s}"
def intOfStr (s : String) : Except String Int :=
  match s.toInt? with | some n => .ok n | none => .error s!"bad int {s}"

def rawsOfJson (j : Json) : Except String (List (Raw Float) × List (Raw Rat)) := do
  let a ← fromJson? (α := Array Json) j
  let mut fs : Array (Raw Float) := #[]
  let mut rs : Array (Raw Rat) := #[]
  for e in a do
    match e with
    | .str "nan" => fs := fs.push .nan; rs := rs.push .nan
    | .str "-inf" => fs := fs.push .negInf; rs := rs.push .negInf
    | .str "+inf" => fs := fs.push .posInf; rs := rs.push .posInf
    | _ =>
      let b ← natOfStr (← getStr e "b")
      let p ← intOfStr (← getStr e "p")
      let q ← natOfStr (← getStr e "q")
      fs := fs.push (.fin (Float.ofBits (UInt64.ofNat b)))
      rs := rs.push (.fin (mkRat p q))
  return (fs.toList, rs.toList)

def jsonOfFloatOpt : Option Float → Json
  | none => Json.null
  | some v => if v.isNaN then Json.str "nan" else Json.str (toString v.toBits.toNat)

def jsonOfNatOpt : Option Nat → Json
  | none => Json.null
  | some n => toJson n

def ratOfJson (j : Json) (k : String) (dflt : Rat) : Except String Rat :=
  match j.getObjVal? k with
  | .ok (.arr a) => do
    if a.size != 2 then throw "rat: need [p,q] strings"
    let p ← intOfStr (← fromJson? (α := String) a[0]!)
    let q ← natOfStr (← fromJson? (α := String) a[1]!)
    return mkRat p q
  | _ => .ok dflt

def ratToFloat (r : Rat) : Float := Float.ofInt r.num / Float.ofNat r.den

def handle (j : Json) : Except String Json := do
  let op ← getStr j "op"
  let (fr, rr) ← rawsOfJson (← j.getObjVal? "x")
  let fix := (j.getObjValAs? Bool "fix").toOption.getD true
  let umed := (j.getObjValAs? Bool "umed").toOption.getD true
  let lo ← ratOfJson j "lo" 0
  let hi ← ratOfJson j "hi" 1
  let offset ← ratOfJson j "offset" (3/2)
  let PF : Params Float := { offset := ratToFloat offset, z := 6, lo := ratToFloat lo, hi := ratToFloat hi, fix := fix, umed := umed }
  let PR : Params Rat := { offset := offset, z := 6, lo := lo, hi := hi, fix := fix, umed := umed }
  let vf := runOp floatFns PF op fr
  -- ops whose discrete outcome depends on the true sqrt take their order type from the Float run
  let floatOrd := op == "detect" || op == "outlier" || op == "outlier_pre" || op == "gauss"
  match vf with
  | .error e => return Json.mkObj [("err", Json.str e)]
  | .ok lf =>
    let ord : List (Option Nat) ←
      if floatOrd then pure (ordOf lf)
      else match runOp ratFns PR op rr with
        | .ok lr => pure (ordOf lr)
        | .error e => throw s!"rat run failed where float run did not: {e}"
    -- did a pipeline shortcut (all equal / all NaN) answer?
    let short : Bool := match validate fr with
      | .ok l => (op == "default" || op == "outlier" || op == "outlier_pre") &&
                 (allEqualFinite l || l.all Option.isNone)
      | .error _ => false
    return Json.mkObj [("vals", toJson (lf.map jsonOfFloatOpt).toArray),
                       ("ord", toJson (ord.map jsonOfNatOpt).toArray),
                       ("short", toJson short)]

def main : IO Unit := serve handle
