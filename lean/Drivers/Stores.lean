import VizierModel.Driver.Util
import VizierModel.Driver.SvcJson
import VizierModel.Model.StoresEs
open Lean VizierModel.Driver VizierModel.Driver.SvcJson VizierModel.Svc VizierModel.Stores VizierModel.StoresEs

/-! Line-protocol driver of the representation-level datastore models (C07): the SAME raw call
sequence is executed on the nested-dict model (`Ram`) and on the table model (`Sql`). -/

def keyOfJson (j : Json) : Except String SKey := do
  let a ← fromJson? (α := Array String) (← j.getObjVal? "k")
  if a.size != 2 then throw "k: need [owner, study]"
  return (a[0]!, a[1]!)

def headOfJson (j : Json) : Except String Head := do
  return { state := ← sstateOf (← getStr j "state"), spec := ← getNat j "spec", md := ← mdOfJson (← j.getObjVal? "md") }

def jsonOfHead (h : Head) : Json :=
  Json.mkObj [("state", sstateStr h.state), ("spec", toJson h.spec), ("md", jsonOfMd h.md)]

def errStr : DsErr → String
  | .notFound => "err:notFound"
  | .alreadyExists => "err:alreadyExists"

def outW {σ : Type} (s : σ) (r : Except DsErr σ) : σ × Json :=
  match r with
  | .ok s' => (s', "ok")
  | .error e => (s, errStr e)

def outR {α : Type} (f : α → Json) (r : Except DsErr α) : Json :=
  match r with
  | .ok v => f v
  | .error e => errStr e

def deltaOfJson (o : Json) : Except String MdDelta := do
  let study ← mdOfJson (← o.getObjVal? "study")
  let trials ← (← getArr o "trials").toList.mapM fun e => do
    let a ← fromJson? (α := Array Json) e
    if a.size != 2 then throw "trials: need [id, md]"
    let id ← fromJson? (α := Nat) a[0]!
    return (id, ← mdOfJson a[1]!)
  return { study := study, trials := trials }

/-- the early-stopping-operation models (their own study bookkeeping) -/
def stepEs (r : RamE) (q : SqlE) (o : Json) : Except String (RamE × SqlE × Json × Json) := do
  let kind ← getStr o "op"
  match kind with
  | "createStudy" =>
    let k ← keyOfJson o
    let (r', a) := outW r (r.createStudy k); let (q', b) := outW q (q.createStudy k)
    return (r', q', a, b)
  | "deleteStudy" =>
    let k ← keyOfJson o
    let (r', a) := outW r (r.deleteStudy k); let (q', b) := outW q (q.deleteStudy k)
    return (r', q', a, b)
  | "createEs" =>
    let k ← keyOfJson o; let e ← esOpOfJson (← o.getObjVal? "es")
    let (r', a) := outW r (r.createEs k e); let (q', b) := outW q (q.createEs k e)
    return (r', q', a, b)
  | "updateEs" =>
    let k ← keyOfJson o; let e ← esOpOfJson (← o.getObjVal? "es")
    let (r', a) := outW r (r.updateEs k e); let (q', b) := outW q (q.updateEs k e)
    return (r', q', a, b)
  | "getEs" =>
    let k ← keyOfJson o; let id ← getNat o "id"
    return (r, q, outR jsonOfEs (r.getEs k id), outR jsonOfEs (q.getEs k id))
  | _ => throw s!"unknown es op {kind}"

def stepBoth (r : Ram) (q : Sql) (o : Json) : Except String (Ram × Sql × Json × Json) := do
  let kind ← getStr o "op"
  match kind with
  | "createStudy" =>
    let k ← keyOfJson o; let h ← headOfJson (← o.getObjVal? "head")
    let (r', a) := outW r (r.createStudy k h); let (q', b) := outW q (q.createStudy k h)
    return (r', q', a, b)
  | "updateStudy" =>
    let k ← keyOfJson o; let h ← headOfJson (← o.getObjVal? "head")
    let (r', a) := outW r (r.updateStudy k h); let (q', b) := outW q (q.updateStudy k h)
    return (r', q', a, b)
  | "deleteStudy" =>
    let k ← keyOfJson o
    let (r', a) := outW r (r.deleteStudy k); let (q', b) := outW q (q.deleteStudy k)
    return (r', q', a, b)
  | "loadStudy" =>
    let k ← keyOfJson o
    return (r, q, outR jsonOfHead (r.loadStudy k), outR jsonOfHead (q.loadStudy k))
  | "listStudies" =>
    let ow ← getStr o "o"
    let f := fun (l : List (String × Head)) => toJson (l.map fun x => Json.mkObj [("sid", x.1), ("head", jsonOfHead x.2)]).toArray
    return (r, q, outR f (r.listStudies ow), outR f (q.listStudies ow))
  | "createTrial" =>
    let k ← keyOfJson o; let t ← trialOfJson (← o.getObjVal? "trial")
    let (r', a) := outW r (r.createTrial k t); let (q', b) := outW q (q.createTrial k t)
    return (r', q', a, b)
  | "updateTrial" =>
    let k ← keyOfJson o; let t ← trialOfJson (← o.getObjVal? "trial")
    let (r', a) := outW r (r.updateTrial k t); let (q', b) := outW q (q.updateTrial k t)
    return (r', q', a, b)
  | "deleteTrial" =>
    let k ← keyOfJson o; let id ← getNat o "id"
    let (r', a) := outW r (r.deleteTrial k id); let (q', b) := outW q (q.deleteTrial k id)
    return (r', q', a, b)
  | "getTrial" =>
    let k ← keyOfJson o; let id ← getNat o "id"
    return (r, q, outR jsonOfTrial (r.getTrial k id), outR jsonOfTrial (q.getTrial k id))
  | "listTrials" =>
    let k ← keyOfJson o
    let f := fun (l : List Trial) => toJson (l.map jsonOfTrial).toArray
    return (r, q, outR f (r.listTrials k), outR f (q.listTrials k))
  | "maxTrialId" =>
    let k ← keyOfJson o
    return (r, q, outR (fun (n : Nat) => toJson n) (r.maxTrialId k), outR (fun (n : Nat) => toJson n) (q.maxTrialId k))
  | "createOp" =>
    let k ← keyOfJson o; let op ← opOfJson (← o.getObjVal? "sop")
    let (r', a) := outW r (r.createOp k op); let (q', b) := outW q (q.createOp k op)
    return (r', q', a, b)
  | "updateOp" =>
    let k ← keyOfJson o; let op ← opOfJson (← o.getObjVal? "sop")
    let (r', a) := outW r (r.updateOp k op); let (q', b) := outW q (q.updateOp k op)
    return (r', q', a, b)
  | "updateMetadata" =>
    let k ← keyOfJson o; let d ← deltaOfJson o
    let (r', a) := outW r (r.updateMetadata k d); let (q', b) := outW q (q.updateMetadata k d)
    return (r', q', a, b)
  | "getOp" =>
    let k ← keyOfJson o; let c ← getStr o "client"; let n ← getNat o "num"
    return (r, q, outR jsonOfOp (r.getOp k c n), outR jsonOfOp (q.getOp k c n))
  | "listOps" =>
    let k ← keyOfJson o; let c ← getStr o "client"
    let f := fun (l : List SugOp) => toJson (l.map jsonOfOp).toArray
    return (r, q, outR f (r.listOps k c), outR f (q.listOps k c))
  | "maxOpNumber" =>
    let k ← keyOfJson o; let c ← getStr o "client"
    return (r, q, outR (fun (n : Nat) => toJson n) (r.maxOpNumber k c), outR (fun (n : Nat) => toJson n) (q.maxOpNumber k c))
  | _ => throw s!"unknown store op {kind}"

def handle (j : Json) : Except String Json := do
  let ops ← getArr j "ops"
  let mut r := Ram.empty
  let mut q := Sql.empty
  let mut re : RamE := []
  let mut qe := SqlE.empty
  let mut ra : Array Json := #[]
  let mut qa : Array Json := #[]
  for o in ops do
    let kind ← getStr o "op"
    if kind == "createEs" || kind == "updateEs" || kind == "getEs" then
      let (re', qe', a, b) ← stepEs re qe o
      re := re'; qe := qe'; ra := ra.push a; qa := qa.push b
    else
      let (r', q', a, b) ← stepBoth r q o
      r := r'; q := q'
      if kind == "createStudy" || kind == "deleteStudy" then
        -- the early-stopping models keep their own study set: it must follow the main models'
        let (re', qe', a2, b2) ← stepEs re qe o
        re := re'; qe := qe'
        ra := ra.push (if a2 == a then a else Json.str "es-model-disagrees-on-study")
        qa := qa.push (if b2 == b then b else Json.str "es-model-disagrees-on-study")
      else
        ra := ra.push a; qa := qa.push b
  return Json.mkObj [("ram", toJson ra), ("sql", toJson qa)]

def main : IO Unit := serve handle
