/- Driver of the experimenter model (C20).  Carrier `Float`; floats travel as 16-hex-digit bit
patterns.  The base objectives and the hashing infeasibility predicate are ABSTRACT in the
model: the harness supplies them as finite tables (values of the REAL base objective at the
points the model asked for with `queries`).  The hyper-cube decoder is the scaled converter of
the codec model (`Model/Codec.lean`, C15). -/
import VizierModel.Driver.Util
import VizierModel.Driver.CodecJson
import VizierModel.Model.Experimenter
open Lean VizierModel.Driver VizierModel VizierModel.Exp VizierModel.Driver.CodecJson

def fops : Ops Float :=
  { zero := 0.0, one := 1.0, add := (· + ·), sub := (· - ·), neg := fun x => -x, div := (· / ·),
    le := fun a b => a <= b, beq := fun a b => a == b, ofNat := fun n => n.toFloat }

def hexArr (j : Json) : Except String (List Float) := do
  (← fromJson? (α := Array String) j).toList.mapM floatOfHex

def pvalOfCodec : Codec.PVal Float → PVal Float
  | .dbl x => .num x
  | .int i => .num (Float.ofInt i)
  | .str s => .str s

def pvalOfJson (j : Json) : Except String (PVal Float) := do
  return pvalOfCodec (← valOfJson j)

def jsonOfPVal : PVal Float → Json
  | .num x => Json.mkObj [("f", Json.str (hexOfFloat x))]
  | .str s => Json.mkObj [("s", Json.str s)]

def paramsOfJson (j : Json) : Except String (Params Float) := do
  let a ← fromJson? (α := Array Json) j
  a.toList.mapM fun e => do
    let pr ← fromJson? (α := Array Json) e
    if pr.size ≠ 2 then throw "assignment entry: need [name, value]"
    pure (← fromJson? (α := String) pr[0]!, ← pvalOfJson pr[1]!)

def jsonOfParams (x : Params Float) : Json :=
  toJson (x.map fun e => toJson #[Json.str e.1, jsonOfPVal e.2]).toArray

def goalOfStr : String → Except String Goal
  | "MAX" => pure .maximize
  | "MIN" => pure .minimize
  | s => throw s!"bad goal {s}"

def strOfGoal : Goal → String
  | .maximize => "MAX"
  | .minimize => "MIN"

def pspecOfJson (j : Json) : Except String (PSpec Float) := do
  let name ← getStr j "name"
  let t ← getStr j "t"
  let dom ← match t with
    | "D" => do pure (Dom.double (← floatOfHex (← getStr j "lo")) (← floatOfHex (← getStr j "hi")))
    | "I" => do pure (Dom.integer (← floatOfHex (← getStr j "lo")) (← floatOfHex (← getStr j "hi")))
    | "S" => do pure (Dom.discrete (← hexArr (← j.getObjVal? "vals")))
    | "C" => do pure (Dom.categorical (← fromJson? (α := Array String) (← j.getObjVal? "cats")).toList)
    | _ => throw s!"bad param type {t}"
  let conds ← match j.getObjVal? "conds" with
    | .ok (.arr cs) => cs.toList.mapM fun c => do
        let pr ← fromJson? (α := Array Json) c
        pure (← fromJson? (α := String) pr[0]!, ← fromJson? (α := Nat) pr[1]!)
    | _ => pure []
  return { name := name, dom := dom, conds := conds }

def jsonOfPSpec (p : PSpec Float) : Json :=
  let base := [("name", Json.str p.name),
    ("conds", toJson (p.conds.map fun c => toJson #[Json.str c.1, toJson c.2]).toArray)]
  Json.mkObj (base ++ match p.dom with
    | .double lo hi => [("t", Json.str "D"), ("lo", Json.str (hexOfFloat lo)), ("hi", Json.str (hexOfFloat hi))]
    | .integer lo hi => [("t", Json.str "I"), ("lo", Json.str (hexOfFloat lo)), ("hi", Json.str (hexOfFloat hi))]
    | .discrete vs => [("t", Json.str "S"), ("vals", toJson (vs.map hexOfFloat).toArray)]
    | .categorical cs => [("t", Json.str "C"), ("cats", toJson cs.toArray)])

def metricsOfJson (j : Json) : Except String (Metrics Float) := do
  let a ← fromJson? (α := Array Json) j
  a.toList.mapM fun e => do
    let pr ← fromJson? (α := Array Json) e
    pure (← fromJson? (α := String) pr[0]!, ← floatOfHex (← fromJson? (α := String) pr[1]!))

def jsonOfMetrics (ms : Metrics Float) : Json :=
  toJson (ms.map fun e => toJson #[Json.str e.1, Json.str (hexOfFloat e.2)]).toArray

/-- table lookups compare parameter assignments as maps, numbers up to 1e-9 relative -/
def close (a b : Float) : Bool :=
  a == b || (a - b).abs <= 1e-9 * (max 1.0 (max a.abs b.abs))

def pvalClose : PVal Float → PVal Float → Bool
  | .num a, .num b => close a b
  | .str a, .str b => a == b
  | _, _ => false

def paramsClose (x y : Params Float) : Bool :=
  x.length == y.length && x.all (fun kv => match lookupS kv.1 y with
    | some v => pvalClose kv.2 v
    | none => false)

def nan : Float := 0.0 / 0.0

partial def stOfJson (j : Json) : Except String St := do
  let n ← getNat j "n"
  let kids ← (← getArr j "kids").toList.mapM stOfJson
  return .node n kids

partial def jsonOfSt : St → Json
  | .node n kids => Json.mkObj [("n", toJson n), ("kids", toJson (kids.map jsonOfSt).toArray)]

def listGet (l : List Float) (k : Nat) (d : Float) : Float := (l[k]?).getD d

mutual
partial def exOfJson (j : Json) : Except String (Ex Float) := do
  let k ← getStr j "k"
  match k with
  | "base" =>
    let params ← (← getArr j "params").toList.mapM pspecOfJson
    let metrics ← (← getArr j "metrics").toList.mapM fun m => do
      let pr ← fromJson? (α := Array String) m
      pure (pr[0]!, ← goalOfStr pr[1]!)
    let table ← ((j.getObjValAs? (Array Json) "table").toOption.getD #[]).toList.mapM fun e => do
      let x ← paramsOfJson (← e.getObjVal? "x")
      let ms ← metricsOfJson (← e.getObjVal? "ms")
      let inf ← getBool e "inf"
      pure (x, if inf then Outcome.infeasible ms else Outcome.metrics ms)
    let dflt : Outcome Float := .metrics (metrics.map fun m => (m.1, nan))
    return .base { params := params, metrics := metrics }
      (fun x => ((table.find? (fun e => paramsClose e.1 x)).map (·.2)).getD dflt)
  | "shift" =>
    return .shift (← hexArr (← j.getObjVal? "s")) (← getBool j "restrict") (← exOfJson (← j.getObjVal? "e"))
  | "signflip" => return .signFlip (← getBool j "objOnly") (← exOfJson (← j.getObjVal? "e"))
  | "permute" =>
    let perm ← (← getArr j "perm").toList.mapM fun e => do
      let pr ← fromJson? (α := Array Json) e
      let name ← fromJson? (α := String) pr[0]!
      let d ← (← fromJson? (α := Array Json) pr[1]!).toList.mapM fun kv => do
        let a ← fromJson? (α := Array Json) kv
        pure (← pvalOfJson a[0]!, ← pvalOfJson a[1]!)
      pure (name, d)
    return .permute perm (← exOfJson (← j.getObjVal? "e"))
  | "discretize" =>
    let disc ← (← getArr j "disc").toList.mapM fun e => do
      let pr ← fromJson? (α := Array Json) e
      let name ← fromJson? (α := String) pr[0]!
      let vs ← (← fromJson? (α := Array Json) pr[1]!).toList.mapM pvalOfJson
      pure (name, vs)
    let ptab ← (← getArr j "parse").toList.mapM fun e => do
      let pr ← fromJson? (α := Array String) e
      pure (pr[0]!, ← floatOfHex pr[1]!)
    return .discretize disc (fun s => (lookupS s ptab).getD nan) (← exOfJson (← j.getObjVal? "e"))
  | "hypercube" =>
    let ps ← (← getArr j "codec").toList.mapM paramOfJson
    let clipScaled := (j.getObjValAs? Bool "clipScaled").toOption.getD false
    let stableRlog := (j.getObjValAs? Bool "stableRlog").toOption.getD false
    let cfg : Codec.Cfg := {
      scale := true, onehot := true, padOovs := false, shouldClip := true
      maxDiscrete := some 0, clipScaled := clipScaled, stableRlog := stableRlog }
    let dec := fun (fs : List Float) =>
      match Codec.decode (Codec.floatOps false false) cfg ps (fs.map Codec.Feat.num) with
      | .ok a => a.map (fun kv => (kv.1, pvalOfCodec kv.2))
      | .error _ => []
    return .hypercube (← getBool j "keepInf") (← getNat j "dim") dec (← exOfJson (← j.getObjVal? "e"))
  | "normalize" =>
    return .normalize (← metricsOfJson (← j.getObjVal? "mu")) (← metricsOfJson (← j.getObjVal? "sigma"))
      (← exOfJson (← j.getObjVal? "e"))
  | "noisy" =>
    let m ← hexArr (← j.getObjVal? "m")
    let a ← hexArr (← j.getObjVal? "a")
    return .noisy (fun k v => v * listGet m k 1.0 + listGet a k 0.0) (← exOfJson (← j.getObjVal? "e"))
  | "sparse" =>
    let extra ← (← getArr j "extra").toList.mapM pspecOfJson
    return .sparse (← getStr j "pre") extra (← exOfJson (← j.getObjVal? "e"))
  | "switch" =>
    let toIdx : Option (PVal Float) → Nat := fun v => match v with
      | some (.num x) => x.toUInt64.toNat
      | _ => 1000000
    return .switch (← getStr j "sw") (← getStr j "metric") toIdx (← getBool j "keepInf")
      (← kidsOfJson (← getArr j "kids").toList)
  | "infeasible" =>
    let mode ← getStr j "mode"
    let e ← exOfJson (← j.getObjVal? "e")
    if mode == "table" then
      let table ← (← getArr j "table").toList.mapM fun r => do
        pure (← paramsOfJson (← r.getObjVal? "x"), ← getBool r "r")
      return .infeasibleIf (fun x => ((table.find? (fun r => paramsClose r.1 x)).map (·.2)).getD false) nan e
    else
      let name ← getStr j "param"
      let plo ← floatOfHex (← getStr j "plo")
      let phi ← floatOfHex (← getStr j "phi")
      let lo ← floatOfHex (← getStr j "lo")
      let hi ← floatOfHex (← getStr j "hi")
      return .infeasibleIf (fun x =>
        let p := (asNum fops (lookupS name x) - plo) / (phi - plo)
        lo <= p && p <= hi) nan e
  | "multi" => return .multi (← getBool j "keepInf") (← kidsOfJson (← getArr j "kids").toList)
  | _ => throw s!"unknown experimenter kind {k}"
partial def kidsOfJson : List Json → Except String (ExList Float)
  | [] => pure .nil
  | j :: rest => do
    let pr ← fromJson? (α := Array Json) j
    let name ← fromJson? (α := String) pr[0]!
    return .cons name (← exOfJson pr[1]!) (← kidsOfJson rest)
end

def jsonOfTrial (t : Trial Float) : Json :=
  Json.mkObj [("params", jsonOfParams t.params),
    ("final", match t.final with | none => Json.null | some ms => jsonOfMetrics ms),
    ("inf", toJson t.infeasible)]

def handle (j : Json) : Except String Json := do
  let op ← getStr j "op"
  let e ← exOfJson (← j.getObjVal? "ex")
  match op with
  | "problem" =>
    let p := problem fops e
    return Json.mkObj [("params", toJson (p.params.map jsonOfPSpec).toArray),
      ("metrics", toJson (p.metrics.map fun m => toJson #[m.1, strOfGoal m.2]).toArray),
      ("outNames", toJson (outNames fops e).toArray)]
  | "queries" =>
    let pts ← (← getArr j "points").toList.mapM paramsOfJson
    let qs := pts.map fun x => toJson ((queries fops e x).map fun q =>
      Json.mkObj [("path", toJson q.1.toArray), ("base", toJson q.2.1), ("x", jsonOfParams q.2.2)]).toArray
    return Json.mkObj [("q", toJson qs.toArray)]
  | "evaluate" =>
    let mut st ← stOfJson (← j.getObjVal? "st")
    let mut outs : Array Json := #[]
    for b in (← getArr j "batches") do
      let ts := (← (← fromJson? (α := Array Json) b).toList.mapM paramsOfJson).map Trial.fresh
      let r := evaluate fops e st ts
      st := r.2
      outs := outs.push (toJson (r.1.map jsonOfTrial).toArray)
    return Json.mkObj [("batches", toJson outs), ("st", jsonOfSt st)]
  | _ => throw s!"unknown op {op}"

def main : IO Unit := serve handle
