import VizierModel.Driver.Util
import VizierModel.Model.Loader
open Lean VizierModel.Driver VizierModel VizierModel.Loader

def statusOfString : String → Except String Status
  | "requested" => pure .requested
  | "active" => pure .active
  | "stopping" => pure .stopping
  | "completed" => pure .completed
  | s => throw s!"bad status {s}"

def stringOfStatus : Status → String
  | .requested => "requested"
  | .active => "active"
  | .stopping => "stopping"
  | .completed => "completed"

def jsonOfTrial (t : Trial) : Json := toJson #[toJson t.id, toJson t.uid, toJson (stringOfStatus t.st)]
def jsonOfKey (t : Trial) : Json := toJson #[t.id, t.uid]
def jsonOfEnv (env : Env) : Json := toJson (env.map jsonOfTrial).toArray

def trialOfJson (j : Json) : Except String Trial := do
  let a ← fromJson? (α := Array Json) j
  if a.size != 3 then throw "trial: need [id, uid, status]"
  return { id := ← fromJson? a[0]!, uid := ← fromJson? a[1]!, st := ← statusOfString (← fromJson? a[2]!) }

/-- delivered trials travel as `[id, uid]`; the status is what the argument class enforces
(`CompletedTrials` / `ActiveTrials` raise on anything else) -/
def keysOfJson (st : Status) (j : Json) : Except String (List Trial) := do
  let a ← fromJson? (α := Array (Array Nat)) j
  a.toList.mapM fun k => if k.size != 2 then throw "key: need [id, uid]" else pure { id := k[0]!, uid := k[1]!, st := st }

def opOfJson (s : State) (j : Json) : Except String Op := do
  let k ← getStr j "k"
  match k with
  | "create" => return .create (← statusOfString (← getStr j "st"))
  | "set" => return .setStatus (← getNat j "id") (← statusOfString (← getStr j "st"))
  | "delete" => return .delete (← getNat j "id")
  | "update" =>
    let m ← getStr j "mode"
    match m with
    | "live" => return .update .live
    | "lost" => return .update .lost
    | "stateless" => return .update .stateless
    | "restored" =>
      -- the JSON list found in the real study metadata when given; otherwise some other enumeration
      match j.getObjValAs? (Array Nat) "stored" with
      | .ok a => return .update (.restored a.toList)
      | .error _ => return .update (.restored s.inc.reverse)
    | _ => throw s!"bad mode {m}"
  | _ => throw s!"bad op kind {k}"

def jsonOfEntry (e : Entry) : Json :=
  Json.mkObj [("inst", toJson e.inst), ("env", jsonOfEnv e.env),
    ("completed", toJson (e.completed.map jsonOfKey).toArray), ("active", toJson (e.active.map jsonOfKey).toArray)]

def entryOfJson (j : Json) : Except String Entry := do
  let env ← (← getArr j "env").toList.mapM trialOfJson
  return { inst := ← getNat j "inst", env := env,
           completed := ← keysOfJson .completed (← j.getObjVal? "completed"),
           active := ← keysOfJson .active (← j.getObjVal? "active") }

/-- per entry (chronological): is its completed list exact?  `log` newest first -/
def exactFlags : List Entry → List Bool
  | [] => []
  | e :: prev => exactFlags prev ++ [decide (e.completed = expected prev e.inst e.env)]

def expectedLists : List Entry → List Json
  | [] => []
  | e :: prev => expectedLists prev ++ [toJson ((expected prev e.inst e.env).map jsonOfKey).toArray]

def judgeJson (log : List Entry) : List (String × Json) :=
  [("updateExact", toJson (decide (UpdateExact log))),
   ("activeExact", toJson (decide (ActiveExact log))),
   ("exactlyOnce", toJson (decide (ExactlyOnce log))),
   ("deliveredOnce", toJson (decide (DeliveredOnce log))),
   ("covered", toJson (decide (Covered log))),
   ("snapshotsWF", toJson (decide (SnapshotsWF log))),
   ("exactFlags", toJson (exactFlags log).toArray),
   ("activeFlags", toJson (log.reverse.map fun e => decide (e.active = e.env.filter fun t => decide (t.st = .active))).toArray),
   ("expected", toJson (expectedLists log).toArray)]

def runHistory (cfg : Cfg) (ops : List Json) : Except String Json := do
  let mut s : State := .init
  let mut wf := true
  let mut top := true
  let mut fresh := true
  let mut envs : Array Json := #[]
  let mut incs : Array Json := #[]
  for o in ops do
    let op ← opOfJson s o
    wf := wf && okWF s op
    top := top && okTop s op
    fresh := fresh && okFresh s op
    s := step cfg s op
    envs := envs.push (jsonOfEnv s.env)
    incs := incs.push (toJson s.inc.toArray)
  return Json.mkObj ([("log", toJson (s.log.reverse.map jsonOfEntry).toArray), ("envs", toJson envs), ("incs", toJson incs),
    ("wf", toJson wf), ("top", toJson top), ("fresh", toJson fresh)] ++ judgeJson s.log)

def jsonOfOp : Op → Json
  | .create st => Json.mkObj [("k", "create"), ("st", toJson (stringOfStatus st))]
  | .setStatus id st => Json.mkObj [("k", "set"), ("id", toJson id), ("st", toJson (stringOfStatus st))]
  | .delete id => Json.mkObj [("k", "delete"), ("id", toJson id)]
  | .update .live => Json.mkObj [("k", "update"), ("mode", "live")]
  | .update (.restored l) => Json.mkObj [("k", "update"), ("mode", "restored"), ("stored", toJson l.toArray)]
  | .update .lost => Json.mkObj [("k", "update"), ("mode", "lost")]
  | .update .stateless => Json.mkObj [("k", "update"), ("mode", "stateless")]

def handle (j : Json) : Except String Json := do
  let op ← getStr j "op"
  match op with
  | "run" =>
    let sc ← getBool j "shortcut"
    runHistory ⟨sc⟩ (← getArr j "ops").toList
  | "judge" =>
    let entries ← (← getArr j "log").toList.mapM entryOfJson
    return Json.mkObj (judgeJson entries.reverse)
  | "filter" =>
    -- the full GetTrials filter on a given table
    let env ← (← getArr j "env").toList.mapM trialOfJson
    let optNat := fun (k : String) => match j.getObjValAs? Nat k with | .ok n => some n | .error _ => none
    let ids : Option (List Nat) := match j.getObjValAs? (Array Nat) "ids" with | .ok a => some a.toList | .error _ => none
    let st : Option Status ← match j.getObjValAs? String "st" with
      | .ok s => (do return some (← statusOfString s))
      | .error _ => pure none
    return Json.mkObj [("ids", toJson ((getTrialsF env ids (optNat "min") (optNat "max") st).map (·.id)).toArray)]
  | "witness" =>
    let n ← getStr j "name"
    match n with
    | "shortcut" => return Json.mkObj [("ops", toJson (witnessShortcut.map jsonOfOp).toArray)]
    | "idreuse" => return Json.mkObj [("ops", toJson (witnessIdReuse.map jsonOfOp).toArray)]
    | _ => throw s!"unknown witness {n}"
  | _ => throw s!"unknown op {op}"

def main : IO Unit := serve handle
