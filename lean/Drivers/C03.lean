import VizierModel.Driver.Util
import VizierModel.Driver.CodecJson
import VizierModel.Model.Sampling
open Lean VizierModel.Driver VizierModel VizierModel.Codec VizierModel.Sampling VizierModel.Driver.CodecJson

/-- Python's `round` on a float: correctly rounded, ties to even -/
def pyRound (x : Float) : Int :=
  let f := x.floor
  let d := x - f
  let fi : Int := f.toInt64.toInt
  if d < 0.5 then fi else if d > 0.5 then fi + 1 else (if fi % 2 == 0 then fi else fi + 1)

def pyFloor (x : Float) : Int := x.floor.toInt64.toInt

def optVal : Option (PVal Float) → Json
  | some v => jsonOfVal v
  | none => Json.null

def optAssign : Option (List (String × PVal Float)) → Json
  | some a => jsonOfAssign a
  | none => Json.null

def handle (j : Json) : Except String Json := do
  let op ← getStr j "op"
  let ops := floatOps false false
  match op with
  | "judge" =>
    -- the property predicate on REAL suggestions
    let ps ← (← getArr j "params").toList.mapM paramOfJson
    let assigns ← getArr j "assigns"
    let mut ins : Array Json := #[]
    for asg in assigns do
      let a ← assignOfJson asg
      ins := ins.push (toJson (inSpace ops ps a))
    return Json.mkObj [("ins", toJson ins)]
  | "grid" =>
    let ps ← (← getArr j "params").toList.mapM paramOfJson
    let cfg ← cfgOfJson (← j.getObjVal? "cfg")
    let res ← getNat j "res"
    let idxs ← (← getArr j "indices").toList.mapM (fun x => fromJson? (α := Nat) x)
    -- DefaultModelInputConverter(pc, scale=True): float32 converter, float64 grid scalars
    let gops := floatOps true false
    let grids := ps.map fun p => (p.name, gridValues gops cfg res p)
    let sugg := idxs.map fun i => optAssign (gridPoint grids i)
    return Json.mkObj [("suggestions", toJson sugg.toArray),
      ("sizes", toJson (grids.map (·.2.length)).toArray)]
  | "default" =>
    let ps ← (← getArr j "params").toList.mapM paramOfJson
    let ds ← (← getArr j "defaults").toList.mapM (fun x => match x with
      | .null => pure none
      | v => do pure (some (← valOfJson v)))
    let vd ← getBool j "validateDouble"
    match defaultParameters ops vd (ps.zip ds) with
    | .ok a => return Json.mkObj [("ok", jsonOfAssign a)]
    | .error e => return Json.mkObj [("err", Json.str e)]
  | "halton" =>
    let hs ← (← getArr j "hs").toList.mapM (fun x => do floatOfHex (← fromJson? (α := String) x))
    let n ← getInt j "n"
    return Json.mkObj [("idx", toJson (hs.map fun h => haltonIndex ops pyFloor h 0 n 1).toArray)]
  | "sample" =>
    let ps ← (← getArr j "params").toList.mapM paramOfJson
    let us ← (← getArr j "us").toList.mapM (fun x => do floatOfHex (← fromJson? (α := String) x))
    let ks ← (← getArr j "ks").toList.mapM (fun x => fromJson? (α := Nat) x)
    return Json.mkObj [("assign", optAssign (sampleParameters ops pyRound ps us ks))]
  | "mutate" =>
    let xs ← (← getArr j "xs").toList.mapM (fun x => do floatOfHex (← fromJson? (α := String) x))
    let ds ← (← getArr j "deltas").toList.mapM (fun x => do floatOfHex (← fromJson? (α := String) x))
    return Json.mkObj [("ys", toJson ((xs.zip ds).map fun (x, d) => hexOfFloat (linfMutate ops x d)).toArray)]
  | "eagle" =>
    let p ← paramOfJson (← j.getObjVal? "param")
    let ws ← (← getArr j "ws").toList.mapM (fun x => do floatOfHex (← fromJson? (α := String) x))
    return Json.mkObj [("combine", toJson (ws.map fun w => optVal (eagleCombine ops pyRound p.dom w)).toArray),
      ("perturb", toJson (ws.map fun w => optVal (eaglePerturb ops pyRound p.dom w)).toArray)]
  | _ => throw s!"unknown op {op}"

def main : IO Unit := serve handle
