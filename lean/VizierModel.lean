-- Root of the `VizierModel` library: every model, lemma and property file.
import VizierModel.Lemmas.Namespace
