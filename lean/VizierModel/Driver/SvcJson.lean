/- JSON codec for the service model (requests in, responses / snapshots out). Core Lean only. -/
import VizierModel.Driver.Util
import VizierModel.Model.Service
open Lean

namespace VizierModel.Driver.SvcJson
open VizierModel VizierModel.Svc VizierModel.Driver

def tstateStr : TState → String
  | .requested => "REQUESTED" | .active => "ACTIVE" | .stopping => "STOPPING"
  | .succeeded => "SUCCEEDED" | .infeasible => "INFEASIBLE"

def tstateOf : String → Except String TState
  | "REQUESTED" => pure .requested | "ACTIVE" => pure .active | "STOPPING" => pure .stopping
  | "SUCCEEDED" => pure .succeeded | "INFEASIBLE" => pure .infeasible
  | "STATE_UNSPECIFIED" => pure .requested      -- only CreateTrial requests carry it; treated like any non-SUCCEEDED state
  | s => throw s!"bad trial state {s}"

def sstateStr : SState → String
  | .unspecified => "STATE_UNSPECIFIED" | .active => "ACTIVE" | .inactive => "INACTIVE" | .completed => "COMPLETED"

def sstateOf : String → Except String SState
  | "STATE_UNSPECIFIED" => pure .unspecified | "ACTIVE" => pure .active | "INACTIVE" => pure .inactive
  | "COMPLETED" => pure .completed | s => throw s!"bad study state {s}"

def kvOfJson (j : Json) : Except String (K × String) := do
  let a ← fromJson? (α := Array String) j
  if a.size != 3 then throw "kv: need [ns,key,val]"
  return ((a[0]!, a[1]!), a[2]!)

def jsonOfKv (e : K × String) : Json := toJson #[e.1.1, e.1.2, e.2]

def mdOfJson (j : Json) : Except String MD := do
  let a ← fromJson? (α := Array Json) j
  a.toList.mapM kvOfJson

def jsonOfMd (m : MD) : Json := toJson (m.map jsonOfKv).toArray

def measOfJson (j : Json) : Except String Meas := do
  let a ← fromJson? (α := Array Json) j
  if a.size != 2 then throw "meas: need [tok,hasMetrics]"
  return { tok := ← fromJson? a[0]!, hasMetrics := ← fromJson? a[1]! }

def jsonOfMeas (m : Meas) : Json := toJson #[toJson m.tok, toJson m.hasMetrics]

def optMeasOfJson (j : Json) : Except String (Option Meas) :=
  match j with
  | .null => pure none
  | _ => some <$> measOfJson j

def updOfJson (j : Json) : Except String (Meta.Upd K String) := do
  let t ← j.getObjVal? "t"
  let tgt ← match t with
    | .null => pure Meta.Target.study
    | _ => do let n ← fromJson? (α := Nat) t; pure (Meta.Target.trial n)
  let kv ← kvOfJson (← j.getObjVal? "kv")
  return { tgt := tgt, k := kv.1, v := kv.2 }

def updsOfJson (j : Json) : Except String (List (Meta.Upd K String)) := do
  let a ← fromJson? (α := Array Json) j
  a.toList.mapM updOfJson

def trialOfJson (j : Json) : Except String Trial := do
  let meas ← (← getArr j "meas").toList.mapM measOfJson
  return { id := (j.getObjValAs? Nat "id").toOption.getD 0,
           state := ← tstateOf (← getStr j "state"),
           client := (j.getObjValAs? String "client").toOption.getD "",
           params := ← getNat j "params",
           meas := meas,
           final := ← optMeasOfJson ((j.getObjVal? "final").toOption.getD .null),
           reason := (j.getObjValAs? String "reason").toOption.getD "",
           md := ← mdOfJson (← j.getObjVal? "md") }

def jsonOfTrial (t : Trial) : Json :=
  Json.mkObj [("id", toJson t.id), ("state", tstateStr t.state), ("client", t.client), ("params", toJson t.params),
    ("meas", toJson (t.meas.map jsonOfMeas).toArray),
    ("final", match t.final with | some m => jsonOfMeas m | none => .null),
    ("reason", t.reason), ("md", jsonOfMd t.md)]

def jsonOfResult : OpResult → Json
  | .none => .null
  | .error => "error"
  | .trials ids => toJson ids.toArray

def jsonOfOp (o : SugOp) : Json :=
  Json.mkObj [("client", o.client), ("num", toJson o.num), ("done", toJson o.done), ("result", jsonOfResult o.result)]

def jsonOfEs (o : EsOp) : Json :=
  Json.mkObj [("trial", toJson o.trialId), ("active", toJson o.active), ("stop", toJson o.shouldStop)]

def jsonOfStudyHead (s : Study) : Json :=
  Json.mkObj [("owner", s.owner), ("sid", s.sid), ("state", sstateStr s.state), ("spec", toJson s.spec), ("md", jsonOfMd s.md)]

def jsonOfStudy (s : Study) : Json :=
  Json.mkObj [("owner", s.owner), ("sid", s.sid), ("state", sstateStr s.state), ("spec", toJson s.spec), ("md", jsonOfMd s.md),
    ("trials", toJson (s.trials.map jsonOfTrial).toArray),
    ("ops", toJson (s.sugOps.map jsonOfOp).toArray),
    ("es", toJson (s.esOps.map jsonOfEs).toArray)]

def jsonOfDB (db : DB) : Json :=
  Json.mkObj [("owners", toJson db.owners.toArray), ("studies", toJson (db.studies.map jsonOfStudy).toArray)]

def codeStr : Code → String
  | .failedPrecondition => "FAILED_PRECONDITION" | .notFound => "NOT_FOUND" | .alreadyExists => "ALREADY_EXISTS"
  | .unknown => "UNKNOWN" | .runtimeError => "AlgorithmError" | .indexError => "IndexError"
  | .typeError => "TypeError" | .valueError => "ValueError"

def jsonOfResp : Resp → Json
  | .study s => Json.mkObj [("k", "study"), ("v", jsonOfStudyHead s)]
  | .studies l => Json.mkObj [("k", "studies"), ("v", toJson (l.map jsonOfStudyHead).toArray)]
  | .trial t => Json.mkObj [("k", "trial"), ("v", jsonOfTrial t)]
  | .trials l => Json.mkObj [("k", "trials"), ("v", toJson (l.map jsonOfTrial).toArray)]
  | .op _ o handed => Json.mkObj [("k", "op"), ("v", jsonOfOp o), ("handed", toJson (handed.map jsonOfTrial).toArray)]
  | .empty => Json.mkObj [("k", "empty")]
  | .earlyStop b => Json.mkObj [("k", "es"), ("v", toJson b)]
  | .mdOk => Json.mkObj [("k", "mdOk")]
  | .mdError => Json.mkObj [("k", "mdError")]
  | .err c v => Json.mkObj [("k", "err"), ("code", codeStr c), ("via", match v with | .handled => "handled" | .raw => "raw")]

def suggOfJson (j : Json) : Except String Sugg := do
  return { params := ← getNat j "params", md := ← mdOfJson (← j.getObjVal? "md") }

def algOfJson (j : Json) : Except String AlgOutcome := do
  match ← getStr j "kind" with
  | "ok" =>
    let l ← (← getArr j "sugg").toList.mapM suggOfJson
    let d ← updsOfJson ((j.getObjVal? "delta").toOption.getD (Json.arr #[]))
    return .suggestions l d
  | "rpc" => return .raisesRpc
  | "other" => return .raisesOther
  | k => throw s!"bad alg kind {k}"

def esOfJson (j : Json) : Except String EsOutcome := do
  match ← getStr j "kind" with
  | "ok" =>
    let ds ← (← getArr j "decisions").toList.mapM fun d => do
      let a ← fromJson? (α := Array Json) d
      if a.size != 2 then throw "decision: [id, stop]"
      let id ← fromJson? (α := Nat) a[0]!
      let st ← fromJson? (α := Bool) a[1]!
      pure (id, st)
    let d ← updsOfJson ((j.getObjVal? "delta").toOption.getD (Json.arr #[]))
    return .decisions ds d
  | "raise" => return .raises
  | k => throw s!"bad es kind {k}"

def reqOfJson (j : Json) : Except String Req := do
  let op ← getStr j "op"
  let o := (j.getObjValAs? String "owner").toOption.getD "o"
  let s := (j.getObjValAs? String "sid").toOption.getD "s"
  match op with
  | "createStudy" =>
    return .createStudy o (← getStr j "display") ((j.getObjValAs? Bool "nameSet").toOption.getD false)
      (← sstateOf ((j.getObjValAs? String "state").toOption.getD "STATE_UNSPECIFIED"))
      ((j.getObjValAs? Nat "spec").toOption.getD 0) (← mdOfJson ((j.getObjVal? "md").toOption.getD (Json.arr #[])))
  | "getStudy" => return .getStudy o s
  | "listStudies" => return .listStudies o
  | "deleteStudy" => return .deleteStudy o s
  | "setStudyState" => return .setStudyState o s (← sstateOf (← getStr j "state"))
  | "createTrial" => return .createTrial o s (← trialOfJson (← j.getObjVal? "trial"))
  | "suggest" => return .suggest o s (← getStr j "client") (← getNat j "count") (← algOfJson (← j.getObjVal? "alg"))
  | "getOperation" => return .getOperation o s (← getStr j "client") (← getNat j "num")
  | "getTrial" => return .getTrial o s (← getNat j "id")
  | "listTrials" => return .listTrials o s
  | "addMeasurement" => return .addMeasurement o s (← getNat j "id") (← measOfJson (← j.getObjVal? "m"))
  | "complete" =>
    return .complete o s (← getNat j "id") (← optMeasOfJson ((j.getObjVal? "final").toOption.getD .null))
      ((j.getObjValAs? Bool "infeasible").toOption.getD false) ((j.getObjValAs? String "reason").toOption.getD "")
  | "stop" => return .stop o s (← getNat j "id")
  | "deleteTrial" => return .deleteTrial o s (← getNat j "id")
  | "checkEarlyStop" => return .checkEarlyStop o s (← getNat j "id") (← esOfJson (← j.getObjVal? "es"))
  | "updateMetadata" => return .updateMetadata o s (← updsOfJson (← j.getObjVal? "us"))
  | "listOptimal" => return .listOptimal o s
  | _ => throw s!"unknown request {op}"

def resultOfJson (j : Json) : Except String OpResult :=
  match j with
  | .null => pure .none
  | .str "error" => pure .error
  | _ => do let a ← fromJson? (α := Array Nat) j; pure (.trials a.toList)

def opOfJson (j : Json) : Except String SugOp := do
  return { client := ← getStr j "client", num := ← getNat j "num", done := ← getBool j "done",
           result := ← resultOfJson ((j.getObjVal? "result").toOption.getD .null) }

def esOpOfJson (j : Json) : Except String EsOp := do
  return { trialId := ← getNat j "trial", active := ← getBool j "active", shouldStop := ← getBool j "stop" }

def studyOfJson (j : Json) : Except String Study := do
  return { owner := ← getStr j "owner", sid := ← getStr j "sid", state := ← sstateOf (← getStr j "state"),
           spec := ← getNat j "spec", md := ← mdOfJson (← j.getObjVal? "md"),
           trials := ← (← getArr j "trials").toList.mapM trialOfJson,
           sugOps := ← (← getArr j "ops").toList.mapM opOfJson,
           esOps := ← (← getArr j "es").toList.mapM esOpOfJson }

def dbOfJson (j : Json) : Except String DB := do
  return { owners := (← fromJson? (α := Array String) (← j.getObjVal? "owners")).toList,
           studies := ← (← getArr j "studies").toList.mapM studyOfJson, orphans := [] }

def cfgOfJson (j : Json) : Cfg :=
  let b (k : String) (d : Bool) := (j.getObjValAs? Bool k).toOption.getD d
  { suggestCatchesAll := b "suggestCatchesAll" true, shortDeliveryOk := b "shortDeliveryOk" true,
    deleteCascadesOps := b "deleteCascadesOps" true, metadataAtomic := b "metadataAtomic" true,
    esRecycle := b "esRecycle" true, esFailureFinishesOp := b "esFailureFinishesOp" true,
    createKeepsInfeasible := b "createKeepsInfeasible" true,
    esAnswerFinishesOp := b "esAnswerFinishesOp" true,
    resumesAbandonedOp := b "resumesAbandonedOp" true,
    esResumesActive := b "esResumesActive" true }

end VizierModel.Driver.SvcJson
