/- JSON codec for the search-space model, shared by the C16 and C17 drivers (core Lean only). -/
import VizierModel.Driver.Util
import VizierModel.Model.Space
open Lean

namespace VizierModel.Driver
open VizierModel.Space

/-- "p/q" or "p" -/
def ratOfString (s : String) : Except String Rat :=
  match s.splitOn "/" with
  | [p] => match p.toInt? with
    | some n => .ok (n : Rat)
    | none => .error s!"bad rational {s}"
  | [p, q] => match p.toInt?, q.toNat? with
    | some n, some d => if d == 0 then .error "zero denominator" else .ok ((n : Rat) / (d : Rat))
    | _, _ => .error s!"bad rational {s}"
  | _ => .error s!"bad rational {s}"

def stringOfRat (q : Rat) : String := if q.den == 1 then toString q.num else s!"{q.num}/{q.den}"

/-- `{"s":..} | {"i":"123"} | {"f":"p/q"|"nan"|"inf"|"-inf"} | {"b":bool}` -/
def pvalOfJson (j : Json) : Except String PVal := do
  if let .ok s := j.getObjValAs? String "s" then return .str s
  if let .ok s := j.getObjValAs? String "i" then
    match s.toInt? with
    | some i => return .int i
    | none => throw s!"bad int {s}"
  if let .ok s := j.getObjValAs? String "f" then
    if s == "nan" then return .flt .nan
    if s == "inf" then return .flt .pinf
    if s == "-inf" then return .flt .ninf
    return .flt (.fin (← ratOfString s))
  if let .ok b := j.getObjValAs? Bool "b" then return .bool b
  throw s!"bad value {j.compress}"

def jsonOfPVal : PVal → Json
  | .str s => Json.mkObj [("s", Json.str s)]
  | .int i => Json.mkObj [("i", Json.str (toString i))]
  | .flt .nan => Json.mkObj [("f", "nan")]
  | .flt .pinf => Json.mkObj [("f", "inf")]
  | .flt .ninf => Json.mkObj [("f", "-inf")]
  | .flt (.fin q) => Json.mkObj [("f", Json.str (stringOfRat q))]
  | .bool b => Json.mkObj [("b", Json.bool b)]

def optPVal (j : Json) (k : String) : Except String (Option PVal) :=
  match j.getObjVal? k with
  | .ok .null => .ok none
  | .ok v => (pvalOfJson v).map some
  | .error _ => .ok none

def pvalList (j : Json) : Except String (List PVal) := do
  let a ← fromJson? (α := Array Json) j
  a.toList.mapM pvalOfJson

def optPValList (j : Json) (k : String) : Except String (Option (List PVal)) :=
  match j.getObjVal? k with
  | .ok .null => .ok none
  | .ok v => (pvalList v).map some
  | .error _ => .ok none

def ptypeOfString : String → Except String PType
  | "DOUBLE" => .ok .double | "INTEGER" => .ok .integer | "CATEGORICAL" => .ok .categorical
  | "DISCRETE" => .ok .discrete | "CUSTOM" => .ok .custom | s => .error s!"bad type {s}"
def stringOfPType : PType → String
  | .double => "DOUBLE" | .integer => "INTEGER" | .categorical => "CATEGORICAL"
  | .discrete => "DISCRETE" | .custom => "CUSTOM"
def extOfString : String → Except String ExtType
  | "INTERNAL" => .ok .internal | "BOOLEAN" => .ok .boolean | "INTEGER" => .ok .integer
  | "FLOAT" => .ok .float | s => .error s!"bad external type {s}"
def stringOfExt : ExtType → String
  | .internal => "INTERNAL" | .boolean => "BOOLEAN" | .integer => "INTEGER" | .float => "FLOAT"

def stringOfErr : Err → String
  | .value => "ValueError" | .type => "TypeError" | .typeOrValue => "TypeOrValueError"
  | .notImplemented => "NotImplementedError" | .runtime => "RuntimeError" | .overflow => "OverflowError"
  | .index => "IndexError" | .key => "KeyError" | .invalidParam => "InvalidParameterError"

partial def jsonOfPC (p : PC) : Json :=
  Json.mkObj [
    ("name", Json.str p.h.name), ("type", Json.str (stringOfPType p.h.type)),
    ("bounds", match p.h.bounds with | some (a, b) => Json.arr #[jsonOfPVal a, jsonOfPVal b] | none => Json.null),
    ("feasible", Json.arr (p.h.feasible.map jsonOfPVal).toArray),
    ("default", match p.h.default with | some d => jsonOfPVal d | none => Json.null),
    ("ext", Json.str (stringOfExt p.h.ext)),
    ("kids", Json.arr (p.kids.map fun kc => Json.arr #[jsonOfPVal kc.1, jsonOfPC kc.2]).toArray)]

/-- a config dumped from the real objects (same shape as `jsonOfPC`) -/
partial def pcOfJson (j : Json) : Except String PC := do
  let name ← getStr j "name"
  let t ← ptypeOfString (← getStr j "type")
  let bounds ← match j.getObjVal? "bounds" with
    | .ok (.arr #[a, b]) => do pure (some ((← pvalOfJson a), (← pvalOfJson b)))
    | _ => pure none
  let feas ← match j.getObjVal? "feasible" with
    | .ok (.arr a) => a.toList.mapM pvalOfJson
    | _ => pure []
  let dflt ← optPVal j "default"
  let ext ← extOfString (← getStr j "ext")
  let kids ← match j.getObjVal? "kids" with
    | .ok (.arr a) => a.toList.mapM fun kc => do
        match kc with
        | .arr #[k, c] => pure ((← pvalOfJson k), (← pcOfJson c))
        | _ => throw "bad kid"
    | _ => pure []
  return .mk { name := name, type := t, bounds := bounds, feasible := feas, default := dflt, ext := ext } kids

def assignOfJson (j : Json) : Except String Assign := do
  let a ← fromJson? (α := Array Json) j
  a.toList.mapM fun e => do
    match e with
    | .arr #[n, v] => pure ((← fromJson? (α := String) n), (← pvalOfJson v))
    | _ => throw "bad assignment entry"

def cfgOfJson (j : Json) : Cfg :=
  { intInfGuard := match j.getObjValAs? Bool "intInfGuard" with | .ok b => b | .error _ => false,
    parentByName := match j.getObjValAs? Bool "parentByName" with | .ok b => b | .error _ => true }

def optInt (j : Json) (k : String) : Except String (Option Int) :=
  match j.getObjVal? k with
  | .ok .null => .ok none
  | .ok v => (fromJson? (α := Int) v).map some
  | .error _ => .ok none

/-- Build a config from a builder-call description (recursively: children are attached
with `_add_children` semantics).  `{"call": "float"|"int"|"discrete"|"categorical"|"bool"|
"custom"|"factory", ...args, "children": [[values, node], ...]}` -/
partial def buildNode (cfg : Cfg) (j : Json) : Except String (Except Err PC) := do
  let call ← getStr j "call"
  let name ← getStr j "name"
  let dflt ← optPVal j "default"
  let index ← optInt j "index"
  let kidsJ := match j.getObjVal? "children" with | .ok (.arr a) => a.toList | _ => []
  -- children are evaluated first (they are arguments of the call that attaches them)
  let mut kids : List (List PVal × PC) := []
  for kj in kidsJ do
    match kj with
    | .arr #[vals, node] =>
      let vs ← pvalList vals
      match ← buildNode cfg node with
      | .ok c => kids := kids ++ [(vs, c)]
      | .error e => return .error e
    | _ => throw "bad child"
  let args : Except Err FArgs ← (match call with
    | "float" => do pure (addFloatArgs name (← pvalOfJson (← j.getObjVal? "lo")) (← pvalOfJson (← j.getObjVal? "hi")) dflt index)
    | "int" => do pure (addIntArgs name (← pvalOfJson (← j.getObjVal? "lo")) (← pvalOfJson (← j.getObjVal? "hi")) dflt index)
    | "discrete" => do
      let ac := match j.getObjValAs? Bool "auto_cast" with | .ok b => b | .error _ => true
      pure (addDiscreteArgs name (← pvalList (← j.getObjVal? "feasible")) dflt index ac)
    | "categorical" => do pure (addCategoricalArgs name (← pvalList (← j.getObjVal? "feasible")) dflt index)
    | "bool" => do pure (addBoolArgs name (← optPValList j "feasible") dflt index)
    | "custom" => pure (.ok { name := name, default := dflt })
    | "factory" => do
      let ext ← match j.getObjValAs? String "ext" with | .ok s => extOfString s | .error _ => pure .internal
      pure (.ok { name := name, bounds := (← optPValList j "bounds"), feasible := (← optPValList j "feasible"),
                  default := dflt, ext := ext })
    | c => throw s!"bad call {c}")
  match args with
  | .error e => return .error e
  | .ok a => return factory cfg { a with children := kids }

def jsonOfResult {α : Type} (f : α → Json) : Except Err α → Json
  | .ok a => Json.mkObj [("ok", f a)]
  | .error e => Json.mkObj [("err", Json.str (stringOfErr e))]

end VizierModel.Driver
