/- Line-protocol plumbing shared by the drivers (core Lean only). -/
import Lean.Data.Json
open Lean

namespace VizierModel.Driver

partial def loop (h : IO.FS.Stream) (out : IO.FS.Stream) (handle : Json → Except String Json) : IO Unit := do
  let line ← h.getLine
  if line.isEmpty then return ()
  if line.trimAscii.toString.isEmpty then loop h out handle else
  let resp := match Json.parse line with
    | .ok j => match handle j with
      | .ok r => r
      | .error e => Json.mkObj [("error", Json.str e)]
    | .error e => Json.mkObj [("error", Json.str s!"parse: {e}")]
  out.putStrLn (Json.compress resp)
  loop h out handle

def serve (handle : Json → Except String Json) : IO Unit := do
  let i ← IO.getStdin
  let o ← IO.getStdout
  loop i o handle
  o.flush

def getStr (j : Json) (k : String) : Except String String := j.getObjValAs? String k
def getNat (j : Json) (k : String) : Except String Nat := j.getObjValAs? Nat k
def getInt (j : Json) (k : String) : Except String Int := j.getObjValAs? Int k
def getBool (j : Json) (k : String) : Except String Bool := j.getObjValAs? Bool k
def getArr (j : Json) (k : String) : Except String (Array Json) := j.getObjValAs? (Array Json) k

/-- strings travel as arrays of code points where exactness matters -/
def charsOfJson (j : Json) : Except String (List Char) := do
  let a ← fromJson? (α := Array Nat) j
  return a.toList.map Char.ofNat

def jsonOfChars (cs : List Char) : Json := toJson (cs.map (·.toNat)).toArray

end VizierModel.Driver
