/- JSON glue for the feature-codec model (drivers C15, C03).  Floats travel as 16-hex-digit
IEEE-754 bit patterns; integers as JSON numbers; core Lean only. -/
import VizierModel.Driver.Util
import VizierModel.Model.Codec
open Lean

namespace VizierModel.Driver.CodecJson
open VizierModel.Codec VizierModel.Driver

def hexDigit (c : Char) : Except String UInt64 :=
  if '0' ≤ c ∧ c ≤ '9' then pure (c.toNat - '0'.toNat).toUInt64
  else if 'a' ≤ c ∧ c ≤ 'f' then pure (c.toNat - 'a'.toNat + 10).toUInt64
  else if 'A' ≤ c ∧ c ≤ 'F' then pure (c.toNat - 'A'.toNat + 10).toUInt64
  else throw s!"bad hex digit {c}"

def floatOfHex (s : String) : Except String Float := do
  if s.length ≠ 16 then throw s!"float hex needs 16 digits: {s}"
  let mut v : UInt64 := 0
  for c in s.toList do
    v := v * 16 + (← hexDigit c)
  return Float.ofBits v

def hexOfFloat (x : Float) : String :=
  let v := x.toBits.toNat
  let digs := (List.range 16).map fun i =>
    let d := (v / 16 ^ (15 - i)) % 16
    if d < 10 then Char.ofNat ('0'.toNat + d) else Char.ofNat ('a'.toNat + d - 10)
  String.ofList digs

def scaleOfStr : String → Except String Scale
  | "LIN" => pure .linear
  | "LOG" => pure .log
  | "RLOG" => pure .reverseLog
  | s => throw s!"bad scale {s}"

def paramOfJson (j : Json) : Except String (Param Float) := do
  let name ← getStr j "name"
  let sc ← scaleOfStr (← getStr j "sc")
  let t ← getStr j "t"
  let dom ← match t with
    | "D" => do pure (Domain.double (← floatOfHex (← getStr j "lo")) (← floatOfHex (← getStr j "hi")))
    | "I" => do pure (Domain.integer (← getInt j "lo") (← getInt j "hi"))
    | "S" => do
      let vs ← (← getArr j "vals").toList.mapM (fun x => do floatOfHex (← fromJson? (α := String) x))
      pure (Domain.discrete vs)
    | "C" => do
      let cs ← (← getArr j "cats").toList.mapM (fun x => fromJson? (α := String) x)
      pure (Domain.categorical cs)
    | _ => throw s!"bad param type {t}"
  return { name := name, dom := dom, scale := sc }

def cfgOfJson (j : Json) : Except String Cfg := do
  let maxd ← match j.getObjVal? "maxd" with
    | .ok .null => pure none
    | .ok v => do pure (some (← fromJson? (α := Nat) v))
    | .error _ => pure none
  return { scale := ← getBool j "scale", onehot := ← getBool j "onehot", padOovs := ← getBool j "pad",
           shouldClip := ← getBool j "clip", maxDiscrete := maxd, clipScaled := ← getBool j "clipScaled",
           stableRlog := (j.getObjValAs? Bool "stableRlog").toOption.getD false }

def valOfJson (j : Json) : Except String (PVal Float) := do
  match j.getObjVal? "f" with
  | .ok (.str s) => return .dbl (← floatOfHex s)
  | _ => match j.getObjVal? "i" with
    | .ok v => return .int (← fromJson? (α := Int) v)
    | _ => match j.getObjVal? "s" with
      | .ok (.str s) => return .str s
      | _ => throw "bad value"

def jsonOfVal : PVal Float → Json
  | .dbl x => Json.mkObj [("f", Json.str (hexOfFloat x))]
  | .int i => Json.mkObj [("i", toJson i)]
  | .str s => Json.mkObj [("s", Json.str s)]

/-- `[[name, value], …]` -/
def assignOfJson (j : Json) : Except String (List (String × PVal Float)) := do
  let a ← fromJson? (α := Array Json) j
  a.toList.mapM fun e => do
    let pr ← fromJson? (α := Array Json) e
    if pr.size ≠ 2 then throw "assignment entry: need [name, value]"
    let n ← fromJson? (α := String) pr[0]!
    let v ← valOfJson pr[1]!
    pure (n, v)

def jsonOfAssign (a : List (String × PVal Float)) : Json :=
  toJson (a.map fun e => toJson #[Json.str e.1, jsonOfVal e.2]).toArray

def featOfJson (j : Json) : Except String (Feat Float) :=
  match j with
  | .str s => do pure (.num (← floatOfHex s))
  | v => do pure (.idx (← fromJson? (α := Int) v))

def jsonOfFeat : Feat Float → Json
  | .num x => Json.str (hexOfFloat x)
  | .idx i => toJson i

end VizierModel.Driver.CodecJson
