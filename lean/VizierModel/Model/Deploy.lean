/-
M4 — deployments (C08): how a servicer outcome (`Svc.Resp` of M1) reaches a client through the
three transports, and the client layer of `clients.py` / `vizier_client.py` on top.
Core Lean only.

Transport rules (trusted model of gRPC, DESIGN section 4):
* local (`NO_ENDPOINT`): a handled error is a `LocalRpcError` with its code; a raw exception is the
  Python exception itself;
* gRPC: a handled error arrives as `RpcError(code)`; a raw exception arrives as `RpcError(UNKNOWN)`
  unless the servicer maps the datastore's NotFound/AlreadyExists errors to status codes
  (`rawErrorsMapped`, the repaired code);
* split Pythia differs only in how an algorithm failure reaches `SuggestTrials`
  (`raisesRpc` instead of `raisesOther`).
-/
import VizierModel.Model.Service

namespace VizierModel.Deploy
open VizierModel.Svc

inductive Transport where
  | loc | grpc | grpcSplit
  deriving DecidableEq, Repr

structure DCfg where
  /-- over gRPC the servicer maps raw NotFound / AlreadyExists errors to their status codes -/
  rawErrorsMapped : Bool
  /-- `Study.get_trial` translates a NOT_FOUND status into ResourceNotFoundError (not only KeyError) -/
  clientTranslatesNotFound : Bool
  deriving Repr, DecidableEq

/-! ### what the model assumes of `grpc_util.handle_exception` and `_report_lookup_errors`
(compared with the table regenerated from the source on every run, `Props/C08Table.lean`) -/

/-- exception classes -> status code, in the order of the if / elif chain; anything else is UNKNOWN -/
def assumedErrorTable : List (List String × String) :=
  [(["ImmutableStudyError", "ImmutableTrialError"], "FAILED_PRECONDITION"),
   (["NotFoundError"], "NOT_FOUND"), (["AlreadyExistsError"], "ALREADY_EXISTS")]

/-- RPCs whose body can raise a datastore lookup error (every RPC but CreateStudy, which answers an
    existing study instead): behind gRPC each must report it with its status code (`rawErrorsMapped`) -/
def rpcsRaisingLookupErrors : List String :=
  ["GetStudy", "ListStudies", "DeleteStudy", "SetStudyState", "SuggestTrials", "GetOperation", "CreateTrial", "GetTrial",
   "ListTrials", "AddTrialMeasurement", "CompleteTrial", "DeleteTrial", "CheckTrialEarlyStoppingState", "StopTrial",
   "ListOptimalTrials", "UpdateMetadata"]

def DCfg.fixed : DCfg := { rawErrorsMapped := true, clientTranslatesNotFound := true }
def DCfg.legacy : DCfg := { rawErrorsMapped := false, clientTranslatesNotFound := false }

/-- what the caller of a stub / servicer method observes -/
inductive Wire where
  | value                       -- a response message (its content is the servicer's, transport-independent)
  | rpcError (c : Code)         -- grpc.RpcError / LocalRpcError with a status code
  | pyNotFound                  -- custom_errors.NotFoundError (a KeyError) raised in-process
  | pyAlreadyExists             -- custom_errors.AlreadyExistsError raised in-process
  | pyOther                     -- any other Python exception raised in-process
  deriving DecidableEq, Repr

def isStatus : Code → Bool
  | .failedPrecondition | .notFound | .alreadyExists | .unknown => true
  | _ => false

def serve (d : DCfg) : Transport → Resp → Wire
  | .loc, .err c .handled => .rpcError c
  | .loc, .err .notFound .raw => .pyNotFound
  | .loc, .err .alreadyExists .raw => .pyAlreadyExists
  | .loc, .err _ .raw => .pyOther
  | _, .err c .handled => .rpcError c
  | _, .err c .raw =>
    if d.rawErrorsMapped && (c == .notFound || c == .alreadyExists) then .rpcError c else .rpcError .unknown
  | _, _ => .value

/-- the error class a client program can tell apart -/
inductive ErrClass where
  | ok | failedPrecondition | notFound | alreadyExists | other
  deriving DecidableEq, Repr

def classOf : Wire → ErrClass
  | .value => .ok
  | .rpcError .failedPrecondition => .failedPrecondition
  | .rpcError .notFound => .notFound
  | .rpcError .alreadyExists => .alreadyExists
  | .rpcError _ => .other
  | .pyNotFound => .notFound
  | .pyAlreadyExists => .alreadyExists
  | .pyOther => .other

/-! ### client layer (`clients.py`) -/

inductive ClientObs where
  | value
  | resourceNotFound            -- client_abc.ResourceNotFoundError (promised by the interface)
  | emptyList                   -- `suggest` on a study that is not active
  | error (c : ErrClass)
  deriving DecidableEq, Repr

/-- `Study.get_trial`: `except KeyError` (pinned commit) / also a NOT_FOUND status (repaired) -/
def clientGetTrial (d : DCfg) : Wire → ClientObs
  | .value => .value
  | .pyNotFound => .resourceNotFound
  | .rpcError .notFound => if d.clientTranslatesNotFound then .resourceNotFound else .error .notFound
  | w => .error (classOf w)

/-- `Study.from_resource_name`: `except Exception` → ResourceNotFoundError -/
def clientFromResourceName : Wire → ClientObs
  | .value => .value
  | _ => .resourceNotFound

/-- `Study.suggest` → `VizierClient.get_suggestions`: FAILED_PRECONDITION → [] -/
def clientSuggest : Wire → ClientObs
  | .value => .value
  | .rpcError .failedPrecondition => .emptyList
  | w => .error (classOf w)

/-- every other client method passes the outcome through -/
def clientPass : Wire → ClientObs
  | .value => .value
  | w => .error (classOf w)

/-- how an algorithm exception reaches `SuggestTrials` in each deployment -/
def algFailure : Transport → AlgOutcome
  | .grpcSplit => .raisesRpc
  | _ => .raisesOther

end VizierModel.Deploy
