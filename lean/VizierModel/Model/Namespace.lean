/-
Model of `vizier/_src/pyvizier/shared/common.py`: `Namespace.encode`, `_parse`
(= `Namespace.decode`).  Strings are `List Char`.  Core Lean only.

`esc bsToo` is `str.translate(_ns_repr_table)`: with `bsToo = false` (the code as
it is: the table maps ':' to '\:' only) and `bsToo = true` (hypothetical variant whose
table also maps '\' to '\\'; not what the code does — kept so that the tie can
*identify* which table the current tree has).
-/
namespace VizierModel.NS

def esc : List Char → List Char
  | [] => []
  | c :: cs => if c = ':' then '\\' :: ':' :: esc cs else c :: esc cs

/-- `''.join([':' + c.translate(table) for c in tuple])` -/
def encode (ns : List (List Char)) : List Char := ns.flatMap fun c => ':' :: esc c

/-- prepend a character to the first fragment -/
def consHead (c : Char) : List (List Char) → List (List Char)
  | [] => [[c]]
  | f :: fs => (c :: f) :: fs

/-- Python's `str.split(':')`. -/
def split : List Char → List (List Char)
  | [] => [[]]
  | c :: cs => if c = ':' then [] :: split cs else consHead c (split cs)

/-- `frag and frag[-1] == '\\'` -/
def endsBS (f : List Char) : Bool := f.getLast? == some '\\'

/-- `output[-1] += ':' + x` when `join`, else `output.append(x)`; `cur = some p`
iff `join` is set and `p` is `output[-1]`. -/
def close : Option (List Char) → List Char → List Char
  | none, x => x
  | some p, x => p ++ ':' :: x

/-- The fragment loop of `_parse`. -/
def go : Option (List Char) → List (List Char) → List (List Char)
  | none, [] => []
  | some p, [] => [p]
  | cur, f :: fs =>
    if endsBS f then go (some (close cur f.dropLast)) fs
    else close cur f :: go none fs

/-- `_parse(arg)`. -/
def decode : List Char → List (List Char)
  | [] => []
  | c :: cs => if c = ':' then go none (split cs) else go none (split (c :: cs))

/-- A component ending in a backslash (the known-finding class). -/
def trailingBS (ns : List (List Char)) : Bool := ns.any endsBS

end VizierModel.NS
