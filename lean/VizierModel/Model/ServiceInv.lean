/-
Executable predicates of the trial-lifecycle / suggestion properties (C01, C02, C06).
They are used twice: in the theorems of `Props/`, and by the driver to judge snapshots
observed on the REAL service (property stage).  Core Lean only.
-/
import VizierModel.Model.Service

namespace VizierModel.Svc

def TState.completed (s : TState) : Bool := s == .succeeded || s == .infeasible

/-- the documented lifecycle: REQUESTED → ACTIVE → (STOPPING →) SUCCEEDED | INFEASIBLE -/
def legal : TState → TState → Bool
  | .requested, .requested | .requested, .active => true
  | .active, .active | .active, .stopping | .active, .succeeded | .active, .infeasible => true
  | .stopping, .stopping | .stopping, .succeeded | .stopping, .infeasible => true
  | .succeeded, .succeeded => true
  | .infeasible, .infeasible => true
  | _, _ => false

/-- what may happen to one trial between two observations -/
def trialStepOK (t t' : Trial) : Bool :=
  legal t.state t'.state && t'.params == t.params &&
  (!t.state.completed || t' == { t with md := t'.md }) &&
  -- a trial is handed to a worker only when it leaves REQUESTED; afterwards its worker never changes
  (t.state == .requested || t'.client == t.client)

/-- every trial present before and after (same id) evolved legally -/
def trialsStepOK (ts ts' : List Trial) : Bool :=
  ts.all fun t => ts'.all fun t' => t.id != t'.id || trialStepOK t t'

def idsNodup (ts : List Trial) : Bool := (ts.map (·.id)).Nodup

/-- trials present after but not before -/
def newTrials (ts ts' : List Trial) : List Trial := ts'.filter fun t' => !(ts.any (·.id == t'.id))

def maxId (ts : List Trial) : Nat := ts.foldl (fun m t => max m t.id) 0

/-- every newly created trial has an id larger than every id already in the study -/
def freshIdsOK (ts ts' : List Trial) : Bool := (newTrials ts ts').all fun t' => decide (maxId ts < t'.id)

/-- no ACTIVE/STOPPING trial without a worker; REQUESTED trials have none -/
def clientsOK (ts : List Trial) : Bool :=
  ts.all fun t => (t.state != .requested || t.client == "")

def studyStepOK (st st' : Study) : Bool :=
  trialsStepOK st.trials st'.trials && freshIdsOK st.trials st'.trials

def allOpsDone (st : Study) : Bool := st.sugOps.all (·.done)

def noActiveEsOp (st : Study) : Bool := st.esOps.all (!·.active)

/-! ### the documented error table (C01) -/

/-- The error class the documentation promises for a call, as a function of the stored data and the
    request alone (`none` = no error is promised by these rules).  This table is the property's
    predicate: the check evaluates it on REAL snapshots and compares with the real response. -/
def specError (db : DB) : Req → Option (Code × Via)
  | .createStudy .. => none
  | .listStudies _ => none
  | .getStudy o s | .listTrials o s | .listOptimal o s | .deleteStudy o s | .setStudyState o s _ | .getOperation o s _ _ =>
    if (findStudy db o s).isNone then some (.notFound, .raw) else none
  | .createTrial o s _ | .suggest o s _ _ _ | .updateMetadata o s _ =>
    match findStudy db o s with
    | none => some (.notFound, .raw)
    | some st => if st.immutable then some (.failedPrecondition, .handled) else none
  | .getTrial o s id =>
    match findStudy db o s with
    | none => some (.notFound, .raw)
    | some st => if (st.findTrial id).isNone then some (.notFound, .raw) else none
  | .deleteTrial o s id =>
    match findStudy db o s with
    | none => some (.notFound, .raw)
    | some st =>
      if st.immutable then some (.failedPrecondition, .handled)
      else if (st.findTrial id).isNone then some (.notFound, .raw) else none
  | .complete o s id _ _ _ | .checkEarlyStop o s id _ =>
    match findStudy db o s with
    | none => some (.notFound, .raw)
    | some st =>
      if st.immutable then some (.failedPrecondition, .handled)
      else match st.findTrial id with
        | none => some (.notFound, .raw)
        | some t => if !t.state.mutable then some (.failedPrecondition, .handled) else none
  | .addMeasurement o s id _ =>
    match findStudy db o s with
    | none => some (.notFound, .raw)
    | some st =>
      if st.immutable then some (.failedPrecondition, .handled)
      else match st.findTrial id with
        | none => some (.notFound, .raw)
        | some t => if t.state == .requested || t.state == .succeeded then some (.failedPrecondition, .handled) else none
  | .stop o s id =>
    match findStudy db o s with
    | none => some (.notFound, .raw)
    | some st =>
      if st.immutable then some (.failedPrecondition, .handled)
      else match st.findTrial id with
        | none => some (.notFound, .raw)
        | some t => if t.state == .requested || t.state == .infeasible then some (.failedPrecondition, .handled) else none

end VizierModel.Svc
