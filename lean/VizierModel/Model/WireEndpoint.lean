/-
C09 — `StudyConfig.pythia_endpoint`: a convenience view of ONE metadata entry
(namespace `('service',)`, key `PYTHIA_ENDPOINT`).

`from_proto` reads it out of the converted metadata (`metadata.ns('service')[KEY]`, `None` on KeyError);
`to_proto` writes the metadata and the endpoint.  Two variants of the write:
* `merged = false` (the pinned commit): the metadata entries are flattened first and the endpoint is then
  put into the flat list with `metadata_util.assign(..., mode='insert_or_assign')` — replacing the entry in
  place when it exists, APPENDING it at the very end otherwise;
* `merged = true` (the repaired code): the endpoint is stored into (a copy of) the metadata first
  (`metadata.ns('service')[KEY] = endpoint`) and the metadata is flattened afterwards.
Core Lean only.
-/
import VizierModel.Model.Wire

namespace VizierModel.Wire
open VizierModel

def endpointNs : Ns := [['s', 'e', 'r', 'v', 'i', 'c', 'e']]
def endpointKey : String := "PYTHIA_ENDPOINT"

/-- `metadata.abs_ns(ns)[key]`, `none` for KeyError -/
def mdLookup (md : Md) (ns : Ns) (key : String) : Option MdVal :=
  match md.find? (fun g => g.1 == ns) with
  | none => none
  | some g => (g.2.find? (fun e => e.1 == key)).map Prod.snd

/-- `metadata.abs_ns(ns)[key] = v` -/
def mdSet (md : Md) (ns : Ns) (key : String) (v : MdVal) : Md := groupIns Prod.fst ns (key, v) md

/-- `metadata_util.assign(container, key=, ns=, value=, mode='insert_or_assign')` on the repeated field -/
def kvAssign (ns : List Char) (key : String) (v : PKVVal) : List KV → List KV
  | [] => [{ ns := ns, key := key, val := v }]
  | kv :: rest => if kv.key == key && kv.ns == ns then { kv with val := v } :: rest else kv :: kvAssign ns key v rest

/-- a `StudyConfig`: the modelled fields of `Study` plus `pythia_endpoint` -/
structure StudyE where
  base : Study
  endpoint : Option MdVal
  deriving Repr

def studyEToProto (cfg : Cfg) (merged : Bool) (s : StudyE) : PStudy :=
  match s.endpoint with
  | none => studyToProto cfg s.base
  | some e =>
    if merged then studyToProto cfg { s.base with metadata := mdSet s.base.metadata endpointNs endpointKey e }
    else
      let p := studyToProto cfg s.base
      { p with metadata := kvAssign (NS.encode endpointNs) endpointKey (assignValue e) p.metadata }

def studyEFromProto (cfg : Cfg) (p : PStudy) : StudyE :=
  let s := studyFromProto cfg p
  { base := s, endpoint := mdLookup s.metadata endpointNs endpointKey }

/-- what a reader sees: the endpoint is part of the metadata, and it is whatever the metadata holds -/
def studyENorm (s : StudyE) : StudyE :=
  let md := match s.endpoint with
    | none => s.base.metadata
    | some e => mdSet s.base.metadata endpointNs endpointKey e
  let b := studyNorm { s.base with metadata := md }
  { base := b, endpoint := mdLookup b.metadata endpointNs endpointKey }

end VizierModel.Wire
