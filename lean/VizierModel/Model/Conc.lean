/-
M2 — concurrency model (C04).  Two parts:

(1) the *shape* of the servicer: which service lock tables are held around each datastore call of
    each RPC.  `assumedShape` is what this model assumes; the translator regenerates the same table
    from the source on every run (`Generated/ServicerShape.lean`) and the two must be equal.

(2) a coarse-grained two-thread semantics for the RPCs whose datastore calls all sit inside the
    study lock: an unguarded study check (`_study_is_immutable`, a read) followed by a critical
    section that is atomic by mutual exclusion.  The critical sections are the RPC bodies of M1.
Core Lean only.
-/
import VizierModel.Model.Service

namespace VizierModel.Conc
open VizierModel.Svc

inductive Rpc where
  | createStudy | getStudy | listStudies | deleteStudy | setStudyState | suggestTrials | getOperation
  | createTrial | getTrial | listTrials | addTrialMeasurement | completeTrial | deleteTrial
  | checkTrialEarlyStoppingState | stopTrial | listOptimalTrials | updateMetadata
  deriving DecidableEq, Repr

inductive DsCall where
  | createStudy | loadStudy | updateStudy | deleteStudy | listStudies | createTrial | getTrial | updateTrial
  | listTrials | deleteTrial | maxTrialId | createSuggestionOperation | getSuggestionOperation
  | updateSuggestionOperation | listSuggestionOperations | maxSuggestionOperationNumber
  | createEarlyStoppingOperation | getEarlyStoppingOperation | updateEarlyStoppingOperation | updateMetadata
  deriving DecidableEq, Repr

inductive LockTable where
  | owner | study | operation
  deriving DecidableEq, Repr

def DsCall.isWrite : DsCall → Bool
  | .createStudy | .updateStudy | .deleteStudy | .createTrial | .updateTrial | .deleteTrial
  | .createSuggestionOperation | .updateSuggestionOperation | .createEarlyStoppingOperation
  | .updateEarlyStoppingOperation | .updateMetadata => true
  | _ => false

/-- writes that touch the study record or its trials (as opposed to operation bookkeeping) -/
def DsCall.writesStudyData : DsCall → Bool
  | .updateStudy | .deleteStudy | .createTrial | .updateTrial | .deleteTrial | .updateMetadata => true
  | _ => false

/-- the lock discipline this model assumes of `vizier_service.py` (locks sorted by name) -/
def assumedShape : List (Rpc × List (DsCall × List LockTable)) := [
  (.createStudy, [(.listStudies, [.owner]), (.createStudy, [.owner])]),
  (.getStudy, [(.loadStudy, [])]),
  (.listStudies, [(.listStudies, [])]),
  (.deleteStudy, [(.deleteStudy, [.operation, .study])]),
  (.setStudyState, [(.loadStudy, [.study]), (.updateStudy, [.study])]),
  (.suggestTrials, [(.loadStudy, []), (.loadStudy, [.operation]), (.listSuggestionOperations, [.operation]),
    (.maxSuggestionOperationNumber, [.operation]), (.createSuggestionOperation, [.operation]),
    (.listTrials, [.operation]), (.updateSuggestionOperation, [.operation]), (.getTrial, [.operation, .study]),
    (.updateTrial, [.operation, .study]), (.maxTrialId, [.operation]), (.updateMetadata, [.operation, .study]), (.maxTrialId, [.operation, .study]),
    (.createTrial, [.operation, .study])]),
  (.getOperation, [(.getSuggestionOperation, [])]),
  (.createTrial, [(.loadStudy, []), (.maxTrialId, [.study]), (.createTrial, [.study])]),
  (.getTrial, [(.getTrial, [])]),
  (.listTrials, [(.listTrials, [])]),
  (.addTrialMeasurement, [(.loadStudy, []), (.getTrial, [.study]), (.updateTrial, [.study])]),
  (.completeTrial, [(.loadStudy, []), (.getTrial, [.study]), (.updateTrial, [.study])]),
  (.deleteTrial, [(.loadStudy, []), (.deleteTrial, [.study])]),
  (.checkTrialEarlyStoppingState, [(.loadStudy, []), (.getTrial, [.study]), (.loadStudy, [.operation]),
    (.getEarlyStoppingOperation, [.operation]), (.createEarlyStoppingOperation, [.operation]),
    (.updateEarlyStoppingOperation, [.operation]), (.maxTrialId, [.operation]), (.updateMetadata, [.operation, .study])]),
  (.stopTrial, [(.loadStudy, []), (.getTrial, [.study]), (.updateTrial, [.study])]),
  (.listOptimalTrials, [(.listTrials, []), (.loadStudy, [])]),
  (.updateMetadata, [(.loadStudy, []), (.updateMetadata, [.study])])]

def callsOf (shape : List (Rpc × List (DsCall × List LockTable))) (r : Rpc) : List (DsCall × List LockTable) :=
  ((shape.find? (·.1 == r)).map (·.2)).getD []

/-- every datastore call of `r` other than the leading study check sits inside the study lock -/
def criticalUnderStudyLock (shape : List (Rpc × List (DsCall × List LockTable))) (r : Rpc) : Bool :=
  (callsOf shape r).all fun c => c.2.contains .study || (c.1 == .loadStudy && c.2.isEmpty)

/-- every write of study data (study record, trials incl. their deletion, metadata), in ANY RPC, is
    under the study lock.  (Until fix 2 of round g SuggestTrials handed out REQUESTED trials with
    `update_trial` under the operation lock only and DeleteTrial took no lock: lost metadata update /
    NotFoundError inside SuggestTrials — `c04_lost_update_counterexample`, `c04_pool_race_counterexample`.) -/
def studyDataWritesLocked (shape : List (Rpc × List (DsCall × List LockTable))) : Bool :=
  shape.all fun (_, calls) => calls.all fun c => !c.1.writesStudyData || c.2.contains .study

/-- trial ids are allocated (`max_trial_id` … `create_trial`) under the study lock everywhere -/
def idAllocationLocked (shape : List (Rpc × List (DsCall × List LockTable))) : Bool :=
  shape.all fun (_, calls) => calls.all fun c => !(c.1 == .createTrial) || c.2.contains .study

/-- datastore calls that insert a row of a child table (trials, suggestion / early-stopping operations): the SQL
    datastore stores such a row without looking at the study row -/
def DsCall.createsChildRow : DsCall → Bool
  | .createTrial | .createSuggestionOperation | .createEarlyStoppingOperation => true
  | _ => false

/-- datastore calls that fail with NotFoundError when the study does not exist (on both datastores) -/
def DsCall.needsStudy : DsCall → Bool
  | .loadStudy | .maxTrialId => true
  | _ => false

/-- No row of a child table is created for a study that `DeleteStudy` removed meanwhile: every row-creating call
    holds a lock `L` that `delete_study` is called under as well, and an EARLIER call of the same RPC (shape order =
    source order of first occurrence) that fails on a missing study holds `L` too - so between that lookup and the
    insertion the study cannot disappear.  (Until repairs a79221c / 948965a `DeleteStudy` took no lock at all:
    `c04_orphan_rows_counterexample`.) -/
def childRowsGuarded (shape : List (Rpc × List (DsCall × List LockTable))) : Bool :=
  let delLocks := ((callsOf shape .deleteStudy).filter (·.1 == .deleteStudy)).flatMap (·.2)
  shape.all fun (_, calls) =>
    (List.range calls.length).all fun i =>
      match calls[i]? with
      | none => true
      | some c =>
        !c.1.createsChildRow ||
          c.2.any fun l => delLocks.contains l &&
            ((calls.take i).any fun d => d.1.needsStudy && d.2.contains l)

/-- the shape of the pinned commit as far as `DeleteStudy` is concerned: no lock around `delete_study` -/
def shapeWithUnlockedDelete : List (Rpc × List (DsCall × List LockTable)) :=
  assumedShape.map fun rc => if rc.1 == .deleteStudy then (rc.1, [(.deleteStudy, [])]) else rc

/-! ### coarse two-thread semantics for study-lock RPCs -/

/-- a study-lock RPC: an optional unguarded study check, then its critical section -/
structure Crit where
  checks : Bool
  body : Study → Resp × Study

inductive Ev where
  | chkA | bodyA | chkB | bodyB
  deriving DecidableEq, Repr

structure CState where
  st : Study
  passA : Bool := true
  passB : Bool := true
  respA : Option Resp := none
  respB : Option Resp := none

def refused : Resp := .err .failedPrecondition .handled

def stepEv (a b : Crit) (c : CState) : Ev → CState
  | .chkA => { c with passA := !(a.checks && c.st.immutable) }
  | .chkB => { c with passB := !(b.checks && c.st.immutable) }
  | .bodyA => if c.passA then let r := a.body c.st; { c with st := r.2, respA := some r.1 } else { c with respA := some refused }
  | .bodyB => if c.passB then let r := b.body c.st; { c with st := r.2, respB := some r.1 } else { c with respB := some refused }

def runEvs (a b : Crit) (st : Study) (evs : List Ev) : CState := evs.foldl (stepEv a b) { st := st }

/-- the six interleavings of [chkA, bodyA] with [chkB, bodyB] -/
def interleavings : List (List Ev) :=
  [[.chkA, .bodyA, .chkB, .bodyB], [.chkA, .chkB, .bodyA, .bodyB], [.chkA, .chkB, .bodyB, .bodyA],
   [.chkB, .chkA, .bodyA, .bodyB], [.chkB, .chkA, .bodyB, .bodyA], [.chkB, .bodyB, .chkA, .bodyA]]

def serialAB : List Ev := [.chkA, .bodyA, .chkB, .bodyB]
def serialBA : List Ev := [.chkB, .bodyB, .chkA, .bodyA]

/-- what the property compares of a response: success or error class, and the trials handed out -/
inductive Obs where
  | ok
  | err (c : Code)
  | trials (ids : List Nat)
  deriving DecidableEq, Repr

def obs : Resp → Obs
  | .err c _ => .err c
  | .mdError => .err .notFound
  | .op _ _ handed => .trials (handed.map (·.id))
  | .trial t => .trials [t.id]
  | _ => .ok

/-- what is compared: what both callers observe, and the final study -/
def outcome (c : CState) : Option Obs × Option Obs × Study := (c.respA.map obs, c.respB.map obs, c.st)

/-! ### the two classic races, as they were at the pinned commit (fine-grained, for the witnesses) -/

/-- id allocation without a common lock: each thread reads the max id, then inserts max+1 -/
inductive AllocEv where
  | readA | insA | readB | insB
  deriving DecidableEq, Repr

structure AllocState where
  ids : List Nat
  seenA : Nat := 0
  seenB : Nat := 0
  failed : Bool := false

def allocStep (s : AllocState) : AllocEv → AllocState
  | .readA => { s with seenA := s.ids.foldl max 0 }
  | .readB => { s with seenB := s.ids.foldl max 0 }
  | .insA => if s.ids.contains (s.seenA + 1) then { s with failed := true } else { s with ids := s.ids ++ [s.seenA + 1] }
  | .insB => if s.ids.contains (s.seenB + 1) then { s with failed := true } else { s with ids := s.ids ++ [s.seenB + 1] }

/-- read-copy … write-back around an unlocked metadata write -/
inductive LostEv where
  | readA | writeBackA | writeB
  deriving DecidableEq, Repr

structure LostState where
  md : Nat              -- the metadata part of the record
  other : Nat           -- the part thread A modifies
  copyMd : Nat := 0
  copyOther : Nat := 0

def lostStep (s : LostState) : LostEv → LostState
  | .readA => { s with copyMd := s.md, copyOther := s.other }
  | .writeBackA => { s with md := s.copyMd, other := s.copyOther + 1 }
  | .writeB => { s with md := 7 }

/-! ### the REQUESTED-pool race of round g: SuggestTrials handed out a trial from a `list_trials`
snapshot (`update_trial` under the operation lock only) while DeleteTrial took no lock -/

inductive PoolEv where
  | snapshotA | writeBackA | deleteB
  deriving DecidableEq, Repr

structure PoolState where
  present : Bool := true     -- the REQUESTED trial is stored
  copied : Bool := false     -- thread A (SuggestTrials) holds a copy of it
  assigned : Bool := false
  failedA : Bool := false    -- `update_trial` raised NotFoundError inside SuggestTrials

def poolStep (s : PoolState) : PoolEv → PoolState
  | .snapshotA => { s with copied := s.present }
  | .writeBackA => if !s.copied then s else if s.present then { s with assigned := true } else { s with failedA := true }
  | .deleteB => { s with present := false }

end VizierModel.Conc
