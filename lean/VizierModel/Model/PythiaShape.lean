/-
The Pythia glue: what `ServicePolicySupporter` (`vizier/_src/service/service_policy_supporter.py`) asks of the
Vizier service on behalf of a hosted policy, and what leaves `PythiaServicer.Suggest` / `EarlyStop`
(`vizier/_src/service/pythia_service.py`) when the policy raises.  Core Lean only.

`assumedSupporterShape` / `assumedSupporterCatches` / `assumedPythiaHandlers` are written by hand from today's
source; the translator `harness/translators/pythia_shape.py` regenerates the same tables from the source of the
tree under test (`Generated/PythiaShape.lean`) and the kernel compares them (`Props/PythiaShape.lean`).

The criteria are what the deployment arguments (C08), the loader model (C12: `Loader.getTrialsF`) and the
failure handling of SuggestTrials / CheckTrialEarlyStoppingState (C06) need of the tables:

* `getTrialsSingleRead` - GetTrials issues exactly one ListTrials, once, and no other RPC: the trials it filters
  are ONE consistent snapshot, and a requested id that is not in the study (deleted, never created) is simply
  absent from the answer.  A GetTrials that looks ids up one by one (GetTrial per id, skipping the lookup error)
  meets a lookup error whose CLASS depends on the transport (`custom_errors.NotFoundError` in-process,
  `grpc.RpcError` behind a stub): what is skipped in one deployment escapes in the other (seeded change C08_h).
* `supporterCatchesNothing` - no supporter method catches an exception class: an RPC's error reaches the policy as
  the transport delivers it, the supporter's own behaviour does not branch on it.
* `supporterReadsOnlyExceptMetadata` - the only writing RPC a supporter method may issue is UpdateMetadata.
* `pythiaWrapsEverything` - every `Exception` raised by the policy leaves Suggest / EarlyStop as ONE documented class
  (RuntimeError, which is not a grpc.RpcError): in-process the service sees a non-RpcError exception whatever the
  policy raised, behind gRPC an RpcError - what `Deploy.algFailure` assumes.

The supporter itself is modelled by `supExec` (the RPC names it issues and what the policy observes) over an
abstract service; GetTrials is `Loader.getTrialsF` applied to the answer of its one ListTrials.
-/
import VizierModel.Model.Loader

namespace VizierModel.PythiaShape
open VizierModel

/-- how often an RPC at one place of a method body is executed in one run of the method: `once` - exactly once
    (straight line); `cond` - zero or one time (a branch, an `except` handler, code after an early `return`);
    `loop` - any number of times, zero included (inside `while` / `for` / a comprehension). -/
inductive Mult where
  | once | loop | cond
  deriving DecidableEq, Repr, Inhabited

abbrev Shape := List (String × Mult)
abbrev Table := List (String × Shape)
abbrev Catches := List (String × List String)
/-- one `except` clause: the classes it names, and what its body does: `"reraiseAs <Class>"`, `"reraise"`,
    `"swallow"`, `"other <text>"` -/
abbrev Clause := List String × String
abbrev Handlers := List (String × List Clause)

/-! ### the tables as read off today's source -/

/-- `service_policy_supporter.py`: public methods and properties of `ServicePolicySupporter` -/
def assumedSupporterShape : Table := [
  ("CheckCancelled", []),
  ("GetStudyConfig", [("GetStudy", .once)]),
  ("GetTrials", [("ListTrials", .once)]),
  ("TimeRemaining", []),
  ("study_guid", [])
]

/-- … and the exception classes caught inside them: none -/
def assumedSupporterCatches : Catches := [
  ("CheckCancelled", []),
  ("GetStudyConfig", []),
  ("GetTrials", []),
  ("TimeRemaining", []),
  ("study_guid", [])
]

/-- `pythia_service.py` AS WRITTEN: `Suggest` wraps whatever `policy.suggest` raises into RuntimeError;
    `EarlyStop` calls `policy.early_stop` outside any `try` (the policy's exception leaves as it is) -/
def assumedPythiaHandlers : Handlers := [
  ("EarlyStop", []),
  ("Suggest", [(["Exception"], "reraiseAs RuntimeError")])
]

/-- `pythia_service.py` as INTENDED (fixes/pythia-earlystop-wraps-policy-errors.diff): both wrap -/
def intendedPythiaHandlers : Handlers := [
  ("EarlyStop", [(["Exception"], "reraiseAs RuntimeError")]),
  ("Suggest", [(["Exception"], "reraiseAs RuntimeError")])
]

/-- the handler table is one of the two variants the models know -/
def handlersKnown (h : Handlers) : Bool := h == assumedPythiaHandlers || h == intendedPythiaHandlers

/-! ### looking a method up -/

def lookup {α : Type} (tbl : List (String × α)) (m : String) : Option α := (tbl.find? (·.1 == m)).map (·.2)

/-! ### criteria on the supporter -/

/-- RPCs that can change stored data -/
def isWriting (rpc : String) : Bool :=
  ["CreateStudy", "DeleteStudy", "SetStudyState", "SuggestTrials", "CreateTrial", "AddTrialMeasurement",
   "CompleteTrial", "DeleteTrial", "CheckTrialEarlyStoppingState", "StopTrial", "UpdateMetadata"].contains rpc

/-- GetTrials issues exactly one ListTrials, once, and nothing else -/
def getTrialsSingleRead (tbl : Table) : Bool := lookup tbl "GetTrials" == some [("ListTrials", .once)]

/-- GetStudyConfig issues exactly one GetStudy, once, and nothing else -/
def getStudyConfigSingleRead (tbl : Table) : Bool := lookup tbl "GetStudyConfig" == some [("GetStudy", .once)]

/-- no supporter method catches anything -/
def supporterCatchesNothing (c : Catches) : Bool := c.all fun e => e.2.isEmpty

/-- … and every method of the shape table has its row in the catches table -/
def catchesCoverShape (tbl : Table) (c : Catches) : Bool := tbl.map (·.1) == c.map (·.1)

/-- the only writing RPC a supporter method may issue is UpdateMetadata -/
def supporterReadsOnlyExceptMetadata (tbl : Table) : Bool :=
  tbl.all fun e => e.2.all fun r => !isWriting r.1 || r.1 == "UpdateMetadata"

/-! ### criteria on PythiaServicer -/

/-- a clause that catches every `Exception` -/
def catchesAll (classes : List String) : Bool := classes.contains "Exception" || classes.contains "BaseException"

/-- every `Exception` raised under these clauses leaves as `action`: every clause up to and including the first
    catch-all clause does `action` (classes are open-ended: a clause that is not catch-all may or may not fire) -/
def wrapsAs (action : String) : List Clause → Bool
  | [] => false
  | (classes, a) :: rest => a == action && (catchesAll classes || wrapsAs action rest)

/-- the documented failure of the in-process Pythia: `RuntimeError('Pythia has encountered an error: …')` -/
def documentedFailure : String := "reraiseAs RuntimeError"

/-- classes that ARE a grpc.RpcError: the documented class must not be one of them (in-process the service tells an
    algorithm failure from a transport failure by that) -/
def rpcErrorActions : List String :=
  ["reraiseAs RpcError", "reraiseAs LocalRpcError", "reraiseAs _InactiveRpcError", "reraiseAs AioRpcError"]

def methodWraps (h : Handlers) (m : String) : Bool :=
  match lookup h m with
  | some clauses => wrapsAs documentedFailure clauses && !rpcErrorActions.contains documentedFailure
  | none => false

/-- every `Exception` raised by the policy leaves `Suggest` AND `EarlyStop` as the one documented class -/
def pythiaWrapsEverything (h : Handlers) : Bool := methodWraps h "Suggest" && methodWraps h "EarlyStop"

/-! ### which RPC-name sequences a shape admits -/

/-- `r`, any number of times, then a sequence accepted by `k` -/
def loopAdmits (r : String) (k : List String → Bool) : List String → Bool
  | [] => k []
  | x :: xs => k (x :: xs) || (x == r && loopAdmits r k xs)

/-- the sequences of a COMPLETE run of a method: `once` exactly one, `cond` zero or one, `loop` any number, in order -/
def admits : Shape → List String → Bool
  | [], s => s.isEmpty
  | (r, .once) :: rest, s =>
    (match s with
     | [] => false
     | x :: xs => x == r && admits rest xs)
  | (r, .cond) :: rest, s =>
    admits rest s ||
    (match s with
     | [] => false
     | x :: xs => x == r && admits rest xs)
  | (r, .loop) :: rest, s => loopAdmits r (admits rest) s

/-- `names` is a complete run of method `m` according to the table -/
def conforms (tbl : Table) (m : String) (names : List String) : Bool :=
  match lookup tbl m with
  | some sh => admits sh names
  | none => false

/-! ### the supporter over an abstract Vizier service -/

/-- what the two reading RPCs answer in a service state `σ`; `none` is the RPC's error (study not found, transport
    failure, …), whatever its class -/
structure Service (σ α : Type) where
  /-- `GetStudy(name)` then `StudyConfig.from_proto(...).to_problem()` -/
  getStudy : σ → String → Option α
  /-- `ListTrials(parent)`: the study's trial table -/
  listTrials : σ → String → Option Loader.Env

/-- a call of a public supporter method -/
inductive SupCall where
  | getStudyConfig (guid : String)
  | getTrials (guid : Option String) (ids : Option (List Nat)) (minId maxId : Option Nat) (st : Option Loader.Status)
  | checkCancelled
  | timeRemaining
  | studyGuid
  deriving Repr

/-- what the policy observes -/
inductive SupObs (α : Type) where
  | problem (p : α)
  | trials (l : List Loader.Trial)
  | unit
  | guid (g : String)
  /-- the error of the RPC, propagated as the transport delivered it (the supporter catches nothing) -/
  | rpcFailed
  deriving Repr

structure SupRun (α : Type) where
  rpcs : List String
  obs : SupObs α

/-- the Python method a `SupCall` stands for -/
def callMethod : SupCall → String
  | .getStudyConfig _ => "GetStudyConfig"
  | .getTrials .. => "GetTrials"
  | .checkCancelled => "CheckCancelled"
  | .timeRemaining => "TimeRemaining"
  | .studyGuid => "study_guid"

/-- `ServicePolicySupporter(self_guid, service)` executing one call in service state `s` -/
def supExec {σ α : Type} (svc : Service σ α) (selfGuid : String) (s : σ) : SupCall → SupRun α
  | .getStudyConfig g =>
    ⟨["GetStudy"], match svc.getStudy s g with
                    | some p => .problem p
                    | none => .rpcFailed⟩
  | .getTrials g ids mn mx st =>
    ⟨["ListTrials"], match svc.listTrials s (g.getD selfGuid) with
                     | some env => .trials (Loader.getTrialsF env ids mn mx st)
                     | none => .rpcFailed⟩
  | .checkCancelled => ⟨[], .unit⟩
  | .timeRemaining => ⟨[], .unit⟩
  | .studyGuid => ⟨[], .guid selfGuid⟩

/-! ### the rewrite the criterion excludes: one GetTrial per requested id -/

/-- how a failed lookup reaches the supporter -/
inductive LookupErr where
  /-- `custom_errors.NotFoundError`, raised by the in-process servicer -/
  | pyNotFound
  /-- `grpc.RpcError` with NOT_FOUND, raised by a stub -/
  | rpcNotFound
  deriving DecidableEq, Repr

/-- the transport between supporter and service: in-process or a gRPC stub (split Pythia) -/
def lookupErrOf (behindStub : Bool) : LookupErr := if behindStub then .rpcNotFound else .pyNotFound

/-- `for id in ids: try: GetTrial(id) except <skipped>: continue` over a trial table; `none` = the error escapes -/
def getTrialsPerId (env : Loader.Env) (err : LookupErr) (skipped : LookupErr → Bool) : List Nat → Option (List Loader.Trial)
  | [] => some []
  | i :: rest =>
    match env.find? (fun t => t.id == i), getTrialsPerId env err skipped rest with
    | some t, some tl => some (t :: tl)
    | none, some tl => if skipped err then some tl else none
    | _, none => none

end VizierModel.PythiaShape
