/-
`converters/feature_mapper.py` — ContinuousCategoricalFeatureMapper (C15).

`TrialToArrayConverter` lays a trial out as one feature row: one column per continuous parameter and a
one-hot block per categorical (or non-continuified discrete / integer) parameter, in the order of the
converter's output specs.  `map` splits a row into the continuous columns and, per one-hot block, the
INDEX of its active entry (computed in the code as "position of the non-zero among the categorical
columns, minus the number of categorical columns before the block"); `unmap` rebuilds the row.
The model keeps the row organised per spec; values of continuous columns are opaque.  Core Lean only.
-/
namespace VizierModel.FeatureMapper

inductive Spec where
  | cont
  | onehot (n : Nat)
  deriving DecidableEq, Repr

/-- one spec's worth of a feature row -/
inductive Cell (τ : Type) where
  | c (v : τ)
  | block (bits : List Bool)
  deriving DecidableEq, Repr

structure Mapped (τ : Type) where
  cont : List τ
  cat : List Nat
  deriving DecidableEq, Repr

variable {τ : Type}

/-- position of the first active entry (`jnp.nonzero`) -/
def firstTrue : List Bool → Nat
  | [] => 0
  | b :: bs => if b then 0 else firstTrue bs + 1

def oneHot (n i : Nat) : List Bool := (List.range n).map (· == i)

def mapRow : List (Cell τ) → Mapped τ
  | [] => { cont := [], cat := [] }
  | .c v :: rest => let m := mapRow rest; { m with cont := v :: m.cont }
  | .block bits :: rest => let m := mapRow rest; { m with cat := firstTrue bits :: m.cat }

def unmapRow : List Spec → Mapped τ → Option (List (Cell τ))
  | [], m => if m.cont.isEmpty && m.cat.isEmpty then some [] else none
  | .cont :: specs, m =>
    match m.cont with
    | [] => none
    | v :: vs => (unmapRow specs { m with cont := vs }).map (Cell.c v :: ·)
  | .onehot n :: specs, m =>
    match m.cat with
    | [] => none
    | i :: is => if i < n then (unmapRow specs { m with cat := is }).map (Cell.block (oneHot n i) :: ·) else none

/-- a row as the converter produces it: one value per continuous spec, a one-hot block of the right
    width per one-hot spec -/
def WellFormed : List Spec → List (Cell τ) → Prop
  | [], [] => True
  | .cont :: specs, .c _ :: row => WellFormed specs row
  | .onehot n :: specs, .block bits :: row => (∃ i, i < n ∧ bits = oneHot n i) ∧ WellFormed specs row
  | _, _ => False

/-- valid mapped values: as many continuous values as continuous specs, one index below the block width
    per one-hot spec -/
def ValidMapped : List Spec → Mapped τ → Prop
  | [], m => m.cont = [] ∧ m.cat = []
  | .cont :: specs, m => ∃ v vs, m.cont = v :: vs ∧ ValidMapped specs { m with cont := vs }
  | .onehot n :: specs, m => ∃ i is, m.cat = i :: is ∧ i < n ∧ ValidMapped specs { m with cat := is }

end VizierModel.FeatureMapper
