/-
Representation-level models of the EARLY-STOPPING OPERATION part of the two datastores (C07), the
"fourth table" that `Model/Stores.lean` leaves out.

`ram_datastore.py`: every study node holds a dict `early_stopping_operations` keyed by the operation id
(`earlystopping/<study>/<trial>`, one per trial);  create = NotFound without the study, AlreadyExists for
a present key;  get = NotFound;  update = plain item assignment (NotFound only without the study: an
UPSERT);  `delete_study` drops the node and with it the dict.
`sql_datastore.py`: one table keyed by `operation_name` = (owner, study, trial);  create = INSERT
(IntegrityError -> AlreadyExists; NO check that the study exists);  get = SELECT (NotFound);  update =
exists-check then UPDATE (NotFound);  `delete_study` deletes the rows of that (owner, study).

The datastore API has no listing call for these operations: the only observation is `get`.
Core Lean only (interpreted by `Drivers/Stores.lean`).
-/
import VizierModel.Model.Stores

namespace VizierModel.StoresEs
open VizierModel.Svc VizierModel.Stores

/-! ### association lists (Python dicts / keyed tables) -/

def aget {κ β : Type} [BEq κ] (l : List (κ × β)) (k : κ) : Option β := (l.find? (·.1 == k)).map (·.2)

/-- `d[k] = v`: replace in place or append -/
def aset {κ β : Type} [BEq κ] (l : List (κ × β)) (k : κ) (v : β) : List (κ × β) :=
  if l.any (·.1 == k) then l.map (fun e => if e.1 == k then (k, v) else e) else l ++ [(k, v)]

def adel {κ β : Type} [BEq κ] (l : List (κ × β)) (k : κ) : List (κ × β) := l.filter (fun e => !(e.1 == k))

/-! ### RAM -/

abbrev RamE := List (SKey × List (Nat × EsOp))

namespace RamE

def createStudy (r : RamE) (k : SKey) : Except DsErr RamE :=
  match aget r k with
  | some _ => .error .alreadyExists
  | none => .ok (aset r k [])

def deleteStudy (r : RamE) (k : SKey) : Except DsErr RamE :=
  match aget r k with
  | some _ => .ok (adel r k)
  | none => .error .notFound

def createEs (r : RamE) (k : SKey) (o : EsOp) : Except DsErr RamE :=
  match aget r k with
  | none => .error .notFound
  | some m =>
    match aget m o.trialId with
    | some _ => .error .alreadyExists
    | none => .ok (aset r k (aset m o.trialId o))

def getEs (r : RamE) (k : SKey) (id : Nat) : Except DsErr EsOp :=
  match aget r k with
  | none => .error .notFound
  | some m => match aget m id with | some o => .ok o | none => .error .notFound

/-- item assignment: an upsert -/
def updateEs (r : RamE) (k : SKey) (o : EsOp) : Except DsErr RamE :=
  match aget r k with
  | none => .error .notFound
  | some m => .ok (aset r k (aset m o.trialId o))

end RamE

/-! ### SQL -/

structure SqlE where
  studies : List SKey
  es : List ((SKey × Nat) × EsOp)
  deriving Repr

def SqlE.empty : SqlE := { studies := [], es := [] }

namespace SqlE

def has (q : SqlE) (k : SKey) : Bool := q.studies.any (· == k)

def createStudy (q : SqlE) (k : SKey) : Except DsErr SqlE :=
  if q.has k then .error .alreadyExists else .ok { q with studies := q.studies ++ [k] }

def deleteStudy (q : SqlE) (k : SKey) : Except DsErr SqlE :=
  if q.has k then
    .ok { studies := q.studies.filter (fun s => !(s == k)), es := q.es.filter (fun row => !(row.1.1 == k)) }
  else .error .notFound

/-- INSERT: primary key only, NO check that the study exists -/
def createEs (q : SqlE) (k : SKey) (o : EsOp) : Except DsErr SqlE :=
  match aget q.es (k, o.trialId) with
  | some _ => .error .alreadyExists
  | none => .ok { q with es := aset q.es (k, o.trialId) o }

def getEs (q : SqlE) (k : SKey) (id : Nat) : Except DsErr EsOp :=
  match aget q.es (k, id) with | some o => .ok o | none => .error .notFound

def updateEs (q : SqlE) (k : SKey) (o : EsOp) : Except DsErr SqlE :=
  match aget q.es (k, o.trialId) with
  | some _ => .ok { q with es := aset q.es (k, o.trialId) o }
  | none => .error .notFound

end SqlE

/-! ### the calls as the service issues them -/

inductive EOp where
  | createStudy (k : SKey)
  | deleteStudy (k : SKey)
  /-- CheckTrialEarlyStoppingState creates the operation after `load_study` of the same study succeeded -/
  | createEs (k : SKey) (o : EsOp)
  /-- the service only updates an operation it has just created or fetched -/
  | updateEs (k : SKey) (o : EsOp)
  deriving Repr

def RamE.exec (r : RamE) : EOp → Except DsErr RamE
  | .createStudy k => r.createStudy k
  | .deleteStudy k => r.deleteStudy k
  | .createEs k o => r.createEs k o
  | .updateEs k o => match r.getEs k o.trialId with | .error e => .error e | .ok _ => r.updateEs k o

def SqlE.exec (q : SqlE) : EOp → Except DsErr SqlE
  | .createStudy k => q.createStudy k
  | .deleteStudy k => q.deleteStudy k
  | .createEs k o => if q.has k then q.createEs k o else .error .notFound
  | .updateEs k o => match q.getEs k o.trialId with | .error e => .error e | .ok _ => q.updateEs k o

def RamE.runE (r : RamE) : List EOp → RamE × List (Option DsErr)
  | [] => (r, [])
  | op :: ops =>
    match r.exec op with
    | .ok r' => let x := RamE.runE r' ops; (x.1, none :: x.2)
    | .error e => let x := RamE.runE r ops; (x.1, some e :: x.2)

def SqlE.runE (q : SqlE) : List EOp → SqlE × List (Option DsErr)
  | [] => (q, [])
  | op :: ops =>
    match q.exec op with
    | .ok q' => let x := SqlE.runE q' ops; (x.1, none :: x.2)
    | .error e => let x := SqlE.runE q ops; (x.1, some e :: x.2)

end VizierModel.StoresEs
