/-
M8 / C19 — the vectorised acquisition optimiser (`vizier/_src/algorithms/optimizers/
vectorized_base.py`, `eagle_strategy.py`, `random_vectorized_optimizer.py`).

What is modelled, statement by statement:

* `VectorizedOptimizer._update_best_results`:
    all_rewards  = concatenate([batch_rewards, best_results.rewards])
    top_indices  = argpartition(-all_rewards, count-1)[:count]      -- = lax.top_k(all_rewards, count)
  `lax.top_k` returns the `count` largest entries in descending order, equal entries in
  index order.  `updateBest` = stable descending sort of `batch ++ best`, first `count`.
  Rewards live in an arbitrary carrier `α` with a Boolean comparison `le`; the placeholder
  reward `ph` (−∞ in the code) is an arbitrary element (with IEEE total order, which is what
  `top_k` uses, a NaN with the sign bit set ranks *below* −∞, so `ph` is not assumed least
  except where a theorem says so).
* `VectorizedOptimizer.__call__`: `init_best_results` = `count` × (zeros, −∞); the
  suggest → mask padded dimensions → score → strategy.update → update-best loop, with the
  key splitting of the code; prior features: mask padded dimensions, score, overwrite the
  reward of padded prior rows with −∞, hand to `strategy.init_state` — and (as written)
  never merge them into the best results (`Cfg.priorsEnterBest = false`; the TODO in the code).
* The strategy is an arbitrary `Strategy` (any state type, any functions).  For the eagle
  strategy the last steps of `suggest` that establish the bounds are modelled: the
  projection `clip(x, 0, 1)` and sampling a category from logits that are −∞ outside
  `range(arity)`.

Core Lean only (interpreted by `Drivers/C19.lean`).
-/
namespace VizierModel.TopK

/-! ## top-`count` merge -/

/-- a scored candidate -/
structure Entry (φ α : Type) where
  feat : φ
  reward : α
deriving DecidableEq, Repr

variable {φ α : Type}

/-- insert in front of the first element whose reward is `≤` the newcomer's: descending
order, a newcomer precedes older entries of equal reward -/
def ins (le : α → α → Bool) (x : Entry φ α) : List (Entry φ α) → List (Entry φ α)
  | [] => [x]
  | y :: ys => if le y.reward x.reward then x :: y :: ys else y :: ins le x ys

/-- stable descending sort (equal rewards keep their input order) = the order `lax.top_k` produces -/
def sortDesc (le : α → α → Bool) (l : List (Entry φ α)) : List (Entry φ α) :=
  l.foldr (ins le) []

/-- `_update_best_results`: concatenate `[batch, best]`, keep the top `count` -/
def updateBest (le : α → α → Bool) (count : Nat) (best batch : List (Entry φ α)) : List (Entry φ α) :=
  (sortDesc le (batch ++ best)).take count

/-- `init_best_results`: `count` copies of (zeros, −∞) -/
def placeholders (count : Nat) (zeros : φ) (ph : α) : List (Entry φ α) :=
  List.replicate count ⟨zeros, ph⟩

/-- the optimisation loop seen from the best-results side: a left fold over the scored batches -/
def runTopK (le : α → α → Bool) (count : Nat) (zeros : φ) (ph : α)
    (batches : List (List (Entry φ α))) : List (Entry φ α) :=
  batches.foldl (updateBest le count) (placeholders count zeros ph)

/-- the intended variant (the TODO): the scored priors are merged first -/
def runTopKSeeded (le : α → α → Bool) (count : Nat) (zeros : φ) (ph : α)
    (priors : List (Entry φ α)) (batches : List (List (Entry φ α))) : List (Entry φ α) :=
  batches.foldl (updateBest le count) (updateBest le count (placeholders count zeros ph) priors)

/-- everything that was concatenated, newest batch first (the order `concatenate([batch, best])` builds) -/
def seen (init : List (Entry φ α)) (batches : List (List (Entry φ α))) : List (Entry φ α) :=
  batches.foldl (fun acc b => b ++ acc) init

/-- all evaluated candidates, newest batch first -/
def evaluated (batches : List (List (Entry φ α))) : List (Entry φ α) := seen [] batches

/-- remove the members of `res` (with multiplicity) from `all`; `none` if one is missing -/
def subtract [DecidableEq φ] [DecidableEq α] : List (Entry φ α) → List (Entry φ α) → Option (List (Entry φ α))
  | all, [] => some all
  | all, x :: xs => if x ∈ all then subtract (all.erase x) xs else none

/-- executable form of the specification `IsTopK` (Lemmas/TopK.lean): `res` has `k` entries, all
taken from `all` with multiplicity, and nothing left over has a larger reward than a member of
`res`.  This is the predicate the harness evaluates on the REAL result. -/
def isTopKB [DecidableEq φ] [DecidableEq α] (le : α → α → Bool) (k : Nat) (all res : List (Entry φ α)) : Bool :=
  decide (res.length = k) &&
    match subtract all res with
    | none => false
    | some rest => res.all fun x => rest.all fun y => le y.reward x.reward

/-! ## results → trials -/

/-- `best_candidates_to_trials`: `sorted_ind = argsort(-rewards)` (stable: equal rewards in row order);
trial `i` is built from row `sorted_ind[i]` — the continuous part, the categorical part AND the reward of
that one row.  A row holds `n_parallel` candidates, each becoming one trial (with the row's reward).
`decode` stands for `converter.to_parameters`. -/
def toTrials {π ψ : Type} (le : α → α → Bool) (decode : ψ → π) (res : List (Entry (List ψ) α)) : List (π × α) :=
  (sortDesc le res).flatMap fun e => e.feat.map fun f => (decode f, e.reward)

/-! ## features, layouts, masks -/

/-- one candidate: continuous features (carrier `ρ`) and categorical features (indices) -/
structure Feat (ρ : Type) where
  cont : List ρ
  cat : List Nat
deriving DecidableEq, Repr

/-- `nCont ≤ nContPad` real continuous dimensions, `arities` = number of categories of each real
categorical feature, `nCatPad` categorical dimensions including padding -/
structure Layout where
  nCont : Nat
  nContPad : Nat
  arities : List Nat
  nCatPad : Nat
deriving DecidableEq, Repr

/-- `jnp.where(jnp.arange(pad) >= n, 0, x)` -/
def maskFrom {β : Type} : Nat → β → List β → List β
  | _, _, [] => []
  | 0, z, _ :: xs => z :: maskFrom 0 z xs
  | n + 1, z, x :: xs => x :: maskFrom n z xs

def maskFeat {ρ : Type} (zero : ρ) (L : Layout) (f : Feat ρ) : Feat ρ :=
  { cont := maskFrom L.nCont zero f.cont, cat := maskFrom L.arities.length 0 f.cat }

def zerosFeat {ρ : Type} (zero : ρ) (L : Layout) : Feat ρ :=
  { cont := List.replicate L.nContPad zero, cat := List.replicate L.nCatPad 0 }

/-- entries from index `n` on are all `z` -/
def zeroFrom {β : Type} [DecidableEq β] : Nat → β → List β → Bool
  | _, _, [] => true
  | 0, z, x :: xs => decide (x = z) && zeroFrom 0 z xs
  | n + 1, z, _ :: xs => zeroFrom n z xs

/-- the first `n` entries satisfy `p` -/
def firstAll {β : Type} (p : β → Bool) : Nat → List β → Bool
  | 0, _ => true
  | _ + 1, [] => true
  | n + 1, x :: xs => p x && firstAll p n xs

/-- `cat[i] < arities[i]` for every real categorical feature -/
def catsOk : List Nat → List Nat → Bool
  | [], _ => true
  | _ :: _, [] => false
  | a :: as, c :: cs => decide (c < a) && catsOk as cs

/-- what a strategy must deliver *before* the optimiser's padding mask: the right widths,
real continuous entries in [0,1], real categorical entries below their arity; padded entries
are unconstrained -/
def rawOk {ρ : Type} (leR : ρ → ρ → Bool) (zero one : ρ) (L : Layout) (f : Feat ρ) : Bool :=
  decide (f.cont.length = L.nContPad) && firstAll (fun x => leR zero x && leR x one) L.nCont f.cont &&
    decide (f.cat.length = L.nCatPad) && catsOk L.arities f.cat

/-- the property's predicate on a returned candidate: `rawOk` and padded dimensions are zero -/
def inBounds {ρ : Type} [DecidableEq ρ] (leR : ρ → ρ → Bool) (zero one : ρ) (L : Layout) (f : Feat ρ) : Bool :=
  rawOk leR zero one L f && zeroFrom L.nCont zero f.cont && zeroFrom L.arities.length 0 f.cat

/-! ## the eagle strategy's last steps -/

/-- `jnp.clip(x, 0, 1)` = `minimum(maximum(x, 0), 1)` -/
def clip01 {ρ : Type} (leR : ρ → ρ → Bool) (zero one : ρ) (x : ρ) : ρ :=
  let y := if leR zero x then x else zero
  if leR y one then y else one

/-- `DefaultProjection`: clip the continuous part, leave the categorical part -/
def project {ρ : Type} (leR : ρ → ρ → Bool) (zero one : ρ) (f : Feat ρ) : Feat ρ :=
  { cont := f.cont.map (clip01 leR zero one), cat := f.cat }

/-- index of the `r`-th `true` in a mask (the sampler's choice among categories of finite logit) -/
def nthTrue : List Bool → Nat → Nat
  | [], _ => 0
  | true :: _, 0 => 0
  | true :: bs, r + 1 => nthTrue bs r + 1
  | false :: bs, r => nthTrue bs r + 1

def countTrue (m : List Bool) : Nat := (m.filter id).length

/-- `tfd.Categorical(logits).sample()` where `logits[c] = −∞` for `c ≥ arity`: some category of
finite logit, which one is decided by the randomness `r` -/
def sampleCat (maxCat arity r : Nat) : Nat :=
  let mask := (List.range maxCat).map (fun c => decide (c < arity))
  nthTrue mask (r % countTrue mask)

/-- re-sampling of all real categorical features (padded ones are whatever `padVal` says) -/
def sampleCats (maxCat : Nat) : List Nat → List Nat → List Nat
  | [], _ => []
  | a :: as, [] => sampleCat maxCat a 0 :: sampleCats maxCat as []
  | a :: as, r :: rs => sampleCat maxCat a r :: sampleCats maxCat as rs

/-- the eagle strategy's `suggest` tail: mutated+perturbed continuous values are clipped,
categorical values are sampled; `padCats` are the (arbitrary) values of padded categorical
dimensions -/
def eagleFinish {ρ : Type} (leR : ρ → ρ → Bool) (zero one : ρ) (L : Layout) (maxCat : Nat)
    (mutated : List ρ) (rs : List Nat) (padCats : List Nat) : Feat ρ :=
  project leR zero one { cont := mutated, cat := sampleCats maxCat L.arities rs ++ padCats }

/-! ## the optimiser -/

structure Cfg where
  /-- `false` = the code as written (priors are scored, given to the strategy, never merged) -/
  priorsEnterBest : Bool
deriving DecidableEq, Repr

def Cfg.asWritten : Cfg := ⟨false⟩
def Cfg.fixed : Cfg := ⟨true⟩

/-- PRNG key splitting, abstract -/
structure Keys (κ : Type) where
  split2 : κ → κ × κ
  split3 : κ → κ × κ × κ

/-- an arbitrary strategy: any state, any functions of (key, state, scored priors / batches) -/
structure Strategy (κ σ ρ α : Type) where
  init : κ → List (Entry (Feat ρ) α) → σ
  suggest : κ → σ → List (Feat ρ)
  update : κ → σ → List (Entry (Feat ρ) α) → σ

/-- prior scoring: mask padded dimensions, score, and force −∞ on padded prior rows
(`jnp.where(logical_and(continuous_mask, categorical_mask), prior_rewards, -inf)`; the two masks
are `arange(n) < original_rows // n_parallel` of the two padded arrays) -/
def scorePriorsAux {ρ : Type} (zero : ρ) (L : Layout) (score : Feat ρ → α) (ph : α) (validC validK : Nat) :
    Nat → List (Feat ρ) → List (Entry (Feat ρ) α)
  | _, [] => []
  | i, f :: fs =>
    let f' := maskFeat zero L f
    ⟨f', if decide (i < validC) && decide (i < validK) then score f' else ph⟩ ::
      scorePriorsAux zero L score ph validC validK (i + 1) fs

def scorePriors {ρ : Type} (zero : ρ) (L : Layout) (score : Feat ρ → α) (ph : α) (validC validK : Nat)
    (priors : List (Feat ρ)) : List (Entry (Feat ρ) α) :=
  scorePriorsAux zero L score ph validC validK 0 priors

/-- one scored batch: `new_features = where(dimension_is_missing, 0, suggest(...))`,
`new_rewards = score(new_features)` -/
def scoreBatch {ρ : Type} (zero : ρ) (L : Layout) (score : Feat ρ → α) (raw : List (Feat ρ)) :
    List (Entry (Feat ρ) α) :=
  raw.map fun f => let f' := maskFeat zero L f; ⟨f', score f'⟩

/-- `n` iterations of `_optimization_one_step`; returns the best results and, for the proofs and
the tie, the list of scored batches in evaluation order -/
def loop {κ σ ρ : Type} (K : Keys κ) (S : Strategy κ σ ρ α) (le : α → α → Bool) (zero : ρ) (L : Layout)
    (score : Feat ρ → α) (count : Nat) :
    Nat → σ → List (Entry (Feat ρ) α) → κ → List (Entry (Feat ρ) α) × List (List (Entry (Feat ρ) α))
  | 0, _, best, _ => (best, [])
  | n + 1, st, best, key =>
    let ks := K.split3 key        -- (suggest_seed, update_seed, new_seed)
    let batch := scoreBatch zero L score (S.suggest ks.1 st)
    let st' := S.update ks.2.1 st batch
    let best' := updateBest le count best batch
    let r := loop K S le zero L score count n st' best' ks.2.2
    (r.1, batch :: r.2)

def scoredPriors {ρ : Type} (zero : ρ) (ph : α) (L : Layout) (score : Feat ρ → α)
    (priors : Option (List (Feat ρ) × Nat × Nat)) : List (Entry (Feat ρ) α) :=
  match priors with
  | none => []
  | some (ps, vc, vk) => scorePriors zero L score ph vc vk ps

/-- the best results the loop starts from -/
def initBest {ρ : Type} (cfg : Cfg) (le : α → α → Bool) (zero : ρ) (ph : α) (L : Layout) (count : Nat)
    (scored : List (Entry (Feat ρ) α)) : List (Entry (Feat ρ) α) :=
  let init := placeholders count (zerosFeat zero L) ph
  if cfg.priorsEnterBest then updateBest le count init scored else init

/-- `VectorizedOptimizer.__call__` (the acquisition key `acq_fn_seed` is fixed for the whole call,
which is why `score` is a plain function here) -/
def optimize {κ σ ρ : Type} (cfg : Cfg) (K : Keys κ) (S : Strategy κ σ ρ α) (le : α → α → Bool)
    (zero : ρ) (ph : α) (L : Layout) (scoreOf : κ → Feat ρ → α) (count nIter : Nat)
    (priors : Option (List (Feat ρ) × Nat × Nat)) (seed : κ) :
    List (Entry (Feat ρ) α) × List (List (Entry (Feat ρ) α)) :=
  let s1 := K.split2 seed         -- (seed, acq_fn_seed)
  let score := scoreOf s1.2
  let scored := scoredPriors zero ph L score priors
  let s2 := K.split2 s1.1         -- (init_seed, loop_seed)
  let init := initBest cfg le zero ph L count scored
  loop K S le zero L score count nIter (S.init s2.1 scored) init s2.2

end VizierModel.TopK
