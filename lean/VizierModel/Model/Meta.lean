/-
Model of the metadata store (C10): `metadata_util.merge_study_metadata` /
`merge_trial_metadata`, and `update_metadata` of both datastores
(`ram_datastore.py`, `sql_datastore.py`).  Core Lean only.

Keys are `(ns, key)` pairs of the *encoded* namespace and the key; the code builds a
dict keyed by that pair from the old entries then the new ones, and writes the
values back `sorted(…, key=(ns, key))`.  The model folds an ordered insert
(`ins`) over `old ++ new`; `lt` is the strict order on keys (for the driver:
lexicographic order on pairs of strings = Python's tuple-of-str order).
-/
namespace VizierModel.Meta

variable {κ ν : Type} [DecidableEq κ]

/-- insert-or-replace into a key-sorted association list -/
def ins (lt : κ → κ → Bool) (kv : κ × ν) : List (κ × ν) → List (κ × ν)
  | [] => [kv]
  | x :: xs =>
    if lt kv.1 x.1 then kv :: x :: xs
    else if kv.1 = x.1 then kv :: xs
    else x :: ins lt kv xs

/-- `merge_study_metadata(spec, new)` / `merge_trial_metadata(trial, new)` on the
entry lists. -/
def merge (lt : κ → κ → Bool) (old new : List (κ × ν)) : List (κ × ν) :=
  (old ++ new).foldl (fun acc kv => ins lt kv acc) []

/-- what a reader sees for key `k` (`from_key_value_list` assigns in order, so
the last entry wins) -/
def lookupLast (l : List (κ × ν)) (k : κ) : Option ν :=
  (l.reverse.find? (fun e => e.1 = k)).map (·.2)

/-! ### the store: one study with its trials -/

inductive Target where
  | study
  | trial (id : Nat)
  deriving DecidableEq, Repr

structure Upd (κ ν : Type) where
  tgt : Target
  k : κ
  v : ν

structure Store (κ ν : Type) where
  study : List (κ × ν)
  trials : List (Nat × List (κ × ν))   -- in creation order, ids unique

inductive Err where
  | notFound      -- custom_errors.NotFoundError (a KeyError with string args): reported in error_details
  | keyErrorRaw   -- RAM as written: KeyError(int) -> ';'.join(e.args) raises TypeError
  deriving DecidableEq, Repr

def studyPart (us : List (Upd κ ν)) : List (κ × ν) :=
  us.filterMap fun u => match u.tgt with | .study => some (u.k, u.v) | .trial _ => none

def trialPart (us : List (Upd κ ν)) (id : Nat) : List (κ × ν) :=
  us.filterMap fun u => match u.tgt with | .trial j => if j = id then some (u.k, u.v) else none | .study => none

/-- trial ids named by the update, in first-appearance order (`split_metadata` keys) -/
def namedIds (us : List (Upd κ ν)) : List Nat :=
  (us.filterMap fun u => match u.tgt with | .trial j => some j | .study => none).eraseDups

def hasTrial (s : Store κ ν) (id : Nat) : Bool := s.trials.any (·.1 = id)

def mergeTrial (lt : κ → κ → Bool) (trials : List (Nat × List (κ × ν))) (id : Nat) (new : List (κ × ν)) :
    List (Nat × List (κ × ν)) :=
  trials.map fun t => if t.1 = id then (t.1, merge lt t.2 new) else t

/-- `SQLDataStore.update_metadata` (and the RAM datastore after the fix): all or
nothing.  The study is assumed present (a missing study is refused before the
datastore is reached; modelled in the service model). -/
def updateAtomic (lt : κ → κ → Bool) (s : Store κ ν) (us : List (Upd κ ν)) : Except Err (Store κ ν) :=
  if (namedIds us).all (hasTrial s) then
    .ok { study := merge lt s.study (studyPart us),
          trials := (namedIds us).foldl (fun ts id => mergeTrial lt ts id (trialPart us id)) s.trials }
  else .error .notFound

/-- `RAMDataStore.update_metadata` as written at the pinned commit: the study part
and the trials before the first missing one are written, then `KeyError(int)`. -/
def updateRamLegacy (lt : κ → κ → Bool) (s : Store κ ν) (us : List (Upd κ ν)) : Except Err (Store κ ν) × Store κ ν :=
  let s0 : Store κ ν := { s with study := merge lt s.study (studyPart us) }
  let rec go (ids : List Nat) (cur : Store κ ν) : Except Err (Store κ ν) × Store κ ν :=
    match ids with
    | [] => (.ok cur, cur)
    | id :: rest =>
      if hasTrial cur id then go rest { cur with trials := mergeTrial lt cur.trials id (trialPart us id) }
      else (.error .keyErrorRaw, cur)
  go (namedIds us) s0

/-- what a reader sees -/
def view (s : Store κ ν) (t : Target) (k : κ) : Option ν :=
  match t with
  | .study => lookupLast s.study k
  | .trial id => match s.trials.find? (·.1 = id) with
    | some tr => lookupLast tr.2 k
    | none => none

/-- the value the update list writes last for `(t, k)` -/
def lastWrite (us : List (Upd κ ν)) (t : Target) (k : κ) : Option ν :=
  (us.reverse.find? (fun u => u.tgt = t ∧ u.k = k)).map (·.v)

/-! ### histories -/

inductive Op (κ ν : Type) where
  | update (us : List (Upd κ ν))
  | addTrial (id : Nat) (md : List (κ × ν))   -- CreateTrial / a suggestion being stored
  | delTrial (id : Nat)

def step (lt : κ → κ → Bool) (s : Store κ ν) : Op κ ν → Store κ ν
  | .update us => match updateAtomic lt s us with | .ok s' => s' | .error _ => s
  | .addTrial id md => if hasTrial s id then s else { s with trials := s.trials ++ [(id, md)] }
  | .delTrial id => { s with trials := s.trials.filter (·.1 ≠ id) }

def run (lt : κ → κ → Bool) (s : Store κ ν) (h : List (Op κ ν)) : Store κ ν := h.foldl (step lt) s

/-- `(ns, key)` tuples compare like Python tuples of `str` (code-point lexicographic) -/
def keyLt (a b : String × String) : Bool := decide (a.1 < b.1) || (a.1 == b.1 && decide (a.2 < b.2))

/-- The abstract last-writer-wins specification: which trials exist, and a plain
function `Target → κ → Option ν`. -/
structure Spec (κ ν : Type) where
  ids : List Nat
  f : Target → κ → Option ν

def specStep (sp : Spec κ ν) : Op κ ν → Spec κ ν
  | .update us =>
    if (namedIds us).all (fun i => sp.ids.contains i) then
      { sp with f := fun t k => match lastWrite us t k with | some v => some v | none => sp.f t k }
    else sp     -- an update naming a missing trial changes nothing
  | .addTrial id md =>
    if sp.ids.contains id then sp
    else { ids := sp.ids ++ [id], f := fun t k => if t = .trial id then lookupLast md k else sp.f t k }
  | .delTrial id =>
    { ids := sp.ids.filter (· ≠ id), f := fun t k => if t = .trial id then none else sp.f t k }

def abs (s : Store κ ν) : Spec κ ν := { ids := s.trials.map (·.1), f := view s }

end VizierModel.Meta
