/-
Model of how a client reads parameter values (C17):
`StudyConfig._trial_to_external_values` / `_pytrial_parameters` / `trial_parameters`
(`vizier/_src/pyvizier/oss/study_config.py`), `ParameterValue.cast`
(`shared/trial.py`), `SearchSpaceSelector.parse_multi_dimensional_parameter_name`
(`shared/parameter_config.py`) and the wire step of
`proto_converters.ParameterValueConverter` (`to_proto` then `from_proto`).
Core Lean only; builds on `Model/Space.lean`.

NOT modelled: `\d` matching non-ASCII digits and `$` matching before a trailing newline in
the index regex (names are assumed to use ASCII digits and not to end in a newline);
`float(str)`/`int(str)` parsing in `as_float`/`as_int` (a string other than
'True'/'False' gives `None`, as for every non-numeral string).
-/
import VizierModel.Model.Space
namespace VizierModel.Space

/-! ## the wire: `ParameterValueConverter.to_proto` then `from_proto` -/

/-- `to_proto` tests `isinstance(value, int)` first, which is true of a `bool`, so ints,
bools and floats all travel as `number_value` (a double); strings as `string_value`. -/
def wire : PVal → PVal
  | .int i => .flt (.fin i)
  | .bool b => .flt (.fin (b2r b))
  | .flt x => .flt x
  | .str s => .str s

def wireTrial (t : Assign) : Assign := t.map fun e => (e.1, wire e.2)

/-! ## `ParameterValue.cast` -/

/-- `cast(external_type)`; `none` is Python's `None`; `as_int` of an infinity raises OverflowError -/
def cast (e : ExtType) (v : PVal) : Except Err (Option PVal) :=
  match e with
  | .internal => .ok (some v)
  | .boolean => .ok ((asBool v).map PVal.bool)
  | .integer => match asInt v with
    | .ok o => .ok (o.map PVal.int)
    | .error err => .error err
  | .float => .ok ((asFloat v).map PVal.flt)

/-! ## `_trial_to_external_values` -/

/-- an entry of `parameter_configs`: `(parent_name, pc)`; the child's
`matching_parent_values` is the one-element list holding its subspace key.  `pv` is used
by the variant `parentByName = false` only: the stored value of the parent. -/
structure QE where
  parent : Option (String × PVal)
  pv : Option PVal
  pc : PC

/-- `(pc.name, child) for child in pc.child_parameter_configs` -/
def childEntries (p : PC) (v : Option PVal) : List QE := p.kids.map fun kc => ⟨some (p.name, kc.1), v, kc.2⟩

structure LoopSt where
  remaining : Assign                        -- remaining_parameters
  pvals : Assign                            -- parameter_values
  ext : List (String × Option PVal)         -- external_values (insertion order)

def eraseKey (a : Assign) (n : String) : Assign := a.filter fun e => e.1 != n

/-- the parent test of one entry against `parameter_values` (code as written) -/
def parentOK (pvals : Assign) : Option (String × PVal) → Bool
  | none => true
  | some (pn, k) => match lookup pvals pn with
    | none => false                         -- `parent_name not in parameter_values`
    | some pv => pyEq pv k                  -- `parent_value in pc.matching_parent_values`

/-- one accepted parameter: record the raw and the external value, drop it from `remaining` -/
def takeParam (st : LoopSt) (name : String) (v : PVal) (x : Option PVal) : LoopSt :=
  { remaining := eraseKey st.remaining name, pvals := st.pvals ++ [(name, v)], ext := st.ext ++ [(name, x)] }

/-- the `while parameter_configs and remaining_parameters` loop as written; `fuel` bounds the
iterations (one per config of the tree: `sizeSpace` of the space is enough) -/
def extLoopByName : Nat → List QE → LoopSt → Except Err LoopSt
  | 0, _, st => .ok st
  | _ + 1, [], st => .ok st
  | n + 1, e :: q, st =>
    if st.remaining.isEmpty then .ok st else
    let q' := q ++ childEntries e.pc none     -- children are enqueued before any test
    match lookup st.remaining e.pc.name with
    | none => extLoopByName n q' st
    | some v =>
      if parentOK st.pvals e.parent then
        match cast e.pc.h.ext v with
        | .error err => .error err
        | .ok x => extLoopByName n q' (takeParam st e.pc.name v x)
      else extLoopByName n q' st

/-- the parent test of the variant below: the entry carries the parent's stored value -/
def flagId (e : QE) : Bool :=
  match e.parent, e.pv with
  | none, _ => true
  | some (_, k), some pv => pyEq pv k
  | some _, none => false

/-- the variant that carries the parent's value with each child entry and enqueues the
children of accepted parameters only (`fixes/c17-parent-by-value.diff`) -/
def extLoopById : Nat → List QE → LoopSt → Except Err LoopSt
  | 0, _, st => .ok st
  | _ + 1, [], st => .ok st
  | n + 1, e :: q, st =>
    if st.remaining.isEmpty then .ok st else
    match lookup st.remaining e.pc.name with
    | none => extLoopById n q st
    | some v =>
      if flagId e then
        match cast e.pc.h.ext v with
        | .error err => .error err
        | .ok x => extLoopById n (q ++ childEntries e.pc (some v)) (takeParam st e.pc.name v x)
      else extLoopById n q st

def rootEntries (ss : List PC) : List QE := ss.map fun p => ⟨none, none, p⟩

def trialToExternalValues (cfg : Cfg) (ss : List PC) (t : Assign) : Except Err (List (String × Option PVal)) :=
  let r := if cfg.parentByName then extLoopByName (sizeSpace ss) (rootEntries ss) ⟨t, [], []⟩
           else extLoopById (sizeSpace ss) (rootEntries ss) ⟨t, [], []⟩
  match r with
  | .error e => .error e
  | .ok st => .ok st.ext

/-! ## grouping of `name[i]` -/

def isDigit (c : Char) : Bool := '0' ≤ c && c ≤ '9'

def digitsToNat (ds : List Char) : Nat := ds.foldl (fun acc c => acc * 10 + (c.toNat - '0'.toNat)) 0

/-- the regex `(?P<name>[^()]*)\[(?P<index>\d+)\]$` applied with `match` to the
characters of the name, read from the end -/
def parseIndexedChars (cs : List Char) : Option (List Char × Nat) :=
  match cs.reverse with
  | ']' :: rest =>
    let ds := rest.takeWhile isDigit                   -- the digits, reversed
    match rest.dropWhile isDigit with
    | '[' :: pre =>
      if ds.isEmpty then none
      else if pre.any (fun c => c == '(' || c == ')') then none
      else some (pre.reverse, digitsToNat ds.reverse)
    | _ => none
  | _ => none

def parseIndexed (name : String) : Option (String × Nat) :=
  (parseIndexedChars name.toList).map fun r => (String.ofList r.1, r.2)

inductive Presented where
  | one (v : Option PVal)
  | many (vs : List (Option PVal))
  deriving DecidableEq, Repr

/-- insertion into the index-sorted list (stable: `list.sort(key=index)`) -/
def insertIdx (x : Nat × Option PVal) : List (Nat × Option PVal) → List (Nat × Option PVal)
  | [] => [x]
  | y :: ys => if x.1 ≤ y.1 then x :: y :: ys else y :: insertIdx x ys

def sortIdx : List (Nat × Option PVal) → List (Nat × Option PVal)
  | [] => []
  | x :: xs => insertIdx x (sortIdx xs)

/-- dict assignment `d[k] = v`: replaces in place, else appends -/
def dictSet {β : Type} (d : List (String × β)) (k : String) (v : β) : List (String × β) :=
  if d.any (fun e => e.1 == k) then d.map (fun e => if e.1 == k then (k, v) else e) else d ++ [(k, v)]

/-- dict lookup -/
def dictGet {β : Type} (d : List (String × β)) (k : String) : Option β := (d.find? fun e => e.1 == k).map (·.2)

/-- first pass: plain names go to `trial_final_values`, indexed ones are collected per
base name (`multi_dim_params`, a defaultdict(list)) -/
def splitNames : List (String × Option PVal) → List (String × Presented) × List (String × List (Nat × Option PVal))
    → List (String × Presented) × List (String × List (Nat × Option PVal))
  | [], acc => acc
  | (n, v) :: rest, (fin, multi) =>
    match parseIndexed n with
    | none => splitNames rest (dictSet fin n (.one v), multi)
    | some (base, i) =>
      splitNames rest (fin, dictSet multi base ((dictGet multi base).getD [] ++ [(i, v)]))

/-- second pass: every base name gets its values sorted by index (a plain parameter of the
same name is overwritten) -/
def mergeMulti : List (String × List (Nat × Option PVal)) → List (String × Presented) → List (String × Presented)
  | [], fin => fin
  | (base, l) :: rest, fin => mergeMulti rest (dictSet fin base (.many ((sortIdx l).map (·.2))))

def group (ext : List (String × Option PVal)) : List (String × Presented) :=
  let (fin, multi) := splitNames ext ([], [])
  mergeMulti multi fin

/-- `_pytrial_parameters` -/
def pytrialParameters (cfg : Cfg) (ss : List PC) (t : Assign) : Except Err (List (String × Presented)) :=
  match trialToExternalValues cfg ss t with
  | .error e => .error e
  | .ok ext => if ext.length != t.length then .error .value else .ok (group ext)

/-- `trial_parameters(proto)`: the trial comes off the wire -/
def trialParameters (cfg : Cfg) (ss : List PC) (t : Assign) : Except Err (List (String × Presented)) :=
  pytrialParameters cfg ss (wireTrial t)

end VizierModel.Space
