/-
Representation-level models of the two datastores (C07): `ram_datastore.py` keeps nested
dictionaries (owner → study → {study proto, trials dict, clients dict → operations dict}),
`sql_datastore.py` keeps flat tables whose rows come back in insertion (rowid) order.  Each
datastore method is modelled on both representations, following the code (existence checks,
error kinds, `max` vs `len`, cascade on delete).  Core Lean only.  Early-stopping operations
have their own small model (`Model/StoresEs.lean`).
-/
import VizierModel.Model.Service

namespace VizierModel.Stores
open VizierModel.Svc

abbrev SKey := String × String          -- (owner_id, study_id)

structure Head where
  state : SState
  spec : Nat
  md : MD
  deriving DecidableEq, Repr, Inhabited

inductive DsErr where
  | notFound | alreadyExists
  deriving DecidableEq, Repr

/-- one `update_metadata` call, already split as the code splits it: the study part and, per trial id (in
first-occurrence order, `split_metadata`), that trial's part -/
structure MdDelta where
  study : MD
  trials : List (Nat × MD)
  deriving Repr

/-- `metadata_util.merge_*_metadata`: last writer wins per (namespace, key) (the `Meta` model of C10) -/
def mergeMd (old new : MD) : MD := Meta.merge Meta.keyLt old new

def isOk {ε α : Type} : Except ε α → Bool
  | .ok _ => true
  | .error _ => false

/-! ### RAM: nested association lists (Python dicts keep insertion order) -/

structure RNode where
  head : Head
  trials : List Trial
  clients : List (String × List SugOp)
  deriving Repr, Inhabited

structure Ram where
  owners : List (String × List (String × RNode))
  deriving Repr, Inhabited

def Ram.empty : Ram := { owners := [] }

def Ram.studiesOfOwner (r : Ram) (o : String) : Option (List (String × RNode)) :=
  (r.owners.find? (·.1 == o)).map (·.2)

def Ram.node (r : Ram) (k : SKey) : Option RNode :=
  match r.studiesOfOwner k.1 with
  | none => none
  | some ss => (ss.find? (·.1 == k.2)).map (·.2)

/-- replace the node of study `k` (which must exist) -/
def Ram.setNode (r : Ram) (k : SKey) (n : RNode) : Ram :=
  { owners := r.owners.map fun (o, ss) =>
      if o == k.1 then (o, ss.map fun (s, x) => if s == k.2 then (s, n) else (s, x)) else (o, ss) }

def RNode.opsOf (n : RNode) (c : String) : Option (List SugOp) := (n.clients.find? (·.1 == c)).map (·.2)

def RNode.setOps (n : RNode) (c : String) (ops : List SugOp) : RNode :=
  match n.opsOf c with
  | some _ => { n with clients := n.clients.map fun (c', l) => if c' == c then (c', ops) else (c', l) }
  | none => { n with clients := n.clients ++ [(c, ops)] }

namespace Ram

def createStudy (r : Ram) (k : SKey) (h : Head) : Except DsErr Ram :=
  let node : RNode := { head := h, trials := [], clients := [] }
  match r.studiesOfOwner k.1 with
  | none => .ok { owners := r.owners ++ [(k.1, [(k.2, node)])] }
  | some ss =>
    if ss.any (·.1 == k.2) then .error .alreadyExists
    else .ok { owners := r.owners.map fun (o, l) => if o == k.1 then (o, l ++ [(k.2, node)]) else (o, l) }

def loadStudy (r : Ram) (k : SKey) : Except DsErr Head :=
  match r.node k with | some n => .ok n.head | none => .error .notFound

def updateStudy (r : Ram) (k : SKey) (h : Head) : Except DsErr Ram :=
  match r.node k with | some n => .ok (r.setNode k { n with head := h }) | none => .error .notFound

def deleteStudy (r : Ram) (k : SKey) : Except DsErr Ram :=
  match r.node k with
  | none => .error .notFound
  | some _ => .ok { owners := r.owners.map fun (o, l) => if o == k.1 then (o, l.filter (·.1 != k.2)) else (o, l) }

def listStudies (r : Ram) (o : String) : Except DsErr (List (String × Head)) :=
  match r.studiesOfOwner o with
  | none => .error .notFound
  | some ss => .ok (ss.map fun (s, n) => (s, n.head))

def createTrial (r : Ram) (k : SKey) (t : Trial) : Except DsErr Ram :=
  match r.node k with
  | none => .error .notFound
  | some n =>
    if n.trials.any (·.id == t.id) then .error .alreadyExists
    else .ok (r.setNode k { n with trials := n.trials ++ [t] })

def getTrial (r : Ram) (k : SKey) (id : Nat) : Except DsErr Trial :=
  match r.node k with
  | none => .error .notFound
  | some n => match n.trials.find? (·.id == id) with | some t => .ok t | none => .error .notFound

def updateTrial (r : Ram) (k : SKey) (t : Trial) : Except DsErr Ram :=
  match r.node k with
  | none => .error .notFound
  | some n =>
    if n.trials.any (·.id == t.id) then
      .ok (r.setNode k { n with trials := n.trials.map fun x => if x.id == t.id then t else x })
    else .error .notFound

def listTrials (r : Ram) (k : SKey) : Except DsErr (List Trial) :=
  match r.node k with | some n => .ok n.trials | none => .error .notFound

def deleteTrial (r : Ram) (k : SKey) (id : Nat) : Except DsErr Ram :=
  match r.node k with
  | none => .error .notFound
  | some n =>
    if n.trials.any (·.id == id) then .ok (r.setNode k { n with trials := n.trials.filter (·.id != id) })
    else .error .notFound

/-- `max(trial_ids) if trial_ids else 0` -/
def maxTrialId (r : Ram) (k : SKey) : Except DsErr Nat :=
  match r.node k with | some n => .ok (n.trials.foldl (fun m t => max m t.id) 0) | none => .error .notFound

def createOp (r : Ram) (k : SKey) (op : SugOp) : Except DsErr Ram :=
  match r.node k with
  | none => .error .notFound
  | some n =>
    let ops := (n.opsOf op.client).getD []
    if ops.any (·.num == op.num) then .error .alreadyExists
    else .ok (r.setNode k (n.setOps op.client (ops ++ [op])))

def getOp (r : Ram) (k : SKey) (c : String) (num : Nat) : Except DsErr SugOp :=
  match r.node k with
  | none => .error .notFound
  | some n => match (n.opsOf c).bind (·.find? (·.num == num)) with | some o => .ok o | none => .error .notFound

def updateOp (r : Ram) (k : SKey) (op : SugOp) : Except DsErr Ram :=
  match r.node k with
  | none => .error .notFound
  | some n =>
    match n.opsOf op.client with
    | none => .error .notFound
    | some ops =>
      -- `operations[number] = op`: a dict assignment, i.e. an UPSERT (no check that the number exists)
      .ok (r.setNode k (n.setOps op.client
        (if ops.any (·.num == op.num) then ops.map fun x => if x.num == op.num then op else x else ops ++ [op])))

def listOps (r : Ram) (k : SKey) (c : String) : Except DsErr (List SugOp) :=
  match r.node k with
  | none => .error .notFound
  | some n => match n.opsOf c with | some ops => .ok ops | none => .error .notFound

/-- `len(ops)` -/
def maxOpNumber (r : Ram) (k : SKey) (c : String) : Except DsErr Nat :=
  match r.node k with
  | none => .error .notFound
  | some n => match n.opsOf c with | some ops => .ok ops.length | none => .error .notFound

/-- "Now, we update one Trial at a time" -/
def updMdTrials (r : Ram) (k : SKey) : List (Nat × MD) → Except DsErr Ram
  | [] => .ok r
  | (id, m) :: rest =>
    match r.getTrial k id with
    | .error e => .error e
    | .ok t =>
      match r.updateTrial k { t with md := mergeMd t.md m } with
      | .error e => .error e
      | .ok r' => updMdTrials r' k rest

/-- `update_metadata` (repaired RAM store): the study must exist, EVERY named trial must exist before anything is
written, then the study part is merged into the study spec and each trial's part into that trial -/
def updateMetadata (r : Ram) (k : SKey) (d : MdDelta) : Except DsErr Ram :=
  match r.loadStudy k with
  | .error e => .error e
  | .ok h =>
    if d.trials.all (fun e => isOk (r.getTrial k e.1)) then
      match r.updateStudy k { h with md := mergeMd h.md d.study } with
      | .error e => .error e
      | .ok r1 => r1.updMdTrials k d.trials
    else .error .notFound

end Ram

/-! ### SQL: flat tables, rows in insertion order -/

structure Sql where
  owners : List String
  studies : List (SKey × Head)
  trials : List (SKey × Trial)
  ops : List (SKey × SugOp)
  deriving Repr, Inhabited

def Sql.empty : Sql := { owners := [], studies := [], trials := [], ops := [] }

namespace Sql

def hasStudy (q : Sql) (k : SKey) : Bool := q.studies.any (·.1 == k)

def createStudy (q : Sql) (k : SKey) (h : Head) : Except DsErr Sql :=
  if q.hasStudy k then .error .alreadyExists
  else .ok { q with owners := if q.owners.contains k.1 then q.owners else q.owners ++ [k.1],
                    studies := q.studies ++ [(k, h)] }

def loadStudy (q : Sql) (k : SKey) : Except DsErr Head :=
  match q.studies.find? (·.1 == k) with | some row => .ok row.2 | none => .error .notFound

def updateStudy (q : Sql) (k : SKey) (h : Head) : Except DsErr Sql :=
  if q.hasStudy k then .ok { q with studies := q.studies.map fun row => if row.1 == k then (k, h) else row }
  else .error .notFound

/-- the repaired delete: study row, its trials and its operation rows in one transaction -/
def deleteStudy (q : Sql) (k : SKey) : Except DsErr Sql :=
  if q.hasStudy k then
    .ok { q with studies := q.studies.filter (·.1 != k), trials := q.trials.filter (·.1 != k),
                 ops := q.ops.filter (·.1 != k) }
  else .error .notFound

def listStudies (q : Sql) (o : String) : Except DsErr (List (String × Head)) :=
  if q.owners.contains o then .ok ((q.studies.filter (·.1.1 == o)).map fun row => (row.1.2, row.2))
  else .error .notFound

/-- primary key trial_name = (study key, id); NOTE: no check that the study exists -/
def createTrial (q : Sql) (k : SKey) (t : Trial) : Except DsErr Sql :=
  if q.trials.any (fun row => row.1 == k && row.2.id == t.id) then .error .alreadyExists
  else .ok { q with trials := q.trials ++ [(k, t)] }

def getTrial (q : Sql) (k : SKey) (id : Nat) : Except DsErr Trial :=
  match q.trials.find? (fun row => row.1 == k && row.2.id == id) with
  | some row => .ok row.2 | none => .error .notFound

def updateTrial (q : Sql) (k : SKey) (t : Trial) : Except DsErr Sql :=
  if q.trials.any (fun row => row.1 == k && row.2.id == t.id) then
    .ok { q with trials := q.trials.map fun row => if row.1 == k && row.2.id == t.id then (k, t) else row }
  else .error .notFound

def listTrials (q : Sql) (k : SKey) : Except DsErr (List Trial) :=
  if q.hasStudy k then .ok ((q.trials.filter (·.1 == k)).map (·.2)) else .error .notFound

def deleteTrial (q : Sql) (k : SKey) (id : Nat) : Except DsErr Sql :=
  if q.trials.any (fun row => row.1 == k && row.2.id == id) then
    .ok { q with trials := q.trials.filter fun row => !(row.1 == k && row.2.id == id) }
  else .error .notFound

/-- `SELECT max(trial_id)`; 0 when there is no row -/
def maxTrialId (q : Sql) (k : SKey) : Except DsErr Nat :=
  if q.hasStudy k then .ok (((q.trials.filter (·.1 == k)).map (·.2)).foldl (fun m t => max m t.id) 0)
  else .error .notFound

def opsOf (q : Sql) (k : SKey) (c : String) : List SugOp :=
  ((q.ops.filter (·.1 == k)).map (·.2)).filter (·.client == c)

/-- primary key operation_name = (study key, client, number); NOTE: no check that the study exists -/
def createOp (q : Sql) (k : SKey) (op : SugOp) : Except DsErr Sql :=
  if (q.opsOf k op.client).any (·.num == op.num) then .error .alreadyExists
  else .ok { q with ops := q.ops ++ [(k, op)] }

def getOp (q : Sql) (k : SKey) (c : String) (num : Nat) : Except DsErr SugOp :=
  match (q.opsOf k c).find? (·.num == num) with | some o => .ok o | none => .error .notFound

def updateOp (q : Sql) (k : SKey) (op : SugOp) : Except DsErr Sql :=
  if (q.opsOf k op.client).any (·.num == op.num) then
    .ok { q with ops := q.ops.map fun row =>
            if row.1 == k && row.2.client == op.client && row.2.num == op.num then (k, op) else row }
  else .error .notFound

def listOps (q : Sql) (k : SKey) (c : String) : Except DsErr (List SugOp) :=
  match q.opsOf k c with | [] => .error .notFound | l => .ok l

/-- `SELECT max(operation_number)` over the (study, client) rows -/
def maxOpNumber (q : Sql) (k : SKey) (c : String) : Except DsErr Nat :=
  match q.opsOf k c with | [] => .error .notFound | l => .ok (l.foldl (fun m o => max m o.num) 0)

/-- "Now, we update one Trial at a time" -/
def updMdTrials (q : Sql) (k : SKey) : List (Nat × MD) → Except DsErr Sql
  | [] => .ok q
  | (id, m) :: rest =>
    match q.getTrial k id with
    | .error e => .error e
    | .ok t =>
      match q.updateTrial k { t with md := mergeMd t.md m } with
      | .error e => .error e
      | .ok q' => updMdTrials q' k rest

/-- `update_metadata`: one transaction — the study row is rewritten, then each named trial row; a missing trial
rolls EVERYTHING back (`self._connection.rollback()`), which is the same as checking all trials first -/
def updateMetadata (q : Sql) (k : SKey) (d : MdDelta) : Except DsErr Sql :=
  match q.loadStudy k with
  | .error e => .error e
  | .ok h =>
    if d.trials.all (fun e => isOk (q.getTrial k e.1)) then
      match q.updateStudy k { h with md := mergeMd h.md d.study } with
      | .error e => .error e
      | .ok q1 => q1.updMdTrials k d.trials
    else .error .notFound

end Sql

end VizierModel.Stores
