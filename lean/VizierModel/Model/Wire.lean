/-
Model of the wire-format converters (C09): `vizier/_src/pyvizier/oss/proto_converters.py`,
`study_config.py` (`StudyConfig.to_proto/from_proto`) and `metadata_util.py`.  Core Lean only.

Every pair has a Python-side mirror type (`PC`, `Meas`, `Trial`, …), a proto-side mirror type
(`PSpec`, `PMeas`, `PTrial`, …) and `toProto` / `fromProto` transcribed from the converters.

Conventions of the transcription
* numbers are exact (`Rat`, `Int`); Python `int`/`float` are distinguished only where the code
  does (`isinstance`), never by value;
* `Option` on a proto-side *message* field is its presence bit (`HasField`); proto3 scalar fields
  have no presence: "absent" is the default value (`0`, `""`), which is why a truthiness test
  (`if proto.x:`) and a presence test differ;
* a Python dict is an insertion-ordered association list (`insBy`, `modifyD`); empty
  `Metadata` stores (the root store every `Metadata()` owns, stores created by a mere read) are
  representable but invisible (`mdNorm`), and the harness does not send them;
* `str(int)` / `int(str)` of trial ids are the identity on `Int` (trusted base: Python int printing);
* `from_proto` is modelled on its success path: the `ValueError`s of `ParameterConfig.factory`,
  `SearchSpace.add` (duplicate name), `subspace` (infeasible parent value) are outside the model
  (a duplicate replaces, an infeasible parent value is accepted); the tie checks on every
  generated object that the real `from_proto` accepts what the real `to_proto` produced.

Variant flags (DESIGN 2.4) — one per defect of the pinned commit; `Cfg.asWritten` is the code as
it is, `Cfg.fixed` the intended behaviour:
* `readNanos`          `MeasurementConverter.from_proto` reads `elapsed_duration.nanos`;
* `defaultHasField`    `ParameterConfigConverter.from_proto` tests presence of `default_value`
                       (`HasField`) instead of the truthiness of its `.value`;
* `recurseBeforeCopy`  `_set_child_parameter_configs` puts the grandchildren into the proto that
                       is stored in the parent (as written it fills `child_proto` *after*
                       `ConditionalParameterSpec(parameter_spec=child_proto)` has copied it);
* `infeasibleEndTime`  `TrialConverter.from_proto` reads `end_time` of an INFEASIBLE trial too (as
                       written only of a SUCCEEDED one, so an infeasible trial comes back with its
                       creation time as completion time).
-/
import VizierModel.Model.Namespace

namespace VizierModel.Wire
open VizierModel

structure Cfg where
  readNanos : Bool
  defaultHasField : Bool
  recurseBeforeCopy : Bool
  infeasibleEndTime : Bool
  deriving DecidableEq, Repr

def Cfg.asWritten : Cfg := ⟨false, false, false, false⟩
def Cfg.fixed : Cfg := ⟨true, true, true, true⟩

/-! ## Python dicts and `sorted` -/

section Dict
variable {κ ι α σ : Type} [DecidableEq κ] [DecidableEq ι]

/-- `d[key a] = a` on an insertion-ordered dict (an existing key keeps its position). -/
def insBy (key : α → ι) (a : α) : List α → List α
  | [] => [a]
  | x :: xs => if key x = key a then a :: xs else x :: insBy key a xs

/-- `dd[k] = f(dd[k])` on a `collections.defaultdict` whose factory yields `init`. -/
def modifyD (k : κ) (f : σ → σ) (init : σ) : List (κ × σ) → List (κ × σ)
  | [] => [(k, f init)]
  | (k', s) :: rest => if k' = k then (k', f s) :: rest else (k', s) :: modifyD k f init rest

/-- `dd[k][key a] = a` -/
def groupIns (key : α → ι) (k : κ) (a : α) (d : List (κ × List α)) : List (κ × List α) :=
  modifyD k (insBy key a) [] d

/-- `[(k, a) for k, inner in d.items() for a in inner.values()]` -/
def flat (d : List (κ × List α)) : List (κ × α) :=
  d.flatMap fun g => g.2.map fun a => (g.1, a)

/-- insert a stream of `(k, a)` into an empty dict of dicts -/
def unflat (key : α → ι) (l : List (κ × α)) : List (κ × List α) :=
  l.foldl (fun acc e => groupIns key e.1 e.2 acc) []

def insSorted (lt : α → α → Bool) (a : α) : List α → List α
  | [] => [a]
  | x :: xs => if lt x a then x :: insSorted lt a xs else a :: x :: xs

/-- Python's (stable) `sorted` -/
def sortBy (lt : α → α → Bool) : List α → List α
  | [] => []
  | x :: xs => insSorted lt x (sortBy lt xs)

end Dict

def ltRat (a b : Rat) : Bool := decide (a < b)
def ltInt (a b : Int) : Bool := decide (a < b)
def ltStr (a b : String) : Bool := decide (a < b)

/-! ## ParameterConfig  ↔  StudySpec.ParameterSpec -/

inductive Scale | linear | log | reverseLog | uniformDiscrete
  deriving DecidableEq, Repr

/-- proto enum `ScaleType` (0 = `SCALE_TYPE_UNSPECIFIED`) -/
inductive PScale | unspecified | linear | log | reverseLog
  deriving DecidableEq, Repr

/-- `ExternalType` on both sides (proto 0 = `AS_INTERNAL`; the Python attribute converter maps
`None` to `INTERNAL`, so `None` is not a state) -/
inductive Ext | internal | boolean | integer | float
  deriving DecidableEq, Repr

/-- a Python-side value used as a subspace key / parent value -/
inductive Val | int (i : Int) | num (q : Rat) | str (s : String)
  deriving DecidableEq, Repr

/-- Python: `type` + `bounds` / `feasible_values` + `default_value` (`none` = `None`) -/
inductive Dom
  | double (lo hi : Rat) (dflt : Option Rat)
  | integer (lo hi : Int) (dflt : Option Int)
  | discrete (vs : List Rat) (dflt : Option Rat)
  | categorical (vs : List String) (dflt : Option String)
  deriving DecidableEq, Repr

structure Hdr where
  name : String
  dom : Dom
  scale : Option Scale
  ext : Ext
  deriving DecidableEq, Repr

/-- `ParameterConfig`: `_children : dict[value, SearchSpace]`, a `SearchSpace` being
`dict[name, ParameterConfig]`.  A child's `matching_parent_values` is `(value,)` of the subspace
it sits in (`SearchSpace.add` sets it), so it is not a separate field. -/
inductive PC where
  | mk (h : Hdr) (children : List (Val × List PC))
  deriving Repr

def PC.hdr : PC → Hdr | .mk h _ => h
def PC.children : PC → List (Val × List PC) | .mk _ cs => cs
def PC.name (p : PC) : String := p.hdr.name

/-- oneof `parameter_value_spec`; `dflt` is the wrapper message `default_value`
(`none` = not present, `some 0` = present with value 0) -/
inductive PKind
  | double (lo hi : Rat) (dflt : Option Rat)
  | integer (lo hi : Int) (dflt : Option Int)
  | categorical (vs : List String) (dflt : Option String)
  | discrete (vs : List Rat) (dflt : Option Rat)
  deriving DecidableEq, Repr

/-- oneof `parent_value_condition` -/
inductive PParent
  | unset
  | discrete (vs : List Rat)
  | ints (vs : List Int)
  | cats (vs : List String)
  deriving DecidableEq, Repr

structure PHdr where
  id : String
  kind : PKind
  scale : PScale
  ext : Ext
  deriving DecidableEq, Repr

inductive PSpec where
  | mk (h : PHdr) (conds : List (PParent × PSpec))
  deriving Repr

def PSpec.hdr : PSpec → PHdr | .mk h _ => h
def PSpec.conds : PSpec → List (PParent × PSpec) | .mk _ cs => cs

def scaleToProto : Option Scale → PScale
  | some .linear => .linear
  | some .log => .log
  | some .reverseLog => .reverseLog
  | some .uniformDiscrete => .unspecified   -- `pc.scale_type != ScaleType.UNIFORM_DISCRETE`
  | none => .unspecified

/-- `if proto.scale_type: scale_type = _ScaleTypeMap.from_proto(...)` -/
def scaleFromProto : PScale → Option Scale
  | .unspecified => none
  | .linear => some .linear
  | .log => some .log
  | .reverseLog => some .reverseLog

/-- `to_proto` without the children: `_set_feasible_points` sorts; `_set_default_value` creates the
wrapper whenever `default_value is not None` -/
def hdrToProto (h : Hdr) : PHdr :=
  { id := h.name
    kind := match h.dom with
      | .double lo hi d => .double lo hi d
      | .integer lo hi d => .integer lo hi d
      | .discrete vs d => .discrete (sortBy ltRat vs) d
      | .categorical vs d => .categorical vs d
    scale := scaleToProto h.scale
    ext := h.ext }

/-- reading `default_value`: as written `if ….default_value.value:` (an absent wrapper reads as
`0` / `""`), fixed: presence -/
def readDflt {α : Type} (cfg : Cfg) (truthy : α → Bool) (d : Option α) : Option α :=
  if cfg.defaultHasField then d else d.filter truthy

/-- `from_proto` without the children, through `ParameterConfig.factory` (which sorts the feasible
values) -/
def hdrFromProto (cfg : Cfg) (ph : PHdr) : Hdr :=
  { name := ph.id
    dom := match ph.kind with
      | .double lo hi d => .double lo hi (readDflt cfg (fun q => q != 0) d)
      | .integer lo hi d => .integer lo hi (readDflt cfg (fun i => i != 0) d)
      | .discrete vs d => .discrete (sortBy ltRat vs) (readDflt cfg (fun q => q != 0) d)
      | .categorical vs d => .categorical (sortBy ltStr vs) (readDflt cfg (fun s => s != "") d)
    scale := scaleFromProto ph.scale
    ext := ph.ext }

/-- which `parent_*_values` is filled is decided by the *parent's* value spec
(`parent_proto.HasField(...)`); `values[:] = sorted(child.matching_parent_values)`.  A key of the
wrong Python type makes protobuf raise (`.unset` here; excluded by `WF`). -/
def parentOf : Dom → Val → PParent
  | .discrete _ _, .num q => .discrete [q]
  | .categorical _ _, .str s => .cats [s]
  | .integer _ _ _, .int i => .ints [i]
  | _, _ => .unset

/-- `_matching_parent_values`, then `sorted(...)` in `_add_children` -/
def parentValues : PParent → List Val
  | .unset => []
  | .discrete vs => (sortBy ltRat vs).map .num
  | .ints vs => (sortBy ltInt vs).map .int
  | .cats vs => (sortBy ltStr vs).map .str

mutual
/-- `ParameterConfigConverter.to_proto` -/
def toProto (cfg : Cfg) : PC → PSpec
  | .mk h cs => .mk (hdrToProto h) (condsOfSubs cfg h.dom cs)
/-- `_set_child_parameter_configs`: `pc.child_parameter_configs` walks the subspaces in dict order -/
def condsOfSubs (cfg : Cfg) (dom : Dom) : List (Val × List PC) → List (PParent × PSpec)
  | [] => []
  | (v, ps) :: rest => condsOfList cfg dom v ps ++ condsOfSubs cfg dom rest
/-- the loop body: `child_proto = to_proto(child.clone_without_children)` (no children);
the `ConditionalParameterSpec` constructor COPIES it; the recursive call fills `child_proto` -/
def condsOfList (cfg : Cfg) (dom : Dom) (v : Val) : List PC → List (PParent × PSpec)
  | [] => []
  | .mk h cs :: ps =>
    let childProto := PSpec.mk (hdrToProto h) []
    let recursed := PSpec.mk (hdrToProto h) (condsOfSubs cfg h.dom cs)
    (parentOf dom v, if cfg.recurseBeforeCopy then recursed else childProto) :: condsOfList cfg dom v ps
end

/-- `_add_children`: `for pv in sorted(parent_values): parent.subspace(pv).add(copy(child))` -/
def addChildren (children : List (List Val × PC)) : List (Val × List PC) :=
  children.foldl (fun acc c => c.1.foldl (fun acc v => groupIns PC.name v c.2 acc) acc) []

mutual
/-- `ParameterConfigConverter.from_proto` -/
def fromProto (cfg : Cfg) : PSpec → PC
  | .mk ph conds => .mk (hdrFromProto cfg ph) (addChildren (childrenOf cfg conds))
def childrenOf (cfg : Cfg) : List (PParent × PSpec) → List (List Val × PC)
  | [] => []
  | (par, sp) :: rest => (parentValues par, fromProto cfg sp) :: childrenOf cfg rest
end

/-! nesting depth of the conditional tree (0 = no children) -/
mutual
def PC.depth : PC → Nat
  | .mk _ cs => depthSubs cs
def depthSubs : List (Val × List PC) → Nat
  | [] => 0
  | (_, ps) :: rest => max (depthList ps) (depthSubs rest)
def depthList : List PC → Nat
  | [] => 0
  | p :: ps => max (p.depth + 1) (depthList ps)
end

/-! ### validity (the hypothesis of the round-trip theorems), executable -/

def sortedBy {α : Type} (lt : α → α → Bool) (l : List α) : Bool :=
  decide (l.Pairwise (fun a b => lt b a = false))

/-- what `ParameterConfig.factory` guarantees: bounds in order, feasible values non-empty and
sorted; and the scale type is one the wire enum has -/
def Hdr.wf (h : Hdr) : Bool :=
  h.name != "" && h.scale != some .uniformDiscrete &&
  match h.dom with
  | .double lo hi _ => decide (lo ≤ hi)
  | .integer lo hi _ => decide (lo ≤ hi)
  | .discrete vs _ => !vs.isEmpty && sortedBy ltRat vs
  | .categorical vs _ => !vs.isEmpty && sortedBy ltStr vs

/-- the default value survives the reader of variant `cfg`: either the reader tests presence, or
the default is not a falsy value (`0`, `0.0`, `""`) -/
def Dom.dfltOk (cfg : Cfg) : Dom → Bool
  | .double _ _ d => cfg.defaultHasField || d != some 0
  | .integer _ _ d => cfg.defaultHasField || d != some 0
  | .discrete _ d => cfg.defaultHasField || d != some 0
  | .categorical _ d => cfg.defaultHasField || d != some ""

/-- a subspace key is a feasible value of the parent, in the parent's internal type
(`ParameterConfig.subspace` casts and checks) -/
def keyOk : Dom → Val → Bool
  | .discrete vs _, .num q => vs.contains q
  | .categorical vs _, .str s => vs.contains s
  | .integer lo hi _, .int i => decide (lo ≤ i) && decide (i ≤ hi)
  | _, _ => false

mutual
/-- `PC.ok cfg p`: `p` is a valid conditional tree (any depth) and lies in the class that variant
`cfg` of the converters transmits faithfully.  For `Cfg.fixed` this is plain validity. -/
def PC.ok (cfg : Cfg) : PC → Bool
  | .mk h cs =>
    h.wf && h.dom.dfltOk cfg && cs.all (fun g => keyOk h.dom g.1) &&
      decide ((cs.map Prod.fst).Nodup) && okSubs cfg cs
def okSubs (cfg : Cfg) : List (Val × List PC) → Bool
  | [] => true
  | (_, ps) :: rest =>
    !ps.isEmpty && decide ((ps.map PC.name).Nodup) && okList cfg ps && okSubs cfg rest
def okList (cfg : Cfg) : List PC → Bool
  | [] => true
  | .mk h cs :: ps =>
    PC.ok cfg (.mk h cs) && (cfg.recurseBeforeCopy || cs.isEmpty) && okList cfg ps
end

/-- validity of a conditional parameter tree -/
def PC.wf (p : PC) : Bool := p.ok Cfg.fixed

/-! ### SearchSpace ↔ `repeated ParameterSpec parameters` -/

/-- `SearchSpaceConverter.parameter_protos` -/
def spaceToProto (cfg : Cfg) (ps : List PC) : List PSpec := ps.map (toProto cfg)

/-- `SearchSpaceConverter.from_proto`: `space.add(from_proto(p))` into a dict keyed by name -/
def spaceFromProto (cfg : Cfg) (ps : List PSpec) : List PC :=
  ps.foldl (fun acc p => insBy PC.name (fromProto cfg p) acc) []

/-! ## MetricInformation ↔ StudySpec.MetricSpec -/

inductive Goal | maximize | minimize
  deriving DecidableEq, Repr
inductive PGoal | unspecified | maximize | minimize
  deriving DecidableEq, Repr

/-- `min_value`, `max_value`, `safety_std_threshold` have no wire field and are kept at their
defaults (outside the property's enumeration); not modelled. -/
structure MetricInfo where
  name : String
  goal : Goal
  safetyThreshold : Option Rat
  desiredMinSafeFraction : Option Rat
  deriving DecidableEq, Repr

structure PSafety where
  threshold : Rat
  desiredMinSafeFraction : Option Rat     -- `optional double`
  deriving DecidableEq, Repr

structure PMetricSpec where
  id : String
  goal : PGoal
  safety : Option PSafety                  -- message field `safety_config`
  deriving DecidableEq, Repr

def metricToProto (m : MetricInfo) : PMetricSpec :=
  { id := m.name
    goal := match m.goal with | .maximize => .maximize | .minimize => .minimize
    safety := match m.safetyThreshold with      -- `obj.type == SAFETY`
      | some t => some ⟨t, m.desiredMinSafeFraction⟩
      | none => none }

/-- `GOAL_TYPE_UNSPECIFIED` raises in the code; total here (never produced by `metricToProto`) -/
def metricFromProto (p : PMetricSpec) : MetricInfo :=
  { name := p.id
    goal := match p.goal with | .minimize => .minimize | _ => .maximize
    safetyThreshold := p.safety.map (·.threshold)
    desiredMinSafeFraction := p.safety.bind (·.desiredMinSafeFraction) }

/-! ## Measurement ↔ Measurement -/

structure Metric where
  value : Rat
  std : Option Rat          -- not transmitted (documented)
  deriving DecidableEq, Repr

structure Meas where
  metrics : List (String × Metric)     -- `_MetricDict`
  elapsedSecs : Rat
  steps : Int
  checkpointPath : String              -- not transmitted (documented)
  deriving DecidableEq, Repr

structure Dur where
  seconds : Int
  nanos : Int
  deriving DecidableEq, Repr

structure PMeas where
  duration : Option Dur                -- message field `elapsed_duration` (presence matters for the bytes)
  stepCount : Int
  metrics : List (String × Rat)
  deriving DecidableEq, Repr

def nanosPerSec : Rat := 1000000000

/-- `int(x)` for `x ≥ 0` (`Measurement` validates `elapsed_secs >= 0`) -/
def truncNonneg (q : Rat) : Int := q.floor

def measToProto (m : Meas) : PMeas :=
  let s := truncNonneg m.elapsedSecs
  { duration := some ⟨s, truncNonneg (nanosPerSec * (m.elapsedSecs - s))⟩   -- both fields are assigned: present
    stepCount := m.steps
    metrics := m.metrics.map fun e => (e.1, e.2.value) }

def measFromProto (cfg : Cfg) (p : PMeas) : Meas :=
  let d := p.duration.getD ⟨0, 0⟩          -- an absent message reads as all defaults
  { metrics := p.metrics.foldl (fun acc e => insBy Prod.fst (e.1, (⟨e.2, none⟩ : Metric)) acc) []
    elapsedSecs := if cfg.readNanos then (d.seconds : Rat) + (d.nanos : Rat) / nanosPerSec else (d.seconds : Rat)
    steps := p.stepCount
    checkpointPath := "" }

/-- equality modulo the documented non-transmitted fields: the normal form -/
def measNorm (m : Meas) : Meas :=
  { m with metrics := m.metrics.map (fun e => (e.1, { e.2 with std := none })), checkpointPath := "" }

/-! ## time: `datetime` (whole microseconds since the epoch) ↔ Timestamp -/

structure Ts where
  seconds : Nat
  nanos : Nat
  deriving DecidableEq, Repr

/-- `secs = dt.timestamp(); seconds = int(secs); nanos = int(1e9 * (secs - int(secs)))` in exact
arithmetic, `t` in microseconds -/
def toTs (t : Nat) : Ts := { seconds := t / 1000000, nanos := (t % 1000000) * 1000 }

/-- `datetime.fromtimestamp(seconds + 1e-9 * nanos)`: rounds to the nearest microsecond -/
def fromTs (ts : Ts) : Nat := ts.seconds * 1000000 + (ts.nanos + 500) / 1000

/-! ## Metadata ↔ repeated KeyValue -/

/-- a metadata value: `str`, an `any_pb2.Any`, or another message (which `_assign_value` packs);
messages are opaque tokens (type url + bytes) -/
inductive MdVal | str (s : String) | any (a : String) | msg (a : String)
  deriving DecidableEq, Repr

/-- oneof `a_value` -/
inductive PKVVal | unset | value (s : String) | proto (a : String)
  deriving DecidableEq, Repr

structure KV where
  ns : List Char
  key : String
  val : PKVVal
  deriving DecidableEq, Repr

abbrev Ns := List (List Char)
/-- `Metadata._stores`: namespace → key → value, insertion ordered; stores may be empty -/
abbrev Md := List (Ns × List (String × MdVal))

instance : DecidableEq Md := inferInstanceAs (DecidableEq (List (List (List Char) × List (String × MdVal))))

/-- `_assign_value` -/
def assignValue : MdVal → PKVVal
  | .str s => .value s
  | .any a => .proto a
  | .msg a => .proto a        -- `metadatum.proto.Pack(value)`

/-- `kv.proto if kv.HasField('proto') else kv.value` -/
def readValue : PKVVal → MdVal
  | .proto a => .any a
  | .value s => .str s
  | .unset => .str ""

/-- `make_key_value_list` / the `metadata_util.assign` loops of `TrialConverter.to_proto` and
`StudyConfig.to_proto`: `for ns in md.namespaces(): for k, v in md.abs_ns(ns).items()` -/
def mdToProto (md : Md) : List KV :=
  md.flatMap fun g => g.2.map fun e => { ns := NS.encode g.1, key := e.1, val := assignValue e.2 }

def mdIns (kv : KV) (md : Md) : Md := groupIns Prod.fst (NS.decode kv.ns) (kv.key, readValue kv.val) md

/-- `from_key_value_list` and the identical loops in the converters:
`metadata.abs_ns(Namespace.decode(kv.ns))[kv.key] = …` -/
def mdFromProto (kvs : List KV) : Md := kvs.foldl (fun acc kv => mdIns kv acc) []

def mdValNorm : MdVal → MdVal
  | .msg a => .any a
  | v => v

/-- what a reader sees: empty stores are invisible (`namespaces()`), a message value reads back
as the `Any` it was packed into -/
def mdNorm (md : Md) : Md :=
  (md.filter fun g => !g.2.isEmpty).map fun g => (g.1, g.2.map fun e => (e.1, mdValNorm e.2))

/-! ## MetadataDelta ↔ repeated UnitMetadataUpdate -/

structure Delta where
  onStudy : Md
  onTrials : List (Int × Md)           -- `defaultdict(Metadata)`
  deriving DecidableEq, Repr

structure UMU where
  trialId : Option Int                 -- `optional string trial_id` (decimal)
  kv : KV
  deriving DecidableEq, Repr

/-- `MetadataDeltaConverter.to_protos` -/
def deltaToProto (d : Delta) : List UMU :=
  (mdToProto d.onStudy).map (fun kv => ⟨none, kv⟩) ++
    d.onTrials.flatMap fun t => (mdToProto t.2).map fun kv => ⟨some t.1, kv⟩

/-- `MetadataDeltaConverter.from_protos` -/
def deltaStep (acc : Delta) (u : UMU) : Delta :=
  match u.trialId with
  | some id => { acc with onTrials := modifyD id (mdIns u.kv) [] acc.onTrials }   -- `HasField('trial_id')`
  | none => { acc with onStudy := mdIns u.kv acc.onStudy }

def deltaFromProto (us : List UMU) : Delta := us.foldl deltaStep ⟨[], []⟩

def deltaNorm (d : Delta) : Delta :=
  { onStudy := mdNorm d.onStudy
    onTrials := (d.onTrials.map fun t => (t.1, mdNorm t.2)).filter fun t => !t.2.isEmpty }

/-! ## parameter values ↔ `Trial.Parameter` (google.protobuf.Value) -/

inductive PyVal | int (i : Int) | float (q : Rat) | str (s : String) | bool (b : Bool)
  deriving DecidableEq, Repr

inductive PValue | unset | null | number (q : Rat) | string (s : String) | boolean (b : Bool) | other
  deriving DecidableEq, Repr

/-- `ParameterValueConverter.to_proto`: `isinstance(True, int)` holds, so a `bool` takes the first
branch (`number_value`); the `bool` branch is dead code -/
def valToProto : PyVal → PValue
  | .int i => .number i
  | .bool b => .number (if b then 1 else 0)
  | .float q => .number q
  | .str s => .string s

/-- `ParameterValueConverter.from_proto` (`none` = "a parameter without a value") -/
def valFromProto : PValue → Option PyVal
  | .number q => some (.float q)
  | .string s => some (.str s)
  | .boolean b => some (.bool b)
  | _ => none

/-- numbers may change Python type but not value -/
def valNorm : PyVal → PyVal
  | .int i => .float i
  | .bool b => .float (if b then 1 else 0)
  | v => v

abbrev Params := List (String × PyVal)

def paramsToProto (ps : Params) : List (String × PValue) := ps.map fun e => (e.1, valToProto e.2)

/-- the loops of `TrialConverter.from_proto` / `TrialSuggestionConverter.from_proto` on their
success path (a value-less parameter is dropped by the former and refused by the latter; a
duplicate id is refused by both) -/
def paramsFromProto (ps : List (String × PValue)) : Params :=
  ps.foldl (fun acc e => match valFromProto e.2 with
    | some v => insBy Prod.fst (e.1, v) acc
    | none => acc) []

def paramsNorm (ps : Params) : Params := ps.map fun e => (e.1, valNorm e.2)

/-! ## TrialSuggestion ↔ pythia TrialSuggestion -/

structure Suggestion where
  params : Params
  metadata : Md
  deriving DecidableEq, Repr

structure PSuggestion where
  params : List (String × PValue)
  metadata : List KV
  deriving DecidableEq, Repr

def suggestionToProto (s : Suggestion) : PSuggestion :=
  { params := paramsToProto s.params, metadata := mdToProto s.metadata }

def suggestionFromProto (p : PSuggestion) : Suggestion :=
  { params := paramsFromProto p.params, metadata := mdFromProto p.metadata }

def suggestionNorm (s : Suggestion) : Suggestion :=
  { params := paramsNorm s.params, metadata := mdNorm s.metadata }

/-! ## Trial ↔ Trial -/

inductive PState | unspecified | requested | active | stopping | succeeded | infeasible
  deriving DecidableEq, Repr

inductive Status | requested | active | completed | stopping
  deriving DecidableEq, Repr

structure Trial where
  id : Int
  description : Option String
  isRequested : Bool
  assignedWorker : Option String
  stoppingReason : Option String          -- the text is not transmitted (documented)
  infeasibilityReason : Option String
  relatedLinks : List (String × String)   -- not transmitted (documented)
  params : Params
  final : Option Meas
  measurements : List Meas
  creationTime : Option Nat               -- microseconds
  completionTime : Option Nat
  metadata : Md
  deriving DecidableEq, Repr

structure PTrial where
  name : String
  id : Int
  state : PState
  params : List (String × PValue)
  final : Option PMeas
  measurements : List PMeas
  startTime : Option Ts
  endTime : Option Ts
  clientId : String
  infeasibleReason : String
  metadata : List KV
  deriving DecidableEq, Repr

def Trial.infeasible (t : Trial) : Bool := t.infeasibilityReason.isSome

/-- `Trial.status` -/
def Trial.status (t : Trial) : Status :=
  if t.final.isSome || t.infeasible then .completed
  else if t.stoppingReason.isSome then .stopping
  else if t.isRequested then .requested
  else .active

/-- `_from_pyvizier_trial_status` -/
def stateOf (s : Status) (infeasible : Bool) : PState :=
  match s with
  | .requested => .requested
  | .active => .active
  | .stopping => .stopping
  | .completed => if infeasible then .infeasible else .succeeded

def trialToProto (t : Trial) : PTrial :=
  { name := t.description.getD ""
    id := t.id
    state := stateOf t.status t.infeasible
    clientId := t.assignedWorker.getD ""          -- `assigned_worker or ''`
    params := paramsToProto t.params
    final := t.final.map measToProto
    measurements := t.measurements.map measToProto
    startTime := t.creationTime.map toTs
    endTime := t.completionTime.map toTs
    infeasibleReason := t.infeasibilityReason.getD ""
    metadata := mdToProto t.metadata }

def stoppingText : String := "stopping reason not supported yet"

/-- `TrialConverter.from_proto`, including `Trial.__attrs_post_init__` (a completed trial without
completion time gets its creation time; the test on the reason is a truthiness test) -/
def trialFromProto (cfg : Cfg) (p : PTrial) : Trial :=
  let final := p.final.map (measFromProto cfg)
  let completion :=
    if p.state = .succeeded || (cfg.infeasibleEndTime && p.state = .infeasible) then p.endTime.map fromTs
    else none
  let reason := if p.state = .infeasible then some p.infeasibleReason else none
  let creation := p.startTime.map fromTs
  let completion' := match completion with
    | some c => some c
    | none => if final.isSome || (reason.getD "" != "") then creation else none
  { id := p.id
    description := some p.name
    isRequested := p.state = .requested
    assignedWorker := if p.clientId = "" then none else some p.clientId   -- `client_id or None`
    stoppingReason := if p.state = .stopping then some stoppingText else none
    infeasibilityReason := reason
    relatedLinks := []
    params := paramsFromProto p.params
    final := final
    measurements := p.measurements.map (measFromProto cfg)
    creationTime := creation
    completionTime := completion'
    metadata := mdFromProto p.metadata }

/-- the normal form of a trial: what the wire format can express.  `None` and `''` coincide for
`description` / `assigned_worker` (proto3: default = absent); only the *status* survives of
`is_requested` and `stopping_reason`; related links are dropped. -/
def trialNorm (t : Trial) : Trial :=
  { t with
    description := some (t.description.getD "")
    isRequested := t.status = .requested
    assignedWorker := match t.assignedWorker with | some "" => none | w => w
    stoppingReason := if t.status = .stopping then some stoppingText else none
    relatedLinks := []
    params := paramsNorm t.params
    final := t.final.map measNorm
    measurements := t.measurements.map measNorm
    metadata := mdNorm t.metadata }

/-! ## ProblemStatement / StudyConfig ↔ pythia ProblemStatement / StudySpec -/

structure Problem where
  space : List PC
  metrics : List MetricInfo
  metadata : Md
  deriving Repr

structure PProblem where
  space : List PSpec
  metrics : List PMetricSpec
  metadata : List KV
  deriving Repr

def problemToProto (cfg : Cfg) (p : Problem) : PProblem :=
  { space := spaceToProto cfg p.space, metrics := p.metrics.map metricToProto, metadata := mdToProto p.metadata }

def problemFromProto (cfg : Cfg) (p : PProblem) : Problem :=
  { space := spaceFromProto cfg p.space, metrics := p.metrics.map metricFromProto, metadata := mdFromProto p.metadata }

def problemNorm (p : Problem) : Problem := { p with metadata := mdNorm p.metadata }

inductive Noise | unspecified | low | high
  deriving DecidableEq, Repr

/-- `StudyConfig`.  `cachedStopping`: whether the kept original proto `_study_config` has
`default_stopping_spec` set (`to_proto` starts from a copy of it and only ever *adds* the spec).
`pythia_endpoint` is left `None` (a convenience view of one metadata entry; not modelled). -/
structure Study where
  space : List PC
  metrics : List MetricInfo
  metadata : Md
  algorithm : String
  noise : Noise
  autoStop : Bool               -- `automated_stopping_config is not None`
  cachedStopping : Bool
  deriving Repr

structure PStudy where
  metrics : List PMetricSpec
  params : List PSpec
  algorithm : String
  stopping : Bool               -- oneof `automated_stopping_spec` set
  noise : Noise
  metadata : List KV
  deriving Repr

def studyToProto (cfg : Cfg) (s : Study) : PStudy :=
  { metrics := s.metrics.map metricToProto
    params := spaceToProto cfg s.space
    algorithm := s.algorithm
    stopping := s.cachedStopping || s.autoStop
    noise := s.noise
    metadata := mdToProto s.metadata }

def ltMetricName (a b : MetricInfo) : Bool := ltStr a.name b.name

/-- `StudyConfig.from_proto`; the code sorts the metrics by name -/
def studyFromProto (cfg : Cfg) (p : PStudy) : Study :=
  { space := spaceFromProto cfg p.params
    metrics := sortBy ltMetricName (p.metrics.map metricFromProto)
    metadata := mdFromProto p.metadata
    algorithm := p.algorithm
    noise := p.noise
    autoStop := p.stopping
    cachedStopping := p.stopping }

/-- normal form: the cached proto agrees with the object -/
def studyNorm (s : Study) : Study :=
  { s with
    metadata := mdNorm s.metadata
    autoStop := s.cachedStopping || s.autoStop
    cachedStopping := s.cachedStopping || s.autoStop }

/-! ## Pythia requests and decisions (compositions) -/

structure Descriptor where
  config : Problem
  guid : String
  maxTrialId : Int
  deriving Repr

structure PDescriptor where
  config : PProblem
  guid : String
  maxTrialId : Int
  deriving Repr

def descriptorToProto (cfg : Cfg) (d : Descriptor) : PDescriptor :=
  ⟨problemToProto cfg d.config, d.guid, d.maxTrialId⟩
def descriptorFromProto (cfg : Cfg) (d : PDescriptor) : Descriptor :=
  ⟨problemFromProto cfg d.config, d.guid, d.maxTrialId⟩
def descriptorNorm (d : Descriptor) : Descriptor := { d with config := problemNorm d.config }

structure SuggestRequest where
  descriptor : Descriptor
  count : Int
  checkpointDir : Option String
  deriving Repr

structure PSuggestRequest where
  descriptor : PDescriptor
  count : Int
  checkpointDir : String
  deriving Repr

def suggestRequestToProto (cfg : Cfg) (r : SuggestRequest) : PSuggestRequest :=
  ⟨descriptorToProto cfg r.descriptor, r.count, r.checkpointDir.getD ""⟩
def suggestRequestFromProto (cfg : Cfg) (r : PSuggestRequest) : SuggestRequest :=
  ⟨descriptorFromProto cfg r.descriptor, r.count, some r.checkpointDir⟩
def suggestRequestNorm (r : SuggestRequest) : SuggestRequest :=
  { r with descriptor := descriptorNorm r.descriptor, checkpointDir := some (r.checkpointDir.getD "") }

structure SuggestDecision where
  suggestions : List Suggestion
  metadata : Delta
  deriving DecidableEq, Repr

structure PSuggestDecision where
  suggestions : List PSuggestion
  metadata : List UMU
  deriving DecidableEq, Repr

def suggestDecisionToProto (d : SuggestDecision) : PSuggestDecision :=
  ⟨d.suggestions.map suggestionToProto, deltaToProto d.metadata⟩
def suggestDecisionFromProto (d : PSuggestDecision) : SuggestDecision :=
  ⟨d.suggestions.map suggestionFromProto, deltaFromProto d.metadata⟩
def suggestDecisionNorm (d : SuggestDecision) : SuggestDecision :=
  ⟨d.suggestions.map suggestionNorm, deltaNorm d.metadata⟩

/-- `trial_ids`: a `frozenset` (here: a list in iteration order) or `None` -/
structure EarlyStopRequest where
  descriptor : Descriptor
  trialIds : Option (List Int)
  checkpointDir : Option String
  deriving Repr

structure PEarlyStopRequest where
  descriptor : PDescriptor
  trialIds : List Int
  checkpointDir : String
  deriving Repr

def earlyStopRequestToProto (cfg : Cfg) (r : EarlyStopRequest) : PEarlyStopRequest :=
  ⟨descriptorToProto cfg r.descriptor, r.trialIds.getD [], r.checkpointDir.getD ""⟩
def earlyStopRequestFromProto (cfg : Cfg) (r : PEarlyStopRequest) : EarlyStopRequest :=
  ⟨descriptorFromProto cfg r.descriptor, some r.trialIds, some r.checkpointDir⟩
def earlyStopRequestNorm (r : EarlyStopRequest) : EarlyStopRequest :=
  { descriptor := descriptorNorm r.descriptor, trialIds := some (r.trialIds.getD []),
    checkpointDir := some (r.checkpointDir.getD "") }

structure EarlyStopDecision where
  id : Int
  reason : String
  shouldStop : Bool
  predicted : Option Meas
  deriving DecidableEq, Repr

structure PEarlyStopDecision where
  id : Int
  reason : String
  shouldStop : Bool
  predicted : Option PMeas       -- `optional Measurement`
  deriving DecidableEq, Repr

/-- `study_pb2.Measurement()` -/
def emptyPMeas : PMeas := ⟨none, 0, []⟩

/-- `to_decisions_proto`.  `optPred = true` (the repaired converter): the optional field is set only when the
decision carries a prediction.  `optPred = false` (the pinned commit): an empty `Measurement()` is passed to the
constructor when there is no prediction, so the field is always present -/
def earlyStopDecisionToProto (optPred : Bool) (d : EarlyStopDecision) : PEarlyStopDecision :=
  ⟨d.id, d.reason, d.shouldStop,
    match d.predicted with
    | some m => some (measToProto m)
    | none => if optPred then none else some emptyPMeas⟩

/-- `from_decisions_proto`.  `optPred = true`: `HasField` decides; `optPred = false`: the field is converted
unconditionally (an absent message reads as empty) -/
def earlyStopDecisionFromProto (optPred : Bool) (cfg : Cfg) (d : PEarlyStopDecision) : EarlyStopDecision :=
  ⟨d.id, d.reason, d.shouldStop,
    if optPred then d.predicted.map (measFromProto cfg)
    else some (measFromProto cfg (d.predicted.getD emptyPMeas))⟩

def emptyMeas : Meas := ⟨[], 0, 0, ""⟩

def earlyStopDecisionNorm (d : EarlyStopDecision) : EarlyStopDecision :=
  { d with predicted := d.predicted.map measNorm }

structure EarlyStopDecisions where
  decisions : List EarlyStopDecision
  metadata : Delta
  deriving DecidableEq, Repr

structure PEarlyStopDecisions where
  decisions : List PEarlyStopDecision
  metadata : List UMU
  deriving DecidableEq, Repr

def earlyStopDecisionsToProto (optPred : Bool) (d : EarlyStopDecisions) : PEarlyStopDecisions :=
  ⟨d.decisions.map (earlyStopDecisionToProto optPred), deltaToProto d.metadata⟩
def earlyStopDecisionsFromProto (optPred : Bool) (cfg : Cfg) (d : PEarlyStopDecisions) : EarlyStopDecisions :=
  ⟨d.decisions.map (earlyStopDecisionFromProto optPred cfg), deltaFromProto d.metadata⟩
def earlyStopDecisionsNorm (d : EarlyStopDecisions) : EarlyStopDecisions :=
  ⟨d.decisions.map earlyStopDecisionNorm, deltaNorm d.metadata⟩

end VizierModel.Wire
