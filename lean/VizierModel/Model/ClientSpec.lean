/-
Executable predicates of the client-layer properties.  They are used twice: the theorems of
`Props/Client.lean` state that the model's `clientExec` satisfies them for every state / history, and
the driver evaluates them on the observations and datastore snapshots of the REAL client library
(property stage of `harness/vcheck/clientcheck.py`).  Core Lean only.
-/
import VizierModel.Model.Client
import VizierModel.Model.ServiceInv

namespace VizierModel.Client
open VizierModel VizierModel.Svc

/-- the stored record of trial `id` in the handle's study -/
def lookup (db : DB) (h : Handle) (id : Nat) : Option Trial :=
  match findStudy db h.owner h.sid with
  | some st => st.findTrial id
  | none => none

/-- trial `id` of the handle's study is stored ACTIVE for worker `w` -/
def storedActiveFor (db : DB) (h : Handle) (w : String) (id : Nat) : Bool :=
  match lookup db h id with
  | some t => t.state == .active && t.client == w
  | none => false

/-- **suggested trials belong to the asking worker**: every handle `suggest(count, client_id=w)`
    returned denotes a stored trial that is ACTIVE and assigned to `w` -/
def assignedOK (after : DB) (h : Handle) (w : String) : Obs → Bool
  | .handles ids => ids.all (storedActiveFor after h w)
  | _ => true

/-- `complete` is applicable: the study exists and is open, the trial exists and is ACTIVE / STOPPING -/
def completable (before : DB) (h : Handle) (id : Nat) : Bool :=
  match findStudy before h.owner h.sid with
  | some st => !st.immutable && (match st.findTrial id with | some t => t.state.mutable | none => false)
  | none => false

/-- **infeasible iff a reason is given** (`client_abc.TrialInterface.complete`): on a completable
    trial, `complete(..., infeasible_reason=r)` leaves it INFEASIBLE with exactly the reason `r` —
    for every string `r`, the empty one included — and `complete` without a reason never does -/
def infeasibleOK (before after : DB) (h : Handle) (id : Nat) (reason : Option String) : Bool :=
  !completable before h id ||
  match reason, lookup after h id with
  | some r, some t => t.state == .infeasible && t.reason == r
  | none, some t => t.state != .infeasible
  | _, none => false

/-- the algorithm has to be consulted: open study, no unfinished operation, fewer own ACTIVE +
    queued trials than asked for -/
def needsAlgorithm (before : DB) (h : Handle) (w : String) (count : Nat) : Bool :=
  match findStudy before h.owner h.sid with
  | some st =>
    !st.immutable && st.sugOps.all (·.done) &&
    decide ((st.trials.filter fun t => t.state == .active && t.client == w).length +
            (st.trials.filter (·.state == .requested)).length < count)
  | none => false

def algFails : AlgOutcome → Bool
  | .suggestions .. => false
  | _ => true

/-- **an algorithm failure reaches the caller**: when the algorithm had to be consulted and failed,
    `suggest` raises (RuntimeError) — it never returns a value, in particular not `[]` -/
def failureReportedOK (before : DB) (h : Handle) (w : String) (count : Nat) (alg : AlgOutcome) (obs : Obs) : Bool :=
  !(algFails alg && needsAlgorithm before h w count) ||
  match obs with
  | .exc .runtimeError => true
  | _ => false

def stillPolling : Obs → Bool
  | .pollExhausted => true
  | _ => false

/-- **the polling loop ends**: the requests of one `suggest` call are SuggestTrials followed by at
    most `bound` GetOperation calls, and the call does not end still polling -/
def pollOK (bound : Nat) (o : Out) : Bool :=
  decide (o.reqs.length ≤ bound + 1) && !stillPolling o.obs

/-- lifecycle of every study between two observations (the predicates of C01 / C02) -/
def lifecycleOK (before after : DB) : Bool :=
  after.studies.all fun st' =>
    idsNodup st'.trials &&
    match before.studies.find? (fun s => s.owner == st'.owner && s.sid == st'.sid) with
    | none => true
    | some st => trialsStepOK st.trials st'.trials && freshIdsOK st.trials st'.trials

/-- the client-visible form: two successive `Study.trials()` views -/
def viewsOK (before after : List Trial) : Bool :=
  idsNodup after && trialsStepOK before after && freshIdsOK before after

end VizierModel.Client
