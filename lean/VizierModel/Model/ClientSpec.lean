/-
Executable predicates of the client-layer properties.  They are used twice: the theorems of
`Props/Client.lean` state that the model's `clientExec` satisfies them for every state / history, and
the driver evaluates them on the observations and datastore snapshots of the REAL client library
(property stage of `harness/vcheck/clientcheck.py`).  Core Lean only.
-/
import VizierModel.Model.Client
import VizierModel.Model.ServiceInv

namespace VizierModel.Client
open VizierModel VizierModel.Svc

/-- the stored record of trial `id` in the handle's study -/
def lookup (db : DB) (h : Handle) (id : Nat) : Option Trial :=
  match findStudy db h.owner h.sid with
  | some st => st.findTrial id
  | none => none

/-- trial `id` of the handle's study is stored ACTIVE for worker `w` -/
def storedActiveFor (db : DB) (h : Handle) (w : String) (id : Nat) : Bool :=
  match lookup db h id with
  | some t => t.state == .active && t.client == w
  | none => false

/-- **suggested trials belong to the asking worker**: every handle `suggest(count, client_id=w)`
    returned denotes a stored trial that is ACTIVE and assigned to `w` -/
def assignedOK (after : DB) (h : Handle) (w : String) : Obs → Bool
  | .handles ids => ids.all (storedActiveFor after h w)
  | _ => true

/-- `complete` is applicable: the study exists and is open, the trial exists and is ACTIVE / STOPPING -/
def completable (before : DB) (h : Handle) (id : Nat) : Bool :=
  match findStudy before h.owner h.sid with
  | some st => !st.immutable && (match st.findTrial id with | some t => t.state.mutable | none => false)
  | none => false

/-- **infeasible iff a reason is given** (`client_abc.TrialInterface.complete`): on a completable
    trial, `complete(..., infeasible_reason=r)` leaves it INFEASIBLE with exactly the reason `r` —
    for every string `r`, the empty one included — and `complete` without a reason never does -/
def infeasibleOK (before after : DB) (h : Handle) (id : Nat) (reason : Option String) : Bool :=
  !completable before h id ||
  match reason, lookup after h id with
  | some r, some t => t.state == .infeasible && t.reason == r
  | none, some t => t.state != .infeasible
  | _, none => false

/-- the algorithm has to be consulted: open study, no unfinished operation, fewer own ACTIVE +
    queued trials than asked for -/
def needsAlgorithm (before : DB) (h : Handle) (w : String) (count : Nat) : Bool :=
  match findStudy before h.owner h.sid with
  | some st =>
    !st.immutable && st.sugOps.all (·.done) &&
    decide ((st.trials.filter fun t => t.state == .active && t.client == w).length +
            (st.trials.filter (·.state == .requested)).length < count)
  | none => false

def algFails : AlgOutcome → Bool
  | .suggestions .. => false
  | _ => true

/-- **an algorithm failure reaches the caller**: when the algorithm had to be consulted and failed,
    `suggest` raises (RuntimeError) — it never returns a value, in particular not `[]` -/
def failureReportedOK (before : DB) (h : Handle) (w : String) (count : Nat) (alg : AlgOutcome) (obs : Obs) : Bool :=
  !(algFails alg && needsAlgorithm before h w count) ||
  match obs with
  | .exc .runtimeError => true
  | _ => false

def stillPolling : Obs → Bool
  | .pollExhausted => true
  | _ => false

/-- **the polling loop ends**: the requests of one `suggest` call are SuggestTrials followed by at
    most `bound` GetOperation calls, and the call does not end still polling -/
def pollOK (bound : Nat) (o : Out) : Bool :=
  decide (o.reqs.length ≤ bound + 1) && !stillPolling o.obs

/-! ### promised by the interface (`client_abc.py`, `clients.py`) -/

def isResourceNotFound : Obs → Bool
  | .exc .resourceNotFound => true
  | _ => false

def isNoHandles : Obs → Bool
  | .handles [] => true
  | _ => false

/-- `get_trial` of a trial that does not exist and `from_resource_name` of a study that does not exist
    raise ResourceNotFoundError; `suggest` on a study that is not open returns `[]` -/
def openOrNoHandles (before : DB) (h : Handle) (obs : Obs) : Bool :=
  match findStudy before h.owner h.sid with
  | some st => !st.immutable || isNoHandles obs
  | none => true

def isValueError : Obs → Bool
  | .exc .valueError => true
  | _ => false

/-- `add_trial` "Raises ValueError: If the trial is not within the search space" -/
def outOfSpaceOK (before : DB) (h : Handle) (obs : Obs) : Bool :=
  (findStudy before h.owner h.sid).isNone || isValueError obs

def promisedOK (before : DB) (h : Handle) (c : Call) (obs : Obs) : Bool :=
  match c with
  | .getTrial id => (lookup before h id).isSome || isResourceNotFound obs
  | .fromResourceName sid => (findStudy before h.owner sid).isSome || isResourceNotFound obs
  | .addTrial _ _ false => outOfSpaceOK before h obs
  | .suggest _ _ _ => openOrNoHandles before h obs
  | .getSuggestions _ _ => openOrNoHandles before h obs
  | _ => true

/-- `complete()` has nothing to select a final measurement from: a completable trial without
    intermediate measurements, no (non-empty) measurement given -/
def nothingToSelect (before : DB) (h : Handle) (id : Nat) (m : Option Meas) : Bool :=
  completable before h id && (match m with | some x => !x.hasMetrics | none => true) &&
  (match lookup before h id with | some t => t.meas.isEmpty | none => false)

/-- documented (`TrialInterface.complete`): "Raises ValueError: If neither `measurement` nor
    `infeasible_reason` is provided but the trial does not contain any intermediate measurements" -/
def valueErrorOK (before : DB) (h : Handle) (c : Call) (obs : Obs) : Bool :=
  match c with
  | .complete id m none => !nothingToSelect before h id m || isValueError obs
  | _ => true

/-- documented (`TrialInterface.check_early_stopping`): "returns True if the Trial is in STOPPING state"
    (already, or because this very call moved it there) -/
def earlyStopOK (after : DB) (h : Handle) (c : Call) (obs : Obs) : Bool :=
  match c, obs with
  | .checkEarlyStopping id _, .flag true =>
    (match lookup after h id with | some t => t.state == .stopping | none => false)
  | _, _ => true

/-! ### documented effect of the single calls -/

def isMeasurement (m : Option Meas) : Obs → Bool
  | .measurement x => x == m
  | _ => false

def isRuntimeError : Obs → Bool
  | .exc .runtimeError => true
  | _ => false

def openStudy (before : DB) (h : Handle) : Bool :=
  match findStudy before h.owner h.sid with
  | some st => !st.immutable
  | none => false

def activeTrial (before : DB) (h : Handle) (id : Nat) : Bool :=
  openStudy before h && (match lookup before h id with | some t => t.state == .active | none => false)

/-- "If `measurement` is provided, then Vizier writes it as the trial's final measurement and returns it" -/
def completeFinalOK (before after : DB) (h : Handle) (id : Nat) (m : Meas) (obs : Obs) : Bool :=
  !(completable before h id && m.hasMetrics) ||
    ((match lookup after h id with | some t => t.final == some m | none => false) && isMeasurement (some m) obs)

/-- `Trial.stop`: "Asks to change the trial status to STOPPING" — an ACTIVE trial is STOPPING afterwards -/
def stopOK (before after : DB) (h : Handle) (id : Nat) : Bool :=
  !activeTrial before h id || (match lookup after h id with | some t => t.state == .stopping | none => false)

/-- `Study.set_state(s)`: the study is stored in state `s` -/
def setStateOK (before after : DB) (h : Handle) (s : CState) : Bool :=
  match findStudy before h.owner h.sid with
  | none => true
  | some _ => (match findStudy after h.owner h.sid with | some st => st.state == s.toProto | none => false)

/-- `update_metadata`: "Raises RuntimeError: If service reported an error" — metadata for a trial that does not exist -/
def mdErrorOK (before : DB) (h : Handle) (id : Nat) (kvs : List (K × String)) (obs : Obs) : Bool :=
  !(openStudy before h && (lookup before h id).isNone && !kvs.isEmpty) || isRuntimeError obs

/-- `Trial.delete`: the trial is gone -/
def deleteOK (before after : DB) (h : Handle) (id : Nat) : Bool :=
  !(openStudy before h && (lookup before h id).isSome) || (lookup after h id).isNone

/-- `Study.delete`: the study is gone -/
def deleteStudyOK (before after : DB) (h : Handle) : Bool :=
  (findStudy before h.owner h.sid).isNone || (findStudy after h.owner h.sid).isNone

/-- `Study.add_trial` / `Study.request` on an open study: a NEW trial with the given parameters is stored —
    SUCCEEDED when a completed trial was added, REQUESTED (queued for the next `suggest`) otherwise — and
    its handle returned -/
def addedOK (before after : DB) (h : Handle) (params : Nat) (completed : Bool) (obs : Obs) : Bool :=
  !openStudy before h ||
  match obs with
  | .handle id =>
    (match lookup after h id with
      | some t => t.params == params && t.state == (if completed then TState.succeeded else TState.requested) &&
                  (lookup before h id).isNone
      | none => false)
  | _ => false

def effectsOK (before after : DB) (h : Handle) (c : Call) (obs : Obs) : Bool :=
  match c with
  | .addTrial params final true => addedOK before after h params final.isSome obs
  | .request params _ => addedOK before after h params false obs
  | .complete id (some m) _ => completeFinalOK before after h id m obs
  | .stop id => stopOK before after h id
  | .setState s => setStateOK before after h s
  | .updateMetadata (some id) kvs => mdErrorOK before h id kvs obs
  | .deleteTrial id => deleteOK before after h id
  | .deleteStudy => deleteStudyOK before after h
  | _ => true

/-- lifecycle of every study between two observations (the predicates of C01 / C02) -/
def lifecycleOK (before after : DB) : Bool :=
  after.studies.all fun st' =>
    idsNodup st'.trials &&
    match before.studies.find? (fun s => s.owner == st'.owner && s.sid == st'.sid) with
    | none => true
    | some st => trialsStepOK st.trials st'.trials && freshIdsOK st.trials st'.trials

/-- the client-visible form: two successive `Study.trials()` views -/
def viewsOK (before after : List Trial) : Bool :=
  idsNodup after && trialsStepOK before after && freshIdsOK before after

end VizierModel.Client
