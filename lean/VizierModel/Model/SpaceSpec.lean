/-
Specification-side definitions for C16/C17, written from the property text and NOT
from the code: what "type-compatible", "inside its domain", "exactly the parameters of
the space" and "active under the values chosen" mean.  They are executable (`Bool`), so
the driver can judge outputs of the real code with them.  Core Lean only.
-/
import VizierModel.Model.Space
namespace VizierModel.Space

/-! ## membership (C16) -/

/-- "a number": an int, a bool (Python: `True == 1`) or a float other than NaN -/
def isNumber (v : PVal) : Bool :=
  match numOf v with
  | some x => x != .nan
  | none => false

/-- the string form of a categorical value: the string itself, `'True'`/`'False'` for a bool -/
def strForm : PVal → Option String
  | .str s => some s
  | .bool true => some "True"
  | .bool false => some "False"
  | _ => none

/-- type-compatible: numeric parameters take numbers, categorical ones strings or bools -/
def typeOK (h : Hdr) (v : PVal) : Bool :=
  match h.type with
  | .double | .integer | .discrete => isNumber v
  | .categorical => isStr v || isBool v
  | .custom => false

/-- `lo ≤ q ≤ hi` for the (finite) bounds of the config -/
def withinBounds (h : Hdr) (q : Rat) : Bool :=
  match h.bounds with
  | some (lo, hi) =>
    match ratOf lo, ratOf hi with
    | some l, some u => decide (l ≤ q) && decide (q ≤ u)
    | _, _ => false
  | none => false

/-- inside the domain.  DOUBLE: a (finite) number within the bounds; INTEGER: an integral
number within the bounds; DISCRETE: numerically equal to a feasible value; CATEGORICAL:
the string form is a feasible value. -/
def inDomain (h : Hdr) (v : PVal) : Bool :=
  match h.type with
  | .double => match ratOf v with
    | some q => withinBounds h q
    | none => false
  | .integer => match ratOf v with
    | some q => isIntegralQ q && withinBounds h q
    | none => false
  | .discrete => match ratOf v with
    | some q => h.feasible.any fun f => decide (ratOf f = some q)
    | none => false
  | .categorical => match strForm v with
    | some s => h.feasible.any fun f => decide (f = .str s)
    | none => false
  | .custom => false

def keys (a : Assign) : List String := a.map (·.1)

/-- every parameter present with a type-compatible value inside its domain, nothing else present
(`a` has unique keys, so "present once" is presence) -/
def memberSpec (ss : List PC) (a : Assign) : Bool :=
  (keys a).all (fun n => (names ss).contains n) &&
  ss.all fun p =>
    match lookup a p.name with
    | some v => typeOK p.h v && inDomain p.h v
    | none => false

/-- a config as `factory` leaves it, as far as membership needs it: finite bounds for
DOUBLE/INTEGER, finite numbers as DISCRETE feasible values, strings as categories -/
def Hdr.wf (h : Hdr) : Bool :=
  match h.type with
  | .double | .integer => match h.bounds with
    | some (lo, hi) => (ratOf lo).isSome && (ratOf hi).isSome
    | none => false
  | .discrete => h.feasible.all fun f => (ratOf f).isSome
  | .categorical => h.feasible.all isStr
  | .custom => true


/-! ## normalised definitions (C16) -/

def numLt (a b : PVal) : Bool :=
  match ratOf a, ratOf b with
  | some x, some y => decide (x < y)
  | _, _ => false

def strLt (a b : PVal) : Bool :=
  match a, b with
  | .str s, .str t => decide (s < t)
  | _, _ => false

/-- adjacent elements strictly increasing (hence sorted and duplicate-free) -/
def strictAdj {α : Type} (lt : α → α → Bool) : List α → Bool
  | a :: b :: rest => lt a b && strictAdj lt (b :: rest)
  | _ => true

/-- what "normalised" means for one config; `none` = fine, `some why` otherwise.
DOUBLE: two finite floats, ordered.  INTEGER: two ints, ordered.  DISCRETE: non-empty,
finite numbers strictly increasing (sorted, no duplicates), bounds = (first, last).
CATEGORICAL: non-empty, strings strictly increasing. -/
def notNormalised (h : Hdr) : Option String :=
  match h.type with
  | .double => match h.bounds with
    | some (lo, hi) =>
      if !(isFloatInst lo && isFloatInst hi) then some "double-bounds-not-floats"
      else match ratOf lo, ratOf hi with
        | some l, some u => if l ≤ u then none else some "bounds-reversed"
        | _, _ => some "bounds-not-finite"
    | none => some "no-bounds"
  | .integer => match h.bounds with
    | some (lo, hi) =>
      if !(isIntInst lo && isIntInst hi) then some "integer-bounds-not-ints"
      else match ratOf lo, ratOf hi with
        | some l, some u => if l ≤ u then none else some "bounds-reversed"
        | _, _ => some "bounds-not-finite"
    | none => some "no-bounds"
  | .discrete =>
    if h.feasible.isEmpty then some "empty-feasible"
    else if !(h.feasible.all fun f => isNumInst f && (ratOf f).isSome) then some "feasible-not-finite-numbers"
    else if !(strictAdj numLt h.feasible) then some "feasible-not-sorted-unique"
    else if h.bounds != (match h.feasible.head?, h.feasible.getLast? with
                         | some a, some b => some (a, b) | _, _ => none) then some "discrete-bounds"
    else none
  | .categorical =>
    if h.feasible.isEmpty then some "empty-feasible"
    else if !(h.feasible.all isStr) then some "categories-not-strings"
    else if !(strictAdj strLt h.feasible) then some "feasible-not-sorted-unique"
    else none
  | .custom => none

def normalised (h : Hdr) : Bool := (notNormalised h).isNone

/-! ## active parameters of a conditional space (C16 builder walk, C17) -/

/-- does the subspace key `k` belong to the chosen parent value `v`?  Numerically/string
equal, or `v` is a bool whose string form is the (categorical) key. -/
def matchesChoice (k v : PVal) : Bool :=
  pyEq k v || (match strForm v with | some s => k == .str s | none => false)

mutual
/-- `p` itself, then (recursively) the children of `p` under the value chosen for `p` -/
def activeOf (choose : PC → Option PVal) : PC → List PC
  | .mk h kids => (.mk h kids) ::
    match choose (.mk h kids) with
    | none => []
    | some v => activeKids choose v kids
def activeKids (choose : PC → Option PVal) (v : PVal) : List (PVal × PC) → List PC
  | [] => []
  | (k, c) :: rest =>
    (if matchesChoice k v then activeOf choose c else []) ++ activeKids choose v rest
end

/-- the active parameters of a space, in preorder -/
def activeSpace (choose : PC → Option PVal) : List PC → List PC
  | [] => []
  | p :: ps => activeOf choose p ++ activeSpace choose ps


/-- subspace keys are of the parent's internal kind (what `subspace()` stores: floats under
DISCRETE, ints under INTEGER, strings under CATEGORICAL; nothing under DOUBLE/CUSTOM) -/
def keyKindOK (t : PType) (k : PVal) : Bool :=
  match t, k with
  | .discrete, .flt _ => true
  | .integer, .int _ => true
  | .categorical, .str _ => true
  | _, _ => false

def nodeOK (p : PC) : Bool := p.kids.all fun kc => keyKindOK p.h.type kc.1

mutual
/-- all configs of the tree below and including `p` (preorder) -/
def allOf : PC → List PC
  | .mk h kids => (.mk h kids) :: allKids kids
def allKids : List (PVal × PC) → List PC
  | [] => []
  | (_, c) :: rest => allOf c ++ allKids rest
end

def allSpace : List PC → List PC
  | [] => []
  | p :: ps => allOf p ++ allSpace ps

end VizierModel.Space
