/-
The RPC shape of the client library: which service RPCs every public method of `VizierClient`
(`vizier/_src/service/vizier_client.py`) issues, in which order and how often, and which `VizierClient`
methods every public method of `clients.Study` / `clients.Trial` calls.  Core Lean only.

`assumedClientShape` / `assumedFacadeShape` are written by hand from today's source; the translator
`harness/translators/client_shape.py` regenerates the same tables from the source of the tree under test
(`Generated/ClientShape.lean`) and the kernel compares them (`Props/ClientShape.lean`).  The criteria below
are what the crash / lifecycle arguments need of the tables: a client call contains at most ONE writing
RPC (so a crash anywhere inside a client call leaves the effects of the call entirely or not at all - given
that each RPC is atomic, C05), its polling loop only reads.

The link to the client model (`Model/Client.lean`): `callMethod` names the Python method a `Call` stands for,
`reqRpc` the RPC an M1 request stands for, `admits` / `admitsPrefix` say which RPC-name sequences a shape
allows.  `Props/ClientShape.lean` proves that the requests `clientExec` issues are admitted by the shape
of the method, for every call and state.
-/
import VizierModel.Model.Client

namespace VizierModel.ClientShape
open VizierModel VizierModel.Svc VizierModel.Client

/-- how often an RPC (a call) at one place of a method body is executed in one run of the method:
    `once` - exactly once (straight line); `cond` - zero or one time (a branch, an `except` handler, code after
    an early `return`); `loop` - any number of times, zero included (inside `while` / `for`). -/
inductive Mult where
  | once | loop | cond
  deriving DecidableEq, Repr, Inhabited

/-- a place executed `a` times inside a construct executed `b` times -/
def Mult.join : Mult → Mult → Mult
  | .loop, _ | _, .loop => .loop
  | .cond, _ | _, .cond => .cond
  | .once, .once => .once

abbrev Shape := List (String × Mult)
abbrev Table := List (String × Shape)

/-! ### the tables as read off today's source -/

/-- `vizier_client.py`: public methods and properties of `VizierClient`, public module functions -/
def assumedClientShape : Table := [
  ("PollingDelay", []),
  ("add_trial", [("CreateTrial", .once)]),
  ("complete_trial", [("CompleteTrial", .once)]),
  ("create_or_load_study", [("CreateStudy", .once)]),
  ("create_vizier_servicer_or_stub", []),
  ("delete_study", [("DeleteStudy", .once)]),
  ("delete_trial", [("DeleteTrial", .once)]),
  ("get_study_config", [("GetStudy", .once)]),
  ("get_study_state", [("GetStudy", .once)]),
  ("get_suggestions", [("SuggestTrials", .once), ("GetOperation", .loop)]),
  ("get_trial", [("GetTrial", .once)]),
  ("list_optimal_trials", [("ListOptimalTrials", .once)]),
  ("list_studies", [("ListStudies", .once)]),
  ("list_trials", [("ListTrials", .once)]),
  ("report_intermediate_objective_value", [("AddTrialMeasurement", .once)]),
  ("set_study_state", [("SetStudyState", .once)]),
  ("should_trial_stop", [("CheckTrialEarlyStoppingState", .once)]),
  ("stop_trial", [("StopTrial", .once)]),
  ("study_resource_name", []),
  ("update_metadata", [("UpdateMetadata", .once)])
]

/-- `clients.py`: per public method / property, the `VizierClient` methods (functions of vizier_client.py) called -/
def assumedFacadeShape : Table := [
  ("Study.add_trial", [("get_study_config", .once), ("add_trial", .once)]),
  ("Study.delete", [("delete_study", .once)]),
  ("Study.from_owner_and_id", [("get_study_config", .once)]),
  ("Study.from_resource_name", [("get_study_config", .once)]),
  ("Study.from_study_config", [("create_or_load_study", .once)]),
  ("Study.get_trial", [("get_trial", .once)]),
  ("Study.materialize_problem_statement", [("get_study_config", .once)]),
  ("Study.materialize_state", [("get_study_state", .once)]),
  ("Study.materialize_study_config", [("get_study_config", .once)]),
  ("Study.optimal_trials", [("list_optimal_trials", .cond)]),
  ("Study.request", [("add_trial", .once)]),
  ("Study.resource_name", []),
  ("Study.set_state", [("set_study_state", .once)]),
  ("Study.suggest", [("get_suggestions", .once)]),
  ("Study.trials", [("list_trials", .once)]),
  ("Study.update_metadata", [("update_metadata", .once)]),
  ("Trial.add_measurement", [("report_intermediate_objective_value", .once)]),
  ("Trial.check_early_stopping", [("should_trial_stop", .once)]),
  ("Trial.complete", [("complete_trial", .once)]),
  ("Trial.delete", [("delete_trial", .once)]),
  ("Trial.id", []),
  ("Trial.materialize", [("get_trial", .once)]),
  ("Trial.parameters", [("get_trial", .once), ("get_study_config", .once)]),
  ("Trial.stop", [("stop_trial", .once)]),
  ("Trial.study", []),
  ("Trial.update_metadata", [("update_metadata", .once)]),
  ("TrialIterable.get", [])
]

/-! ### looking a method up; a facade method as a sequence of RPCs -/

def lookup (tbl : Table) (m : String) : Option Shape := (tbl.find? (·.1 == m)).map (·.2)

/-- the RPCs of a client method called at a place executed `mu` times.  A method with several RPCs called in
    a loop is not a flat sequence (`ABAB…`): no shape. -/
def scale (mu : Mult) (sh : Shape) : Option Shape :=
  if mu == .loop && sh.length > 1 then none else some (sh.map fun e => (e.1, mu.join e.2))

/-- the RPC shape of a facade method: the shapes of the client methods it calls, in order -/
def flatten (cs : Table) : Shape → Option Shape
  | [] => some []
  | (m, mu) :: rest =>
    match lookup cs m, flatten cs rest with
    | some sh, some tl => (scale mu sh).map (· ++ tl)
    | _, _ => none

/-- a Python method: of `VizierClient` / vizier_client.py, or of `clients.py` -/
inductive Method where
  | client (name : String)
  | facade (name : String)
  deriving DecidableEq, Repr, Inhabited

def shapeOf (cs fs : Table) : Method → Option Shape
  | .client m => lookup cs m
  | .facade m => (lookup fs m).bind (flatten cs)

/-! ### criteria -/

/-- RPCs that can change stored data (SuggestTrials and CheckTrialEarlyStoppingState create / finish
    operations and store algorithm state) -/
def isWriting (rpc : String) : Bool :=
  ["CreateStudy", "DeleteStudy", "SetStudyState", "SuggestTrials", "CreateTrial", "AddTrialMeasurement",
   "CompleteTrial", "DeleteTrial", "CheckTrialEarlyStoppingState", "StopTrial", "UpdateMetadata"].contains rpc

/-- the writing places of a shape -/
def writes (sh : Shape) : Shape := sh.filter fun e => isWriting e.1

/-- no writing RPC sits in a loop -/
def noWritingLoop (sh : Shape) : Bool := sh.all fun e => !(isWriting e.1 && e.2 == .loop)

/-- at most one writing RPC on every path: at most one writing place, and it is not in a loop -/
def oneWrite (sh : Shape) : Bool := decide ((writes sh).length ≤ 1) && noWritingLoop sh

/-- every method of `vizier_client.py` issues at most one writing RPC -/
def atMostOneWrite (cs : Table) : Bool := cs.all fun e => oneWrite e.2

/-- the methods that change ONE resource -/
def singleResourceMethods : List String :=
  ["complete_trial", "report_intermediate_objective_value", "stop_trial", "delete_trial", "add_trial",
   "update_metadata", "set_study_state", "delete_study"]

/-- exactly one writing RPC, executed exactly once (reads beside it are allowed, a second write or a write
    under a condition / in a loop is not) -/
def exactlyOneWrite (sh : Shape) : Bool :=
  match writes sh with
  | [(_, .once)] => true
  | _ => false

def singleResourceMethodsSingleRpc (cs : Table) : Bool :=
  singleResourceMethods.all fun m =>
    match lookup cs m with
    | some sh => exactlyOneWrite sh
    | none => false

/-- whatever is repeated is a read -/
def pollingOnlyReads (cs : Table) : Bool := cs.all fun e => e.2.all fun r => !(r.2 == .loop && isWriting r.1)

/-- every facade method resolves to client methods of the table and issues at most one writing RPC -/
def facadeAtMostOneWrite (cs fs : Table) : Bool :=
  fs.all fun e =>
    match flatten cs e.2 with
    | some sh => oneWrite sh
    | none => false

/-! ### which RPC-name sequences a shape admits -/

/-- `r`, any number of times, then a sequence accepted by `k` -/
def loopAdmits (r : String) (k : List String → Bool) : List String → Bool
  | [] => k []
  | x :: xs => k (x :: xs) || (x == r && loopAdmits r k xs)

/-- the sequences of a COMPLETE run of a method: `once` exactly one, `cond` zero or one, `loop` any number, in order -/
def admits : Shape → List String → Bool
  | [], s => s.isEmpty
  | (r, .once) :: rest, s =>
    (match s with
     | [] => false
     | x :: xs => x == r && admits rest xs)
  | (r, .cond) :: rest, s =>
    admits rest s ||
    (match s with
     | [] => false
     | x :: xs => x == r && admits rest xs)
  | (r, .loop) :: rest, s => loopAdmits r (admits rest) s

/-- the sequences of a run that may have been cut short by an exception (an RPC that failed, a check between two
    RPCs that raised): the prefixes of the admitted sequences -/
def admitsPrefix : Shape → List String → Bool
  | _, [] => true
  | [], _ :: _ => false
  | (r, .once) :: rest, x :: xs => x == r && admitsPrefix rest xs
  | (r, .cond) :: rest, x :: xs => admitsPrefix rest (x :: xs) || (x == r && admitsPrefix rest xs)
  | (r, .loop) :: rest, x :: xs => loopAdmits r (admitsPrefix rest) (x :: xs)

/-! ### the link to the client model -/

/-- the Python method a `Call` of `Model/Client.lean` stands for -/
def callMethod : Call → Method
  | .fromStudyConfig _ _ => .facade "Study.from_study_config"
  | .fromResourceName _ => .facade "Study.from_resource_name"
  | .suggest _ _ _ => .facade "Study.suggest"
  | .getSuggestions _ _ => .client "get_suggestions"
  | .request _ _ => .facade "Study.request"
  | .addTrial _ _ _ => .facade "Study.add_trial"
  | .getTrial _ => .facade "Study.get_trial"
  | .materialize _ => .facade "Trial.materialize"
  | .trials => .facade "Study.trials"
  | .complete _ _ _ => .facade "Trial.complete"
  | .addMeasurement _ _ => .facade "Trial.add_measurement"
  | .checkEarlyStopping _ _ => .facade "Trial.check_early_stopping"
  | .stop _ => .facade "Trial.stop"
  | .deleteTrial _ => .facade "Trial.delete"
  | .updateMetadata none _ => .facade "Study.update_metadata"
  | .updateMetadata (some _) _ => .facade "Trial.update_metadata"
  | .setState _ => .facade "Study.set_state"
  | .materializeState => .facade "Study.materialize_state"
  | .deleteStudy => .facade "Study.delete"
  | .optimalTrials => .facade "Study.optimal_trials"

/-- the service RPC an M1 request stands for -/
def reqRpc : Req → String
  | .createStudy .. => "CreateStudy"
  | .getStudy .. => "GetStudy"
  | .listStudies .. => "ListStudies"
  | .deleteStudy .. => "DeleteStudy"
  | .setStudyState .. => "SetStudyState"
  | .createTrial .. => "CreateTrial"
  | .suggest .. => "SuggestTrials"
  | .getOperation .. => "GetOperation"
  | .getTrial .. => "GetTrial"
  | .listTrials .. => "ListTrials"
  | .addMeasurement .. => "AddTrialMeasurement"
  | .complete .. => "CompleteTrial"
  | .stop .. => "StopTrial"
  | .deleteTrial .. => "DeleteTrial"
  | .checkEarlyStop .. => "CheckTrialEarlyStoppingState"
  | .updateMetadata .. => "UpdateMetadata"
  | .listOptimal .. => "ListOptimalTrials"

/-- the RPC names of the requests a client call issued -/
def rpcNames (reqs : List Req) : List String := reqs.map reqRpc

/-- the call returned a value (no exception escaped it, and the model's polling fuel did not run out) -/
def returned : Obs → Bool
  | .exc _ => false
  | .pollExhausted => false
  | _ => true

/-- `names` is a (possibly cut short) run of method `m` according to the tables -/
def conformsPrefix (cs fs : Table) (m : Method) (names : List String) : Bool :=
  match shapeOf cs fs m with
  | some sh => admitsPrefix sh names
  | none => false

/-- `names` is a complete run of method `m` according to the tables -/
def conforms (cs fs : Table) (m : Method) (names : List String) : Bool :=
  match shapeOf cs fs m with
  | some sh => admits sh names
  | none => false

/-- the number of writing RPCs in a sequence of RPC names -/
def writeCount (names : List String) : Nat := (names.filter isWriting).length

end VizierModel.ClientShape
