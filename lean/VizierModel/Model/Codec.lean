/-
Model of the feature codec of `vizier/pyvizier/converters/core.py` (C15, C03).
Core Lean only.

Per parameter (`DefaultModelInputConverter`):
  getter → value (continuous spec) or index into the feasible values (index spec)
         → scaler (`ModelInputArrayBijector.scaler_from_spec`: identity / singleton-domain
           shift / linear / log / reverse-log, same branch order as the code)
         → optional one-hot embedding (`onehot_embedder_from_spec`, optional OOV column);
and back (`to_parameter_values`): argmax over the non-OOV block → un-scale →
`_to_parameter_value` (drop non-finite; clip for DOUBLE; nearest feasible value for a
continuified INTEGER/DISCRETE; index lookup otherwise).

The carrier `α` of numeric values is abstract: all arithmetic goes through a record
`NumOps α`.  Instances: `Float` (driver; `cast` rounds to float32 for float32
converters), an ordered field with abstract `log`/`exp` (proofs, `Lemmas/Codec*.lean`).
-/
namespace VizierModel.Codec

/-- numeric operations used by the converters -/
structure NumOps (α : Type) where
  zero : α
  one : α
  half : α
  add : α → α → α
  sub : α → α → α
  mul : α → α → α
  div : α → α → α
  neg : α → α
  lt : α → α → Bool
  le : α → α → Bool
  beq : α → α → Bool
  log : α → α
  exp : α → α
  ofInt : Int → α
  /-- `np.isfinite` -/
  finite : α → Bool
  /-- `np.asarray(·, dtype=float_dtype)`: identity on exact carriers and float64 -/
  cast : α → α
  /-- what a missing continuous value is encoded as (`np.nan`) -/
  nan : α

/-- `ScaleType`.  `None`, `LINEAR` and (after `continuify`) `UNIFORM_DISCRETE` all take the
`else` branch of `scaler_from_spec`, modelled as `linear`. -/
inductive Scale where
  | linear | log | reverseLog
  deriving DecidableEq, Repr

inductive Domain (α : Type) where
  | double (lo hi : α)
  | integer (lo hi : Int)
  /-- sorted, duplicate free, non-empty (`ParameterConfig.factory`) -/
  | discrete (vals : List α)
  /-- sorted, duplicate free, non-empty -/
  | categorical (cats : List String)

structure Param (α : Type) where
  name : String
  dom : Domain α
  scale : Scale

/-- a parameter value as stored in a `ParameterValue` (float / int / str) -/
inductive PVal (α : Type) where
  | dbl (x : α)
  | int (i : Int)
  | str (s : String)

/-- one array entry: floating (continuous / one-hot specs) or integer (index specs) -/
inductive Feat (α : Type) where
  | num (x : α)
  | idx (i : Int)

/-- options of `DefaultModelInputConverter` (float dtype is part of `NumOps.cast`) -/
structure Cfg where
  scale : Bool
  onehot : Bool
  padOovs : Bool
  shouldClip : Bool
  /-- `max_discrete_indices`; `none` = ∞ (`np.inf`, `sys.maxsize`) -/
  maxDiscrete : Option Nat
  /-- VARIANT FLAG (defect D11).  `false` = the code as written at the pinned commit: the
  array is un-scaled first and clipped afterwards, so `exp`/a huge range can overflow and the
  parameter is dropped.  `true` = clip in the scaled space first when `should_clip`. -/
  clipScaled : Bool
  /-- VARIANT FLAG (floating-point only).  `false` = the code as written: reverse-log scaling
  takes `log((low + high) - x)`, which in floating point absorbs `low` when `high / low` exceeds
  the precision and maps `high` to `log 0 = -inf`.  `true` = `log(low + (high - x))`.  Both are
  the same function over a field (`fwd_stable_eq`). -/
  stableRlog : Bool

variable {α : Type}

/-! ### small numeric helpers -/

/-- `np.abs` -/
def nabs (ops : NumOps α) (x : α) : α := if ops.lt x ops.zero then ops.neg x else x

/-- `np.clip(v, lo, hi)` = `minimum(maximum(v, lo), hi)` (non-NaN `v`) -/
def clip (ops : NumOps α) (v lo hi : α) : α :=
  let w := if ops.lt v lo then lo else v
  if ops.lt hi w then hi else w

/-- `list(range(lo, hi + 1))` -/
def intRange (lo hi : Int) : List Int :=
  (List.range (hi - lo + 1).toNat).map (fun (k : Nat) => lo + (k : Int))

/-! ### specs -/

def Domain.numFeasible : Domain α → Option Nat
  | .double _ _ => none
  | .integer lo hi => some (hi - lo + 1).toNat
  | .discrete vs => some vs.length
  | .categorical cs => some cs.length

/-- `type in (INTEGER, DISCRETE) and num_feasible_values > max_discrete_indices` -/
def continuified (cfg : Cfg) : Domain α → Bool
  | .integer lo hi => match cfg.maxDiscrete with
    | none => false
    | some m => decide (m < (hi - lo + 1).toNat)
  | .discrete vs => match cfg.maxDiscrete with
    | none => false
    | some m => decide (m < vs.length)
  | _ => false

/-- the getter spec: CONTINUOUS with (dtype-rounded) bounds, or DISCRETE index into `n` values -/
inductive Spec (α : Type) where
  | continuous (low high : α)
  | index (n : Nat)

def specOf (ops : NumOps α) (cfg : Cfg) (p : Param α) : Spec α :=
  match p.dom with
  | .double lo hi => .continuous (ops.cast lo) (ops.cast hi)
  | .integer lo hi =>
    if continuified cfg p.dom then .continuous (ops.cast (ops.ofInt lo)) (ops.cast (ops.ofInt hi))
    else .index (hi - lo + 1).toNat
  | .discrete vs =>
    if continuified cfg p.dom then
      .continuous (ops.cast (vs.headD ops.zero)) (ops.cast (vs.getLastD ops.zero))
    else .index vs.length
  | .categorical cs => .index cs.length

/-! ### the scaler (`scaler_from_spec`) -/

inductive Branch where
  | identity | singleton | linear | log | reverseLog
  /-- `ValueError('Log scale requires both parameter boundaries to be positive')` -/
  | invalid
  deriving DecidableEq, Repr

def branch (ops : NumOps α) (scaleOn : Bool) (low high : α) (sc : Scale) : Branch :=
  if !scaleOn then .identity
  else if ops.beq low high then .singleton
  else match sc with
    | .log => if ops.lt low ops.zero || ops.lt high ops.zero then .invalid else .log
    | .reverseLog => .reverseLog
    | .linear =>
      if ops.beq (ops.sub high low) ops.one && ops.beq low ops.zero then .identity else .linear

/-- `denom = (log(high) - log(low)) or 1.0` -/
def logDenom (ops : NumOps α) (low high : α) : α :=
  let d := ops.sub (ops.log high) (ops.log low)
  if ops.beq d ops.zero then ops.one else d

def fwd (ops : NumOps α) (stable : Bool) (b : Branch) (low high x : α) : α :=
  match b with
  | .identity | .invalid => x
  | .singleton => if ops.finite x then ops.add (ops.sub x low) ops.half else x
  | .linear => ops.div (ops.sub x low) (ops.sub high low)
  | .log => ops.div (ops.sub (ops.log x) (ops.log low)) (logDenom ops low high)
  | .reverseLog =>
    let arg := if stable then ops.add low (ops.sub high x) else ops.sub (ops.add low high) x
    ops.sub ops.one (ops.div (ops.sub (ops.log arg) (ops.log low)) (logDenom ops low high))

def bwd (ops : NumOps α) (b : Branch) (low high y : α) : α :=
  match b with
  | .identity | .invalid => y
  | .singleton => if ops.finite y then ops.sub (ops.add y low) ops.half else y
  | .linear => ops.add (ops.mul y (ops.sub high low)) low
  | .log => ops.exp (ops.add (ops.mul y (logDenom ops low high)) (ops.log low))
  | .reverseLog =>
    ops.sub (ops.add low high) (ops.exp (ops.sub (ops.log high) (ops.mul (logDenom ops low high) y)))

/-- bounds of the scaler's output spec -/
def outBounds (ops : NumOps α) (b : Branch) (low high : α) : α × α :=
  match b with
  | .identity | .invalid => (low, high)
  | .singleton => (ops.half, ops.half)
  | _ => (ops.zero, ops.one)

/-! ### encode one parameter (`convert`) -/

def findIdx (f : β → Bool) : List β → Nat → Option Nat
  | [], _ => none
  | x :: xs, i => if f x then some i else findIdx f xs (i + 1)

/-- `feasible_values.index(raw_value)` if present, else `len(feasible_values)` -/
def indexOfValue (ops : NumOps α) (d : Domain α) (n : Nat) (v : Option (PVal α)) : Nat :=
  match d, v with
  | .integer lo hi, some (.int i) => if lo ≤ i ∧ i ≤ hi then (i - lo).toNat else n
  | .discrete vs, some (.dbl x) => (findIdx (fun y => ops.beq y x) vs 0).getD n
  | .categorical cs, some (.str s) => (findIdx (fun c => c == s) cs 0).getD n
  | _, _ => n

/-- entries `start … start+len-1` of row `k` of `np.eye` -/
def indic (ops : NumOps α) (k : Nat) : Nat → Nat → List α
  | _, 0 => []
  | s, m + 1 => (if s = k then ops.one else ops.zero) :: indic ops k (s + 1) m

def onehotDim (cfg : Cfg) (n : Nat) : Nat := n + (if cfg.padOovs then 1 else 0)

def encodeValue (ops : NumOps α) (cfg : Cfg) (p : Param α) (v : Option (PVal α)) :
    Except String (List (Feat α)) :=
  match specOf ops cfg p with
  | .continuous low high =>
    let b := branch ops cfg.scale low high p.scale
    if b = .invalid then .error "ValueError: log scale bounds" else
    match v with
    | some (.str _) => .error "TypeError: string in a numeric parameter"
    | some (.dbl x) => .ok [.num (fwd ops cfg.stableRlog b low high (ops.cast x))]
    | some (.int i) => .ok [.num (fwd ops cfg.stableRlog b low high (ops.cast (ops.ofInt i)))]
    | none => .ok [.num (fwd ops cfg.stableRlog b low high ops.nan)]
  | .index n =>
    let i := indexOfValue ops p.dom n v
    if cfg.onehot then
      let dim := onehotDim cfg n
      if i < dim then .ok ((indic ops i 0 dim).map .num)
      else .error "IndexError: missing value without OOV padding"
    else .ok [.idx i]

/-! ### decode one parameter (`to_parameter_values`) -/

/-- nearest feasible value: `np.argmin(np.abs(feasible - value))` (first minimum) -/
def nearestAux (ops : NumOps α) (v : α) : List (α × β) → α → β → β
  | [], _, bp => bp
  | c :: cs, bd, bp =>
    let d := nabs ops (ops.sub c.1 v)
    if ops.lt d bd then nearestAux ops v cs d c.2 else nearestAux ops v cs bd bp

def nearest (ops : NumOps α) (v : α) : List (α × β) → Option β
  | [] => none
  | c :: cs => some (nearestAux ops v cs (nabs ops (ops.sub c.1 v)) c.2)

/-- `np.argmax` (first maximum) -/
def argmaxAux (ops : NumOps α) : List α → Nat → Nat → α → Nat
  | [], _, bi, _ => bi
  | d :: ds, i, bi, bv => if ops.lt bv d then argmaxAux ops ds (i + 1) i d else argmaxAux ops ds (i + 1) bi bv

def argmax (ops : NumOps α) : List α → Nat
  | [] => 0
  | d :: ds => argmaxAux ops ds 1 0 d

/-- `feasible_values[k]` for `0 ≤ k < n` -/
def feasibleAt (d : Domain α) (k : Nat) : Option (PVal α) :=
  match d with
  | .integer lo hi => if k < (hi - lo + 1).toNat then some (.int (lo + (k : Int))) else none
  | .discrete vs => vs[k]?.map .dbl
  | .categorical cs => cs[k]?.map .str
  | .double _ _ => none

def nums : List (Feat α) → Option (List α)
  | [] => some []
  | .num x :: fs => (nums fs).map (x :: ·)
  | .idx _ :: _ => none

/-- `_to_parameter_value` for a continuous spec, after un-scaling -/
def toParameterValue (ops : NumOps α) (cfg : Cfg) (d : Domain α) (v : α) :
    Except String (Option (PVal α)) :=
  if !ops.finite v then .ok none
  else match d with
    | .double lo hi => .ok (some (.dbl (if cfg.shouldClip then clip ops v lo hi else v)))
    | .integer lo hi =>
      .ok ((nearest ops v ((intRange lo hi).map fun i => (ops.cast (ops.ofInt i), i))).map .int)
    | .discrete vs => .ok ((nearest ops v (vs.map fun x => (ops.cast x, x))).map .dbl)
    | .categorical _ => .error "categorical parameter with a continuous spec"

/-- the value handed to `_to_parameter_value`: (fixed variant only: clip in the scaled space
when `should_clip`), then the scaler's backward function -/
def unscale (ops : NumOps α) (cfg : Cfg) (b : Branch) (low high y : α) : α :=
  let ob := outBounds ops b low high
  let y' := if cfg.clipScaled && cfg.shouldClip && cfg.scale && ops.finite y
            then clip ops y ob.1 ob.2 else y
  bwd ops b low high y'

def decodeBlock (ops : NumOps α) (cfg : Cfg) (p : Param α) (block : List (Feat α)) :
    Except String (Option (PVal α)) :=
  match specOf ops cfg p with
  | .continuous low high =>
    let b := branch ops cfg.scale low high p.scale
    if b = .invalid then .error "ValueError: log scale bounds" else
    match block with
    | [.num y] => toParameterValue ops cfg p.dom (unscale ops cfg b low high y)
    | _ => .error "shape"
  | .index n =>
    if cfg.onehot then
      match nums block with
      | none => .error "dtype"
      | some xs =>
        if xs.length ≠ onehotDim cfg n then .error "shape"
        else .ok (feasibleAt p.dom (argmax ops (xs.take n)))
    else
      match block with
      | [.idx i] =>
        if (n : Int) ≤ i then .ok none                         -- `value >= len(feasible_values)`
        else if 0 ≤ i then .ok (feasibleAt p.dom i.toNat)
        else if -(n : Int) ≤ i then .ok (feasibleAt p.dom (i + n).toNat)   -- Python negative index
        else .error "IndexError"
      | _ => .error "shape"

/-! ### whole search space (`DefaultTrialConverter.to_features / to_parameters`) -/

def blockWidth (ops : NumOps α) (cfg : Cfg) (p : Param α) : Nat :=
  match specOf ops cfg p with
  | .continuous _ _ => 1
  | .index n => if cfg.onehot then onehotDim cfg n else 1

def lookup (name : String) : List (String × PVal α) → Option (PVal α)
  | [] => none
  | (k, v) :: rest => if k = name then some v else lookup name rest

def encode (ops : NumOps α) (cfg : Cfg) : List (Param α) → List (String × PVal α) →
    Except String (List (Feat α))
  | [], _ => .ok []
  | p :: ps, point =>
    match encodeValue ops cfg p (lookup p.name point) with
    | .error e => .error e
    | .ok b => match encode ops cfg ps point with
      | .error e => .error e
      | .ok rest => .ok (b ++ rest)

/-- a parameter whose decoded value is `None` is left out of the `ParameterDict` -/
def decode (ops : NumOps α) (cfg : Cfg) : List (Param α) → List (Feat α) →
    Except String (List (String × PVal α))
  | [], fs => if fs.isEmpty then .ok [] else .error "shape"
  | p :: ps, fs =>
    let w := blockWidth ops cfg p
    if fs.length < w then .error "shape" else
    match decodeBlock ops cfg p (fs.take w) with
    | .error e => .error e
    | .ok v => match decode ops cfg ps (fs.drop w) with
      | .error e => .error e
      | .ok rest => .ok (match v with | some x => (p.name, x) :: rest | none => rest)

/-! ### membership (the property predicate of C03 / C15) -/

def inDomain (ops : NumOps α) : Domain α → PVal α → Bool
  | .double lo hi, .dbl x => ops.le lo x && ops.le x hi
  | .integer lo hi, .int i => decide (lo ≤ i) && decide (i ≤ hi)
  | .discrete vs, .dbl x => vs.any (fun y => ops.beq y x)
  | .categorical cs, .str s => cs.any (fun c => c == s)
  | _, _ => false

def countName (name : String) : List (String × PVal α) → Nat
  | [] => 0
  | (k, _) :: rest => (if k = name then 1 else 0) + countName name rest

/-- every parameter of the space is assigned exactly once, with a value inside its domain,
and nothing else is assigned -/
def inSpace (ops : NumOps α) (ps : List (Param α)) (a : List (String × PVal α)) : Bool :=
  ps.all (fun p => countName p.name a = 1 &&
    (match lookup p.name a with | some v => inDomain ops p.dom v | none => false)) &&
  a.all (fun e => ps.any (fun p => p.name = e.1))

/-! ### labels (`DefaultModelOutputConverter`) -/

structure MetricCfg (α : Type) where
  /-- goal is MINIMIZE and `flip_sign_for_minimization_metrics` -/
  flip : Bool
  /-- `some threshold` for a safety metric with `shift_safe_metrics` -/
  shift : Option α

/-- `convert`: subtract the safety threshold, then `labels * (-1 if flip else 1)` -/
def convertLabel (ops : NumOps α) (mc : MetricCfg α) (x : α) : α :=
  let y := match mc.shift with | some t => ops.sub x t | none => x
  if mc.flip then ops.neg y else y

/-- `to_metrics`: the same two steps again (the shift is applied in the same direction) -/
def toMetric (ops : NumOps α) (mc : MetricCfg α) (l : α) : α :=
  let y := match mc.shift with | some t => ops.sub l t | none => l
  if mc.flip then ops.neg y else y

/-! ### the driver's carrier -/

/-- `cast32`: the converter's `float_dtype` is float32 (bounds, feasible values and encoded
values are rounded to float32).  `arith32`: the array being processed is float32, so numpy /
jax compute in float32 (each IEEE operation on doubles followed by rounding to float32 is the
correctly rounded float32 operation). -/
def floatOps (cast32 arith32 : Bool) : NumOps Float :=
  let r : Float → Float := fun x => if arith32 then x.toFloat32.toFloat else x
  { zero := 0.0
    one := 1.0
    half := 0.5
    add := fun a b => r (a + b)
    sub := fun a b => r (a - b)
    mul := fun a b => r (a * b)
    div := fun a b => r (a / b)
    neg := fun x => -x
    lt := fun a b => a < b
    le := fun a b => a ≤ b
    beq := fun a b => a == b
    log := fun x => if arith32 then x.toFloat32.log.toFloat else Float.log x
    exp := fun x => if arith32 then x.toFloat32.exp.toFloat else Float.exp x
    ofInt := fun i => r (Float.ofInt i)
    finite := fun x => (r x).isFinite
    cast := fun x => if cast32 then x.toFloat32.toFloat else x
    nan := 0.0 / 0.0 }

end VizierModel.Codec
