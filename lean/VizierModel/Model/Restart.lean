/-
M8 — restartable (partially serializable) designers.  Property C13.

Anchors: vizier/interfaces/serializable.py (the `PartiallySerializable` contract),
vizier/_src/algorithms/policies/designer_policy.py (`_restore_designer`: build a fresh designer
with the factory, `load` the metadata written by the previous `dump`),
vizier/_src/algorithms/designers/grid.py, quasi_random.py, evolution/templates.py.

Core Lean only.  Everything is a small total executable function.
-/

namespace VizierModel.Restart

/-! ## The abstract designer -/

/-- A stateful designer.
* `σ` — state of a live Python object,
* `τ` — what one `update(completed, all_active)` call delivers,
* `ο` — one suggestion,
* `μ` — the metadata produced by `dump()`,
* `κ` — whatever the constructor draws from the environment when a fresh instance is built
  (in the service: `int(time.time())` seeds; a new value at every policy rebuild). -/
structure Designer (σ τ ο μ κ : Type) where
  fresh : κ → σ
  update : σ → τ → σ
  suggest : σ → Nat → List ο × σ
  dump : σ → μ
  /-- `load inst md`: the state of instance `inst` after `inst.load(md)` -/
  load : σ → μ → σ

variable {σ τ ο μ κ : Type}

/-- One step of a study as the policy drives it: `update` with the newly completed / active trials,
then `suggest(count)`. -/
abbrev Step (τ : Type) := τ × Nat

namespace Designer

def step (D : Designer σ τ ο μ κ) (s : σ) (st : Step τ) : List ο × σ :=
  D.suggest (D.update s st.1) st.2

/-- dump → fresh instance (constructed with environment value `k`) → load -/
def restart (D : Designer σ τ ο μ κ) (k : κ) (s : σ) : σ := D.load (D.fresh k) (D.dump s)

/-- optional restart -/
def maybeRestart (D : Designer σ τ ο μ κ) (r : Option κ) (s : σ) : σ :=
  match r with
  | some k => D.restart k s
  | none => s

/-- Run A: one instance kept alive.  Result: the batches suggested at each step. -/
def runLive (D : Designer σ τ ο μ κ) : σ → List (Step τ) → List (List ο)
  | _, [] => []
  | s, st :: rest => (D.step s st).1 :: runLive D (D.step s st).2 rest

/-- final state of run A -/
def endLive (D : Designer σ τ ο μ κ) : σ → List (Step τ) → σ
  | s, [] => s
  | s, st :: rest => endLive D (D.step s st).2 rest

/-- Run B: before step `i` a restart is inserted iff `rs[i] = some k` (missing entries = no
restart).  Any subset of steps, any environment values. -/
def runRestart (D : Designer σ τ ο μ κ) : σ → List (Step τ) → List (Option κ) → List (List ο)
  | _, [], _ => []
  | s, st :: rest, rs =>
    (D.step (D.maybeRestart (rs.head?.getD none) s) st).1 ::
      runRestart D (D.step (D.maybeRestart (rs.head?.getD none) s) st).2 rest rs.tail

def endRestart (D : Designer σ τ ο μ κ) : σ → List (Step τ) → List (Option κ) → σ
  | s, [], _ => s
  | s, st :: rest, rs =>
    endRestart D (D.step (D.maybeRestart (rs.head?.getD none) s) st).2 rest rs.tail

/-- Observational equivalence: no sequence of public calls tells the two states apart. -/
def ObsEq (D : Designer σ τ ο μ κ) (s s' : σ) : Prop :=
  ∀ steps : List (Step τ), D.runLive s steps = D.runLive s' steps

/-- States a study can be in: built fresh, updated, asked for suggestions, restarted. -/
inductive Reach (D : Designer σ τ ο μ κ) : σ → Prop
  | fresh (k : κ) : Reach D (D.fresh k)
  | update {s : σ} (t : τ) : Reach D s → Reach D (D.update s t)
  | suggest {s : σ} (n : Nat) : Reach D s → Reach D (D.suggest s n).2
  | restart {s : σ} (k : κ) : Reach D s → Reach D (D.restart k s)

/-- The `PartiallySerializable` contract on reachable states. -/
def LoadDumpIdentity (D : Designer σ τ ο μ κ) : Prop :=
  ∀ s, D.Reach s → ∀ k, D.ObsEq (D.restart k s) s

/-- FULL STATEMENT of C13 for a designer. -/
def RestartTransparent (D : Designer σ τ ο μ κ) : Prop :=
  ∀ (k0 : κ) (steps : List (Step τ)) (rs : List (Option κ)),
    D.runRestart (D.fresh k0) steps rs = D.runLive (D.fresh k0) steps

end Designer

/-- `count = count or 1` -/
def effCount (n : Nat) : Nat := if n = 0 then 1 else n

/-! ## Grid search (grid.py) -/

/-- `_grid_values`: an ordered dict parameter name ↦ list of grid values. -/
abbrev GridValues (V : Type) := List (String × List V)

/-- The loop of `GridSearchDesigner.suggest`:
```
temp_index = index
for p_name in self._grid_values:
  p_length = len(self._grid_values[p_name])
  p_index = temp_index % p_length
  parameter_dict[p_name] = self._grid_values[p_name][p_index]
  temp_index = temp_index // p_length
```
(An empty grid would raise `ZeroDivisionError` in Python; no `ParameterConfig` has an empty grid,
the theorems assume positive lengths; the model returns `default` there.) -/
def pointAt {V : Type} [Inhabited V] : GridValues V → Nat → List (String × V)
  | [], _ => []
  | g :: rest, i => (g.1, g.2.getD (i % g.2.length) default) :: pointAt rest (i / g.2.length)

/-- the mixed-radix digits alone -/
def digits : List Nat → Nat → List Nat
  | [], _ => []
  | l :: ls, i => (i % l) :: digits ls (i / l)

/-- inverse of `digits` on the box -/
def undigits : List Nat → List Nat → Nat
  | l :: ls, d :: ds => d + l * undigits ls ds
  | _, _ => 0

def lengths {V : Type} (gv : GridValues V) : List Nat := gv.map (fun g => g.2.length)

/-- number of grid points -/
def gridSize {V : Type} (gv : GridValues V) : Nat := (lengths gv).prod

/-- first `N` points in suggestion order -/
def gridEnum {V : Type} [Inhabited V] (gv : GridValues V) : List (List (String × V)) :=
  (List.range (gridSize gv)).map (pointAt gv)

structure GridCfg (V : Type) where
  /-- `_unshuffled_grid_values`, in search-space order -/
  base : GridValues V
  /-- `_maybe_shuffled_grid_values(seed)` for a seed that is not `None`: `random.Random(seed)`
  shuffles the keys and then every value list — an abstract function of the seed -/
  shuffle : Int → GridValues V → GridValues V

def GridCfg.effective {V : Type} (c : GridCfg V) : Option Int → GridValues V
  | none => c.base
  | some s => c.shuffle s c.base

structure GridState (V : Type) where
  current : Nat                -- _current_index
  seed : Option Int            -- _shuffle_seed
  values : GridValues V        -- _grid_values (cached)

/-- metadata namespace `grid`: `current_index`, `shuffle_seed` (decimal strings / 'None';
the string codec is a correspondence item) -/
structure GridMd where
  current : Nat
  seed : Option Int
deriving DecidableEq, Repr

def gridDesigner {V : Type} [Inhabited V] (τ : Type) (c : GridCfg V) :
    Designer (GridState V) τ (List (String × V)) GridMd (Option Int) where
  fresh k := { current := 0, seed := k, values := c.effective k }
  update s _ := s
  suggest s n :=
    ((List.range' s.current (effCount n)).map (pointAt s.values),
      { s with current := s.current + effCount n })
  dump s := { current := s.current, seed := s.seed }
  load _ md := { current := md.current, seed := md.seed, values := c.effective md.seed }

/-! ## Quasi-random search (quasi_random.py) -/

structure HaltonCfg (P ο : Type) where
  /-- `qmc.Halton(d, seed=s)`: the `k`-th point of the scrambled sequence with seed `s` -/
  H : Int → Nat → P
  /-- discretisation + `converter.to_parameters`: stateless -/
  toSuggestion : P → ο
  /-- constructor argument `skip_points` (1000 by default) -/
  skip0 : Nat

structure HaltonState where
  seed : Int        -- _seed
  skip : Nat        -- _skip_points
  engSeed : Int     -- seed the `_halton` engine was built with
  engPos : Nat      -- number of points the engine has produced or skipped
deriving DecidableEq, Repr

structure HaltonMd where
  skip : Nat
  seed : Int
deriving DecidableEq, Repr

def haltonDesigner {P ο : Type} (τ : Type) (c : HaltonCfg P ο) :
    Designer HaltonState τ ο HaltonMd Int where
  fresh k := { seed := k, skip := c.skip0, engSeed := k, engPos := c.skip0 }
  update s _ := s
  suggest s n :=
    ((List.range' s.engPos (effCount n)).map (fun k => c.toSuggestion (c.H s.engSeed k)),
      { s with skip := s.skip + effCount n, engPos := s.engPos + effCount n })
  dump s := { skip := s.skip, seed := s.seed }
  -- Halton(seed = md.seed); fast_forward(md.skip_points)
  load _ md := { seed := md.seed, skip := md.skip, engSeed := md.seed, engPos := md.skip }

/-! ## Evolution template (evolution/templates.py) — phase and counter only

`CanonicalEvolutionDesigner` keeps `_num_trials_seen` and the population; `suggest` samples while
`_num_trials_seen < _first_survival_after` and mutates the population afterwards.  `dump()`
returns the population only.  The population itself (numeric arrays) is abstracted to the list
of trial ids it was built from; what is modelled is the *phase*.  `dumpsSeen` selects the
variant: `false` = templates.py as written, `true` = the counter is part of the dump. -/

inductive Phase | sampling | mutation
deriving DecidableEq, Repr

structure EvoState where
  pop : List Nat
  seen : Nat
deriving DecidableEq, Repr

structure EvoMd where
  pop : List Nat
  seen : Option Nat
deriving DecidableEq, Repr

def evoDesigner (dumpsSeen : Bool) (firstSurvivalAfter : Nat) :
    Designer EvoState (List Nat) (Phase × Nat) EvoMd Unit where
  fresh _ := { pop := [], seen := 0 }
  update s completed := { pop := s.pop ++ completed, seen := s.seen + completed.length }
  suggest s n :=
    ([(if s.seen < firstSurvivalAfter then Phase.sampling else Phase.mutation, n)], s)
  dump s := { pop := s.pop, seen := if dumpsSeen then some s.seen else none }
  load inst md := { pop := md.pop, seen := md.seen.getD inst.seen }

/-! ## Executable "each point exactly once" judge (used by the driver on REAL observations) -/

/-- `obs` lists every element of `enum` exactly once (and nothing else) -/
def eachOnceB {α : Type} [DecidableEq α] (enum obs : List α) : Bool :=
  decide obs.Nodup && obs.all (fun p => enum.contains p) && (obs.length == enum.length)

/-- balance: only elements of `enum` occur in `obs`, and no element of `enum` occurs two times
more often than another (`max − min ≤ 1`) -/
def countsBalanced {α : Type} [BEq α] (enum obs : List α) : Bool :=
  obs.all (fun p => enum.contains p) &&
    enum.all (fun p => enum.all (fun q => obs.count p ≤ obs.count q + 1))

/-- The judge at the granularity the service exposes (the trials of one SuggestTrials response
are created together): after EVERY batch the counts are balanced — i.e. no point is handed out
for the (k+1)-th time in an earlier batch than some other point's k-th time.  Returns the index
of the first batch after which the balance is broken. -/
def firstUnbalanced {α : Type} [BEq α] (enum : List α) : List α → Nat → List (List α) → Option Nat
  | _, _, [] => none
  | acc, i, b :: rest =>
    if countsBalanced enum (acc ++ b) then firstUnbalanced enum (acc ++ b) (i + 1) rest else some i

end VizierModel.Restart
