/-
Specification side of C17, written from the property text: what a client must be shown
for a stored trial.  Executable, so the driver can judge outputs of the real code.
-/
import VizierModel.Model.Present
import VizierModel.Model.SpaceSpec
namespace VizierModel.Space

inductive Tag where
  | str | int | flt | bool
  deriving DecidableEq, Repr

def tagOf : PVal → Tag
  | .str _ => .str
  | .int _ => .int
  | .flt _ => .flt
  | .bool _ => .bool

/-- the type a parameter is declared to be presented in: BOOLEAN ⇒ bool, INTEGER external
type (integer-valued discrete) ⇒ int, FLOAT ⇒ float; without a declared external type
categorical ⇒ str, discrete and continuous ⇒ float (every number is stored as a double).
`none`: the property text does not say (INTEGER parameter with INTERNAL external type). -/
def declaredTag (h : Hdr) : Option Tag :=
  match h.ext with
  | .boolean => some .bool
  | .integer => some .int
  | .float => some .flt
  | .internal =>
    match h.type with
    | .categorical => some .str
    | .double => some .flt
    | .discrete => some .flt
    | _ => none

/-- the presented value equals the stored one: numerically or as strings; `True`/`False`
present the stored category `'True'`/`'False'` (or the stored number 1/0) -/
def sameValue (stored presented : PVal) : Bool :=
  pyEq stored presented ||
    match presented with
    | .bool b => decide (stored = .str (if b then "True" else "False"))
    | _ => false

def valueOK (h : Hdr) (stored : PVal) (presented : Option PVal) : Bool :=
  match presented with
  | none => false
  | some r => sameValue stored r && (match declaredTag h with | some tg => decide (tagOf r = tg) | none => true)

/-- the value the trial stores for a config -/
def chooseOf (t : Assign) (p : PC) : Option PVal := lookup t p.name

/-- the active parameters that the trial carries, with their stored values (preorder) -/
def activePresent (ss : List PC) (t : Assign) : List (PC × PVal) :=
  (activeSpace (chooseOf t) ss).filterMap fun p => (lookup t p.name).map fun v => (p, v)

/-- what `_trial_to_external_values` must produce, in preorder -/
def presentedSpec (ss : List PC) (t : Assign) : List (String × Except Err (Option PVal)) :=
  (activePresent ss t).map fun pv => (pv.1.name, cast pv.1.h.ext pv.2)


/-- `cast` with the OverflowError of `as_int(±inf)` read as "no value" (specification side) -/
def castV (e : ExtType) (v : PVal) : Option PVal :=
  match cast e v with
  | .ok x => x
  | .error _ => none

mutual
/-- what is presented below and including `p`, given whether `p`'s parent condition holds
(`g`): nothing unless the trial carries `p`; then `p` and, for each child, recursively,
with the condition "the stored value of `p` equals the child's subspace key" -/
def takenOf (t : Assign) (g : Bool) : PC → List (String × Option PVal)
  | .mk h kids =>
    match (if g then lookup t h.name else none) with
    | none => []
    | some v => (h.name, castV h.ext v) :: takenKids t v kids
def takenKids (t : Assign) (v : PVal) : List (PVal × PC) → List (String × Option PVal)
  | [] => []
  | (k, c) :: rest => takenOf t (pyEq v k) c ++ takenKids t v rest
end

/-- the presentation of a whole space, in preorder -/
def takenSpace (t : Assign) : List PC → List (String × Option PVal)
  | [] => []
  | p :: ps => takenOf t true p ++ takenSpace t ps


/-! ## names are unique within every subspace (what `SearchSpace.add` guarantees) -/

def kidsDistinct : List (PVal × PC) → Bool
  | [] => true
  | (k, c) :: rest => (rest.all fun kc => !(pyEq k kc.1 && c.name == kc.2.name)) && kidsDistinct rest

mutual
def sibOK : PC → Bool
  | .mk _ kids => kidsDistinct kids && sibKids kids
def sibKids : List (PVal × PC) → Bool
  | [] => true
  | (_, c) :: rest => sibOK c && sibKids rest
end

def siblingUnique (ss : List PC) : Bool :=
  decide ((names ss).Nodup) && ss.all sibOK

/-- every parameter the trial carries is an active parameter of the space -/
def trialKnown (ss : List PC) (t : Assign) : Bool :=
  (keys t).all fun n => ((activePresent ss t).map (·.1.name)).contains n


/-- "all feasible values are integral" (what `auto_cast` is documented to test) -/
def allIntegral (fv : List PVal) : Bool :=
  fv.all fun v => match ratOf v with | some q => isIntegralQ q | none => false


/-- the declared external type makes sense for the parameter (what the builders produce:
BOOLEAN only on a True/False categorical, INTEGER only on integer-valued numerics, FLOAT
only on numerics); `factory` itself accepts any combination -/
def extOK (h : Hdr) : Bool :=
  match h.ext with
  | .internal => true
  | .boolean => h.type == .categorical &&
      h.feasible.all fun f => decide (f = .str "True") || decide (f = .str "False")
  | .integer => (h.type == .discrete && allIntegral h.feasible) || h.type == .integer
  | .float => h.type.isNumeric

/-- names of the active parameters carried by the trial are pairwise distinct -/
def activeNamesUnique (ss : List PC) (t : Assign) : Bool :=
  let ns := (activePresent ss t).map (·.1.name)
  ns.eraseDups.length == ns.length

/-- insertion by index, stable -/
def insSlot (x : Nat × PC × PVal) : List (Nat × PC × PVal) → List (Nat × PC × PVal)
  | [] => [x]
  | y :: ys => if x.1 ≤ y.1 then x :: y :: ys else y :: insSlot x ys

def sortSlots : List (Nat × PC × PVal) → List (Nat × PC × PVal)
  | [] => []
  | x :: xs => insSlot x (sortSlots xs)

def allOK : List (PC × PVal) → List (Option PVal) → Bool
  | [], [] => true
  | (p, v) :: ps, r :: rs => valueOK p.h v r && allOK ps rs
  | _, _ => false

/-- Judge a presentation `out` of the stored trial `t` (values as stored, i.e. off the
wire).  `none` = as the property demands; `some why` otherwise. -/
def judge (ss : List PC) (t : Assign) (out : List (String × Presented)) : Option String :=
  let act := activePresent ss t
  if !(trialKnown ss t) then some "unknown-or-inactive-parameter-presented-without-error" else
  let plain := act.filter fun pv => (parseIndexed pv.1.name).isNone
  let idx := act.filterMap fun pv => (parseIndexed pv.1.name).map fun bi => (bi.1, bi.2, pv.1, pv.2)
  let bases := (idx.map (·.1)).eraseDups
  if plain.any (fun pv => bases.contains pv.1.name) then some "plain-name-equals-indexed-base-name" else
  if out.length != plain.length + bases.length then some "wrong-number-of-presented-names" else
  let badPlain := plain.find? fun pv =>
    match out.find? (fun e => e.1 == pv.1.name) with
    | some (_, .one r) => !(valueOK pv.1.h pv.2 r)
    | _ => true
  match badPlain with
  | some pv => some s!"plain-parameter-wrong:{pv.1.name}"
  | none =>
    let badBase := bases.find? fun b =>
      let slots := sortSlots ((idx.filter (·.1 == b)).map fun e => (e.2.1, e.2.2.1, e.2.2.2))
      match out.find? (fun e => e.1 == b) with
      | some (_, .many rs) => !(allOK (slots.map fun s => (s.2.1, s.2.2)) rs)
      | _ => true
    match badBase with
    | some b => some s!"indexed-parameter-wrong:{b}"
    | none => none

end VizierModel.Space
