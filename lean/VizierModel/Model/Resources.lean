/-
Model of `vizier/_src/service/resources.py`: the five resource classes (Owner, Study, Trial,
EarlyStoppingOperation, SuggestionOperation), their `name` property, `from_name`, the component
validator, `StudyResource.trial_resource`, and Python's `int(str)` as far as ASCII goes.
Strings are `List Char`.  Core Lean only.

How the regexes are read.  Every `from_name` is `re.match(r'^lit/(?P<x>[^\/]+)/lit/…$', s)` with literal
keywords and capture groups `[^\/]+` separated by single slashes.  `[^\/]` matches ANY character but
`'/'` (blanks, newlines, unicode, regex metacharacters), the `+` is greedy, every capture is followed by a
literal `'/'` or by `$`.  A capture therefore always extends to the next `'/'` (or to the end of the
string), so the match succeeds iff `s.split('/')` has exactly the segments of the pattern, the keyword
segments are the keywords and the captured segments are non-empty.  (`$` would also match before a final
`'\n'`, but the greedy class has already consumed that newline and the first alternative tried is the one
that succeeds: `from_name('owners/a\n')` is the owner `'a\n'` — checked against the real code by the
tie.)  `fromName` below is that segment match.

The numeric component goes through `int()`: `pyInt` follows CPython's `PyLong_FromString` for base 10 on
ASCII input — leading blanks (`Py_ISSPACE`: `' \t\n\r\x0b\x0c'`), one optional sign, then a digit, then
digits / underscores with the `prev == '_'` rule, trailing blanks, end of string.  NON-ASCII input is
UNSUPPORTED by this model (`pyInt` answers `none`; CPython also accepts Unicode decimal digits and
Unicode blanks there).  CPython's 4300-digit limit of `int(str)` / `str(int)` is not modelled either.
-/
namespace VizierModel.Res

/-- Why a constructor / `from_name` / `trial_resource` call raised.  All five are `ValueError` in Python:
`notName` from the `else: raise ValueError` branch after the regex, `notInt` from `int()`,
`negative` from the attrs validator `assert_not_negative`, `badComp` from the attrs validator
`assert_re_fullmatch('[^\/]+')` (constructor only), `notPositive` from `trial_resource`. -/
inductive ParseErr where
  | notName | notInt | negative | badComp | notPositive
  deriving DecidableEq, Repr

/-! ## components -/

/-- `re.fullmatch(r'[^\/]+', c)`: non-empty, no slash — nothing else is excluded. -/
def validComp (c : List Char) : Bool := c ≠ [] && c.all (· ≠ '/')

/-! ## decimal rendering: `str(int)` for a non-negative int -/

def digitChar : Nat → Char
  | 0 => '0' | 1 => '1' | 2 => '2' | 3 => '3' | 4 => '4'
  | 5 => '5' | 6 => '6' | 7 => '7' | 8 => '8' | _ => '9'

/-- most significant digit first; `fuel` bounds the number of digits -/
def digitsAux : Nat → Nat → List Char → List Char
  | 0, _, acc => acc
  | fuel + 1, n, acc =>
    if n < 10 then digitChar n :: acc else digitsAux fuel (n / 10) (digitChar (n % 10) :: acc)

/-- `f'{n}'` for `n ≥ 0` -/
def digits (n : Nat) : List Char := digitsAux (n + 1) n []

/-! ## `int(str)`, ASCII -/

/-- `Py_ISSPACE` -/
def isWs (c : Char) : Bool :=
  c = ' ' || c = '\t' || c = '\n' || c = '\r' || c = '\x0b' || c = '\x0c'

def digitVal (c : Char) : Option Nat :=
  if c = '0' then some 0 else if c = '1' then some 1 else if c = '2' then some 2
  else if c = '3' then some 3 else if c = '4' then some 4 else if c = '5' then some 5
  else if c = '6' then some 6 else if c = '7' then some 7 else if c = '8' then some 8
  else if c = '9' then some 9 else none

def isDigit (c : Char) : Bool := (digitVal c).isSome

/-- `if (*str == '+') ++str; else if (*str == '-') { ++str; sign = -1; }` — `(negative?, rest)` -/
def sign : List Char → Bool × List Char
  | [] => (false, [])
  | c :: u => if c = '+' then (false, u) else if c = '-' then (true, u) else (false, c :: u)

def applySign (neg : Bool) (n : Nat) : Int := if neg then -(n : Int) else (n : Int)

/-- the digit loop of `long_from_string_base`: `prevUS` is `prev == '_'`; stops at the first character
that is neither a digit nor `'_'`; `none` for `'__'` and for a trailing `'_'` -/
def scan (prevUS : Bool) (acc : Nat) : List Char → Option (Nat × List Char)
  | [] => if prevUS then none else some (acc, [])
  | c :: cs =>
    match digitVal c with
    | some d => scan false (acc * 10 + d) cs
    | none =>
      if c = '_' then (if prevUS then none else scan true acc cs)
      else if prevUS then none else some (acc, c :: cs)

/-- after the blanks and the sign: a digit, the digit loop, trailing blanks, end of string -/
def parseBody (neg : Bool) : List Char → Option Int
  | [] => none
  | c :: cs =>
    match digitVal c with
    | none => none
    | some d =>
      match scan false d cs with
      | none => none
      | some (n, rest) => if rest.all isWs then some (applySign neg n) else none

/-- `int(s)` for an ASCII `str`; `none` = `ValueError: invalid literal for int() with base 10` -/
def pyInt (s : List Char) : Option Int :=
  parseBody (sign (s.dropWhile isWs)).1 (sign (s.dropWhile isWs)).2

/-! ### the documented shape of an integer literal (specification of `pyInt`)

"optionally preceded by `+` or `-` (with no space in between), may have leading zeros, be surrounded by
whitespace, and have single underscores interspersed between digits". -/

def isBodyChar (c : Char) : Bool := isDigit c || c = '_'

/-- no two adjacent underscores -/
def noDoubleUS : List Char → Bool
  | a :: b :: r => !(a = '_' && b = '_') && noDoubleUS (b :: r)
  | _ => true

/-- digits and underscores; not empty; no underscore first, last, or doubled -/
def bodyOK (b : List Char) : Bool :=
  b ≠ [] && b.head? ≠ some '_' && b.getLast? ≠ some '_' && noDoubleUS b

/-- after the leading blanks and the sign: the maximal run of digits / underscores -/
def intBody (t : List Char) : List Char := ((sign (t.dropWhile isWs)).2).takeWhile isBodyChar
/-- … and what follows it -/
def intTail (t : List Char) : List Char := ((sign (t.dropWhile isWs)).2).dropWhile isBodyChar

def wellFormedInt (t : List Char) : Bool := bodyOK (intBody t) && (intTail t).all isWs

def digitOr0 (c : Char) : Nat := (digitVal c).getD 0

/-- the digits read left to right, starting from `acc` -/
def natCont (acc : Nat) (ds : List Char) : Nat := ds.foldl (fun a c => a * 10 + digitOr0 c) acc

/-- the value of a well-formed literal: its digits (underscores dropped), negated after `-` -/
def value (t : List Char) : Int :=
  applySign (sign (t.dropWhile isWs)).1 (natCont 0 ((intBody t).filter isDigit))

/-- the numeric component is what `name` prints for the number it denotes -/
def isCanonical (t : List Char) : Bool :=
  match pyInt t with
  | some v => 0 ≤ v && t = digits v.toNat
  | none => false

/-- `int(t)` followed by `assert_not_negative` -/
def numComp (t : List Char) : Except ParseErr Nat :=
  match pyInt t with
  | none => .error .notInt
  | some v => if v < 0 then .error .negative else .ok v.toNat

/-! ## segments -/

def consHead (c : Char) : List (List Char) → List (List Char)
  | [] => [[c]]
  | f :: fs => (c :: f) :: fs

/-- `s.split('/')` -/
def segs : List Char → List (List Char)
  | [] => [[]]
  | c :: cs => if c = '/' then [] :: segs cs else consHead c (segs cs)

/-- `'/'.join(l)` -/
def join : List (List Char) → List Char
  | [] => []
  | [a] => a
  | a :: b :: r => a ++ '/' :: join (b :: r)

def kwOwners : List Char := ['o', 'w', 'n', 'e', 'r', 's']
def kwStudies : List Char := ['s', 't', 'u', 'd', 'i', 'e', 's']
def kwTrials : List Char := ['t', 'r', 'i', 'a', 'l', 's']
def kwOperations : List Char := ['o', 'p', 'e', 'r', 'a', 't', 'i', 'o', 'n', 's']
def kwEarlyStopping : List Char := ['e', 'a', 'r', 'l', 'y', 's', 't', 'o', 'p', 'p', 'i', 'n', 'g']
def kwSuggestion : List Char := ['s', 'u', 'g', 'g', 'e', 's', 't', 'i', 'o', 'n']

/-! ## the five resources -/

structure Owner where
  owner : List Char
  deriving DecidableEq, Repr

structure Study where
  owner : List Char
  study : List Char
  deriving DecidableEq, Repr

structure Trial where
  owner : List Char
  study : List Char
  id : Nat
  deriving DecidableEq, Repr

/-- `EarlyStoppingOperationResource(owner_id, study_id, trial_id)` -/
structure EsOp where
  owner : List Char
  study : List Char
  id : Nat
  deriving DecidableEq, Repr

/-- `SuggestionOperationResource(owner_id, study_id, client_id, operation_number)` -/
structure SugOp where
  owner : List Char
  study : List Char
  client : List Char
  num : Nat
  deriving DecidableEq, Repr

def Owner.valid (r : Owner) : Bool := validComp r.owner
def Study.valid (r : Study) : Bool := validComp r.owner && validComp r.study
def Trial.valid (r : Trial) : Bool := validComp r.owner && validComp r.study
def EsOp.valid (r : EsOp) : Bool := validComp r.owner && validComp r.study
def SugOp.valid (r : SugOp) : Bool := validComp r.owner && validComp r.study && validComp r.client

/-! ### constructors (the attrs validators, in attribute order) -/

def ofInt (i : Int) : Except ParseErr Nat := if i < 0 then .error .negative else .ok i.toNat

def mkOwner (o : List Char) : Except ParseErr Owner :=
  if validComp o then .ok ⟨o⟩ else .error .badComp

def mkStudy (o s : List Char) : Except ParseErr Study :=
  if validComp o && validComp s then .ok ⟨o, s⟩ else .error .badComp

def mkTrial (o s : List Char) (i : Int) : Except ParseErr Trial :=
  if validComp o && validComp s then (ofInt i).map (⟨o, s, ·⟩) else .error .badComp

def mkEsOp (o s : List Char) (i : Int) : Except ParseErr EsOp :=
  if validComp o && validComp s then (ofInt i).map (⟨o, s, ·⟩) else .error .badComp

def mkSugOp (o s c : List Char) (i : Int) : Except ParseErr SugOp :=
  if validComp o && validComp s && validComp c then (ofInt i).map (⟨o, s, c, ·⟩) else .error .badComp

/-! ### `name`, with the numeric component as a string (`…With`) and as printed by the f-string -/

def ownerName (r : Owner) : List Char := join [kwOwners, r.owner]
def studyName (r : Study) : List Char := join [kwOwners, r.owner, kwStudies, r.study]

def trialNameWith (o s t : List Char) : List Char := join [kwOwners, o, kwStudies, s, kwTrials, t]
def esNameWith (o s t : List Char) : List Char :=
  join [kwOwners, o, kwOperations, kwEarlyStopping, s, t]
def sugNameWith (o s c t : List Char) : List Char :=
  join [kwOwners, o, kwOperations, kwSuggestion, s, c, t]

/-- `f'owners/{owner_id}/studies/{study_id}/trials/{trial_id}'` -/
def trialName (r : Trial) : List Char := trialNameWith r.owner r.study (digits r.id)
/-- `f'owners/{owner_id}/operations/earlystopping/{study_id}/{trial_id}'` -/
def esName (r : EsOp) : List Char := esNameWith r.owner r.study (digits r.id)
/-- `f'owners/{owner_id}/operations/suggestion/{study_id}/{client_id}/{operation_number}'` -/
def sugName (r : SugOp) : List Char := sugNameWith r.owner r.study r.client (digits r.num)

/-! ### `from_name` -/

def ownerFromName (n : List Char) : Except ParseErr Owner :=
  match segs n with
  | [k, o] => if k = kwOwners ∧ o ≠ [] then .ok ⟨o⟩ else .error .notName
  | _ => .error .notName

def studyFromName (n : List Char) : Except ParseErr Study :=
  match segs n with
  | [k₁, o, k₂, s] =>
    if k₁ = kwOwners ∧ k₂ = kwStudies ∧ o ≠ [] ∧ s ≠ [] then .ok ⟨o, s⟩ else .error .notName
  | _ => .error .notName

def trialFromName (n : List Char) : Except ParseErr Trial :=
  match segs n with
  | [k₁, o, k₂, s, k₃, t] =>
    if k₁ = kwOwners ∧ k₂ = kwStudies ∧ k₃ = kwTrials ∧ o ≠ [] ∧ s ≠ [] ∧ t ≠ [] then
      (numComp t).map (⟨o, s, ·⟩)
    else .error .notName
  | _ => .error .notName

def esFromName (n : List Char) : Except ParseErr EsOp :=
  match segs n with
  | [k₁, o, k₂, k₃, s, t] =>
    if k₁ = kwOwners ∧ k₂ = kwOperations ∧ k₃ = kwEarlyStopping ∧ o ≠ [] ∧ s ≠ [] ∧ t ≠ [] then
      (numComp t).map (⟨o, s, ·⟩)
    else .error .notName
  | _ => .error .notName

def sugFromName (n : List Char) : Except ParseErr SugOp :=
  match segs n with
  | [k₁, o, k₂, k₃, s, c, t] =>
    if k₁ = kwOwners ∧ k₂ = kwOperations ∧ k₃ = kwSuggestion ∧ o ≠ [] ∧ s ≠ [] ∧ c ≠ [] ∧ t ≠ [] then
      (numComp t).map (⟨o, s, c, ·⟩)
    else .error .notName
  | _ => .error .notName

/-- `StudyResource.trial_resource(trial_id: str)`: `int(trial_id)`, refused unless positive -/
def trialResource (st : Study) (t : List Char) : Except ParseErr Trial :=
  match pyInt t with
  | none => .error .notInt
  | some v => if v ≤ 0 then .error .notPositive else .ok ⟨st.owner, st.study, v.toNat⟩

/-! ## all kinds together -/

inductive Res where
  | owner (r : Owner) | study (r : Study) | trial (r : Trial) | es (r : EsOp) | sug (r : SugOp)
  deriving DecidableEq, Repr

def Res.valid : Res → Bool
  | .owner r => r.valid | .study r => r.valid | .trial r => r.valid | .es r => r.valid | .sug r => r.valid

def Res.name : Res → List Char
  | .owner r => ownerName r | .study r => studyName r | .trial r => trialName r
  | .es r => esName r | .sug r => sugName r

/-- the study a resource lives in (`none` for an owner) -/
def Res.studyKey : Res → Option (List Char × List Char)
  | .owner _ => none
  | .study r => some (r.owner, r.study)
  | .trial r => some (r.owner, r.study)
  | .es r => some (r.owner, r.study)
  | .sug r => some (r.owner, r.study)

end VizierModel.Res
