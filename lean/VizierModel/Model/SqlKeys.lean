/-
The KEYS of the SQL queries of `sql_datastore.py` (C07 / C12 / C01).

`Model/Stores.lean` (namespace `Sql`) models the SQL datastore as row lists keyed by `SKey = (owner, study)`, trial
id, client and operation number, and every model function selects rows by EQUALITY on those keys.  That is a
premise about the code: every query of `SQLDataStore` constrains, by equality, the columns that identify the
resource the call addresses.  The translator `harness/translators/sql_where.py` regenerates the queries of every
method from the source on each run (`Generated/SqlWhere.lean`); this file holds

* `assumedWhere`: the table the Stores model assumes, written from today's source;
* the Boolean criteria the kernel decides on the regenerated table (`Props/SqlKeys.lean`);
* a small row semantics of a query (`selects`): which rows of a table of the `Sql` model a conjunction of
  column = value constraints picks, so that the criteria can be connected to the model functions;
* `listTrialsBy`: `Sql.listTrials` with an arbitrary row filter, to show what a PREFIX filter would do.

Core Lean only.
-/
import VizierModel.Generated.SqlWhere
import VizierModel.Model.Stores
import VizierModel.Model.Resources

namespace VizierModel.SqlKeys
open VizierModel.Generated.SqlWhere VizierModel.Stores VizierModel.Svc

/-! ## the assumed table -/

/-- `resources.StudyResource.from_name(o).<attr>` -/
def sr (o : Source) (attr : String) : Source := .parsed "StudyResource" o attr

/-- `.where(T.c.owner_id == r.owner_id).where(T.c.study_id == r.study_id)` with `r = StudyResource.from_name(o)` -/
def byStudy (o : Source) : List Conj := [⟨"owner_id", .eq, sr o "owner_id"⟩, ⟨"study_id", .eq, sr o "study_id"⟩]

/-- … and `.where(T.c.client_id == client_id)` (sorted by column) -/
def byStudyClient (o : Source) : List Conj :=
  [⟨"client_id", .eq, .arg "client_id"⟩, ⟨"owner_id", .eq, sr o "owner_id"⟩, ⟨"study_id", .eq, sr o "study_id"⟩]

def by1 (col : String) (o : Source) : List Conj := [⟨col, .eq, o⟩]

/-- the trial names `update_metadata` derives: `s_resource.trial_resource(trial_id).name` -/
def mdTrialName : Source := sr (.arg "study_name") "trial_resource(_).name"

def studyVals (o : Source) : List (String × Source) :=
  [("owner_id", sr o "owner_id"), ("serialized_study", .other "study.SerializeToString()"),
   ("study_id", sr o "study_id"), ("study_name", o)]

def trialVals (o : Source) : List (String × Source) :=
  [("owner_id", .parsed "TrialResource" o "owner_id"), ("serialized_trial", .other "trial.SerializeToString()"),
   ("study_id", .parsed "TrialResource" o "study_id"), ("trial_id", .parsed "TrialResource" o "trial_id"),
   ("trial_name", o)]

def sugVals (o : Source) : List (String × Source) :=
  [("client_id", .parsed "SuggestionOperationResource" o "client_id"), ("operation_name", o),
   ("operation_number", .parsed "SuggestionOperationResource" o "operation_number"),
   ("owner_id", .parsed "SuggestionOperationResource" o "owner_id"),
   ("serialized_op", .other "operation.SerializeToString()"),
   ("study_id", .parsed "SuggestionOperationResource" o "study_id")]

def esVals (o : Source) : List (String × Source) :=
  [("operation_name", o), ("owner_id", .parsed "EarlyStoppingOperationResource" o "owner_id"),
   ("serialized_op", .other "operation.SerializeToString()"),
   ("study_id", .parsed "EarlyStoppingOperationResource" o "study_id"),
   ("trial_id", .parsed "EarlyStoppingOperationResource" o "trial_id")]

/-- **The queries the Stores model assumes**, per method in the order they are executed (conjuncts and values
sorted by column, as the translator sorts them). -/
def assumedWhere : List (String × List Query) :=
  let sn : Source := .arg "study_name"
  let tn : Source := .arg "trial_name"
  let on : Source := .arg "operation_name"
  let sN : Source := .field "study" "name"
  let tN : Source := .field "trial" "name"
  let oN : Source := .field "operation" "name"
  [ ("create_early_stopping_operation", [⟨.esOps, .insert, [], esVals oN⟩]),
    ("create_study",
      [⟨.owners, .insert, [], [("owner_name", sr sN "owner_resource.name")]⟩, ⟨.studies, .insert, [], studyVals sN⟩]),
    ("create_suggestion_operation", [⟨.sugOps, .insert, [], sugVals oN⟩]),
    ("create_trial", [⟨.trials, .insert, [], trialVals tN⟩]),
    ("delete_study",
      [⟨.studies, .exist, by1 "study_name" sn, []⟩, ⟨.studies, .delete, by1 "study_name" sn, []⟩,
       ⟨.trials, .delete, byStudy sn, []⟩, ⟨.sugOps, .delete, byStudy sn, []⟩, ⟨.esOps, .delete, byStudy sn, []⟩]),
    ("delete_trial", [⟨.trials, .exist, by1 "trial_name" tn, []⟩, ⟨.trials, .delete, by1 "trial_name" tn, []⟩]),
    ("get_early_stopping_operation", [⟨.esOps, .select, by1 "operation_name" on, []⟩]),
    ("get_suggestion_operation", [⟨.sugOps, .select, by1 "operation_name" on, []⟩]),
    ("get_trial", [⟨.trials, .select, by1 "trial_name" tn, []⟩]),
    ("list_studies",
      [⟨.owners, .exist, by1 "owner_name" (.arg "owner_name"), []⟩,
       ⟨.studies, .select, by1 "owner_id" (.parsed "OwnerResource" (.arg "owner_name") "owner_id"), []⟩]),
    ("list_suggestion_operations", [⟨.sugOps, .exist, byStudyClient sn, []⟩, ⟨.sugOps, .select, byStudyClient sn, []⟩]),
    ("list_trials", [⟨.studies, .exist, by1 "study_name" sn, []⟩, ⟨.trials, .select, byStudy sn, []⟩]),
    ("load_study", [⟨.studies, .select, by1 "study_name" sn, []⟩]),
    ("max_suggestion_operation_number",
      [⟨.sugOps, .exist, byStudyClient sn, []⟩, ⟨.sugOps, .select, byStudyClient sn, []⟩]),
    ("max_trial_id", [⟨.studies, .exist, by1 "study_name" sn, []⟩, ⟨.trials, .select, byStudy sn, []⟩]),
    ("update_early_stopping_operation",
      [⟨.esOps, .exist, by1 "operation_name" oN, []⟩, ⟨.esOps, .update, by1 "operation_name" oN, esVals oN⟩]),
    ("update_metadata",
      [⟨.studies, .select, by1 "study_name" sn, []⟩,
       ⟨.studies, .update, by1 "study_name" sn, [("serialized_study", .other "_.SerializeToString()")]⟩,
       ⟨.trials, .select, by1 "trial_name" mdTrialName, []⟩,
       ⟨.trials, .update, by1 "trial_name" mdTrialName, [("serialized_trial", .other "_.SerializeToString()")]⟩]),
    ("update_study", [⟨.studies, .exist, by1 "study_name" sN, []⟩, ⟨.studies, .update, by1 "study_name" sN, studyVals sN⟩]),
    ("update_suggestion_operation",
      [⟨.sugOps, .exist, by1 "operation_name" oN, []⟩, ⟨.sugOps, .update, by1 "operation_name" oN, sugVals oN⟩]),
    ("update_trial", [⟨.trials, .exist, by1 "trial_name" tN, []⟩, ⟨.trials, .update, by1 "trial_name" tN, trialVals tN⟩]) ]

/-- the schema the Stores model assumes: the resource name is the primary key of every table -/
def assumedSchema : List (Table × List (String × Bool)) :=
  [ (.esOps, [("operation_name", true), ("owner_id", false), ("study_id", false), ("trial_id", false), ("serialized_op", false)]),
    (.owners, [("owner_name", true)]),
    (.studies, [("study_name", true), ("owner_id", false), ("study_id", false), ("serialized_study", false)]),
    (.sugOps, [("operation_name", true), ("owner_id", false), ("study_id", false), ("client_id", false),
               ("operation_number", false), ("serialized_op", false)]),
    (.trials, [("trial_name", true), ("owner_id", false), ("study_id", false), ("trial_id", false), ("serialized_trial", false)]) ]

/-! ## criteria -/

/-- what a method addresses -/
inductive Level where
  | owner | study | trial | sugOp | esOp
  deriving DecidableEq, Repr

/-- per method: the level of the resource it addresses and where its NAME comes from (a `str` parameter, or the
`name` of the proto given) -/
def addressing : List (String × Level × Source) :=
  [ ("create_study", .study, .field "study" "name"),
    ("load_study", .study, .arg "study_name"),
    ("update_study", .study, .field "study" "name"),
    ("delete_study", .study, .arg "study_name"),
    ("list_studies", .owner, .arg "owner_name"),
    ("create_trial", .trial, .field "trial" "name"),
    ("get_trial", .trial, .arg "trial_name"),
    ("update_trial", .trial, .field "trial" "name"),
    ("list_trials", .study, .arg "study_name"),
    ("delete_trial", .trial, .arg "trial_name"),
    ("max_trial_id", .study, .arg "study_name"),
    ("create_suggestion_operation", .sugOp, .field "operation" "name"),
    ("get_suggestion_operation", .sugOp, .arg "operation_name"),
    ("update_suggestion_operation", .sugOp, .field "operation" "name"),
    ("list_suggestion_operations", .study, .arg "study_name"),
    ("max_suggestion_operation_number", .study, .arg "study_name"),
    ("create_early_stopping_operation", .esOp, .field "operation" "name"),
    ("get_early_stopping_operation", .esOp, .arg "operation_name"),
    ("update_early_stopping_operation", .esOp, .field "operation" "name"),
    ("update_metadata", .study, .arg "study_name") ]

/-- the methods that address the operations of one CLIENT of a study -/
def perClientMethods : List String := ["list_suggestion_operations", "max_suggestion_operation_number"]

def isFilter (q : Query) : Bool := q.kind != .insert

/-- `col == src` is one of the conjuncts -/
def hasEq (q : Query) (col : String) (src : Source) : Bool :=
  q.conj.any fun c => c.col == col && c.rel == .eq && c.src == src

def hasOwnerStudy (q : Query) (o : Source) : Bool :=
  hasEq q "owner_id" (sr o "owner_id") && hasEq q "study_id" (sr o "study_id")

/-- a filtering query of a method that addresses the resource named `o` at level `lvl` can only match rows of that
resource: a study's own row by its full name; rows of a study's trials / operations by BOTH `owner_id` and
`study_id` of the parsed study name (or, trials, by the full name of a trial of that study); an owner's studies by
the parsed owner id; a trial / an operation by its full name.  Any other (level, table) combination is refused. -/
def rowKeyed (lvl : Level) (o : Source) (q : Query) : Bool :=
  match lvl, q.table with
  | .study, .studies => hasEq q "study_name" o
  | .study, .trials => hasOwnerStudy q o || hasEq q "trial_name" (sr o "trial_resource(_).name")
  | .study, .sugOps => hasOwnerStudy q o
  | .study, .esOps => hasOwnerStudy q o
  | .owner, .owners => hasEq q "owner_name" o
  | .owner, .studies => hasEq q "owner_id" (.parsed "OwnerResource" o "owner_id")
  | .trial, .trials => hasEq q "trial_name" o
  | .sugOp, .sugOps => hasEq q "operation_name" o
  | .esOp, .esOps => hasEq q "operation_name" o
  | _, _ => false

/-- every filtering query of every method at one of the levels `lvls` is keyed -/
def levelKeyed (lvls : List Level) (tbl : List (String × List Query)) : Bool :=
  tbl.all fun m =>
    match addressing.lookup m.1 with
    | none => true            -- refused by `methodsAddressed`
    | some (lvl, o) => !lvls.contains lvl || m.2.all fun q => !isFilter q || rowKeyed lvl o q

/-- **every conjunct of every select / exists / update / delete is an equality** (no `startswith`, `like`, `in_`,
`<`, `or_`, raw condition …) -/
def keyedByEquality (tbl : List (String × List Query)) : Bool :=
  tbl.all fun m => m.2.all fun q => !isFilter q || q.conj.all fun c => c.rel == .eq

/-- **per-study (and per-owner) methods** (`list_trials`, `max_trial_id`, `delete_study`, `update_metadata`,
`list_suggestion_operations`, `max_suggestion_operation_number`, `load_study`, `update_study`, `list_studies`) -/
def studyQueriesKeyed (tbl : List (String × List Query)) : Bool := levelKeyed [.study, .owner] tbl

/-- **per-trial methods** constrain `trial_name` by equality with the name given / the name of the proto given -/
def trialQueriesKeyed (tbl : List (String × List Query)) : Bool := levelKeyed [.trial] tbl

/-- **per-operation methods** constrain `operation_name`; the per-client listings constrain `client_id` too -/
def opQueriesKeyed (tbl : List (String × List Query)) : Bool :=
  levelKeyed [.sugOp, .esOp] tbl &&
  tbl.all fun m => !perClientMethods.contains m.1 ||
    m.2.all fun q => !(isFilter q && q.table == .sugOps) || hasEq q "client_id" (.arg "client_id")

/-- the key columns of a row and the value each must have when the method addresses the resource named `o` -/
def keyVals (lvl : Level) (t : Table) (o : Source) : Option (List (String × Source)) :=
  match lvl, t with
  | .study, .studies => some [("study_name", o), ("owner_id", sr o "owner_id"), ("study_id", sr o "study_id")]
  | .study, .owners => some [("owner_name", sr o "owner_resource.name")]
  | .trial, .trials =>
    some [("trial_name", o), ("owner_id", .parsed "TrialResource" o "owner_id"),
          ("study_id", .parsed "TrialResource" o "study_id"), ("trial_id", .parsed "TrialResource" o "trial_id")]
  | .sugOp, .sugOps =>
    some [("operation_name", o), ("owner_id", .parsed "SuggestionOperationResource" o "owner_id"),
          ("study_id", .parsed "SuggestionOperationResource" o "study_id"),
          ("client_id", .parsed "SuggestionOperationResource" o "client_id"),
          ("operation_number", .parsed "SuggestionOperationResource" o "operation_number")]
  | .esOp, .esOps =>
    some [("operation_name", o), ("owner_id", .parsed "EarlyStoppingOperationResource" o "owner_id"),
          ("study_id", .parsed "EarlyStoppingOperationResource" o "study_id"),
          ("trial_id", .parsed "EarlyStoppingOperationResource" o "trial_id")]
  | _, _ => none

/-- all columns that carry a key somewhere -/
def keyColumns : List String :=
  ["owner_name", "study_name", "trial_name", "operation_name", "owner_id", "study_id", "trial_id", "client_id",
   "operation_number"]

/-- **every insert fills ALL key columns of its table from the parsed name of the inserted proto**, and an update
writes a key column only with that same value (so the columns and the name of a row always agree); inserts into a
table the method's level does not own are refused -/
def insertsFillKeys (tbl : List (String × List Query)) : Bool :=
  tbl.all fun m =>
    match addressing.lookup m.1 with
    | none => true
    | some (lvl, o) => m.2.all fun q =>
      match q.kind with
      | .insert =>
        (match keyVals lvl q.table o with
         | some kv => kv.all fun e => q.vals.contains e
         | none => false)
      | .update =>
        let kv := (keyVals lvl q.table o).getD []
        q.vals.all fun e => !keyColumns.contains e.1 || kv.contains e
      | _ => q.vals.isEmpty

/-- every method of the table is classified in `addressing`, every classified method is in the table, and no query
is on an unknown table -/
def methodsAddressed (tbl : List (String × List Query)) : Bool :=
  (tbl.all fun m => (addressing.lookup m.1).isSome && m.2.all fun q => q.table matches .owners | .studies | .trials | .sugOps | .esOps) &&
  addressing.all fun a => tbl.any (·.1 == a.1)

/-- the primary key of every table is exactly its `*_name` column -/
def schemaKeyed (sch : List (Table × List (String × Bool))) : Bool :=
  let pk (t : Table) : List String := ((sch.lookup t).getD []).filterMap fun c => if c.2 then some c.1 else none
  pk .owners == ["owner_name"] && pk .studies == ["study_name"] && pk .trials == ["trial_name"] &&
  pk .sugOps == ["operation_name"] && pk .esOps == ["operation_name"] && sch.length == 5

/-! ## row semantics of a query on the tables of the `Sql` model -/

/-- what a column of a row (or a compared value) holds: a string component, a number, or a resource NAME - kept
structured, as `Model/Stores.lean` keeps keys (that names and keys determine each other is
`Model/Resources.lean`'s business) -/
inductive Val where
  | str (s : String)
  | num (n : Nat)
  | studyName (k : SKey)
  | trialName (k : SKey) (id : Nat)
  | opName (k : SKey) (client : String) (num : Nat)
  deriving DecidableEq, Repr

def studiesCol (row : SKey × Head) (col : String) : Option Val :=
  if col = "study_name" then some (.studyName row.1)
  else if col = "owner_id" then some (.str row.1.1)
  else if col = "study_id" then some (.str row.1.2)
  else none

def trialsCol (row : SKey × Trial) (col : String) : Option Val :=
  if col = "trial_name" then some (.trialName row.1 row.2.id)
  else if col = "owner_id" then some (.str row.1.1)
  else if col = "study_id" then some (.str row.1.2)
  else if col = "trial_id" then some (.num row.2.id)
  else none

def opsCol (row : SKey × SugOp) (col : String) : Option Val :=
  if col = "operation_name" then some (.opName row.1 row.2.client row.2.num)
  else if col = "owner_id" then some (.str row.1.1)
  else if col = "study_id" then some (.str row.1.2)
  else if col = "client_id" then some (.str row.2.client)
  else if col = "operation_number" then some (.num row.2.num)
  else none

/-- the values the sources of a call stand for -/
abbrev Env := Source → Option Val

/-- a conjunct holds of a row: it is an equality, the column exists, the value is known and they are equal
(anything else selects nothing: the criteria refuse it anyway) -/
def conjHolds (env : Env) (colOf : String → Option Val) (c : Conj) : Bool :=
  c.rel == .eq &&
  match colOf c.col, env c.src with
  | some a, some b => a == b
  | _, _ => false

/-- the row is selected by the query's `WHERE`: all conjuncts hold -/
def selects (env : Env) (colOf : String → Option Val) (q : Query) : Bool := q.conj.all (conjHolds env colOf)

/-- the environment of a call that addresses study `k` by the name source `o` -/
structure StudyEnv (env : Env) (o : Source) (k : SKey) : Prop where
  name : env o = some (.studyName k)
  owner : env (sr o "owner_id") = some (.str k.1)
  study : env (sr o "study_id") = some (.str k.2)
  trial : ∀ v, env (sr o "trial_resource(_).name") = some v → ∃ id, v = .trialName k id

/-- `list_trials` as its two queries `[exists-study, list]` run on the row model -/
def runListTrials (qs : List Query) (env : Env) (q : Sql) : Except DsErr (List Trial) :=
  match qs with
  | [e, l] =>
    if q.studies.any (fun row => selects env (studiesCol row) e) then
      .ok ((q.trials.filter fun row => selects env (trialsCol row) l).map (·.2))
    else .error .notFound
  | _ => .error .notFound

/-- `max_trial_id` likewise -/
def runMaxTrialId (qs : List Query) (env : Env) (q : Sql) : Except DsErr Nat :=
  match qs with
  | [e, l] =>
    if q.studies.any (fun row => selects env (studiesCol row) e) then
      .ok (((q.trials.filter fun row => selects env (trialsCol row) l).map (·.2)).foldl (fun m t => max m t.id) 0)
    else .error .notFound
  | _ => .error .notFound

/-! ## an arbitrary row filter in place of the key equality -/

/-- `Sql.listTrials` with the row filter as a parameter (`sel k row`: does the listing of study `k` pick `row`?) -/
def listTrialsBy (sel : SKey → SKey × Trial → Bool) (q : Sql) (k : SKey) : Except DsErr (List Trial) :=
  if q.hasStudy k then .ok ((q.trials.filter (sel k)).map (·.2)) else .error .notFound

def studyNameOf (k : SKey) : List Char := Res.studyName ⟨k.1.toList, k.2.toList⟩

def trialNameOf (k : SKey) (id : Nat) : List Char := Res.trialName ⟨k.1.toList, k.2.toList, id⟩

/-- `trial_name.startswith(study_name)` -/
def prefixSel (k : SKey) (row : SKey × Trial) : Bool := (studyNameOf k).isPrefixOf (trialNameOf row.1 row.2.id)

/-- the filter of `Sql.listTrials`: equality on the key -/
def eqSel (k : SKey) (row : SKey × Trial) : Bool := row.1 == k

end VizierModel.SqlKeys
