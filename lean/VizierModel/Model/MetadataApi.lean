/-
`pyvizier/shared/common.py` — the `Metadata` class (C10): a tree of namespaces, each a key → value
dictionary; every `Metadata` object is a VIEW (a current namespace) on one shared tree.
Model: the tree as an association list keyed by (absolute namespace, key); a view is a namespace.
Values are opaque strings.  Core Lean only.
-/
namespace VizierModel.MetadataApi

abbrev NSp := List String
abbrev Key := NSp × String

structure Tree where
  items : List (Key × String)        -- at most one entry per key
  deriving Repr, DecidableEq, Inhabited

def Tree.empty : Tree := ⟨[]⟩

def Tree.get (t : Tree) (ns : NSp) (k : String) : Option String :=
  (t.items.find? (·.1 == (ns, k))).map (·.2)

/-- `md.abs_ns(ns)[k] = v` / `md.ns(..)…[k] = v`: last writer wins, insertion position kept -/
def Tree.set (t : Tree) (ns : NSp) (k v : String) : Tree :=
  if t.items.any (·.1 == (ns, k)) then ⟨t.items.map fun e => if e.1 == (ns, k) then ((ns, k), v) else e⟩
  else ⟨t.items ++ [((ns, k), v)]⟩

/-- `del md.abs_ns(ns)[k]` (KeyError when absent: `none`) -/
def Tree.del (t : Tree) (ns : NSp) (k : String) : Option Tree :=
  if t.items.any (·.1 == (ns, k)) then some ⟨t.items.filter (·.1 != (ns, k))⟩ else none

/-- `md.abs_ns(ns).update(kvs)` -/
def Tree.update (t : Tree) (ns : NSp) (kvs : List (String × String)) : Tree :=
  kvs.foldl (fun t kv => t.set ns kv.1 kv.2) t

/-- keys of one namespace (a Python dict: compared as a set by the harness) -/
def Tree.keys (t : Tree) (ns : NSp) : List String := (t.items.filter (·.1.1 == ns)).map (·.1.2)

/-- `namespaces()`: namespaces holding at least one key -/
def Tree.namespaces (t : Tree) : List NSp := (t.items.map (·.1.1)).eraseDups

/-- `abs_ns(cur).subnamespaces()`: RELATIVE paths of the non-empty namespaces at or below `cur` -/
def Tree.subnamespaces (t : Tree) (cur : NSp) : List NSp :=
  (t.namespaces.filter (cur.isPrefixOf ·)).map (·.drop cur.length)

/-- `self.abs_ns(dst).attach(other.abs_ns(src))`: the subtree of `other` at or below `src` is copied
    below `dst`, item by item (existing items with the same key are overwritten, others stay) -/
def Tree.attach (t : Tree) (dst : NSp) (other : Tree) (src : NSp) : Tree :=
  (other.items.filter (src.isPrefixOf ·.1.1)).foldl
    (fun t e => t.set (dst ++ e.1.1.drop src.length) e.1.2 e.2) t

end VizierModel.MetadataApi
