/-
Model of the benchmark experimenters of `vizier/_src/benchmarks/experimenters/` (C20).
Core Lean only.

An experimenter is a term of `Ex α` (a *wrapper stack*): abstract base objectives
(`base p f`, `f : Params α → Outcome α` arbitrary — `NumpyExperimenter`,
`MultiObjectiveNumpyExperimenter`, SimpleKD, Branin, Hartmann, DH are instances) under the
wrappers transcribed from the code: shifting, sign flip, permuting, discretising, hyper-cube,
normalising, noisy, sparse, switch, (hashing / parameter-region) infeasible and the
multi-objective combination.

`evaluate` is the *operational* model of `Experimenter.evaluate(suggestions)`: it works on a
batch of trial records and mirrors the save-parameters / transform / delegate / restore
statements of each wrapper (Python mutates the trials in place; the model returns the new
records).  The only mutable state of an experimenter object is the call counter of a noise
wrapper's RNG; it is threaded explicitly as a tree `St` that mirrors the wrapper stack.
`step` / `outcome` are the per-point reading (`eval : Params → Outcome` of DESIGN.md).

The carrier `α` of numeric values is abstract; arithmetic goes through a record `Ops α`
(instances: `Float` in the driver, any ordered field in `Props/C20.lean`).
-/
namespace VizierModel.Exp

/-- numeric operations used by the wrappers -/
structure Ops (α : Type) where
  zero : α
  one : α
  add : α → α → α
  sub : α → α → α
  neg : α → α
  div : α → α → α
  le : α → α → Bool
  beq : α → α → Bool
  ofNat : Nat → α

inductive Goal where
  | maximize | minimize
  deriving DecidableEq, Repr, Inhabited

/-- `SignFlipExperimenter.problem_statement`: MAXIMIZE ↔ MINIMIZE -/
def Goal.flip : Goal → Goal
  | .maximize => .minimize
  | .minimize => .maximize

/-- a `ParameterValue`: numeric (float / int) or string -/
inductive PVal (α : Type) where
  | num (x : α)
  | str (s : String)
  deriving Repr, Inhabited

def PVal.beq (ops : Ops α) : PVal α → PVal α → Bool
  | .num a, .num b => ops.beq a b
  | .str a, .str b => a == b
  | _, _ => false

/-- a `ParameterDict` (insertion ordered) -/
abbrev Params (α : Type) := List (String × PVal α)

/-- the final measurement's metric dict (insertion ordered) -/
abbrev Metrics (α : Type) := List (String × α)

def lookupS {β : Type} (k : String) : List (String × β) → Option β
  | [] => none
  | (k', v) :: rest => if k' = k then some v else lookupS k rest

def names {β : Type} (l : List (String × β)) : List String := l.map (·.1)

/-- `d[k] = v` on an insertion-ordered dict -/
def Metrics.insert (ms : Metrics α) (k : String) (v : α) : Metrics α :=
  if (names ms).contains k then ms.map (fun e => if e.1 = k then (k, v) else e)
  else ms ++ [(k, v)]

/-- domain of a `ParameterConfig` -/
inductive Dom (α : Type) where
  | double (lo hi : α)
  | integer (lo hi : α)
  | discrete (vals : List α)
  | categorical (cats : List String)
  deriving Repr, Inhabited

/-- a parameter config; `conds` is the chain of (parent name, matching value) of a
conditional parameter (only `SwitchExperimenter` creates those) -/
structure PSpec (α : Type) where
  name : String
  dom : Dom α
  conds : List (String × Nat) := []
  deriving Repr, Inhabited

structure Problem (α : Type) where
  params : List (PSpec α)
  metrics : List (String × Goal)
  deriving Repr, Inhabited

def Problem.metricNames (p : Problem α) : List String := names p.metrics

/-- what a base objective answers at a point: a measurement, or a measurement together with an
infeasibility reason (`NumpyExperimenter` on a non-finite value: empty measurement) -/
inductive Outcome (α : Type) where
  | metrics (ms : Metrics α)
  | infeasible (ms : Metrics α)
  deriving Repr, Inhabited

/-- the part of a `vz.Trial` the experimenters read or write -/
structure Trial (α : Type) where
  params : Params α
  final : Option (Metrics α) := none
  infeasible : Bool := false
  deriving Repr, Inhabited

/-- `Trial.complete(measurement, infeasibility_reason=…)`: an infeasible trial stays infeasible -/
def Trial.complete (t : Trial α) (ms : Metrics α) (inf : Bool) : Trial α :=
  { t with final := some ms, infeasible := t.infeasible || inf }

def Trial.completeWith (t : Trial α) : Outcome α → Trial α
  | .metrics ms => t.complete ms false
  | .infeasible ms => t.complete ms true

def Trial.fresh (x : Params α) : Trial α := { params := x }

/-- RNG state of the noise wrappers of a stack: one call counter per `noisy` node, arranged like
the stack (unary wrappers without state share their child's node) -/
inductive St where
  | node (n : Nat) (kids : List St)
  deriving Inhabited

def St.n : St → Nat
  | .node n _ => n

def St.kids : St → List St
  | .node _ ks => ks

def St.zero : St := .node 0 []

def St.kid (s : St) : St := s.kids.headD St.zero

/-! ### generic list helpers -/

/-- `for b, c in zip(bs, cs): b := f b c` — entries of `bs` beyond `cs` stay as they are -/
def zipUpd {β γ : Type} (f : β → γ → β) : List β → List γ → List β
  | b :: bs, c :: cs => f b c :: zipUpd f bs cs
  | bs, _ => bs

/-- a `for` loop over the trials that threads a state -/
def mapSt {σ β : Type} (f : σ → β → β × σ) : σ → List β → List β × σ
  | s, [] => ([], s)
  | s, t :: ts =>
    let r := f s t
    let rs := mapSt f r.2 ts
    (r.1 :: rs.1, rs.2)

/-- `for p, t in zip(previous_parameters, suggestions): t.parameters = p` -/
def restore (prev : List (Params α)) (ts : List (Trial α)) : List (Trial α) :=
  zipUpd (fun t p => { t with params := p }) ts prev

def setParams (g : Params α → Params α) (ts : List (Trial α)) : List (Trial α) :=
  ts.map (fun t => { t with params := g t.params })

/-! ### the parameter transformations of the wrappers -/

def asNum (ops : Ops α) : Option (PVal α) → α
  | some (.num x) => x
  | _ => ops.zero

/-- `np.clip(v, lo, hi)` -/
def clip (ops : Ops α) (lo hi v : α) : α :=
  if ops.le v lo then lo else if ops.le hi v then hi else v

def clipDom (ops : Ops α) : Dom α → α → α
  | .double lo hi, v => clip ops lo hi v
  | _, v => v

/-- unscaled `TrialToArrayConverter.to_features` of a flat numeric space -/
def features (ops : Ops α) (bp : List (PSpec α)) (x : Params α) : List α :=
  bp.map (fun spec => asNum ops (lookupS spec.name x))

/-- `ShiftingExperimenter._offset`: features of the *base* space minus the shift, back to
parameters (clipped into the base bounds iff `should_restrict`) -/
def offset (ops : Ops α) (bp : List (PSpec α)) (s : List α) (restrict : Bool) (x : Params α) :
    Params α :=
  List.zipWith (fun spec si =>
    let v := ops.sub (asNum ops (lookupS spec.name x)) si
    (spec.name, PVal.num (if restrict then clipDom ops spec.dom v else v))) bp s

/-- the restricted bounds: `(lo + s, hi)` for `s ≥ 0`, `(lo, hi + s)` otherwise -/
def restrictDom (ops : Ops α) (s : α) : Dom α → Dom α
  | .double lo hi => if ops.le ops.zero s then .double (ops.add lo s) hi else .double lo (ops.add hi s)
  | d => d

def restrictParams (ops : Ops α) (bp : List (PSpec α)) (s : List α) : List (PSpec α) :=
  List.zipWith (fun spec si => { spec with dom := restrictDom ops si spec.dom }) bp s

def lookupV {β : Type} (ops : Ops α) (v : PVal α) : List (PVal α × β) → Option β
  | [] => none
  | (k, w) :: rest => if PVal.beq ops k v then some w else lookupV ops v rest

/-- `PermutingExperimenter._permute` -/
def permuteParams (ops : Ops α) (perm : List (String × List (PVal α × PVal α))) (x : Params α) :
    Params α :=
  x.map (fun kv => match lookupS kv.1 perm with
    | some d => (kv.1, (lookupV ops kv.2 d).getD kv.2)
    | none => kv)

/-- `ParameterValue.as_float` (`parse` = Python's `float(str)`) -/
def asFloat (parse : String → α) : PVal α → α
  | .num x => x
  | .str s => parse s

/-- `DiscretizingExperimenter.evaluate`: discretised parameters become floats -/
def undiscretize (disc : List (String × List (PVal α))) (parse : String → α) (x : Params α) :
    Params α :=
  x.map (fun kv => if (names disc).contains kv.1 then (kv.1, PVal.num (asFloat parse kv.2)) else kv)

def domOfValues (parse : String → α) (vals : List (PVal α)) : Dom α :=
  match vals with
  | .str _ :: _ => .categorical (vals.map (fun v => match v with | .str s => s | .num _ => ""))
  | _ => .discrete (vals.map (asFloat parse))

def hname (i : Nat) : String := "h" ++ toString i

/-- the unit-cube features of a hyper-cube trial (`_eval_converter.to_features`) -/
def hfeatures (ops : Ops α) (dim : Nat) (x : Params α) : List α :=
  (List.range dim).map (fun i => asNum ops (lookupS (hname i) x))

/-- `SparseExperimenter.evaluate`: drop the placeholder parameters -/
def dropSparse (pre : String) (x : Params α) : Params α :=
  x.filter (fun kv => !(pre.isPrefixOf kv.1))

/-! ### the metric transformations of the wrappers -/

/-- `SignFlipExperimenter.evaluate` on one metric dict; `orig` = metric names of the wrapped
problem -/
def flipMetrics (ops : Ops α) (objOnly : Bool) (orig : List String) (ms : Metrics α) : Metrics α :=
  ms.map (fun e => if !objOnly || orig.contains e.1 then (e.1, ops.neg e.2) else e)

def onFinal (g : Metrics α → Metrics α) (t : Trial α) : Trial α :=
  match t.final with
  | none => t
  | some ms => { t with final := some (g ms) }

/-- `(y - mean) / std` -/
def normVal (ops : Ops α) (mu sigma y : α) : α := ops.div (ops.sub y mu) sigma

def normMetrics (ops : Ops α) (mu sigma : List (String × α)) (ms : Metrics α) : Metrics α :=
  ms.map (fun e => (e.1, normVal ops ((lookupS e.1 mu).getD ops.zero) ((lookupS e.1 sigma).getD ops.one) e.2))

/-- `NoisyExperimenter.evaluate` on one metric dict, `k` = number of noise draws so far: every
metric is replaced by its noisy value (draw `k`, `k+1`, …) and kept as `name_before_noise` -/
def noiseMetrics (noise : Nat → α → α) : Nat → Metrics α → Metrics α → Metrics α × Nat
  | k, [], acc => (acc, k)
  | k, (n, v) :: rest, acc =>
    noiseMetrics noise (k + 1) rest ((acc.insert n (noise k v)).insert (n ++ "_before_noise") v)

def noiseTrial (noise : Nat → α → α) (k : Nat) (t : Trial α) : Trial α × Nat :=
  match t.final with
  | none => (t, k)
  | some ms =>
    let r := noiseMetrics noise k ms []
    ({ t with final := some r.1 }, r.2)

/-- keys of a dict after `d[k] = …` -/
def insName (l : List String) (k : String) : List String := if l.contains k then l else l ++ [k]

def noisyNames : List String → List String → List String
  | [], acc => acc
  | n :: rest, acc => noisyNames rest (insName (insName acc n) (n ++ "_before_noise"))

/-! ### the wrapper stack -/

mutual
inductive Ex (α : Type) where
  /-- any experimenter that completes each trial with `f` of its parameters -/
  | base (p : Problem α) (f : Params α → Outcome α)
  | shift (s : List α) (restrict : Bool) (e : Ex α)
  | signFlip (objOnly : Bool) (e : Ex α)
  | permute (perm : List (String × List (PVal α × PVal α))) (e : Ex α)
  | discretize (disc : List (String × List (PVal α))) (parse : String → α) (e : Ex α)
  /-- `keepInf = false` is the code as written at the pinned commit (only the final measurement
  is copied back); `true` also carries the infeasibility over -/
  | hypercube (keepInf : Bool) (dim : Nat) (dec : List α → Params α) (e : Ex α)
  | normalize (mu sigma : List (String × α)) (e : Ex α)
  | noisy (noise : Nat → α → α) (e : Ex α)
  | sparse (pre : String) (extra : List (PSpec α)) (e : Ex α)
  | switch (sw metric : String) (toIdx : Option (PVal α) → Nat) (keepInf : Bool) (kids : ExList α)
  /-- `HashingInfeasibleExperimenter` / `ParamRegionInfeasibleExperimenter`; `junk` = NaN -/
  | infeasibleIf (isInf : Params α → Bool) (junk : α) (e : Ex α)
  | multi (keepInf : Bool) (kids : ExList α)
inductive ExList (α : Type) where
  | nil
  | cons (name : String) (e : Ex α) (rest : ExList α)
end

def ExList.length : ExList α → Nat
  | .nil => 0
  | .cons _ _ r => r.length + 1

def condParams (sw : String) (i : Nat) (ps : List (PSpec α)) : List (PSpec α) :=
  ps.map (fun p => { p with conds := (sw, i) :: p.conds })

mutual
/-- `problem_statement()` -/
def problem (ops : Ops α) : Ex α → Problem α
  | .base p _ => p
  | .shift s restrict e =>
    let p := problem ops e
    if restrict then { p with params := restrictParams ops p.params s } else p
  | .signFlip _ e =>
    let p := problem ops e
    { p with metrics := p.metrics.map (fun m => (m.1, m.2.flip)) }
  | .permute _ e => problem ops e
  | .discretize disc parse e =>
    let p := problem ops e
    { p with params := p.params.map (fun spec => match lookupS spec.name disc with
        | some vals => { spec with dom := domOfValues parse vals }
        | none => spec) }
  | .hypercube _ dim _ e =>
    { params := (List.range dim).map (fun i => { name := hname i, dom := .double ops.zero ops.one }),
      metrics := (problem ops e).metrics }
  | .normalize _ _ e => problem ops e
  | .noisy _ e => problem ops e
  | .sparse pre extra e =>
    let p := problem ops e
    { p with params := p.params ++ extra.map (fun spec => { spec with name := pre ++ "_" ++ spec.name }) }
  | .switch sw metric _ _ kids =>
    { params := { name := sw, dom := .discrete ((List.range kids.length).map ops.ofNat) }
        :: switchParams ops sw 0 kids,
      metrics := [(metric, .maximize)] }
  | .infeasibleIf _ _ e => problem ops e
  | .multi _ kids => { params := firstParams ops kids, metrics := multiMetrics ops kids }
def switchParams (ops : Ops α) (sw : String) : Nat → ExList α → List (PSpec α)
  | _, .nil => []
  | i, .cons _ e rest => condParams sw i (problem ops e).params ++ switchParams ops sw (i + 1) rest
def firstParams (ops : Ops α) : ExList α → List (PSpec α)
  | .nil => []
  | .cons _ e _ => (problem ops e).params
def multiMetrics (ops : Ops α) : ExList α → List (String × Goal)
  | .nil => []
  | .cons name e rest =>
    (name, ((problem ops e).metrics.head?.map (·.2)).getD .minimize) :: multiMetrics ops rest
end

/-- `metric_information.item().name` -/
def objName (ops : Ops α) (e : Ex α) : String :=
  (((problem ops e).metrics.head?).map (·.1)).getD ""

/-- the value the switch hands on: `final_measurement.metrics[objective_name]` of the copy -/
def switchComplete (metric : String) (keepInf : Bool) (t : Trial α) (obj : String) (c : Trial α) :
    Trial α :=
  match c.final with
  | none => t                                   -- `continue`
  | some ms =>
    match lookupS obj ms with
    | some v => t.complete [(metric, v)] (keepInf && c.infeasible)
    | none => t.complete [] (keepInf && c.infeasible)

/-- `measurement.metrics[name] = copied.final_measurement.metrics[exptr_metric_name]` -/
def multiCollect (name obj : String) (m : Metrics α) (c : Trial α) : Metrics α :=
  match c.final with
  | none => m
  | some fm => match lookupS obj fm with
    | some v => m.insert name v
    | none => m

mutual
/-- `Experimenter.evaluate(suggestions)` -/
def evaluate (ops : Ops α) : Ex α → St → List (Trial α) → List (Trial α) × St
  | .base _ f, st, ts => (ts.map (fun t => t.completeWith (f t.params)), st)
  | .shift s restrict e, st, ts =>
    let prev := ts.map (·.params)
    let r := evaluate ops e st (setParams (offset ops (problem ops e).params s restrict) ts)
    (restore prev r.1, r.2)
  | .signFlip objOnly e, st, ts =>
    let r := evaluate ops e st ts
    (r.1.map (onFinal (flipMetrics ops objOnly (problem ops e).metricNames)), r.2)
  | .permute perm e, st, ts =>
    let prev := ts.map (·.params)
    let r := evaluate ops e st (setParams (permuteParams ops perm) ts)
    (restore prev r.1, r.2)
  | .discretize disc parse e, st, ts =>
    let prev := ts.map (·.params)
    let r := evaluate ops e st (setParams (undiscretize disc parse) ts)
    (restore prev r.1, r.2)
  | .hypercube keepInf dim dec e, st, ts =>
    let r := evaluate ops e st (setParams (fun x => dec (hfeatures ops dim x)) ts)
    (zipUpd (fun t o => { t with final := o.final,
                                 infeasible := t.infeasible || (keepInf && o.infeasible) }) ts r.1, r.2)
  | .normalize mu sigma e, st, ts =>
    let r := evaluate ops e st ts
    (r.1.map (onFinal (normMetrics ops mu sigma)), r.2)
  | .noisy noise e, st, ts =>
    let r := evaluate ops e st.kid ts
    let r2 := mapSt (fun k t => noiseTrial noise k t) st.n r.1
    (r2.1, .node r2.2 [r.2])
  | .sparse pre _ e, st, ts =>
    let prev := ts.map (·.params)
    let r := evaluate ops e st (setParams (dropSparse pre) ts)
    (restore prev r.1, r.2)
  | .switch sw metric toIdx keepInf kids, st, ts =>
    let r := mapSt (fun sts t =>
      let c := evalAt ops kids (toIdx (lookupS sw t.params)) sts t
      (match c.1 with
        | some (obj, cp) => switchComplete metric keepInf t obj cp
        | none => t, c.2)) st.kids ts
    (r.1, .node st.n r.2)
  | .infeasibleIf isInf junk e, st, ts =>
    mapSt (fun st t =>
      if isInf t.params then
        (t.complete ((problem ops e).metricNames.map (fun n => (n, junk))) true, st)
      else
        let r := evaluate ops e st [t]
        (r.1.headD t, r.2)) st ts
  | .multi keepInf kids, st, ts =>
    let r := evalAll ops kids st.kids ts (ts.map (fun _ => []))
    (zipUpd (fun t cm => t.complete cm.2 (keepInf && cm.1.infeasible)) ts (r.1.zip r.2.1),
      .node st.n r.2.2)
/-- `self.experimenters[i].evaluate([copy.deepcopy(trial)])`: the objective name of child `i` and
the evaluated copy (`none`: index out of range) -/
def evalAt (ops : Ops α) : ExList α → Nat → List St → Trial α → Option (String × Trial α) × List St
  | .nil, _, sts, _ => (none, sts)
  | .cons _ e _, 0, sts, t =>
    let r := evaluate ops e (sts.headD St.zero) [t]
    (some (objName ops e, r.1.headD t), r.2 :: sts.tail)
  | .cons _ _ rest, i + 1, sts, t =>
    let r := evalAt ops rest i sts.tail t
    (r.1, sts.headD St.zero :: r.2)
/-- the loop of `MultiObjectiveExperimenter.evaluate`: every child evaluates the same copies, its
objective is collected under the child's key; returns (copies, measurements, states) -/
def evalAll (ops : Ops α) : ExList α → List St → List (Trial α) → List (Metrics α) →
    List (Trial α) × List (Metrics α) × List St
  | .nil, _, cs, ms => (cs, ms, [])
  | .cons name e rest, sts, cs, ms =>
    let r := evaluate ops e (sts.headD St.zero) cs
    let ms' := zipUpd (multiCollect name (objName ops e)) ms r.1
    let r2 := evalAll ops rest sts.tail r.1 ms'
    (r2.1, r2.2.1, r.2 :: r2.2.2)
end

/-- one suggestion, evaluated alone -/
def step (ops : Ops α) (e : Ex α) (st : St) (t : Trial α) : Trial α × St :=
  let r := evaluate ops e st [t]
  (r.1.headD t, r.2)

/-- `eval : Params → Outcome` of DESIGN.md: what a fresh trial with parameters `x` ends with -/
def outcome (ops : Ops α) (e : Ex α) (st : St) (x : Params α) : Option (Metrics α) × Bool :=
  let t := (step ops e st (Trial.fresh x)).1
  (t.final, t.infeasible)

/-! ### which base points a suggestion reaches (used by the tie) -/

/-- a query of an abstract function of the stack: `(path to the node, is it a base objective
(true) or an infeasibility predicate (false), the parameters handed to it)` -/
abbrev Query (α : Type) := List Nat × Bool × Params α

def down (qs : List (Query α)) : List (Query α) := qs.map (fun q => (0 :: q.1, q.2))

mutual
def queries (ops : Ops α) : Ex α → Params α → List (Query α)
  | .base _ _, x => [([], true, x)]
  | .shift s restrict e, x => down (queries ops e (offset ops (problem ops e).params s restrict x))
  | .signFlip _ e, x => down (queries ops e x)
  | .permute perm e, x => down (queries ops e (permuteParams ops perm x))
  | .discretize disc parse e, x => down (queries ops e (undiscretize disc parse x))
  | .hypercube _ dim dec e, x => down (queries ops e (dec (hfeatures ops dim x)))
  | .normalize _ _ e, x => down (queries ops e x)
  | .noisy _ e, x => down (queries ops e x)
  | .sparse pre _ e, x => down (queries ops e (dropSparse pre x))
  | .switch sw _ toIdx _ kids, x => queriesAt ops kids (toIdx (lookupS sw x)) 0 x
  | .infeasibleIf isInf _ e, x =>
    ([], false, x) :: (if isInf x then [] else down (queries ops e x))
  | .multi _ kids, x => queriesAll ops kids 0 x
def queriesAt (ops : Ops α) : ExList α → Nat → Nat → Params α → List (Query α)
  | .nil, _, _, _ => []
  | .cons _ e _, 0, pos, x => (queries ops e x).map (fun q => (pos :: q.1, q.2))
  | .cons _ _ rest, i + 1, pos, x => queriesAt ops rest i (pos + 1) x
def queriesAll (ops : Ops α) : ExList α → Nat → Params α → List (Query α)
  | .nil, _, _ => []
  | .cons _ e rest, pos, x =>
    (queries ops e x).map (fun q => (pos :: q.1, q.2)) ++ queriesAll ops rest (pos + 1) x
end

/-! ### derived base experimenters -/

/-- `NumpyExperimenter`: `impl` on the unscaled features; `none` = a non-finite value -/
def numpy (ops : Ops α) (p : Problem α) (impl : List α → Option α) : Ex α :=
  .base p (fun x => match impl (features ops p.params x) with
    | some v => .metrics [((p.metricNames.headD ""), v)]
    | none => .infeasible [])

/-- `MultiObjectiveNumpyExperimenter`: `zip(metric_information, impl(features))` -/
def multiNumpy (ops : Ops α) (p : Problem α) (impl : List α → List α) : Ex α :=
  .base p (fun x => .metrics (List.zip p.metricNames (impl (features ops p.params x))))

/-! ### metric names a completed feasible trial carries -/

def kidNames : ExList α → List String
  | .nil => []
  | .cons name _ rest => name :: kidNames rest

def outNames (ops : Ops α) : Ex α → List String
  | .base p _ => p.metricNames
  | .shift _ _ e => outNames ops e
  | .signFlip _ e => outNames ops e
  | .permute _ e => outNames ops e
  | .discretize _ _ e => outNames ops e
  | .hypercube _ _ _ e => outNames ops e
  | .normalize _ _ e => outNames ops e
  | .noisy _ e => noisyNames (outNames ops e) []
  | .sparse _ _ e => outNames ops e
  | .switch _ metric _ _ _ => [metric]
  | .infeasibleIf _ _ e => outNames ops e
  | .multi _ kids => kidNames kids

end VizierModel.Exp
