/-
The client layer — `vizier_client.VizierClient` (one RPC wrapper per method) and on top of it
`clients.Study` / `clients.Trial` (`vizier/_src/service/clients.py`), the documented user API of
`vizier/client/client_abc.py` — as small total functions over the service model M1
(`Model/Service.lean`).  Core Lean only.

A client call is mapped to
* the list of M1 requests it issues (`Out.reqs`, in order — at most one of them changes stored data,
  the others are `GetStudy` / `GetOperation` reads),
* the state after them (`Out.db`, computed with M1's `step`), and
* what the calling program observes (`Out.obs`): a value built from the responses, or the class of
  the exception that escapes the client method.

In-process deployment (`NO_ENDPOINT`): an error that went through `grpc_util.handle_exception` is a
`LocalRpcError` with its status code, anything else is the Python exception itself (`raised`).
The remote transports are `Model/Deploy.lean`'s subject (C08); `raised_classOf` in
`Lemmas/Client.lean` shows the two descriptions agree.

As everywhere in M1 the algorithm is not modelled: `suggest` / `checkEarlyStopping` carry the outcome
the algorithm would produce if it were consulted, so a statement over all client histories is a
statement over all algorithm behaviours.
-/
import VizierModel.Model.Service

namespace VizierModel.Client
open VizierModel VizierModel.Svc

/-- a `VizierClient`: the study resource name and the client's OWN id.  `clients.Study` handles made
    by `from_study_config` / `from_resource_name` carry `constants.UNUSED_CLIENT_ID`: workers name
    themselves in each `suggest` call. -/
structure Handle where
  owner : String
  sid : String
  cid : String
  deriving DecidableEq, Repr, Inhabited

/-- `vz.StudyState` -/
inductive CState where
  | active | aborted | completed
  deriving DecidableEq, Repr, Inhabited

/-- `StudyStateConverter.to_proto` -/
def CState.toProto : CState → SState
  | .active => .active | .aborted => .inactive | .completed => .completed

/-- `StudyStateConverter.from_proto` ("OSS Vizier server treats STATE_UNSPECIFIED as ACTIVE") -/
def CState.ofProto : SState → CState
  | .unspecified | .active => .active | .inactive => .aborted | .completed => .completed

/-- what escapes a servicer method called in-process -/
inductive Exc where
  | rpcError (c : Code)      -- `LocalRpcError` (a `grpc.RpcError`) carrying a status code
  | keyError                 -- `custom_errors.NotFoundError` (a `KeyError`) raised by the datastore
  | alreadyExists            -- `custom_errors.AlreadyExistsError`
  | runtimeError             -- `RuntimeError` (the in-process algorithm's failure)
  | other                    -- any other Python exception
  deriving DecidableEq, Repr, Inhabited

/-- the exception a response stands for (`none` = the method returned) -/
def raised : Resp → Option Exc
  | .err c .handled => some (.rpcError c)
  | .err .notFound .raw => some .keyError
  | .err .alreadyExists .raw => some .alreadyExists
  | .err .runtimeError .raw => some .runtimeError
  | .err _ .raw => some .other
  | _ => none

/-- error classes a client program can tell apart -/
inductive CErr where
  | resourceNotFound          -- `client_abc.ResourceNotFoundError` (promised by the interface)
  | runtimeError              -- `RuntimeError`
  | valueError                -- `ValueError` (`InvalidParameterError`: a trial outside the search space)
  | failedPrecondition | notFound | alreadyExists | other
  deriving DecidableEq, Repr, Inhabited

/-- an exception passing through a client method untouched, by class -/
def Exc.cls : Exc → CErr
  | .rpcError .failedPrecondition => .failedPrecondition
  | .rpcError .notFound => .notFound
  | .rpcError .alreadyExists => .alreadyExists
  | .rpcError _ => .other
  | .keyError => .notFound
  | .alreadyExists => .alreadyExists
  | .runtimeError => .runtimeError
  | .other => .other

/-- what the calling program sees -/
inductive Obs where
  | unit
  | study (owner sid : String)        -- a `clients.Study` handle (its resource name)
  | handles (ids : List Nat)          -- `clients.Trial` handles returned by `suggest`
  | handle (id : Nat)                 -- one `clients.Trial` handle
  | trial (t : Trial)                 -- a materialized `vz.Trial`
  | trials (l : List Trial)
  | measurement (m : Option Meas)     -- `Trial.complete`: the final measurement of the answered trial
  | flag (b : Bool)
  | state (s : CState)
  | exc (e : CErr)
  | pollExhausted                     -- the fuel ran out inside `get_suggestions`' polling loop: still polling
  deriving Repr, Inhabited

inductive Call where
  /-- `Study.from_study_config(config, owner, study_id)` → `create_or_load_study` -/
  | fromStudyConfig (spec : Nat) (md : MD)
  /-- `Study.from_resource_name('owners/<owner>/studies/<sid>')` (a fresh handle is made and dropped) -/
  | fromResourceName (sid : String)
  /-- `Study.suggest(count=, client_id=worker)` -/
  | suggest (count : Nat) (worker : String) (alg : AlgOutcome)
  /-- `VizierClient.get_suggestions(count)` without override: the handle's own id asks -/
  | getSuggestions (count : Nat) (alg : AlgOutcome)
  /-- `Study.request(TrialSuggestion)` -/
  | request (params : Nat) (md : MD)
  /-- `Study.add_trial(trial)`; `final` given = a completed trial; `inSpace` = the parameters lie in the
      study's search space -/
  | addTrial (params : Nat) (final : Option Meas) (inSpace : Bool)
  /-- `Study.get_trial(id)` (existence check, returns a handle) -/
  | getTrial (id : Nat)
  /-- `Trial.materialize()` -/
  | materialize (id : Nat)
  /-- `Study.trials().get()` -/
  | trials
  /-- `Trial.complete(measurement, infeasible_reason=)` -/
  | complete (id : Nat) (m : Option Meas) (reason : Option String)
  /-- `Trial.add_measurement` -/
  | addMeasurement (id : Nat) (m : Meas)
  /-- `Trial.check_early_stopping()` -/
  | checkEarlyStopping (id : Nat) (es : EsOutcome)
  /-- `Trial.stop()` -/
  | stop (id : Nat)
  /-- `Trial.delete()` -/
  | deleteTrial (id : Nat)
  /-- `Study.update_metadata` (`target = none`) / `Trial.update_metadata` -/
  | updateMetadata (target : Option Nat) (kvs : List (K × String))
  /-- `Study.set_state` -/
  | setState (s : CState)
  /-- `Study.materialize_state` -/
  | materializeState
  /-- `Study.delete` -/
  | deleteStudy
  /-- `Study.optimal_trials()` (which trials: C11's subject; here the call and its error class) -/
  | optimalTrials
  deriving Inhabited

structure Out where
  obs : Obs
  reqs : List Req
  db : DB
  deriving Inhabited

/-- a client method that is one RPC: the observation is a function of the response -/
def rpc1 (cfg : Cfg) (db : DB) (r : Req) (k : Resp → Obs) : Out :=
  let x := step cfg db r
  { obs := k x.1, reqs := [r], db := x.2 }

/-- exceptions pass through; `k` reads a returned message -/
def passing (k : Resp → Obs) (r : Resp) : Obs :=
  match raised r with
  | some e => .exc e.cls
  | none => k r

/-! ### `VizierClient.get_suggestions` -/

inductive PollResult where
  | done (o : SugOp) (handed : List Trial)
  | raised (e : Exc)
  | exhausted
  deriving Repr, Inhabited

/-- `while not operation.done: sleep; operation = GetOperation(name=operation.name)`.
    Returns the result, the requests issued and the state (GetOperation never writes, but the state
    is threaded through M1's `step` all the same). -/
def poll (cfg : Cfg) (h : Handle) : (fuel : Nat) → SugOp → List Trial → DB → PollResult × List Req × DB
  | 0, o, handed, db => (if o.done then .done o handed else .exhausted, [], db)
  | fuel + 1, o, handed, db =>
    if o.done then (.done o handed, [], db)
    else
      let rq := Req.getOperation h.owner h.sid o.client o.num
      let x := step cfg db rq
      match x.1 with
      | .op _ o' handed' =>
        let y := poll cfg h fuel o' handed' x.2
        (y.1, rq :: y.2.1, y.2.2)
      | r => (.raised ((raised r).getD .other), [rq], x.2)

/-- `if client_id_override is not None: client_id = client_id_override else: client_id = self._client_id` -/
def askingId (h : Handle) : Option String → String
  | some w => w
  | none => h.cid

/-- after the loop: `if operation.HasField('error'): raise RuntimeError`, else the trials of the response -/
def obsOfDone (o : SugOp) (handed : List Trial) : Obs :=
  match o.result with
  | .error => .exc .runtimeError
  | _ => .handles (handed.map (·.id))

/-- `get_suggestions` once the asking `client_id` is settled -/
def getSuggestionsAs (cfg : Cfg) (fuel : Nat) (h : Handle) (count : Nat) (client : String)
    (alg : AlgOutcome) (db : DB) : Out :=
  let rq := Req.suggest h.owner h.sid client count alg
  let x := step cfg db rq
  match x.1 with
  | .op _ o handed =>
    let y := poll cfg h fuel o handed x.2
    let obs := match y.1 with
      | .done o' handed' => obsOfDone o' handed'
      | .raised e => Obs.exc e.cls
      | .exhausted => Obs.pollExhausted
    { obs := obs, reqs := rq :: y.2.1, db := y.2.2 }
  | r =>
    -- `except grpc.RpcError: if code == FAILED_PRECONDITION: return []; raise`
    let obs := match raised r with
      | some (.rpcError .failedPrecondition) => Obs.handles []
      | some e => Obs.exc e.cls
      | none => Obs.exc .other
    { obs := obs, reqs := [rq], db := x.2 }

/-- `get_suggestions(count, client_id_override=override)` -/
def getSuggestions (cfg : Cfg) (fuel : Nat) (h : Handle) (count : Nat) (override : Option String)
    (alg : AlgOutcome) (db : DB) : Out :=
  getSuggestionsAs cfg fuel h count (askingId h override) alg db

/-! ### the other `VizierClient` methods and the `clients.Study` / `clients.Trial` wrappers -/

/-- the trial `VizierClient.add_trial` sends: `TrialConverter.to_proto` of a `vz.Trial` -/
def protoTrial (params : Nat) (state : TState) (final : Option Meas) (md : MD) : Trial :=
  { id := 0, state := state, client := "", params := params, meas := [], final := final, reason := "", md := md }

/-- the status `TrialConverter.to_proto` gives a `vz.Trial` that was completed with a measurement / not at all -/
def addedState : Option Meas → TState
  | some _ => .succeeded
  | none => .active

/-- `CompleteTrialRequest(name, trial_infeasible = infeasibility_reason is not None,
    infeasible_reason = infeasibility_reason)` (+ `final_measurement` when one is given) -/
def completeReq (h : Handle) (id : Nat) (m : Option Meas) (reason : Option String) : Req :=
  .complete h.owner h.sid id m reason.isSome (reason.getD "")

/-- `metadata_util.to_request_proto` of a delta on the study / on one trial -/
def metadataReq (h : Handle) (target : Option Nat) (kvs : List (K × String)) : Req :=
  .updateMetadata h.owner h.sid
    (kvs.map fun kv => { tgt := (match target with | none => .study | some id => .trial id), k := kv.1, v := kv.2 })

def clientExec (cfg : Cfg) (fuel : Nat) (h : Handle) (c : Call) (db : DB) : Out :=
  match c with
  | .fromStudyConfig spec md =>
    rpc1 cfg db (.createStudy h.owner h.sid false .unspecified spec md) <| passing fun
      | .study st => .study st.owner st.sid
      | _ => .exc .other
  | .fromResourceName sid =>
    -- `client.get_study_config()` … `except Exception: raise ResourceNotFoundError`
    rpc1 cfg db (.getStudy h.owner sid) fun
      | .study st => .study st.owner st.sid
      | _ => .exc .resourceNotFound
  | .suggest count worker alg => getSuggestions cfg fuel h count (some worker) alg db
  | .getSuggestions count alg => getSuggestions cfg fuel h count none alg db
  | .request params md =>
    -- `trial = suggestion.to_trial(); trial.is_requested = True; add_trial(trial)`
    rpc1 cfg db (.createTrial h.owner h.sid (protoTrial params .requested none md)) <| passing fun
      | .trial t => .handle t.id
      | _ => .exc .other
  | .addTrial params final inSpace =>
    -- `sc = get_study_config(); sc.search_space.assert_contains(trial.parameters); add_trial(trial)`
    let r1 := Req.getStudy h.owner h.sid
    let x := step cfg db r1
    match raised x.1 with
    | some e => { obs := .exc e.cls, reqs := [r1], db := x.2 }
    | none =>
      if !inSpace then { obs := .exc .valueError, reqs := [r1], db := x.2 } else
      let r2 := Req.createTrial h.owner h.sid
        (protoTrial params (addedState final) final [])
      let y := step cfg x.2 r2
      { obs := passing (fun | .trial t => .handle t.id | _ => .exc .other) y.1, reqs := [r1, r2], db := y.2 }
  | .getTrial id =>
    -- `except KeyError → ResourceNotFoundError`; `except grpc.RpcError` with NOT_FOUND → the same
    rpc1 cfg db (.getTrial h.owner h.sid id) fun r =>
      match raised r with
      | some .keyError => .exc .resourceNotFound
      | some (.rpcError .notFound) => .exc .resourceNotFound
      | some e => .exc e.cls
      | none => (match r with | .trial t => .handle t.id | _ => .exc .other)
  | .materialize id =>
    rpc1 cfg db (.getTrial h.owner h.sid id) <| passing fun
      | .trial t => .trial t
      | _ => .exc .other
  | .trials =>
    rpc1 cfg db (.listTrials h.owner h.sid) <| passing fun
      | .trials l => .trials l
      | _ => .exc .other
  | .complete id m reason =>
    -- `self._trial = complete_trial(...); return self._trial.final_measurement`
    rpc1 cfg db (completeReq h id m reason) <| passing fun
      | .trial t => .measurement t.final
      | _ => .exc .other
  | .addMeasurement id m =>
    rpc1 cfg db (.addMeasurement h.owner h.sid id m) <| passing fun _ => .unit
  | .checkEarlyStopping id es =>
    rpc1 cfg db (.checkEarlyStop h.owner h.sid id es) <| passing fun
      | .earlyStop b => .flag b
      | _ => .exc .other
  | .stop id => rpc1 cfg db (.stop h.owner h.sid id) <| passing fun _ => .unit
  | .deleteTrial id => rpc1 cfg db (.deleteTrial h.owner h.sid id) <| passing fun _ => .unit
  | .updateMetadata target kvs =>
    -- `if response.error_details: raise RuntimeError`
    rpc1 cfg db (metadataReq h target kvs) <| passing fun
      | .mdError => .exc .runtimeError
      | _ => .unit
  | .setState s => rpc1 cfg db (.setStudyState h.owner h.sid s.toProto) <| passing fun _ => .unit
  | .materializeState =>
    rpc1 cfg db (.getStudy h.owner h.sid) <| passing fun
      | .study st => .state (CState.ofProto st.state)
      | _ => .exc .other
  | .deleteStudy => rpc1 cfg db (.deleteStudy h.owner h.sid) <| passing fun _ => .unit
  | .optimalTrials => rpc1 cfg db (.listOptimal h.owner h.sid) <| passing fun _ => .unit

/-- one client call: observation and the state it leaves -/
def clientStep (cfg : Cfg) (fuel : Nat) (h : Handle) (c : Call) (db : DB) : Obs × DB :=
  let o := clientExec cfg fuel h c db
  (o.obs, o.db)

/-- a client history: calls made through (possibly several) handles, in program order -/
abbrev History := List (Handle × Call)

def clientRun (cfg : Cfg) (fuel : Nat) (db : DB) (hs : History) : DB :=
  hs.foldl (fun d hc => (clientExec cfg fuel hc.1 hc.2 d).db) db

/-- every M1 request issued along a client history, in order -/
def clientTrace (cfg : Cfg) (fuel : Nat) : DB → History → List Req
  | _, [] => []
  | db, hc :: rest =>
    let o := clientExec cfg fuel hc.1 hc.2 db
    o.reqs ++ clientTrace cfg fuel o.db rest

/-- the observations along a client history -/
def clientObs (cfg : Cfg) (fuel : Nat) : DB → History → List Obs
  | _, [] => []
  | db, hc :: rest =>
    let o := clientExec cfg fuel hc.1 hc.2 db
    o.obs :: clientObs cfg fuel o.db rest

end VizierModel.Client
