/-
Model for C12 — what a hosted algorithm is given at every `Designer.update`.

Follows `vizier/_src/algorithms/policies/trial_caches.py` (`IdDeduplicatingTrialLoader`),
`policies/designer_policy.py` (`DesignerPolicy`, `_SerializableDesignerPolicyBase.suggest`,
`_initialize_designer`, `dump`/`load`), the `GetTrials` filter of
`service_policy_supporter.py` / `local_policy_supporters.py` (`vz.TrialFilter`: ids ∧ status) and
the id allocation of the service (`CreateTrial` / `SuggestTrials`: `max_trial_id + 1`).
Core Lean only.

* Environment: the study's trial table, in creation order.  A trial has the `id` the
  datastore knows it by, a ghost identity `uid` (creation counter — never seen by the code;
  it is what "the same trial" means when an id is handed out twice) and a status
  (`vz.Trial.status`: STOPPING is not ACTIVE; COMPLETED covers succeeded and infeasible).
* Loader: `inc` = `_incorporated_completed_trial_ids` (a Python set: a duplicate-free list
  whose order is irrelevant; the code reads it through `in` and `len` only).
* Policy modes at a suggest request (`Mode`): the policy object of the previous request is
  still alive; a new object restores `inc` from study metadata (JSON list of the set, any
  order); a new object finds no / undecodable state (`clear`, fresh designer); `DesignerPolicy`
  (fresh designer, everything, no loader).
* Delivery log: one `Entry` per `Designer.update`, newest first: the designer lineage it went
  to, the trial table at that moment, the completed and the active trials passed.

`Cfg.shortcut` selects `get_newly_completed_trials` as written (`len(inc) == max_trial_id`
⇒ nothing to load) or without that shortcut (fixes/c12-loader-shortcut.diff).
-/
namespace VizierModel.Loader

inductive Status where
  | requested | active | stopping | completed
  deriving DecidableEq, Repr

structure Trial where
  id : Nat
  uid : Nat
  st : Status
  deriving DecidableEq, Repr

abbrev Env := List Trial

/-- `datastore.max_trial_id(study)`: the largest id present, 0 for an empty study -/
def maxId : Env → Nat
  | [] => 0
  | t :: ts => max t.id (maxId ts)

/-- `PolicySupporter.GetTrials(trial_ids=ids, status_matches=st)` — `vz.TrialFilter` -/
def getTrials (env : Env) (ids : Option (List Nat)) (st : Option Status) : List Trial :=
  env.filter fun t =>
    (match ids with | none => true | some l => decide (t.id ∈ l)) &&
    (match st with | none => true | some s => decide (t.st = s))

/-- the FULL `GetTrials` filter (`vz.TrialFilter.__call__`, and the loop of `InRamPolicySupporter.GetTrials`):
ids ∧ min_id ∧ max_id ∧ status, every condition optional; the table order is kept -/
def getTrialsF (env : Env) (ids : Option (List Nat)) (minId maxId : Option Nat) (st : Option Status) : List Trial :=
  env.filter fun t =>
    (match ids with | none => true | some l => decide (t.id ∈ l)) &&
    (match minId with | none => true | some m => decide (m ≤ t.id)) &&
    (match maxId with | none => true | some m => decide (t.id ≤ m)) &&
    (match st with | none => true | some s => decide (t.st = s))

/-! ### `IdDeduplicatingTrialLoader` -/

structure Cfg where
  /-- `if len(self._incorporated_completed_trial_ids) == max_trial_id: return []` present -/
  shortcut : Bool
  deriving DecidableEq, Repr

def Cfg.asWritten : Cfg := ⟨true⟩
def Cfg.noShortcut : Cfg := ⟨false⟩

def insertNew (l : List Nat) (a : Nat) : List Nat := if a ∈ l then l else l ++ [a]

/-- `inc |= set(new)` -/
def union (l new : List Nat) : List Nat := new.foldl insertNew l

/-- `get_newly_completed_trials(max_trial_id)`: (trials returned, new `inc`) -/
def newlyCompleted (cfg : Cfg) (env : Env) (inc : List Nat) (maxTrialId : Nat) :
    List Trial × List Nat :=
  if cfg.shortcut = true ∧ inc.length = maxTrialId then ([], inc)
  else
    -- set(range(1, max_trial_id + 1)) - inc
    let toLoad := (List.range' 1 maxTrialId).filter fun i => decide (i ∉ inc)
    let new := getTrials env (some toLoad) (some .completed)
    (new, union inc (new.map (·.id)))

/-- `get_active_trials()` -/
def activeTrials (env : Env) : List Trial := getTrials env none (some .active)

/-- `dump`: `json.dumps(list(inc))` — some enumeration of the set -/
def dump (inc : List Nat) : List Nat := inc
/-- `load`: `set(json.loads(..))` -/
def load (stored : List Nat) : List Nat := union [] stored
/-- `clear` -/
def clear : List Nat := []

/-! ### histories -/

inductive Mode where
  /-- the policy object that served the previous request is still there (InRamDesignerPolicy,
  or any `_SerializableDesignerPolicyBase` kept in RAM): `_initialize_designer` returns at once -/
  | live
  /-- a new policy object (the service builds one per request) whose `load` succeeds:
  `stored` is the JSON list found under `designer_policy_v0:cache` -/
  | restored (stored : List Nat)
  /-- a new policy object whose `load` raises `DecodeError` (key missing, undecodable value,
  other namespace): fresh designer, `clear()` -/
  | lost
  /-- `DesignerPolicy.suggest`: fresh designer, all COMPLETED and all ACTIVE trials -/
  | stateless
  deriving DecidableEq, Repr

inductive Op where
  /-- a trial enters the study in status `st` with id `max_trial_id + 1` (suggestion, CreateTrial
  of a requested or of an already completed trial) -/
  | create (st : Status)
  | setStatus (id : Nat) (st : Status)
  | delete (id : Nat)
  /-- a suggest request reaches the policy -/
  | update (m : Mode)
  deriving DecidableEq, Repr

structure Entry where
  /-- designer lineage (a designer restored from dumped state continues its lineage) -/
  inst : Nat
  /-- the trial table when `update` was called -/
  env : Env
  completed : List Trial
  active : List Trial
  deriving DecidableEq, Repr

structure State where
  env : Env := []
  nextUid : Nat := 1
  /-- ghost: every id ever handed out -/
  allocated : List Nat := []
  inc : List Nat := []
  inst : Nat := 0
  nextInst : Nat := 1
  /-- newest first -/
  log : List Entry := []
  deriving Repr

def State.init : State := {}

/-- `_SerializableDesignerPolicyBase.suggest` after `_initialize_designer`: the two loader
calls with `request.max_trial_id`, then `designer.update(new_completed, all_active)` -/
def policyUpdate (cfg : Cfg) (s : State) (inc : List Nat) (inst : Nat) : State :=
  let r := newlyCompleted cfg s.env inc (maxId s.env)
  { s with inc := r.2, inst := inst,
           log := { inst := inst, env := s.env, completed := r.1, active := activeTrials s.env } :: s.log }

def step (cfg : Cfg) (s : State) : Op → State
  | .create st =>
    let id := maxId s.env + 1
    { s with env := s.env ++ [{ id := id, uid := s.nextUid, st := st }],
             nextUid := s.nextUid + 1, allocated := id :: s.allocated }
  | .setStatus id st =>
    { s with env := s.env.map fun t => if t.id = id then { t with st := st } else t }
  | .delete id => { s with env := s.env.filter fun t => decide (t.id ≠ id) }
  | .update .live => policyUpdate cfg s s.inc s.inst
  | .update (.restored stored) => policyUpdate cfg s (load stored) s.inst
  | .update .lost => policyUpdate cfg { s with nextInst := s.nextInst + 1 } clear s.nextInst
  | .update .stateless =>
    { s with nextInst := s.nextInst + 1,
             log := { inst := s.nextInst, env := s.env,
                      completed := getTrials s.env none (some .completed),
                      active := getTrials s.env none (some .active) } :: s.log }

def run (cfg : Cfg) (s : State) (h : List Op) : State := h.foldl (step cfg) s

/-! ### side conditions on histories (Boolean, evaluated along the run) -/

/-- what is found in the metadata is what the previous request dumped (in any order) -/
def okWF (s : State) : Op → Bool
  | .update (.restored stored) => stored.isPerm s.inc
  | _ => true

/-- the trial holding the largest id is not deleted -/
def okTop (s : State) : Op → Bool
  | .delete id => decide (id ≠ maxId s.env)
  | _ => true

/-- no id is handed out twice -/
def okFresh (s : State) : Op → Bool
  | .create _ => decide (maxId s.env + 1 ∉ s.allocated)
  | _ => true

def holds (cfg : Cfg) (ok : State → Op → Bool) : State → List Op → Bool
  | _, [] => true
  | s, op :: rest => ok s op && holds cfg ok (step cfg s op) rest

/-! ### the property, as predicates on a delivery log (newest first)

These are what the driver evaluates on the log recorded from the real code. -/

/-- everything given to lineage `inst` so far -/
def delivered (inst : Nat) : List Entry → List Trial
  | [] => []
  | e :: prev => (if e.inst = inst then e.completed else []) ++ delivered inst prev

/-- completed now and not given to this lineage before -/
def expected (prev : List Entry) (inst : Nat) (env : Env) : List Trial :=
  env.filter fun t =>
    decide (t.st = .completed) && decide (t.uid ∉ (delivered inst prev).map (·.uid))

def UpdateExact : List Entry → Prop
  | [] => True
  | e :: prev => e.completed = expected prev e.inst e.env ∧ UpdateExact prev

def ActiveExact (log : List Entry) : Prop :=
  ∀ e ∈ log, e.active = e.env.filter fun t => decide (t.st = .active)

/-- every trial that is completed when an update happens has been given by then -/
def Covered : List Entry → Prop
  | [] => True
  | e :: prev =>
    (∀ t ∈ e.env, t.st = .completed → t.uid ∈ (delivered e.inst (e :: prev)).map (·.uid)) ∧
      Covered prev

/-- no lineage is given a trial twice -/
def DeliveredOnce (log : List Entry) : Prop :=
  ∀ e ∈ log, ((delivered e.inst log).map (·.uid)).Nodup

def ExactlyOnce (log : List Entry) : Prop := DeliveredOnce log ∧ Covered log

/-- the snapshots are trial tables: distinct trials are distinct -/
def SnapshotsWF (log : List Entry) : Prop := ∀ e ∈ log, (e.env.map (·.uid)).Nodup

instance decUpdateExact : (log : List Entry) → Decidable (UpdateExact log)
  | [] => isTrue trivial
  | _ :: prev =>
    have := decUpdateExact prev
    inferInstanceAs (Decidable (_ ∧ _))

instance decCovered : (log : List Entry) → Decidable (Covered log)
  | [] => isTrue trivial
  | _ :: prev =>
    have := decCovered prev
    inferInstanceAs (Decidable (_ ∧ _))

instance (log : List Entry) : Decidable (ActiveExact log) := by unfold ActiveExact; infer_instance
instance (log : List Entry) : Decidable (DeliveredOnce log) := by unfold DeliveredOnce; infer_instance
instance (log : List Entry) : Decidable (SnapshotsWF log) := by unfold SnapshotsWF; infer_instance
instance (log : List Entry) : Decidable (ExactlyOnce log) := by unfold ExactlyOnce; infer_instance

/-! ### the two counterexample witnesses (used by `Props/C12.lean` and exported by the driver) -/

/-- (a) trials 1,2,3; complete 1 and 3; update (gets {1,3}); delete 3; complete 2; update -/
def witnessShortcut : List Op :=
  [.create .active, .create .active, .create .active, .setStatus 1 .completed, .setStatus 3 .completed,
   .update .live, .delete 3, .setStatus 2 .completed, .update .live]

/-- (b) complete 1..3; update; delete 3; create (id 3 again); complete it; update -/
def witnessIdReuse : List Op :=
  [.create .active, .create .active, .create .active, .setStatus 1 .completed, .setStatus 2 .completed,
   .setStatus 3 .completed, .update .live, .delete 3, .create .active, .setStatus 3 .completed,
   .update .live]

end VizierModel.Loader
