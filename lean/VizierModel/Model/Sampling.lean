/-
Model of the value-producing mechanisms of the designers, other than the feature decoder of
`Model/Codec.lean` (C03).  Core Lean only.  Every function takes the "random" variate as an
argument: theorems quantify over all variates in the documented range of the source, and over
whatever an algorithm proper (GP, firefly dynamics, NSGA-II selection, …) computes.

  * `random_sample.py`: `sample_uniform`, `sample_integer` (`round`), `sample_discrete`
    (`get_closest_element`), `sample_categorical` (`rng.choice`), `sample_parameters`;
  * `designers/random.py`, `quasi_random.py`: integer index draws (`random_integers`,
    `floor(h·k) + lo`) and unit-interval draws that are then decoded by the codec;
  * `designers/grid.py`: per-parameter grids and the mixed-radix index;
  * `pythia/suggest_default.py`: default / centre seeding;
  * `eagle_strategy_utils.py`: `combine_two_parameters`, `perturb_parameter` clamping;
  * `numpy_populations.py`: `UniformRandomSampler`, `LinfMutation` (clip and wrap).
-/
import VizierModel.Model.Codec

namespace VizierModel.Sampling
open VizierModel.Codec

variable {α : Type}

/-! ### random_sample.py -/

/-- `rng.uniform(low, high)` = `low + (high - low) * u` for the underlying `u ∈ [0, 1)` -/
def sampleUniform (ops : NumOps α) (lo hi u : α) : α := ops.add lo (ops.mul (ops.sub hi lo) u)

/-- `get_closest_element(array, value)`: first element with the smallest gap -/
def closestElement (ops : NumOps α) (arr : List α) (v : α) : Option α :=
  nearest ops v (arr.map fun x => (x, x))

/-- `_sample_value`: `u` is the uniform variate, `k` the index drawn by `rng.choice`, `rnd` is
Python's `round` -/
def sampleValue (ops : NumOps α) (rnd : α → Int) (d : Domain α) (u : α) (k : Nat) : Option (PVal α) :=
  match d with
  | .categorical cs => cs[k]?.map .str
  | .discrete vs =>
    (closestElement ops vs (sampleUniform ops (vs.headD ops.zero) (vs.getLastD ops.zero) u)).map .dbl
  | .integer lo hi => some (.int (rnd (sampleUniform ops (ops.ofInt lo) (ops.ofInt hi) u)))
  | .double lo hi => some (.dbl (sampleUniform ops lo hi u))

/-- `sample_parameters`: one value per parameter of the space (`us`, `ks`: the variates drawn
for each parameter, defaulting to 0 when the lists are short) -/
def sampleParameters (ops : NumOps α) (rnd : α → Int) :
    List (Param α) → List α → List Nat → Option (List (String × PVal α))
  | [], _, _ => some []
  | p :: ps, us, ks =>
    match sampleValue ops rnd p.dom (us.headD ops.zero) (ks.headD 0),
          sampleParameters ops rnd ps us.tail ks.tail with
    | some v, some rest => some ((p.name, v) :: rest)
    | _, _ => none

/-! ### index draws of the random / quasi-random designers -/

/-- `QuasiRandomDesigner._generate_discrete_point`:
`int(floor(h * (hi - lo + 1 - num_oovs))) + lo` for a Halton value `h ∈ [0, 1)`; for an index
spec `lo = 0`, `hi = n`, `num_oovs = 1`. -/
def haltonIndex (ops : NumOps α) (flr : α → Int) (h : α) (lo hi numOovs : Int) : Int :=
  flr (ops.mul h (ops.ofInt (hi - lo + 1 - numOovs))) + lo

/-! ### grid designer -/

/-- `np.linspace(0.0, 1.0, num)` -/
def linspace (ops : NumOps α) (num : Nat) : List α :=
  (List.range num).map fun (j : Nat) => ops.div (ops.ofInt j) (ops.ofInt ((num : Int) - 1))

/-- `_grid_points_from_parameter_config` (`cfg` = the default `DefaultModelInputConverter(pc,
scale=True)` used for DOUBLE parameters; a grid value that decodes to `None` would be kept as
`None` by the code — it is dropped here and reported by the tie if it ever happens) -/
def gridValues (ops : NumOps α) (cfg : Cfg) (res : Nat) (p : Param α) : List (PVal α) :=
  match p.dom with
  | .double lo hi =>
    if ops.beq lo hi then [.dbl lo]
    else (linspace ops res).filterMap fun g =>
      match decodeBlock ops cfg p [.num g] with
      | .ok (some v) => some v
      | _ => none
  | .integer lo hi => (intRange lo hi).map .int
  | .discrete vs => vs.map .dbl
  | .categorical cs => cs.map .str

/-- one grid point: mixed-radix digits of `index`, least significant digit = first parameter;
`none` where the code would raise (empty grid: modulo by zero) -/
def gridPoint : List (String × List (PVal α)) → Nat → Option (List (String × PVal α))
  | [], _ => some []
  | (name, g) :: rest, idx =>
    match g[idx % g.length]?, gridPoint rest (idx / g.length) with
    | some v, some tl => some ((name, v) :: tl)
    | _, _ => none

def gridSuggestion (ops : NumOps α) (cfg : Cfg) (res : Nat) (ps : List (Param α)) (index : Nat) :
    Option (List (String × PVal α)) :=
  gridPoint (ps.map fun p => (p.name, gridValues ops cfg res p)) index

/-! ### default / centre seeding -/

/-- `get_default_parameters` for one parameter.  `validateDouble` is a VARIANT FLAG: `false` =
the code as written, where the builder validates the chosen value for every type except DOUBLE
(`get_subspace_deepcopy` returns early), so an out-of-range DOUBLE default is suggested as is;
`true` = refused with an error like the other types. -/
def defaultValue (ops : NumOps α) (validateDouble : Bool) (d : Domain α) (dflt : Option (PVal α)) :
    Except String (PVal α) :=
  match dflt with
  | some v =>
    match d with
    | .double _ _ => if validateDouble && !inDomain ops d v then .error "ValueError" else .ok v
    | _ => if inDomain ops d v then .ok v else .error "ValueError"
  | none =>
    match d with
    | .double lo hi =>
      if ops.beq lo hi then .ok (.dbl lo)
      else
        -- `min(max(low / 2 + high / 2, low), high)`: halved before adding (no overflow), clamped
        let two := ops.add ops.one ops.one
        .ok (.dbl (clip ops (ops.add (ops.div lo two) (ops.div hi two)) lo hi))
    | .integer lo hi => .ok (.int (lo + (((hi - lo + 1).toNat / 2 : Nat) : Int)))
    | .discrete vs => match vs[vs.length / 2]? with
      | some x => .ok (.dbl x)
      | none => .error "IndexError"
    | .categorical cs => match cs[cs.length / 2]? with
      | some s => .ok (.str s)
      | none => .error "IndexError"

def defaultParameters (ops : NumOps α) (validateDouble : Bool) :
    List (Param α × Option (PVal α)) → Except String (List (String × PVal α))
  | [] => .ok []
  | (p, dflt) :: rest =>
    match defaultValue ops validateDouble p.dom dflt with
    | .error e => .error e
    | .ok v => match defaultParameters ops validateDouble rest with
      | .error e => .error e
      | .ok tl => .ok ((p.name, v) :: tl)

/-! ### eagle strategy: clamping after the firefly dynamics -/

/-- `min(·, hi)` then `max(·, lo)` -/
def clamp (ops : NumOps α) (v lo hi : α) : α :=
  let w := if ops.lt hi v then hi else v
  if ops.lt w lo then lo else w

def clampInt (v lo hi : Int) : Int := max (min v hi) lo

/-- `combine_two_parameters` for a numeric parameter, given the weighted value `w` computed by
the dynamics (any value): DOUBLE clamps; INTEGER rounds then clamps; DISCRETE takes the closest
feasible value then clamps to the bounds. -/
def eagleCombine (ops : NumOps α) (rnd : α → Int) (d : Domain α) (w : α) : Option (PVal α) :=
  match d with
  | .double lo hi => some (.dbl (clamp ops w lo hi))
  | .integer lo hi => some (.int (clampInt (rnd w) lo hi))
  | .discrete vs =>
    (closestElement ops vs w).map fun x => .dbl (clamp ops x (vs.headD ops.zero) (vs.getLastD ops.zero))
  | .categorical _ => none

/-- `perturb_parameter` for a numeric parameter, given the perturbed value `w`: DISCRETE takes
the closest feasible value; DOUBLE clamps; INTEGER clamps then rounds. -/
def eaglePerturb (ops : NumOps α) (rnd : α → Int) (d : Domain α) (w : α) : Option (PVal α) :=
  match d with
  | .double lo hi => some (.dbl (clamp ops w lo hi))
  | .integer lo hi => some (.int (rnd (clamp ops w (ops.ofInt lo) (ops.ofInt hi))))
  | .discrete vs => (closestElement ops vs w).map .dbl
  | .categorical _ => none

/-- `ProblemAndTrialsScaler.unmap` for one parameter of an embedded suggestion: CATEGORICAL values
pass through unchanged, every other value is decoded by the parameter's converter
(`scale=True, max_discrete_indices=0`, no one-hot) -/
def eagleCfg (clipScaled stableRlog : Bool) : Cfg :=
  { scale := true, onehot := false, padOovs := true, shouldClip := true, maxDiscrete := some 0,
    clipScaled := clipScaled, stableRlog := stableRlog }

def unmapValue (ops : NumOps α) (cfg : Cfg) (p : Param α) (v : PVal α) : Except String (Option (PVal α)) :=
  match p.dom, v with
  | .categorical _, .str s => .ok (some (.str s))
  | .categorical _, _ => .error "TypeError"
  | _, .dbl y => decodeBlock ops cfg p [.num y]
  | _, _ => .error "TypeError"

/-! ### NSGA-II populations -/

/-- `LinfMutation.mutate` on one coordinate: add the perturbation, clip to [-0.5, 1.5], wrap
around into [0, 1] -/
def linfMutate (ops : NumOps α) (x delta : α) : α :=
  let a := ops.add x delta
  let oneHalf := ops.add ops.one ops.half
  let b := if ops.lt oneHalf a then oneHalf else a        -- np.minimum(arr, 1.5)
  let c := if ops.lt b (ops.neg ops.half) then ops.neg ops.half else b    -- np.maximum(·, -0.5)
  if ops.lt c ops.zero then ops.add ops.one c
  else if ops.lt ops.one c then ops.sub c ops.one else c

end VizierModel.Sampling
