/-
C18 — model of `vizier/_src/algorithms/designers/gp/output_warpers.py`.

Core Lean only.  Labels are `List (Option α)`: `none` is NaN (an infeasible trial), `some x`
a finite label.  The carrier `α` is anything with `+ - * / <` and a cast from `Nat`
(all numerals of the code are written as casts, `half = 1/2`): the driver instantiates it at
`Float` (values) and `Rat` (exact order types), the theorems at an arbitrary linearly ordered
field.  The library functions the code calls (`stats.norm.ppf`, `np.sqrt`, `np.log1p`,
`np.log`, `np.exp`, tfp's SoftClip∘Normal.quantile) are the fields of `Fns` — abstract; the
theorems assume only monotonicity/sign facts about them.

Every component is "context then pointwise": a context is computed from the whole array
(median, unique labels, min, max, …) and then each entry is mapped on its own.  That is how
the Python is written (vectorised numpy) and it is what the order theorems use.
-/
namespace VizierModel.Warp

/-- a label as a caller may pass it -/
inductive Raw (α : Type) where
  | fin (x : α)
  | nan
  | negInf
  | posInf
  deriving Repr

/-- library functions used by the warpers -/
structure Fns (α : Type) where
  ppf : α → α       -- scipy.stats.norm.ppf  (Φ⁻¹)
  sqrt : α → α      -- np.sqrt
  log1p : α → α     -- np.log1p
  log : α → α       -- np.log
  exp : α → α       -- np.exp
  gauss : α → α     -- Normal(0,1).quantile ∘ SoftClip(low, high, hinge).forward

section
variable {α : Type}

def Raw.isPosInf : Raw α → Bool
  | .posInf => true
  | _ => false

def Raw.toOpt : Raw α → Option α
  | .fin x => some x
  | _ => none

/-- `_validate_labels` (output_warpers.py:37-49): works on a copy (`astype`), `+inf` is
rejected, `-inf` becomes NaN.  (The shape test `(n,1)` is part of the harness' malformed stream.) -/
def validate (l : List (Raw α)) : Except String (List (Option α)) :=
  if l.any Raw.isPosInf then .error "Infinity metric value is not valid."
  else .ok (l.map Raw.toOpt)

/-- the finite entries (`labels_arr[np.isfinite(labels_arr)]`) -/
def fins (l : List (Option α)) : List α := l.filterMap id

variable [Add α] [Sub α] [Mul α] [Div α] [LT α] [DecidableLT α] [NatCast α]

def zero : α := ((0 : Nat) : α)
def one : α := ((1 : Nat) : α)
def half : α := ((1 : Nat) : α) / ((2 : Nat) : α)

/-- `a == b` on the carrier, from `<` alone -/
def eqb (a b : α) : Bool := !(decide (a < b)) && !(decide (b < a))

/-- `np.nanmin` of the finite entries -/
def lmin : List α → Option α
  | [] => none
  | x :: xs => match lmin xs with
    | none => some x
    | some m => some (if x < m then x else m)

/-- `np.nanmax` -/
def lmax : List α → Option α
  | [] => none
  | x :: xs => match lmax xs with
    | none => some x
    | some m => some (if m < x then x else m)

/-- `np.sum` (the summation order is irrelevant in a field) -/
def sum (l : List α) : α := l.foldr (· + ·) zero

def sq (x : α) : α := x * x

/-! ### sorting, `np.unique`, `np.nanmedian`, `searchsorted`, dense ranks -/

def insertSorted (a : α) : List α → List α
  | [] => [a]
  | b :: bs => if b < a then b :: insertSorted a bs else a :: b :: bs

def sort (l : List α) : List α := l.foldr insertSorted []

/-- insert into a strictly increasing list, dropping duplicates -/
def insertUniq (a : α) : List α → List α
  | [] => [a]
  | b :: bs => if a < b then a :: b :: bs else if b < a then b :: insertUniq a bs else b :: bs

/-- `np.unique`: sorted, duplicates removed -/
def unique (l : List α) : List α := l.foldr insertUniq []

/-- `np.nanmedian` of the finite entries: middle of the sorted list, mean of the two middle
entries for an even count -/
def median (l : List α) : α :=
  let s := sort l
  let n := s.length
  if n % 2 = 1 then s.getD (n / 2) zero
  else (s.getD (n / 2 - 1) zero + s.getD (n / 2) zero) / ((2 : Nat) : α)

/-- `u.searchsorted(x, 'left')` for sorted `u`: the number of entries `< x` -/
def countLt (u : List α) (x : α) : Nat := (u.filter (fun v => decide (v < x))).length

/-- `stats.rankdata(method='dense')` of a finite label among the finite labels (1-based):
its position in the unique labels -/
def denseRank (u : List α) (x : α) : Nat := countLt u x + 1

/-! ### HalfRankComponent (output_warpers.py:288-377) -/

/-- `_estimate_std_of_good_half`.  The third stage (`if np.isfinite(std)` fails) cannot be
reached in a field and is not modelled. -/
def estimateStd (F : Fns α) (u : List α) (t : α) : α :=
  let good := u.filter (fun v => !(decide (v < t)))
  let s1 := F.sqrt (sum (good.map fun v => sq (v - t)) * (one / ((good.length : Nat) : α)))
  if zero < s1 then s1
  else F.sqrt (sum (u.map fun v => sq (v - t)) * (one / ((u.length : Nat) : α)))

structure HRCtx (α : Type) where
  med : α            -- np.nanmedian(labels)
  u : List α         -- unique finite labels
  den : α            -- `denominator`
  sd : α             -- estimated_std
  ranksNan : Bool    -- the ranks are all NaN
  deriving Repr

/-- context of `HalfRankComponent.warp`.  `rankIgnoresNan = true` is the documented intent
("nans ranked last": finite labels get their dense rank among the finite labels);
`false` is the code as written with scipy ≥ 1.10, where `stats.rankdata` propagates NaN:
one NaN label makes every rank NaN. -/
def hrCtx (F : Fns α) (rankIgnoresNan : Bool) (l : List (Option α)) : HRCtx α :=
  let f := fins l
  let med := median f
  let u := unique f
  let idx := countLt u med
  { med := med
    u := u
    den := ((idx : Nat) : α) + (if eqb (u.getD idx zero) med then half else zero)
    sd := estimateStd F u med
    ranksNan := !rankIgnoresNan && l.any Option.isNone }

/-- one entry: below the median `Φ⁻¹(½(rank−½)/denominator)·σ + median`, else unchanged;
NaN stays NaN -/
def hrPt (F : Fns α) (c : HRCtx α) : Option α → Option α
  | none => none
  | some y =>
    if y < c.med then
      (if c.ranksNan then none
       else some (F.ppf (half * (((denseRank c.u y : Nat) : α) - half) / c.den) * c.sd + c.med))
    else some y

/-- `HalfRankComponent.warp`.  Precondition of the real code: at least one finite label when
`size ≥ 2` (otherwise it raises IndexError; the pipeline never calls it that way). -/
def halfRank (F : Fns α) (rankIgnoresNan : Bool) (l : List (Option α)) : List (Option α) :=
  if l.length = 1 then l
  else if (fins l).isEmpty then l
  else l.map (hrPt F (hrCtx F rankIgnoresNan l))

/-- `_HalfRankUnwarper` restricted to what the property speaks about (warped *observed*
labels): labels at or above the stored median are returned unchanged, a warped observed label
is looked up.  `thr` is the stored `original_label_median`; the interpolation/extrapolation
of unobserved values is not modelled (returns the label). -/
def hrUnwarpPt (thr : α) (table : List (α × α)) (y : α) : α :=
  if y < thr then
    match table.find? (fun p => eqb p.1 y) with
    | some p => p.2
    | none => y
  else y

/-- the stored threshold: as written `unique_labels[len(unique_labels) // 2]`;
intended (`useWarpMedian = true`) the threshold `warp` itself used -/
def hrUnwarpThr (useWarpMedian : Bool) (c : HRCtx α) : α :=
  if useWarpMedian then c.med else c.u.getD (c.u.length / 2) zero

/-- (warped, original) for each unique label -/
def hrTable (F : Fns α) (c : HRCtx α) : List (α × α) :=
  c.u.filterMap fun x => (hrPt F c (some x)).map fun w => (w, x)

/-! ### LogWarperComponent (output_warpers.py:380-415) -/

/-- one entry; `mn < mx` fails only when all finite labels are equal: every label is then the best
one, `norm_diff = 0`, image `0.5` (the pinned commit computed `0/0 = nan` there; repaired in round i) -/
def logPt (F : Fns α) (offset mn mx : α) : Option α → Option α
  | none => none
  | some x =>
    if mn < mx then
      some (half - F.log1p ((mx - x) / (mx - mn) * (offset - one)) / F.log offset)
    else some half

def logWarp (F : Fns α) (offset : α) (l : List (Option α)) : List (Option α) :=
  match lmin (fins l), lmax (fins l) with
  | some mn, some mx => l.map (logPt F offset mn mx)
  | _, _ => l

/-- `LogWarperComponent.unwarp` -/
def logUnwarpPt (F : Fns α) (offset mn mx y : α) : α :=
  mx - (F.exp (F.log offset * (half - y)) - one) * (mx - mn) / (offset - one)

/-! ### InfeasibleWarperComponent (output_warpers.py:418-493) -/

structure InfCtx (α : Type) where
  bad : α      -- warped_bad_value
  shift : α    -- self._shift
  deriving Repr

def infCtx (l : List (Option α)) (mn mx : α) : InfCtx α :=
  let f := fins l
  let range := mx - mn
  let bad := mn - (half * range + one)
  let nfeas : α := ((f.length : Nat) : α)
  let p := (half + nfeas) / (one + ((l.length : Nat) : α))
  let mean := sum f / nfeas
  { bad := bad, shift := (zero - mean) * p - bad * (one - p) }

/-- NaN ↦ bad value, then *every* entry is shifted (after the first assignment no NaN is
left, so `labels_arr[~np.isnan(labels_arr)] += shift` shifts the bad values too) -/
def infPt (c : InfCtx α) : Option α → Option α
  | none => some (c.bad + c.shift)
  | some x => some (x + c.shift)

def infeasible (l : List (Option α)) : List (Option α) :=
  match lmin (fins l), lmax (fins l) with
  | some mn, some mx => l.map (infPt (infCtx l mn mx))
  | _, _ => l.map fun _ => some zero          -- all NaN: `labels_arr[:] = 0`

def infUnwarpPt (c : InfCtx α) (y : α) : α := y - c.shift

/-! ### DetectOutliers (output_warpers.py:577-663), `max_zscore=None` -/

/-- `_estimate_variance` on the finite labels -/
def estimateVariance (f : List α) : α :=
  let n := f.length
  let med := median f
  let mx := (lmax f).getD zero
  if 70 ≤ n then (mx - med) / ((3 : Nat) : α)
  else if 15 ≤ n then (mx - med) / ((2 : Nat) : α)
  else
    let d := med - mx
    let a := if d < zero then zero else d          -- hallucinated min, clipped at 0
    let m := med
    let b := mx
    let nn : α := ((n : Nat) : α)
    let out := sq a + sq m + sq b
    let out := out + ((nn - ((3 : Nat) : α)) / ((2 : Nat) : α)) * (sq (a + m) + sq (b + m)) / ((4 : Nat) : α)
    let out := out - nn * sq ((a + ((2 : Nat) : α) * m + b) / ((4 : Nat) : α)
                              + (a - ((2 : Nat) : α) * m + b) / (((4 : Nat) : α) * nn))
    out / (nn - one)

/-- `median − min_zscore·sqrt(variance)`; `none` when the code's threshold is NaN or −∞
(one finite label: division by `n−1 = 0`; negative variance estimate: `sqrt` gives NaN), in
which case no comparison `x < threshold` succeeds -/
def outlierThreshold (F : Fns α) (z : α) (f : List α) : Option α :=
  if f.length ≤ 1 then none
  else
    let v := estimateVariance f
    if v < zero then none else some (median f - z * F.sqrt v)

def outPt (t : α) : Option α → Option α
  | none => none
  | some x => if x < t then none else some x

def detectOutliers (F : Fns α) (z : α) (l : List (Option α)) : List (Option α) :=
  match outlierThreshold F z (fins l) with
  | none => l
  | some t => l.map (outPt t)

/-! ### ZScoreLabels, NormalizeLabels, TransformToGaussian, LinearOutputWarper -/

def zPt (mean sd : α) : Option α → Option α
  | none => none
  | some x => some ((x - mean) / sd)

/-- population standard deviation `np.nanstd`; unchanged when it is 0 -/
def zscore (F : Fns α) (l : List (Option α)) : List (Option α) :=
  let f := fins l
  let n : α := ((f.length : Nat) : α)
  let mean := sum f / n
  let sd := F.sqrt (sum (f.map fun x => sq (x - mean)) / n)
  if zero < sd then l.map (zPt mean sd) else l

/-- `np.interp(x, (mn, mx), (lo, hi))` -/
def normPt (lo hi mn mx : α) : Option α → Option α
  | none => none
  | some x => if mn < mx then some ((hi - lo) / (mx - mn) * (x - mn) + lo)
              else some ((lo + hi) / ((2 : Nat) : α))

def normalize (lo hi : α) (l : List (Option α)) : List (Option α) :=
  match lmin (fins l), lmax (fins l) with
  | some mn, some mx => l.map (normPt lo hi mn mx)
  | _, _ => l

/-- `use_rank=False` (repaired in round i: `np.nanmin` / `np.nanmax`, so a missing entry stays missing
and the observed values are normalised among themselves; constant labels sit at the middle of the unit
interval instead of `0/0`). -/
def gaussPt (F : Fns α) (mn mx : α) : Option α → Option α
  | none => none
  | some x => some (F.gauss ((x - mn) / (mx - mn)))

def gaussMid (F : Fns α) : Option α → Option α
  | none => none
  | some _ => some (F.gauss half)

def transformToGaussian (F : Fns α) (l : List (Option α)) : List (Option α) :=
  match lmin (fins l), lmax (fins l) with
  | some mn, some mx =>
    if mn < mx then l.map (gaussPt F mn mx) else l.map (gaussMid F)
  | _, _ => l

/-- the pinned commit: `np.min` propagates NaN (one missing label makes every output NaN) and a constant
array is `0/0` -/
def transformToGaussianLegacy (F : Fns α) (l : List (Option α)) : List (Option α) :=
  match lmin (fins l), lmax (fins l) with
  | some mn, some mx =>
    if l.any Option.isNone then l.map fun _ => none
    else if mn < mx then l.map (gaussPt F mn mx)
    else l.map fun _ => none
  | _, _ => l.map fun _ => none

/-- `LinearOutputWarper`: `Shift(low) ∘ Scale((high-low)/(max-min)) ∘ Shift(-min)` -/
def linWarp (lo hi mn mx y : α) : α := (y - mn) * ((hi - lo) / (mx - mn)) + lo
def linUnwarp (lo hi mn mx y : α) : α := (y - lo) / ((hi - lo) / (mx - mn)) + mn

/-! ### OutputWarperPipeline (output_warpers.py:117-183) -/

/-- `np.isfinite(labels).all() and len(np.unique(labels)) == 1` -/
def allEqualFinite (l : List (Option α)) : Bool :=
  l.all Option.isSome && (unique (fins l)).length == 1

/-- `OutputWarperPipeline.warp` -/
def pipeline (ws : List (List (Option α) → List (Option α))) (raw : List (Raw α)) :
    Except String (List (Option α)) :=
  match validate raw with
  | .error e => .error e
  | .ok l =>
    if allEqualFinite l then .ok (l.map fun _ => some zero)
    else if l.all Option.isNone then .ok (l.map fun _ => some (zero - one))
    else .ok (ws.foldl (fun acc w => w acc) l)

/-- `create_default_warper()`: half-rank → log → infeasible -/
def defaultWarpers (F : Fns α) (offset : α) (rankIgnoresNan : Bool) :
    List (List (Option α) → List (Option α)) :=
  [halfRank F rankIgnoresNan, logWarp F offset, infeasible]

def defaultWarp (F : Fns α) (offset : α) (rankIgnoresNan : Bool) (raw : List (Raw α)) :=
  pipeline (defaultWarpers F offset rankIgnoresNan) raw

/-- `create_warp_outliers_warper()`: detect outliers → infeasible → gaussian -/
def outlierWarp (F : Fns α) (z : α) (raw : List (Raw α)) :=
  pipeline [detectOutliers F z, infeasible, transformToGaussian F] raw

end

/-- surrogate library functions over `Rat` that satisfy every hypothesis the theorems make
(`Props/C18.lean: ratFns_ok`): Φ⁻¹ q = q − ½, sqrt = id, log1p = id, log o = o − 1,
exp y = 1 + y.  Used by the driver for exact order types and by the witness theorems. -/
def ratFns : Fns Rat :=
  { ppf := fun q => q - 1/2, sqrt := id, log1p := id, log := fun o => o - 1,
    exp := fun y => 1 + y, gauss := id }

end VizierModel.Warp
