/-
Trial-level Pareto queries (C11): `VizierServicer.ListOptimalTrials`
(vizier_service.py) and `InRamPolicySupporter.GetBestTrials`
(local_policy_supporters.py with multimetric/safety.py and
converters.DefaultModelOutputConverter).  Core Lean only.

Metric values are `Val β` (a number of the ordered carrier, or NaN).  The sign flip
`-1.0 * v` of MINIMIZE metrics is the parameter `neg` (an order-reversing map:
`OrderOps.Lawful`), ±inf of the safety warping are the parameters `top`/`bot`.
-/
import VizierModel.Model.Pareto
namespace VizierModel.Pareto

inductive Goal where
  | maximize
  | minimize
  deriving DecidableEq, Repr

inductive TState where
  | requested | active | stopping | succeeded | infeasible
  deriving DecidableEq, Repr

variable {μ β : Type} [DecidableEq μ]

/-- `-1.0 * v` -/
def negV (neg : β → β) : Val β → Val β
  | .nan => .nan
  | .num b => .num (neg b)

def Val.isNaN : Val β → Bool
  | .nan => true
  | .num _ => false

/-- `{m.metric_id: m.value for m in metrics}[m]`: the last entry wins -/
def lookupLast {ν : Type} (l : List (μ × ν)) (m : μ) : Option ν :=
  (l.reverse.find? (fun e => e.1 = m)).map (·.2)

/-! ### ListOptimalTrials -/

/-- a stored trial as `ListOptimalTrials` reads it -/
structure STrial (μ β : Type) where
  id : Nat
  state : TState
  final : List (μ × Val β)        -- final_measurement.metrics ([] when there is none)
  deriving DecidableEq

/-- the sign-flipped objective vector of a trial (missing metric: unreachable for
considered trials, NaN here) -/
def objVec (neg : β → β) (spec : List (μ × Goal)) (t : STrial μ β) : List (Val β) :=
  spec.map fun mg =>
    let v := (lookupLast t.final mg.1).getD .nan
    match mg.2 with
    | .minimize => negV neg v
    | .maximize => v

/-- "Add trials ONLY if they succeeded and contain all supposed metrics."
`skipNaN = true` is the proposed fix: a NaN objective is not a value. -/
def considered (skipNaN : Bool) (spec : List (μ × Goal)) (t : STrial μ β) : Bool :=
  decide (t.state = .succeeded) &&
    spec.all (fun mg => (lookupLast t.final mg.1).isSome) &&
    (!skipNaN || spec.all (fun mg => !((lookupLast t.final mg.1).getD .nan).isNaN))

/-- `ListOptimalTrials`; `spec` = `study_spec.metrics` (distinct ids, all metrics incl.
safety metrics are objectives here, as in the code) -/
def listOptimal (c : Cmp β) (neg : β → β) (skipNaN : Bool) (spec : List (μ × Goal))
    (trials : List (STrial μ β)) : List (STrial μ β) :=
  if trials.isEmpty then []
  else
    let consideredTrials := trials.filter (considered skipNaN spec)
    let ys := consideredTrials.map (objVec neg spec)
    -- dominated[j][i] = all(ys[i] <= ys[j]) & any(ys[j] > ys[i]);  optimal = ~any(dominated, axis=0)
    let optimalBooleans := ys.map fun yi => !(ys.any fun yj => allLe c.val yi yj && anyGt c.val yj yi)
    ((consideredTrials.zip optimalBooleans).filter (·.2)).map (·.1)


/-! ### the definition (what the property says), executable; no `neg`, no NaN arithmetic -/

/-- the number a stored trial reports for metric `m`, if any -/
def numOf (final : List (μ × Val β)) (m : μ) : Option β :=
  match lookupLast final m with
  | some (.num b) => some b
  | _ => none

/-- `a` is at least as good as `b` under goal `g` -/
def betterEq (c : Cmp β) : Goal → β → β → Bool
  | .maximize, a, b => c.le b a
  | .minimize, a, b => c.le a b

/-- `a` is strictly better than `b` under goal `g` -/
def better (c : Cmp β) : Goal → β → β → Bool
  | .maximize, a, b => c.gt a b
  | .minimize, a, b => c.gt b a

/-- completed successfully and reports a number for every configured metric -/
def eligible (spec : List (μ × Goal)) (t : STrial μ β) : Bool :=
  decide (t.state = .succeeded) && spec.all fun mg => (numOf t.final mg.1).isSome

/-- `t'` dominates `t` under the configured goals -/
def dominatesG (c : Cmp β) (spec : List (μ × Goal)) (f' f : List (μ × Val β)) : Bool :=
  (spec.all fun mg => match numOf f' mg.1, numOf f mg.1 with
    | some a, some b => betterEq c mg.2 a b | _, _ => false) &&
  (spec.any fun mg => match numOf f' mg.1, numOf f mg.1 with
    | some a, some b => better c mg.2 a b | _, _ => false)

/-- the optimal trials by definition: eligible and dominated by no eligible trial -/
def optimalDef (c : Cmp β) (spec : List (μ × Goal)) (trials : List (STrial μ β)) : List (STrial μ β) :=
  trials.filter fun t =>
    eligible spec t && !trials.any fun t' => eligible spec t' && dominatesG c spec t'.final t.final

/-! ### GetBestTrials -/

/-- a pyvizier trial as `GetBestTrials` reads it: `final = none` while unfinished (and
for infeasible trials completed without a measurement) -/
structure PTrial (μ β : Type) where
  id : Nat
  infeasible : Bool
  final : Option (List (μ × Val β))      -- Measurement.metrics is a dict: keys distinct
  deriving DecidableEq

structure OrderOps (β : Type) where
  cmp : Cmp β
  neg : β → β
  top : β
  bot : β

/-- `SafetyChecker.are_trials_safe` for one trial; `safety` = (name, goal, threshold) -/
def isSafe (o : OrderOps β) (safety : List (μ × Goal × β)) (t : PTrial μ β) : Bool :=
  let metrics := t.final.getD []
  safety.all fun s =>
    match lookupLast metrics s.1 with
    | none => true
    | some v =>
      match s.2.1 with
      | .maximize => o.cmp.val.le (.num s.2.2) v       -- metric_value >= threshold
      | .minimize => o.cmp.val.le v (.num s.2.2)       -- metric_value <= threshold

/-- the value `warp_unsafe_trials` writes for metric `k` of an unsafe trial: the worst value
for objectives, unchanged otherwise -/
def worstVal (o : OrderOps β) (objs : List (μ × Goal)) (k : μ) (v : Val β) : Val β :=
  match objs.lookup k with
  | some .minimize => .num o.top
  | some .maximize => .num o.bot
  | none => v

/-- `warp_unsafe_trials` on the final measurement of one trial -/
def warp (o : OrderOps β) (objs : List (μ × Goal)) (safety : List (μ × Goal × β)) (t : PTrial μ β) :
    Option (List (μ × Val β)) :=
  if isSafe o safety t then t.final
  else t.final.map fun ms => ms.map fun kv => (kv.1, worstVal o objs kv.1 kv.2)

/-- one row of `converter.to_labels(warped_trials)` (objective metrics only, sign flipped) -/
def labelRow (o : OrderOps β) (objs : List (μ × Goal)) (safety : List (μ × Goal × β)) (t : PTrial μ β) :
    List (Val β) :=
  let metrics := (warp o objs safety t).getD []
  objs.map fun mg =>
    let v := (lookupLast metrics mg.1).getD .nan
    match mg.2 with
    | .minimize => negV o.neg v
    | .maximize => v

/-! ### the definition for the in-memory query -/

/-- completed, feasible, and reports a number for every objective -/
def eligibleP (objs : List (μ × Goal)) (t : PTrial μ β) : Bool :=
  !t.infeasible && t.final.isSome &&
    objs.all fun mg => (numOf (t.final.getD []) mg.1).isSome

/-- the measurement used for ranking: objectives of an unsafe trial count as the worst value -/
def rankFinal (o : OrderOps β) (objs : List (μ × Goal)) (safety : List (μ × Goal × β)) (t : PTrial μ β) :
    List (μ × Val β) := (warp o objs safety t).getD []

def bestDef (o : OrderOps β) (objs : List (μ × Goal)) (safety : List (μ × Goal × β))
    (trials : List (PTrial μ β)) : List (PTrial μ β) :=
  trials.filter fun t =>
    eligibleP objs t && !trials.any fun t' =>
      eligibleP objs t' && dominatesG o.cmp objs (rankFinal o objs safety t') (rankFinal o objs safety t)

/-- ascending order used by `np.argsort` on floats: NaN sorts last -/
def nanLast (c : Cmp β) : Cmp (Val β) where
  gt | .nan, .num _ => true | .num a, .num b => c.gt a b | _, _ => false
  le | _, .nan => true | .num a, .num b => c.le a b | .nan, .num _ => false
  eq | .nan, .nan => true | .num a, .num b => c.eq a b | _, _ => false

/-- the longest prefix of `l` whose key equals (`c.eq`) the key of the first element; an empty
list stays empty.  On a list sorted by `key` these are all elements with the smallest key. -/
def tiedPrefix {γ κ : Type} (c : Cmp κ) (key : γ → κ) : List γ → List γ
  | [] => []
  | x :: xs => x :: xs.takeWhile fun y => c.eq (key y) (key x)

/-- `GetBestTrials(count)`.  Multi-objective: `FastParetoOptimalAlgorithm()` has
`recursive_threshold = 10000`, below which it is its base (naive) algorithm; the model
is for studies of at most 10000 trials.  Single objective: `argsort(-labels)[:count or 1]`
(stable here; ties are "broken arbitrarily" by numpy).  `none` = ValueError.
`filterEligible = false` is the code as written (all trials of the study enter the
ranking); `true` is the proposed fix (only completed feasible trials reporting a number
for every objective).
`allTied` only matters for a single objective with `count = none` (docstring: "If `count` is
unset, returns all tied top trials"): `allTied = false` is `count = count or 1`, i.e. ONE trial
even when several attain the best value; `allTied = true` is the repair: `sorted[:k]` with `k`
the number of labels equal to the best one, i.e. the longest prefix of the sorted list whose
key equals — in the comparison the sort uses, `(nanLast o.cmp).eq` — the key of its first
element.  An explicit `count` (and `count = 0`, which `or` turns into 1) is `sorted[:count]`
under both variants. -/
def getBest (o : OrderOps β) (objs : List (μ × Goal)) (safety : List (μ × Goal × β))
    (filterEligible : Bool) (allTied : Bool) (count : Option Nat) (allTrials : List (PTrial μ β)) :
    Option (List (PTrial μ β)) :=
  if objs.isEmpty then none
  else
    let trials := if filterEligible then allTrials.filter (eligibleP objs) else allTrials
    let labels := trials.map (labelRow o objs safety)
    if objs.length = 1 then
      let keyed := trials.zip (labels.map fun r => negV o.neg (r.headD .nan))
      let sorted := sortBy (nanLast o.cmp) (·.2) keyed
      let top := match count with
        | some (n + 1) => sorted.take (n + 1)
        | some 0 => sorted.take 1                                        -- count or 1
        | none => if allTied then tiedPrefix (nanLast o.cmp) (·.2) sorted else sorted.take 1
      some (top.map (·.1))
    else
      let isOptimal := naive o.cmp.val labels
      let best := ((trials.zip isOptimal).filter (·.2)).map (·.1)
      some (match count with | some n => best.take n | none => best)

end VizierModel.Pareto
