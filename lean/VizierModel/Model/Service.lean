/-
M1 — model of the Vizier service: `vizier_service.py` (every RPC body, statement by
statement, local-context semantics: `grpc_util.handle_exception` raises) over a
datastore state that mirrors `ram_datastore.py` / `sql_datastore.py`.
Core Lean only.

Opaque data (parameters, measurements, study spec) are `Nat` tokens: the service
never looks inside them.  The Pythia algorithm is not modelled: each `suggest` /
`earlyStop` request carries the *outcome the algorithm would produce if it were
consulted* (`AlgOutcome`, `EsOutcome`), so a theorem over all request lists is a
theorem over all algorithm behaviours (exact, over-, under-delivery, failure at
the k-th call, state-dependent, …).

`Cfg` holds the variant flags (DESIGN 2.4); `Cfg.fixed` is the intended behaviour,
the other values describe the code at the pinned commit and are identified on the
real tree by replaying the counterexample witnesses.
-/
import VizierModel.Model.Meta

namespace VizierModel.Svc
open VizierModel

abbrev K := String × String
abbrev MD := List (K × String)

inductive TState where
  | requested | active | stopping | succeeded | infeasible
  deriving DecidableEq, Repr, Inhabited

inductive SState where
  | unspecified | active | inactive | completed
  deriving DecidableEq, Repr, Inhabited

structure Meas where
  tok : Nat
  hasMetrics : Bool        -- `request.final_measurement.metrics` truthiness
  deriving DecidableEq, Repr, Inhabited

structure Trial where
  id : Nat
  state : TState
  client : String          -- "" = unset
  params : Nat
  meas : List Meas
  final : Option Meas
  reason : String          -- infeasible_reason
  md : MD
  deriving DecidableEq, Repr, Inhabited

inductive OpResult where
  | none
  | trials (ids : List Nat)     -- SuggestTrialsResponse: the trials handed out (by id; snapshots compared separately)
  | error                       -- op.error set (code INTERNAL)
  deriving DecidableEq, Repr, Inhabited

structure SugOp where
  client : String
  num : Nat
  done : Bool
  result : OpResult
  deriving DecidableEq, Repr, Inhabited

structure EsOp where
  trialId : Nat
  active : Bool            -- status ACTIVE (true) / DONE (false)
  shouldStop : Bool
  deriving DecidableEq, Repr, Inhabited

structure Study where
  owner : String
  sid : String             -- study_id = display_name
  state : SState
  spec : Nat               -- opaque study spec token
  md : MD                  -- study_spec.metadata
  trials : List Trial      -- datastore order (= creation order)
  sugOps : List SugOp      -- creation order
  esOps : List EsOp
  deriving DecidableEq, Repr, Inhabited

structure DB where
  owners : List String                       -- owners ever seen (list_studies: NotFound vs [])
  studies : List Study                       -- creation order
  /-- SQL only, legacy variant: operation rows that `delete_study` left behind -/
  orphans : List ((String × String) × List SugOp × List EsOp)
  deriving Repr, Inhabited

def DB.empty : DB := { owners := [], studies := [], orphans := [] }

/-- variant flags -/
structure Cfg where
  /-- `SuggestTrials` reports every algorithm exception as an operation error (fixed) rather
      than only `grpc.RpcError` (pinned commit) -/
  suggestCatchesAll : Bool
  /-- a short delivery is handed out as it is (fixed) rather than `new_trials.pop()` raising
      `IndexError` (pinned commit) -/
  shortDeliveryOk : Bool
  /-- `delete_study` removes the study's operation records (RAM always; SQL when fixed) -/
  deleteCascadesOps : Bool
  /-- `update_metadata` is all-or-nothing (SQL always; RAM when fixed) -/
  metadataAtomic : Bool
  /-- early-stopping recycle: `true` = period 0 (a DONE operation is always recomputed),
      `false` = period ∞ (a DONE operation is always reused) -/
  esRecycle : Bool
  /-- an exception from the early-stopping algorithm finishes the operation (fixed) rather than
      leaving it ACTIVE (pinned commit) -/
  esFailureFinishesOp : Bool
  /-- `CreateTrial` keeps a trial given as INFEASIBLE completed (fixed) rather than putting it into the
      REQUESTED pool like an unfinished one (pinned commit: only SUCCEEDED was kept) -/
  createKeepsInfeasible : Bool := true
  /-- `CheckTrialEarlyStoppingState` finishes the checked trial's operation record also when the algorithm's
      answer cannot be applied (its metadata delta is refused) or holds no decision for that trial (fixed);
      at the pinned commit the record stays ACTIVE in both cases -/
  esAnswerFinishesOp : Bool := true
  /-- `SuggestTrials` RESUMES an operation of the asking worker that is not done (only a server that died
      inside `SuggestTrials` leaves one): it runs the same steps as for a fresh operation, with the abandoned
      operation's number and without `create_suggestion_operation` (fixed); at the pinned commit the
      abandoned operation is returned unchanged, for ever -/
  resumesAbandonedOp : Bool := true
  /-- `CheckTrialEarlyStoppingState` treats an ACTIVE record it finds under the operation lock like a stale one
      and RECOMPUTES it (only a server that died inside the call, or an algorithm raising a BaseException, leaves
      one): the stored answer is returned only for a finished, recent record (fixed); at the pinned commit an
      ACTIVE record answers every later check, for ever -/
  esResumesActive : Bool := true
  deriving Repr, DecidableEq

def Cfg.fixed : Cfg :=
  { suggestCatchesAll := true, shortDeliveryOk := true, deleteCascadesOps := true,
    metadataAtomic := true, esRecycle := true, esFailureFinishesOp := true }

/-! ### errors and responses -/

/-- gRPC status code set by `handle_exception`, or the Python exception type escaping raw -/
inductive Code where
  | failedPrecondition | notFound | alreadyExists | unknown    -- status codes
  | runtimeError | indexError | typeError | valueError         -- raw exception types
  deriving DecidableEq, Repr, Inhabited

/-- `handled` = went through `grpc_util.handle_exception` (LocalRpcError with that code);
    `raw` = the Python exception itself escapes the servicer -/
inductive Via where
  | handled | raw
  deriving DecidableEq, Repr, Inhabited

inductive Resp where
  | study (s : Study)
  | studies (l : List Study)
  | trial (t : Trial)
  | trials (l : List Trial)
  | op (client : String) (o : SugOp) (handed : List Trial)   -- operation + snapshots of the trials in its response
  | empty
  | earlyStop (shouldStop : Bool)
  | mdOk
  | mdError                                   -- UpdateMetadataResponse.error_details set
  | err (c : Code) (v : Via)
  deriving Repr, Inhabited

/-! ### algorithm outcomes (what Pythia would answer) -/

structure Sugg where
  params : Nat
  md : MD
  deriving Repr, Inhabited

inductive AlgOutcome where
  | suggestions (l : List Sugg) (delta : List (Meta.Upd K String))
  | raisesRpc        -- grpc.RpcError (remote Pythia)
  | raisesOther      -- any other exception (in-process PythiaServicer raises RuntimeError)
  deriving Inhabited

inductive EsOutcome where
  | decisions (l : List (Nat × Bool)) (delta : List (Meta.Upd K String))
  | raises
  deriving Inhabited

/-! ### requests -/

inductive Req where
  | createStudy (owner : String) (display : String) (nameSet : Bool) (state : SState) (spec : Nat) (md : MD)
  | getStudy (owner sid : String)
  | listStudies (owner : String)
  | deleteStudy (owner sid : String)
  | setStudyState (owner sid : String) (st : SState)
  | createTrial (owner sid : String) (t : Trial)        -- id / client of `t` are ignored
  | suggest (owner sid : String) (client : String) (count : Nat) (alg : AlgOutcome)
  | getOperation (owner sid : String) (client : String) (num : Nat)
  | getTrial (owner sid : String) (id : Nat)
  | listTrials (owner sid : String)
  | addMeasurement (owner sid : String) (id : Nat) (m : Meas)
  | complete (owner sid : String) (id : Nat) (final : Option Meas) (infeasible : Bool) (reason : String)
  | stop (owner sid : String) (id : Nat)
  | deleteTrial (owner sid : String) (id : Nat)
  | checkEarlyStop (owner sid : String) (id : Nat) (es : EsOutcome)
  | updateMetadata (owner sid : String) (us : List (Meta.Upd K String))
  | listOptimal (owner sid : String)
  deriving Inhabited

/-! ### datastore primitives -/

def isStudy (o s : String) (st : Study) : Bool := st.owner == o && st.sid == s

def findStudy (db : DB) (o s : String) : Option Study := db.studies.find? (isStudy o s)

def putStudy (db : DB) (st : Study) : DB :=
  { db with studies := db.studies.map fun x => if isStudy st.owner st.sid x then st else x }

def Study.findTrial (st : Study) (id : Nat) : Option Trial := st.trials.find? (·.id == id)

def Study.putTrial (st : Study) (t : Trial) : Study :=
  { st with trials := st.trials.map fun x => if x.id == t.id then t else x }

/-- `max_trial_id` -/
def Study.maxTrialId (st : Study) : Nat := st.trials.foldl (fun m t => max m t.id) 0

/-- `create_trial` (the id is fresh by construction: `max_trial_id + 1`) -/
def Study.addTrial (st : Study) (t : Trial) : Study := { st with trials := st.trials ++ [t] }

def Study.immutable (st : Study) : Bool :=
  !(st.state == .active || st.state == .unspecified)

def TState.mutable (s : TState) : Bool := s == .active || s == .stopping

/-- metadata view of one study for the `Meta` model -/
def Study.toStore (st : Study) : Meta.Store K String :=
  { study := st.md, trials := st.trials.map fun t => (t.id, t.md) }

def Study.ofStore (st : Study) (s : Meta.Store K String) : Study :=
  { st with md := s.study,
            trials := st.trials.map fun t =>
              match s.trials.find? (·.1 == t.id) with
              | some e => { t with md := e.2 }
              | none => t }

/-- `datastore.update_metadata` on an existing study -/
def Study.updateMetadata (cfg : Cfg) (st : Study) (us : List (Meta.Upd K String)) : Bool × Study :=
  if cfg.metadataAtomic then
    match Meta.updateAtomic Meta.keyLt st.toStore us with
    | .ok s => (true, st.ofStore s)
    | .error _ => (false, st)
  else
    let (r, s) := Meta.updateRamLegacy Meta.keyLt st.toStore us
    (match r with | .ok _ => true | .error _ => false, st.ofStore s)

/-! ### RPC bodies (one study) -/

def opsOf (st : Study) (client : String) : List SugOp := st.sugOps.filter (·.client == client)

def Study.putOp (st : Study) (o : SugOp) : Study :=
  { st with sugOps := st.sugOps.map fun x => if x.client == o.client && x.num == o.num then o else x }

/-- assign requested trials from the END of the pool (`requested_trials.pop()`) -/
def assignRequested (client : String) : (need : Nat) → List Trial → List Trial
  | 0, _ => []
  | _, [] => []
  | n + 1, pool =>
    match pool.getLast? with
    | none => []
    | some t => { t with state := .active, client := client } :: assignRequested client n pool.dropLast

/-- the `while request.suggestion_count > len(output_trials): new_trials.pop()` loop together with
    the surplus loop; returns (created ACTIVE trials in hand-out order, surplus REQUESTED trials,
    ran out of suggestions) -/
def newTrial (id : Nat) (state : TState) (client : String) (s : Sugg) : Trial :=
  { id := id, state := state, client := client, params := s.params, meas := [], final := none,
    reason := "", md := s.md }

def takeFromEnd (client : String) : (need : Nat) → (nextId : Nat) → List Sugg → List Trial × List Sugg × Bool
  | 0, _, rest => ([], rest, false)
  | _ + 1, _, [] => ([], [], true)
  | n + 1, nextId, l@(_ :: _) =>
    match l.getLast? with
    | none => ([], [], true)
    | some s =>
      let (ts, rest, short) := takeFromEnd client n (nextId + 1) l.dropLast
      (newTrial nextId .active client s :: ts, rest, short)

def surplus : (nextId : Nat) → List Sugg → List Trial
  | _, [] => []
  | nextId, s :: rest => newTrial nextId .requested "" s :: surplus (nextId + 1) rest

def trialsByIds (st : Study) (ids : List Nat) : List Trial := ids.filterMap st.findTrial

/-- finish the operation successfully with the given trials in its response -/
def finishOp (op0 : SugOp) (st : Study) (handed : List Trial) : Resp × Study :=
  let o := { op0 with done := true, result := .trials (handed.map (·.id)) }
  (.op op0.client o handed, st.putOp o)

/-- finish the operation with an error status -/
def failOp (op0 : SugOp) (st : Study) : Resp × Study :=
  let o := { op0 with done := true, result := .error }
  (.op op0.client o [], st.putOp o)

/-- store the suggestions: hand out from the END of the list (`new_trials.pop()`), queue the
    surplus as REQUESTED -/
def createStage (cfg : Cfg) (op0 : SugOp) (st : Study) (need : Nat) (out : List Trial) (sugg : List Sugg) :
    Resp × Study :=
  let (created, rest, short) := takeFromEnd op0.client need (st.maxTrialId + 1) sugg
  if short && !cfg.shortDeliveryOk then
    -- `new_trials.pop()` on an empty list: IndexError after the trials created so far
    (.err .indexError .raw, { st with trials := st.trials ++ created })
  else
    let st1 := { st with trials := st.trials ++ created }
    let extra := surplus (st1.maxTrialId + 1) rest
    finishOp op0 { st1 with trials := st1.trials ++ extra } (out ++ created)

/-- consult Pythia (its answer is `alg`) for the missing `need` trials -/
def pythiaStage (cfg : Cfg) (op0 : SugOp) (st : Study) (need : Nat) (out : List Trial) (alg : AlgOutcome) :
    Resp × Study :=
  match alg with
  | .raisesRpc => failOp op0 st
  | .raisesOther =>
    if cfg.suggestCatchesAll then failOp op0 st
    else (.err .runtimeError .raw, st)         -- escapes; the operation stays done=false
  | .suggestions sugg delta =>
    let r := st.updateMetadata cfg delta
    if !r.1 then failOp op0 r.2
    else createStage cfg op0 r.2 need out sugg

/-- `SuggestTrials` once the operation record `op0` exists (`st` already holds it in `sugOps`): count the
    worker's ACTIVE trials, take REQUESTED ones, ask the algorithm for the rest, finish the operation
    (`update_suggestion_operation` with `op0`'s worker and number) -/
def suggestRest (cfg : Cfg) (op0 : SugOp) (st : Study) (client : String) (count : Nat) (alg : AlgOutcome) :
    Resp × Study :=
  let active := st.trials.filter fun t => t.state == .active && t.client == client
  if active.length ≥ count then finishOp op0 st (active.take count)
  else
    let pool := st.trials.filter (·.state == .requested)
    let assigned := assignRequested client (count - active.length) pool
    let st := assigned.foldl Study.putTrial st
    let out := active ++ assigned
    if out.length == count then finishOp op0 st out
    else pythiaStage cfg op0 st (count - out.length) out alg

/-- `SuggestTrials` after the immutability check, under the operation lock -/
def suggestBody (cfg : Cfg) (st : Study) (client : String) (count : Nat) (alg : AlgOutcome) : Resp × Study :=
  let ops := opsOf st client
  match ops.find? (fun o => !o.done) with
  | some o =>
    -- an operation of this worker that is not done: left behind by a server that died inside SuggestTrials
    if cfg.resumesAbandonedOp then
      -- `output_op = active_op_list[0]`, then the steps of a fresh operation; no `create_suggestion_operation`
      suggestRest cfg { o with client := client } st client count alg
    else (.op client o (match o.result with | .trials ids => trialsByIds st ids | _ => []), st)
  | none =>
    let op0 : SugOp := { client := client, num := ops.length + 1, done := false, result := .none }
    suggestRest cfg op0 { st with sugOps := st.sugOps ++ [op0] } client count alg

def esOpOf (st : Study) (id : Nat) : Option EsOp := st.esOps.find? (·.trialId == id)

def Study.putEsOp (st : Study) (o : EsOp) : Study :=
  match esOpOf st o.trialId with
  | some _ => { st with esOps := st.esOps.map fun x => if x.trialId == o.trialId then o else x }
  | none => { st with esOps := st.esOps ++ [o] }

def applyDecisions (st : Study) : List (Nat × Bool) → Study
  | [] => st
  | (id, stop) :: rest => applyDecisions (st.putEsOp { trialId := id, active := false, shouldStop := stop }) rest

/-- the finished record of a check that produced no decision for the checked trial -/
def esDone (id : Nat) : EsOp := { trialId := id, active := false, shouldStop := false }

/-- the part of `CheckTrialEarlyStoppingState` after the operation record is ACTIVE: consult
    Pythia (its answer is `es`), store its metadata and decisions, read the record back -/
def esCompute (cfg : Cfg) (st : Study) (id : Nat) (es : EsOutcome) : Resp × Study :=
  match es with
  | .raises =>
    if cfg.esFailureFinishesOp then
      (.err .runtimeError .raw, st.putEsOp { trialId := id, active := false, shouldStop := false })
    else (.err .runtimeError .raw, st)         -- the operation stays ACTIVE
  | .decisions ds delta =>
    let r := st.updateMetadata cfg delta
    if !r.1 then
      -- NotFoundError from update_metadata escapes; the repaired service finishes the record first
      (.err .notFound .raw, if cfg.esAnswerFinishesOp then r.2.putEsOp (esDone id) else r.2)
    else
      let st3 := applyDecisions r.2 ds
      match esOpOf st3 id with
      | some o =>
        -- still ACTIVE = the algorithm gave no decision for the checked trial
        if o.active && cfg.esAnswerFinishesOp then (.earlyStop false, st3.putEsOp (esDone id))
        else (.earlyStop o.shouldStop, st3)
      | none => (.err .notFound .raw, st3)

/-- does `CheckTrialEarlyStoppingState` answer from the stored record `o`?  Repaired: only a finished and
    recent record (`status != ACTIVE and recent`); pinned commit: an ACTIVE record or a recent one -/
def esReturnsStored (cfg : Cfg) (o : EsOp) : Bool :=
  if cfg.esResumesActive then (!o.active && !cfg.esRecycle) else (o.active || !cfg.esRecycle)

/-- `CheckTrialEarlyStoppingState` after the immutability check -/
def earlyStopBody (cfg : Cfg) (st : Study) (id : Nat) (es : EsOutcome) : Resp × Study :=
  match st.findTrial id with
  | none => (.err .notFound .raw, st)
  | some t =>
    if !t.state.mutable then (.err .failedPrecondition .handled, st)
    else
      match esOpOf st id with
      | none => esCompute cfg (st.putEsOp { trialId := id, active := true, shouldStop := false }) id es
      | some o =>
        if esReturnsStored cfg o then (.earlyStop o.shouldStop, st)
        else esCompute cfg (st.putEsOp { o with active := true, shouldStop := false }) id es

/-- selection of the final measurement in `CompleteTrial`; `none` = the ValueError branch -/
def chooseFinal (t : Trial) (final : Option Meas) (infeasible : Bool) : Option Trial :=
  let fromRequest : Option Meas := match final with | some m => if m.hasMetrics then some m else none | none => none
  match fromRequest with
  | some m => some { t with final := some m }
  | none =>
    if infeasible then some t
    else match t.meas.getLast? with
      | some l => some { t with final := some l }
      | none => none

def markCompleted (t : Trial) (infeasible : Bool) (reason : String) : Trial :=
  if infeasible then { t with state := .infeasible, reason := reason } else { t with state := .succeeded }

def completeBody (st : Study) (id : Nat) (final : Option Meas) (infeasible : Bool) (reason : String) : Resp × Study :=
  match st.findTrial id with
  | none => (.err .notFound .raw, st)
  | some t =>
    if !t.state.mutable then (.err .failedPrecondition .handled, st)
    else
      match chooseFinal t final infeasible with
      | none => (.err .unknown .handled, st)      -- ValueError: no measurement to select
      | some t1 =>
        let t2 := markCompleted t1 infeasible reason
        (.trial t2, st.putTrial t2)

def addMeasurementBody (st : Study) (id : Nat) (m : Meas) : Resp × Study :=
  match st.findTrial id with
  | none => (.err .notFound .raw, st)
  | some t =>
    if t.state == .infeasible then (.trial t, st)
    else if !t.state.mutable then (.err .failedPrecondition .handled, st)
    else
      let t := { t with meas := t.meas ++ [m] }
      (.trial t, st.putTrial t)

def stopBody (st : Study) (id : Nat) : Resp × Study :=
  match st.findTrial id with
  | none => (.err .notFound .raw, st)
  | some t =>
    if t.state == .active then
      let t := { t with state := .stopping }
      (.trial t, st.putTrial t)
    else if t.state == .stopping || t.state == .succeeded then (.trial t, st)
    else (.err .failedPrecondition .handled, st)

def createTrialBody (keepInf : Bool) (st : Study) (t : Trial) : Resp × Study :=
  let t := { t with id := st.maxTrialId + 1,
                    state := if t.state == .succeeded then .succeeded
                             else if keepInf && t.state == .infeasible then .infeasible else .requested,
                    client := "" }
  (.trial t, st.addTrial t)

def deleteTrialBody (st : Study) (id : Nat) : Resp × Study :=
  match st.findTrial id with
  | none => (.err .notFound .raw, st)
  | some _ => (.empty, { st with trials := st.trials.filter (·.id != id) })

/-! ### the servicer -/

/-- run a one-study RPC body: a missing study is a raw `NotFoundError` (from `load_study` in
    `_study_is_immutable`), an immutable study a handled `FAILED_PRECONDITION` when `guard` -/
def onStudy (db : DB) (o s : String) (guard : Bool) (f : Study → Resp × Study) : Resp × DB :=
  match findStudy db o s with
  | none => (.err .notFound .raw, db)
  | some st =>
    if guard && st.immutable then (.err .failedPrecondition .handled, db)
    else
      let r := f st
      (r.1, putStudy db r.2)

def maxStudyId : Nat := 1000000000   -- constants.MAX_STUDY_ID (never reached by the harness)

def step (cfg : Cfg) (db : DB) : Req → Resp × DB
  | .createStudy owner display nameSet state spec md =>
    if nameSet then (.err .unknown .handled, db)
    else if display == "" then (.err .unknown .handled, db)
    else
      match db.studies.find? (fun st => st.owner == owner && st.sid == display) with
      | some st => (.study st, db)
      | none =>
        let restored := if cfg.deleteCascadesOps then none else db.orphans.find? (·.1 == (owner, display))
        let st : Study := { owner := owner, sid := display, state := state, spec := spec, md := md, trials := [],
                            sugOps := (restored.map (·.2.1)).getD [], esOps := (restored.map (·.2.2)).getD [] }
        (.study st, { db with owners := if db.owners.contains owner then db.owners else db.owners ++ [owner],
                              studies := db.studies ++ [st],
                              orphans := db.orphans.filter (·.1 != (owner, display)) })
  | .getStudy o s => onStudy db o s false fun st => (.study st, st)
  | .listStudies o =>
    if db.owners.contains o then (.studies (db.studies.filter (·.owner == o)), db)
    else (.err .notFound .raw, db)
  | .deleteStudy o s =>
    match findStudy db o s with
    | none => (.err .notFound .raw, db)
    | some st =>
      (.empty, { db with studies := db.studies.filter (fun x => !isStudy o s x),
                         orphans := if cfg.deleteCascadesOps then db.orphans
                                    else db.orphans.filter (·.1 != (o, s)) ++ [((o, s), st.sugOps, st.esOps)] })
  | .setStudyState o s stt => onStudy db o s false fun st => let st := { st with state := stt }; (.study st, st)
  | .createTrial o s t => onStudy db o s true fun st => createTrialBody cfg.createKeepsInfeasible st t
  | .suggest o s client count alg => onStudy db o s true fun st => suggestBody cfg st client count alg
  | .getOperation o s client num =>
    match (if cfg.deleteCascadesOps then none else
            if (findStudy db o s).isSome then none else db.orphans.find? (·.1 == (o, s))) with
    | some orphan =>
      -- SQL at the pinned commit: the operation rows of a deleted study are still served
      match (orphan.2.1.filter (·.client == client)).find? (·.num == num) with
      | some op => (.op client op [], db)
      | none => (.err .notFound .raw, db)
    | none =>
    onStudy db o s false fun st =>
      match (opsOf st client).find? (·.num == num) with
      | some op => (.op client op (match op.result with | .trials ids => trialsByIds st ids | _ => []), st)
      | none => (.err .notFound .raw, st)
  | .getTrial o s id => onStudy db o s false fun st =>
      match st.findTrial id with | some t => (.trial t, st) | none => (.err .notFound .raw, st)
  | .listTrials o s => onStudy db o s false fun st => (.trials st.trials, st)
  | .addMeasurement o s id m => onStudy db o s true fun st => addMeasurementBody st id m
  | .complete o s id final inf reason => onStudy db o s true fun st => completeBody st id final inf reason
  | .stop o s id => onStudy db o s true fun st => stopBody st id
  | .deleteTrial o s id => onStudy db o s true fun st => deleteTrialBody st id
  | .checkEarlyStop o s id es => onStudy db o s true fun st => earlyStopBody cfg st id es
  | .updateMetadata o s us => onStudy db o s true fun st =>
      let (ok, st') := st.updateMetadata cfg us
      (if ok then .mdOk else .mdError, st')
  | .listOptimal o s => onStudy db o s false fun st => (.trials [], st)   -- content is C11's subject

def run (cfg : Cfg) (db : DB) (h : List Req) : DB := h.foldl (fun d r => (step cfg d r).2) db

end VizierModel.Svc
