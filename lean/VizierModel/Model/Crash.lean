/-
M3 — crash model for the SQL-backed service (C05).

Every write call of `sql_datastore.py` is one transaction: statements followed by exactly one
`commit()` (or a `rollback()` on its error branches); a crash (process death) loses the statements
since the last commit and keeps everything committed before (SQLite journal atomicity is trusted).
So what a restarted server finds after a crash *anywhere* inside an RPC is the state after some
PREFIX of the RPC's datastore write calls.  This file makes that prefix structure explicit:
`writes cfg db r` is the list of datastore writes the RPC issues (in order), `crashStates` the
states after each prefix.  `Write.apply` replays a write.  Core Lean only.
-/
import VizierModel.Model.Service

namespace VizierModel.Svc

/-- one committed datastore write call on a study -/
inductive Write where
  | createOp (o : SugOp)                               -- create_suggestion_operation
  | putOp (o : SugOp)                                  -- update_suggestion_operation
  | putTrial (t : Trial)                               -- update_trial
  | addTrial (t : Trial)                               -- create_trial
  | delTrial (id : Nat)                                -- delete_trial
  | metadata (us : List (Meta.Upd K String))           -- update_metadata (one transaction)
  | putEsOp (o : EsOp)                                 -- create/update_early_stopping_operation
  | setState (s : SState)                              -- update_study
  deriving Inhabited

def Write.apply (cfg : Cfg) (st : Study) : Write → Study
  | .createOp o => { st with sugOps := st.sugOps ++ [o] }
  | .putOp o => st.putOp o
  | .putTrial t => st.putTrial t
  | .addTrial t => st.addTrial t
  | .delTrial id => { st with trials := st.trials.filter (·.id != id) }
  | .metadata us => (st.updateMetadata cfg us).2
  | .putEsOp o => st.putEsOp o
  | .setState s => { st with state := s }

def applyWrites (cfg : Cfg) (st : Study) (ws : List Write) : Study := ws.foldl (Write.apply cfg) st

/-- the writes of `createStage` -/
def createWrites (cfg : Cfg) (op0 : SugOp) (st : Study) (need : Nat) (out : List Trial) (sugg : List Sugg) : List Write :=
  let r := takeFromEnd op0.client need (st.maxTrialId + 1) sugg
  if r.2.2 && !cfg.shortDeliveryOk then r.1.map .addTrial
  else
    let extra := surplus (st.maxTrialId + 1 + r.1.length) r.2.1
    r.1.map .addTrial ++ extra.map .addTrial ++
      [.putOp { op0 with done := true, result := .trials ((out ++ r.1).map (·.id)) }]

def failWrite (op0 : SugOp) : Write := .putOp { op0 with done := true, result := .error }

/-- the writes of `pythiaStage` -/
def pythiaWrites (cfg : Cfg) (op0 : SugOp) (st : Study) (need : Nat) (out : List Trial) (alg : AlgOutcome) : List Write :=
  match alg with
  | .raisesRpc => [failWrite op0]
  | .raisesOther => if cfg.suggestCatchesAll then [failWrite op0] else []
  | .suggestions sugg delta =>
    let r := st.updateMetadata cfg delta
    if !r.1 then [.metadata delta, failWrite op0]
    else .metadata delta :: createWrites cfg op0 r.2 need out sugg

/-- the writes of `suggestRest` (the operation record `op0` already exists) -/
def suggestRestWrites (cfg : Cfg) (op0 : SugOp) (st : Study) (client : String) (count : Nat) (alg : AlgOutcome) :
    List Write :=
  let active := st.trials.filter fun t => t.state == .active && t.client == client
  if active.length ≥ count then
    [.putOp { op0 with done := true, result := .trials ((active.take count).map (·.id)) }]
  else
    let pool := st.trials.filter (·.state == .requested)
    let assigned := assignRequested client (count - active.length) pool
    let st1 := assigned.foldl Study.putTrial st
    let out := active ++ assigned
    assigned.map .putTrial ++
      (if out.length == count then [.putOp { op0 with done := true, result := .trials (out.map (·.id)) }]
       else pythiaWrites cfg op0 st1 (count - out.length) out alg)

/-- the datastore writes of `SuggestTrials` (after the study checks), in order -/
def suggestWrites (cfg : Cfg) (st : Study) (client : String) (count : Nat) (alg : AlgOutcome) : List Write :=
  let ops := opsOf st client
  match ops.find? (fun o => !o.done) with
  | some o =>
    -- resuming an abandoned operation issues the writes of a fresh one except `create_suggestion_operation`
    if cfg.resumesAbandonedOp then suggestRestWrites cfg { o with client := client } st client count alg else []
  | none =>
    let op0 : SugOp := { client := client, num := ops.length + 1, done := false, result := .none }
    .createOp op0 :: suggestRestWrites cfg op0 { st with sugOps := st.sugOps ++ [op0] } client count alg

/-- the study states a restarted server can find after a crash inside `SuggestTrials` -/
def suggestCrashStates (cfg : Cfg) (st : Study) (client : String) (count : Nat) (alg : AlgOutcome) : List Study :=
  let ws := suggestWrites cfg st client count alg
  (List.range (ws.length + 1)).map fun k => applyWrites cfg st (ws.take k)

/-- writes storing one early-stopping decision: a missing record is first created ACTIVE, then set DONE -/
def decisionWrites (st : Study) : List (Nat × Bool) → List Write
  | [] => []
  | (id, stop) :: rest =>
    let fin : EsOp := { trialId := id, active := false, shouldStop := stop }
    (match esOpOf st id with
     | some _ => [Write.putEsOp fin]
     | none => [.putEsOp { trialId := id, active := true, shouldStop := false }, .putEsOp fin]) ++
    decisionWrites (st.putEsOp fin) rest

def esComputeWrites (cfg : Cfg) (st : Study) (id : Nat) (es : EsOutcome) : List Write :=
  match es with
  | .raises => if cfg.esFailureFinishesOp then [.putEsOp { trialId := id, active := false, shouldStop := false }] else []
  | .decisions ds delta =>
    let r := st.updateMetadata cfg delta
    if !r.1 then .metadata delta :: (if cfg.esAnswerFinishesOp then [.putEsOp (esDone id)] else [])
    else
      .metadata delta :: decisionWrites r.2 ds ++
        (match esOpOf (applyDecisions r.2 ds) id with
         | some o => if o.active && cfg.esAnswerFinishesOp then [.putEsOp (esDone id)] else []
         | none => [])

/-- the datastore writes of `CheckTrialEarlyStoppingState` (after the study check) -/
def esWrites (cfg : Cfg) (st : Study) (id : Nat) (es : EsOutcome) : List Write :=
  match st.findTrial id with
  | none => []
  | some t =>
    if !t.state.mutable then []
    else
      match esOpOf st id with
      | none =>
        let o : EsOp := { trialId := id, active := true, shouldStop := false }
        .putEsOp o :: esComputeWrites cfg (st.putEsOp o) id es
      | some o =>
        if esReturnsStored cfg o then []
        else
          let o' : EsOp := { o with active := true, shouldStop := false }
          .putEsOp o' :: esComputeWrites cfg (st.putEsOp o') id es

def prefixStates (cfg : Cfg) (st : Study) (ws : List Write) : List Study :=
  (List.range (ws.length + 1)).map fun k => applyWrites cfg st (ws.take k)

/-- database states after a crash at any point inside request `r` -/
def crashStates (cfg : Cfg) (db : DB) : Req → List DB
  | .suggest o s client count alg =>
    match findStudy db o s with
    | none => [db]
    | some st =>
      if st.immutable then [db]
      else (suggestCrashStates cfg st client count alg).map (putStudy db)
  | .checkEarlyStop o s id es =>
    match findStudy db o s with
    | none => [db]
    | some st =>
      if st.immutable then [db]
      else (prefixStates cfg st (esWrites cfg st id es)).map (putStudy db)
  | r => [db, (step cfg db r).2]     -- every other mutating RPC issues at most one write transaction

end VizierModel.Svc
