/-
M2 — concurrency model (C04), ANY NUMBER of threads.

`Model/Conc.lean` has the coarse semantics for two study-lock RPCs (`stepEv`): an unguarded study check
(`_study_is_immutable`, a read outside the lock) followed by a critical section that is atomic by mutual
exclusion.  Here the same semantics for a list `ts` of such RPCs: thread `i` is `ts[i]`, a schedule is a
list of events `chk i` / `body i`, the per-thread registers (`passA`, `respA`, …) become association
lists (newest entry first, `List.lookup` reads them).
Core Lean only.
-/
import VizierModel.Model.Conc

namespace VizierModel.Conc
open VizierModel.Svc

/-- event of thread `i`: its unguarded study check, or its critical section -/
inductive EvN where
  | chk (i : Nat)
  | body (i : Nat)
  deriving DecidableEq, Repr

structure CStateN where
  st : Study
  /-- result of thread `i`'s check (absent = not yet checked; read as `true`, as `CState.passA`) -/
  pass : List (Nat × Bool) := []
  /-- response of thread `i` once its section ran -/
  resp : List (Nat × Resp) := []

def CStateN.passOf (c : CStateN) (i : Nat) : Bool := (c.pass.lookup i).getD true

/-- as `stepEv`, thread `i` being `ts[i]`; an index out of range is a no-op -/
def stepN (ts : List Crit) (c : CStateN) : EvN → CStateN
  | .chk i =>
    match ts[i]? with
    | none => c
    | some t => { c with pass := (i, !(t.checks && c.st.immutable)) :: c.pass }
  | .body i =>
    match ts[i]? with
    | none => c
    | some t =>
      if c.passOf i then
        let r := t.body c.st
        { c with st := r.2, resp := (i, r.1) :: c.resp }
      else { c with resp := (i, refused) :: c.resp }

def runN (ts : List Crit) (st : Study) (evs : List EvN) : CStateN := evs.foldl (stepN ts) { st := st }

/-- a complete schedule of `n` threads: every thread `i < n` has exactly one `chk i` and exactly one
    `body i`, the check first (events of thread numbers `≥ n` are no-ops of `stepN` and are not
    constrained) -/
def Complete (n : Nat) (evs : List EvN) : Prop :=
  ∀ i, i < n → evs.count (.chk i) = 1 ∧ evs.count (.body i) = 1 ∧ evs.idxOf (.chk i) < evs.idxOf (.body i)

instance (n : Nat) (evs : List EvN) : Decidable (Complete n evs) := by
  unfold Complete; exact inferInstance

/-- the serial schedule of an order `π` (a list of thread numbers): `chk i`, `body i` for each `i` in turn -/
def serialN (π : List Nat) : List EvN := π.flatMap fun i => [.chk i, .body i]

/-- what is compared: what every caller observes, and the final study -/
def outcomeN (n : Nat) (c : CStateN) : List (Option Obs) × Study :=
  ((List.range n).map fun i => (c.resp.lookup i).map obs, c.st)

end VizierModel.Conc
