/-
Model of the search-space layer (C16, C17; shared with C03/C09/C15):
`vizier/_src/pyvizier/shared/trial.py` (`ParameterType.assert_correct_type`,
`ParameterValue.as_*`/`cast*`), `parameter_config.py` (`ParameterConfig.factory`,
`_validate_bounds`, `_get_default_value`, `_add_children`, `subspace`,
`get_subspace_deepcopy`, `_assert_feasible`, `contains`; the `add_*_param` builders,
`SearchSpace.add`, `is_conditional`, `assert_contains`, `contains`) and
`parameter_iterators.py` (`SequentialParameterBuilder`).  Core Lean only.

Python's value zoo is the sum type `PVal`.  A Python `float` is an exact rational or one
of the markers `nan | +inf | -inf` (`Flt`); a Python `int` is an `Int`; `bool` is kept
apart because `isinstance(True, int)` holds but `True` prints as `'True'`.  Comparisons
between numbers are Python's (exact between int and float, everything involving NaN is
false).  NOT modelled: `float(int)` rounding for |int| > 2^53, `float(str)`/`int(str)`
parsing (a string handed to a numeric coercion is the error `typeOrValue`: Python raises
`ValueError` when it does not parse and the code raises `TypeError` when it does),
`str(number)`, scale types and fidelity configs (passed through unvalidated by the code).

The conditional tree: a `ParameterConfig` holds `_children : dict[value, SearchSpace]`;
here `PC.kids` is the flattened view `[(value, child)]` in the order of
`child_parameter_configs` (dict order, then order inside the subspace); children under
one value are contiguous.  An *empty* subspace created by `select()` without a following
`add` is not represented (it is unobservable: `is_conditional`, equality and every
traversal skip it).
-/
namespace VizierModel.Space

/-! ## values -/

inductive Flt where
  | fin (q : Rat)
  | nan
  | pinf
  | ninf
  deriving DecidableEq, Repr

inductive PVal where
  | str (s : String)
  | int (i : Int)
  | flt (x : Flt)
  | bool (b : Bool)
  deriving DecidableEq, Repr

/-- exception classes that matter -/
inductive Err where
  | value          -- ValueError
  | type           -- TypeError
  | typeOrValue    -- a str reached float()/int(): ValueError or TypeError depending on whether it parses
  | notImplemented -- NotImplementedError
  | runtime        -- RuntimeError
  | overflow       -- OverflowError (int()/round() of an infinity)
  | index          -- IndexError
  | key            -- KeyError
  | invalidParam   -- InvalidParameterError (a ValueError subclass), internal to assert_contains
  deriving DecidableEq, Repr

/-- variant flags (DESIGN 2.4).  `intInfGuard = false` is the code as written:
`assert_correct_type` evaluates `int(value)` on an infinity and dies with OverflowError. -/
structure Cfg where
  intInfGuard : Bool
  /-- C17: `_trial_to_external_values` finds the parent of a child config by its NAME in the
  values seen so far (`true`, the code as written) or carries the parent's value along with
  the child (`false`) -/
  parentByName : Bool := true
  deriving DecidableEq, Repr

def Cfg.asWritten : Cfg := { intInfGuard := false, parentByName := true }
def Cfg.fixed : Cfg := { intInfGuard := true, parentByName := false }

def b2r (b : Bool) : Rat := if b then 1 else 0
def b2i (b : Bool) : Int := if b then 1 else 0

/-- the numeric view Python uses in comparisons; `none` for a `str` -/
def numOf : PVal → Option Flt
  | .int i => some (.fin i)
  | .bool b => some (.fin (b2r b))
  | .flt x => some x
  | .str _ => none

/-- the finite numeric view -/
def ratOf : PVal → Option Rat
  | .int i => some i
  | .bool b => some (b2r b)
  | .flt (.fin q) => some q
  | _ => none

def Flt.le : Flt → Flt → Bool
  | .nan, _ => false
  | _, .nan => false
  | .ninf, _ => true
  | _, .pinf => true
  | .pinf, _ => false
  | _, .ninf => false
  | .fin a, .fin b => decide (a ≤ b)

def Flt.beq : Flt → Flt → Bool
  | .fin a, .fin b => decide (a = b)
  | .pinf, .pinf => true
  | .ninf, .ninf => true
  | _, _ => false

def Flt.isFinite : Flt → Bool
  | .fin _ => true
  | _ => false

/-- Python `a == b` on the zoo -/
def pyEq (a b : PVal) : Bool :=
  match a, b with
  | .str s, .str t => s == t
  | .str _, _ => false
  | _, .str _ => false
  | a, b => match numOf a, numOf b with
    | some x, some y => x.beq y
    | _, _ => false

/-- Python `a <= b` between numbers (`false` when a `str` is involved: unreachable in the code modelled) -/
def pyLe (a b : PVal) : Bool :=
  match numOf a, numOf b with
  | some x, some y => x.le y
  | _, _ => false

def isStr : PVal → Bool | .str _ => true | _ => false
def isBool : PVal → Bool | .bool _ => true | _ => false
/-- `isinstance(v, int)` (bool is a subclass of int) -/
def isIntInst : PVal → Bool | .int _ => true | .bool _ => true | _ => false
/-- `isinstance(v, float)` -/
def isFloatInst : PVal → Bool | .flt _ => true | _ => false
/-- `isinstance(v, (float, int))` -/
def isNumInst (v : PVal) : Bool := isIntInst v || isFloatInst v
/-- `math.isfinite(v)` for a number -/
def isFinitePV (v : PVal) : Bool := match numOf v with | some x => x.isFinite | none => false

/-- truncation toward zero: `int(x)` of a finite float -/
def truncQ (q : Rat) : Int := Int.tdiv q.num q.den

def isIntegralQ (q : Rat) : Bool := q.den == 1

/-- Python 3 `round(x)`: to nearest, ties to even -/
def pyRoundQ (q : Rat) : Int :=
  let f := q.floor
  let r := q - f
  if r < 1/2 then f else if 1/2 < r then f + 1 else if f % 2 == 0 then f else f + 1

def absQ (q : Rat) : Rat := if q < 0 then -q else q
def maxQ (a b : Rat) : Rat := if a ≤ b then b else a

/-- `math.isclose(a, b)` with the default `rel_tol=1e-09, abs_tol=0` (computed exactly) -/
def iscloseQ (a b : Rat) : Bool :=
  a == b || decide (absQ (a - b) ≤ (1 / 1000000000 : Rat) * maxQ (absQ a) (absQ b))

/-- `float(v)` -/
def pyFloat : PVal → Except Err Flt
  | .int i => .ok (.fin i)
  | .bool b => .ok (.fin (b2r b))
  | .flt x => .ok x
  | .str _ => .error .typeOrValue

/-- `int(v)` -/
def pyInt : PVal → Except Err Int
  | .int i => .ok i
  | .bool b => .ok (b2i b)
  | .flt (.fin q) => .ok (truncQ q)
  | .flt .nan => .error .value
  | .flt _ => .error .overflow
  | .str _ => .error .typeOrValue

/-- `round(v)` -/
def pyRound : PVal → Except Err Int
  | .int i => .ok i
  | .bool b => .ok (b2i b)
  | .flt (.fin q) => .ok (pyRoundQ q)
  | .flt .nan => .error .value
  | .flt _ => .error .overflow
  | .str _ => .error .type

/-- Python truthiness -/
def truthy : PVal → Bool
  | .str s => !s.isEmpty
  | .int i => i != 0
  | .bool b => b
  | .flt (.fin q) => q != 0
  | .flt _ => true

/-! ## `ParameterValue` accessors (trial.py) -/

def TRUE_VALUE : String := "True"
def FALSE_VALUE : String := "False"

/-- `as_float`: `None` is `none` -/
def asFloat : PVal → Option Flt
  | .str s => if s == TRUE_VALUE then some (.fin 1) else if s == FALSE_VALUE then some (.fin 0) else none
  | .int i => some (.fin i)
  | .bool b => some (.fin (b2r b))
  | .flt x => some x

/-- `as_int`: `int(inf)` raises OverflowError (only ValueError is caught) -/
def asInt : PVal → Except Err (Option Int)
  | .str s => .ok (if s == TRUE_VALUE then some 1 else if s == FALSE_VALUE then some 0 else none)
  | .int i => .ok (some i)
  | .bool b => .ok (some (b2i b))
  | .flt (.fin q) => .ok (some (truncQ q))
  | .flt .nan => .ok none
  | .flt _ => .error .overflow

/-- `as_str` for `str`/`bool` (the `str(number)` branch is not modelled: `none`) -/
def asStr : PVal → Option String
  | .str s => some s
  | .bool b => some (if b then TRUE_VALUE else FALSE_VALUE)
  | _ => none

/-- `as_bool` -/
def asBool : PVal → Option Bool
  | .str s => if s == TRUE_VALUE then some true else if s == FALSE_VALUE then some false else none
  | v => if pyEq v (.flt (.fin 1)) then some true else if pyEq v (.flt (.fin 0)) then some false else none

/-! ## parameter configs -/

inductive PType where
  | double | integer | categorical | discrete | custom
  deriving DecidableEq, Repr

inductive ExtType where
  | internal | boolean | integer | float
  deriving DecidableEq, Repr

def PType.isNumeric : PType → Bool
  | .double | .integer | .discrete => true
  | _ => false

structure Hdr where
  name : String
  type : PType
  /-- `_bounds` as stored (ints for INTEGER, floats for DOUBLE, first/last feasible value for DISCRETE) -/
  bounds : Option (PVal × PVal)
  /-- `_feasible_values` (sorted); `[]` when the attribute is None or empty -/
  feasible : List PVal
  default : Option PVal
  ext : ExtType
  deriving DecidableEq, Repr

inductive PC where
  | mk (h : Hdr) (kids : List (PVal × PC))
  deriving Repr

def PC.h : PC → Hdr | .mk h _ => h
def PC.kids : PC → List (PVal × PC) | .mk _ k => k
def PC.name (p : PC) : String := p.h.name

mutual
def PC.size : PC → Nat
  | .mk _ ks => 1 + sizeKids ks
def sizeKids : List (PVal × PC) → Nat
  | [] => 0
  | (_, c) :: rest => c.size + sizeKids rest
end

def sizeSpace : List PC → Nat
  | [] => 0
  | p :: ps => p.size + sizeSpace ps

/-- `ParameterType.assert_correct_type(value)`, statement by statement -/
def assertCorrectType (cfg : Cfg) (t : PType) (v : PVal) : Except Err Unit :=
  let first : Except Err Unit :=
    if t.isNumeric then
      match pyFloat v with
      | .error e => .error e
      | .ok f => if pyEq (.flt f) v then .ok () else .error .type   -- float(value) != value
    else if t == .categorical && !(isStr v || isBool v) then .error .type
    else .ok ()
  match first with
  | .error e => .error e
  | .ok _ =>
    if t == .integer then
      if cfg.intInfGuard && (v == .flt .pinf || v == .flt .ninf) then .error .type else
      match pyInt v with
      | .error e => .error e
      | .ok i => if pyEq (.int i) v then .ok () else .error .type    -- int(value) != value
    else .ok ()

/-- `_assert_bounds` (the `bounds` property raises ValueError when unset) -/
def assertBounds (h : Hdr) (x : PVal) : Except Err Unit :=
  match h.bounds with
  | none => .error .value
  | some (lo, hi) => if pyLe lo x && pyLe x hi then .ok () else .error .value

/-- `_assert_in_feasible_values` -/
def assertInFeasible (h : Hdr) (x : PVal) : Except Err Unit :=
  if h.feasible.any (fun f => pyEq f x) then .ok () else .error .value

/-- `ParameterConfig._assert_feasible` -/
def assertFeasible (cfg : Cfg) (h : Hdr) (v : PVal) : Except Err Unit :=
  match assertCorrectType cfg h.type v with
  | .error e => .error e
  | .ok _ =>
    match h.type with
    | .double => match asFloat v with
      | some f => assertBounds h (.flt f)
      | none => .error .type            -- `lo <= None`: unreachable after the type check
    | .integer => match asInt v with
      | .ok (some i) => assertBounds h (.int i)
      | .ok none => .error .type
      | .error e => .error e
    | .discrete => match asFloat v with
      | some f => assertInFeasible h (.flt f)
      | none => .error .value
    | .categorical => match asStr v with
      | some s => assertInFeasible h (.str s)
      | none => .error .value
    | .custom => .error .runtime

/-- `ParameterConfig.contains`: TypeError and ValueError mean "no", anything else escapes -/
def pcContains (cfg : Cfg) (h : Hdr) (v : PVal) : Except Err Bool :=
  match assertFeasible cfg h v with
  | .ok _ => .ok true
  | .error .type => .ok false
  | .error .value => .ok false
  | .error .typeOrValue => .ok false
  | .error e => .error e

/-! ## search spaces (one level = `List PC`, names unique) -/

def names (ss : List PC) : List String := ss.map PC.name

/-- `SearchSpace.is_conditional` -/
def isConditional (ss : List PC) : Bool := ss.any fun p => !p.kids.isEmpty

/-- a `ParameterDict`: association list with unique keys -/
abbrev Assign := List (String × PVal)

def lookup (a : Assign) (n : String) : Option PVal := (a.find? fun e => e.1 == n).map (·.2)

/-- the `for pc in self._parameter_configs.values()` loop of `assert_contains` -/
def checkAll (cfg : Cfg) (a : Assign) : List PC → Except Err Unit
  | [] => .ok ()
  | p :: ps =>
    match lookup a p.name with
    | none => .error .invalidParam
    | some v =>
      match pcContains cfg p.h v with
      | .error e => .error e
      | .ok false => .error .invalidParam
      | .ok true => checkAll cfg a ps

/-- `SearchSpace.assert_contains` -/
def assertContains (cfg : Cfg) (ss : List PC) (a : Assign) : Except Err Unit :=
  if isConditional ss then .error .notImplemented
  else if a.length != ss.length then .error .invalidParam
  else checkAll cfg a ss

/-- `SearchSpace.contains` -/
def contains (cfg : Cfg) (ss : List PC) (a : Assign) : Except Err Bool :=
  match assertContains cfg ss a with
  | .ok _ => .ok true
  | .error .invalidParam => .ok false
  | .error e => .error e

/-- `SearchSpace.add` (replace=False) -/
def spaceAdd (ss : List PC) (p : PC) : Except Err (List PC) :=
  if ss.any (fun q => q.name == p.name) then .error .value else .ok (ss ++ [p])

def spaceAddAll (ss : List PC) : List PC → Except Err (List PC)
  | [] => .ok ss
  | p :: ps => match spaceAdd ss p with
    | .error e => .error e
    | .ok ss' => spaceAddAll ss' ps

/-! ## sorting -/

/-- stable insertion sort (the result of any stable sort, hence of Python's `sorted`) -/
def insertBy {α : Type} (le : α → α → Bool) (x : α) : List α → List α
  | [] => [x]
  | y :: ys => if le x y then x :: y :: ys else y :: insertBy le x ys

def insSort {α : Type} (le : α → α → Bool) : List α → List α
  | [] => []
  | x :: xs => insertBy le x (insSort le xs)

def strLe (a b : PVal) : Bool :=
  match a, b with
  | .str s, .str t => decide (s ≤ t)
  | _, _ => false

/-- `sorted(values)`: numbers among themselves, strings among themselves; a mixed list
raises TypeError; the order Python produces for a list containing NaN is not modelled -/
def pySorted (vs : List PVal) : Except Err (List PVal) :=
  if vs.all isNumInst then
    if vs.all (fun v => numOf v != some .nan) then .ok (insSort pyLe vs) else .error .typeOrValue
  else if vs.all isStr then .ok (insSort strLe vs)
  else .error .type

/-- `len(set(vs)) != len(vs)` -/
def hasDup : List PVal → Bool
  | [] => false
  | v :: vs => vs.any (fun w => pyEq v w) || hasDup vs

/-! ## `ParameterConfig.factory` -/

def nonEmpty (o : Option (List PVal)) : Bool :=
  match o with
  | some (_ :: _) => true
  | _ => false

/-- `_validate_bounds` -/
def validateBounds (b : List PVal) : Except Err (PVal × PVal) :=
  match b with
  | [lo, hi] =>
    if !(isFinitePV lo && isFinitePV hi) then .error .value
    else if pyLe lo hi then .ok (lo, hi) else .error .value     -- `lower > upper` (both finite)
  | _ => .error .value

/-- `_get_default_value` -/
def getDefault (t : PType) (d : PVal) : Except Err PVal :=
  let wrong : Except Err PVal := .error .value
  match t with
  | .double | .discrete =>
    if isNumInst d then (match pyFloat d with | .ok f => .ok (.flt f) | .error e => .error e) else wrong
  | .integer =>
    if isNumInst d then
      if isIntInst d then .ok d
      else match d with
        | .flt (.fin q) => if iscloseQ q (pyRoundQ q) then .ok (.int (pyRoundQ q)) else .error .value
        | .flt .nan => .error .value        -- round(nan): ValueError
        | _ => .error .overflow             -- round(±inf)
    else wrong
  | .categorical => if isStr d then .ok d else wrong
  | .custom => .ok d

/-- `cast_as_internal` -/
def castInternal (cfg : Cfg) (t : PType) (v : PVal) : Except Err PVal :=
  match assertCorrectType cfg t v with
  | .error e => .error e
  | .ok _ =>
    match t with
    | .double | .discrete => match asFloat v with | some f => .ok (.flt f) | none => .error .type
    | .integer => match asInt v with
      | .ok (some i) => .ok (.int i)
      | .ok none => .error .type
      | .error e => .error e
    | .categorical => match asStr v with | some s => .ok (.str s) | none => .error .type
    | .custom => .error .runtime

/-- the validating prefix of `ParameterConfig.subspace(value)`: the dict key -/
def subspaceKey (cfg : Cfg) (h : Hdr) (v : PVal) : Except Err PVal :=
  if h.type == .double || h.type == .custom then .error .type   -- "DOUBLE type cannot have child parameters"
  else match castInternal cfg h.type v with
    | .error e => .error e
    | .ok k => match assertFeasible cfg h k with
      | .error e => .error e
      | .ok _ => .ok k

/-- the subspace stored under `key` (`_children.get(key, SearchSpace())`) -/
def subspaceOf (p : PC) (key : PVal) : List PC :=
  p.kids.filterMap fun kc => if pyEq kc.1 key then some kc.2 else none

/-- insert `(k, c)` at the end of the group of `k` (a new group goes last) -/
def insGroup (k : PVal) (c : PC) : List (PVal × PC) → List (PVal × PC)
  | [] => [(k, c)]
  | x :: xs =>
    if pyEq x.1 k && !(xs.any fun y => pyEq y.1 k) then x :: (k, c) :: xs
    else x :: insGroup k c xs

/-- `parent.subspace(pv).add(child)` -/
def addKid (cfg : Cfg) (p : PC) (pv : PVal) (c : PC) : Except Err PC :=
  match subspaceKey cfg p.h pv with
  | .error e => .error e
  | .ok k =>
    if (subspaceOf p k).any (fun q => q.name == c.name) then .error .value
    else .ok (.mk p.h (insGroup k c p.kids))

def addKidForValues (cfg : Cfg) (c : PC) : PC → List PVal → Except Err PC
  | p, [] => .ok p
  | p, v :: vs => match addKid cfg p v c with
    | .error e => .error e
    | .ok p' => addKidForValues cfg c p' vs

/-- `_add_children` -/
def addChildren (cfg : Cfg) : PC → List (List PVal × PC) → Except Err PC
  | p, [] => .ok p
  | p, (vals, c) :: rest =>
    match pySorted vals with
    | .error e => .error e
    | .ok sv => match addKidForValues cfg c p sv with
      | .error e => .error e
      | .ok p' => addChildren cfg p' rest

structure FArgs where
  name : String
  bounds : Option (List PVal) := none
  feasible : Option (List PVal) := none
  default : Option PVal := none
  ext : ExtType := .internal
  children : List (List PVal × PC) := []

/-- type inference and normalisation part of `factory`: `(type, bounds, feasible_values)` -/
def inferDomain (a : FArgs) : Except Err (PType × Option (PVal × PVal) × List PVal) :=
  if nonEmpty a.feasible && nonEmpty a.bounds then .error .value
  else if nonEmpty a.feasible then
    let fv := a.feasible.getD []
    if hasDup fv then .error .value
    else if fv.all isNumInst then
      if !(fv.all isFinitePV) then .error .value
      else
        let s := insSort pyLe fv
        match s.head?, s.getLast? with
        | some lo, some hi => .ok (.discrete, some (lo, hi), s)
        | _, _ => .error .index
    else if fv.all isStr then .ok (.categorical, none, insSort strLe fv)
    else .error .value
  else if nonEmpty a.bounds then
    match a.bounds.getD [] with
    | b0 :: b1 :: rest =>
      if isIntInst b0 && isIntInst b1 then
        match validateBounds (b0 :: b1 :: rest) with
        | .ok b => .ok (.integer, some b, [])
        | .error e => .error e
      else if isFloatInst b0 && isFloatInst b1 then
        match validateBounds (b0 :: b1 :: rest) with
        | .ok b => .ok (.double, some b, [])
        | .error e => .error e
      else .error .value
    | _ => .error .index                 -- `bounds[1]` of a 1-tuple
  else .ok (.custom, none, [])

/-- `ParameterConfig.factory` -/
def factory (cfg : Cfg) (a : FArgs) : Except Err PC :=
  if a.name.isEmpty then .error .value
  else match inferDomain a with
    | .error e => .error e
    | .ok (t, b, fv) =>
      let dflt : Except Err (Option PVal) :=
        match a.default with
        | none => .ok none
        | some d => match getDefault t d with | .ok d' => .ok (some d') | .error e => .error e
      match dflt with
      | .error e => .error e
      | .ok d =>
        addChildren cfg (.mk { name := a.name, type := t, bounds := b, feasible := fv, default := d, ext := a.ext } []) a.children

/-! ## the `add_*_param` builders (what they do before calling `factory`) -/

/-- `_get_parameter_names_to_create(name=, index=)` -/
def paramName (name : String) (index : Option Int) : Except Err String :=
  match index with
  | none => .ok name
  | some i => if i < 0 then .error .value else .ok s!"{name}[{i}]"

def addFloatArgs (name : String) (lo hi : PVal) (dflt : Option PVal) (index : Option Int) : Except Err FArgs :=
  match pyFloat lo with
  | .error e => .error e
  | .ok l => match pyFloat hi with
    | .error e => .error e
    | .ok u => match paramName name index with
      | .error e => .error e
      | .ok n => .ok { name := n, bounds := some [.flt l, .flt u], default := dflt }

/-- `int(x)` then `math.isclose(x, int(x))` -/
def intBound (x : PVal) : Except Err Int :=
  match pyInt x with
  | .error e => .error e
  | .ok i => match ratOf x with
    | some q => if iscloseQ q i then .ok i else .error .value
    | none => .error .type

def addIntArgs (name : String) (lo hi : PVal) (dflt : Option PVal) (index : Option Int) : Except Err FArgs :=
  match intBound lo with
  | .error e => .error e
  | .ok l => match intBound hi with
    | .error e => .error e
    | .ok u => match paramName name index with
      | .error e => .error e
      | .ok n => .ok { name := n, bounds := some [.int l, .int u], default := dflt }

/-- `all([v == round(v) for v in feasible_values])` -/
def allRoundTrip : List PVal → Except Err Bool
  | [] => .ok true
  | v :: vs => match pyRound v with
    | .error e => .error e
    | .ok r => match allRoundTrip vs with
      | .error e => .error e
      | .ok b => .ok (pyEq v (.int r) && b)

def addDiscreteArgs (name : String) (fv : List PVal) (dflt : Option PVal) (index : Option Int) (autoCast : Bool) :
    Except Err FArgs :=
  match paramName name index with
  | .error e => .error e
  | .ok n =>
    let ext : Except Err ExtType :=
      if autoCast then match allRoundTrip fv with
        | .error e => .error e
        | .ok true => .ok .integer
        | .ok false => .ok .float
      else .ok .float
    match ext with
    | .error e => .error e
    | .ok x => match pySorted fv with
      | .error e => .error e
      | .ok s => .ok { name := n, feasible := some s, default := dflt, ext := x }

def addCategoricalArgs (name : String) (fv : List PVal) (dflt : Option PVal) (index : Option Int) : Except Err FArgs :=
  if !(fv.all isStr) then .error .value
  else match paramName name index with
    | .error e => .error e
    | .ok n => match pySorted fv with
      | .error e => .error e
      | .ok s => .ok { name := n, feasible := some s, default := dflt }

def boolStr (v : PVal) : PVal := .str (if truthy v then TRUE_VALUE else FALSE_VALUE)

/-- `tuple(feasible_values) in (None, (True, False), (False, True), (True,), (False,))` -/
def boolFeasibleAllowed (fv : List PVal) : Bool :=
  let t := PVal.bool true
  let f := PVal.bool false
  match fv with
  | [a] => pyEq a t || pyEq a f
  | [a, b] => (pyEq a t && pyEq b f) || (pyEq a f && pyEq b t)
  | _ => false

def addBoolArgs (name : String) (fv : Option (List PVal)) (dflt : Option PVal) (index : Option Int) : Except Err FArgs :=
  let okFv := match fv with | none => true | some l => boolFeasibleAllowed l
  if !okFv then .error .value
  else
    let cats : List PVal := match fv with
      | none => [.str TRUE_VALUE, .str FALSE_VALUE]
      | some l => l.map boolStr
    match paramName name index with
    | .error e => .error e
    | .ok n => match pySorted cats with
      | .error e => .error e
      | .ok s => .ok { name := n, feasible := some s, default := dflt.map boolStr, ext := .boolean }


/-! ## `clients.Study.add_trial` -/

/-- `sc.search_space.assert_contains(trial.parameters)` then `self._client.add_trial(trial)`;
`trials` is what the service stores -/
def studyAddTrial (cfg : Cfg) (ss : List PC) (trials : List Assign) (a : Assign) : Except Err (List Assign) :=
  match assertContains cfg ss a with
  | .error e => .error e
  | .ok _ => .ok (trials ++ [a])

/-! ## `SequentialParameterBuilder` -/

/-- `get_subspace_deepcopy(value)`: continuous/custom parameters have no subspace and the
value is not validated; otherwise the value is cast, validated and looked up -/
def getSubspace (cfg : Cfg) (p : PC) (v : PVal) : Except Err (List PC) :=
  if p.h.type == .double || p.h.type == .custom then .ok []
  else match castInternal cfg p.h.type v with
    | .error e => .error e
    | .ok k => match assertFeasible cfg p.h k with
      | .error e => .error e
      | .ok _ => .ok (subspaceOf p k)

/-- The coroutine: `work` is `search_space.parameters`; `choose p = none` is `skip()`.
Returns the parameter configs yielded, in order.  `fuel` bounds the number of yields
(`sizeSpace work` is enough, `Lemmas/SpaceWalk`). -/
def walk (cfg : Cfg) (bfs : Bool) (choose : PC → Option PVal) : Nat → List PC → Except Err (List PC)
  | 0, _ => .ok []
  | _ + 1, [] => .ok []
  | n + 1, p :: rest =>
    match choose p with
    | none => (walk cfg bfs choose n rest).map (p :: ·)
    | some v =>
      match getSubspace cfg p v with
      | .error e => .error e
      | .ok sub =>
        let next := if bfs then spaceAddAll rest sub else spaceAddAll sub rest
        match next with
        | .error e => .error e
        | .ok w => (walk cfg bfs choose n w).map (p :: ·)

end VizierModel.Space
