/-
M8 — effect-tagged mini-language for the provenance of RNG seeds / keys (property C14).
Core Lean only.

What is modelled.  A designer (or a link of the benchmark chain) is a *table of sites*.
A site is one place of the Python source where a random number generator is constructed
(`np.random.RandomState(s)`, `np.random.default_rng(s)`, `random.Random(s)`,
`qmc.Halton(seed=s)`, `jax.random.PRNGKey(s)`), drawn from (`self._rng.uniform(..)`,
`jax.random.split(key)`, `np.random.rand()`), where a seed is forwarded to a callee that is
not analysed inline (`designer_factory(problem, seed=self._seed)`), or where the clock / pid /
OS entropy is read.  Each site carries the *provenance* of its seed / key argument — an
expression over the sources below — a *guard* (`seed is None` fallbacks are only active when
no seed was given) and an *effect* (does the value reach the suggestions, or only
logs / metadata time stamps).

Trusted: the library constructors and samplers are deterministic functions of their
argument (`Interp.lib`), and a constructor called with `None` reads OS entropy.
-/
namespace VizierModel.Prov

/-- Where a value comes from. `seedArg` = the `seed` / `rng` / `key` argument given by the
caller; `constNone` = a literal `None` (or an omitted argument whose default is `None`);
`derived ps` = any deterministic function of the listed values (`int(x)`, `x + 1`,
`jax.random.randint(key, ..)`, …). -/
inductive Prov where
  | seedArg | constNone | const | problem | history
  | globalNumpy | globalPython | globalJax | clock | pid | entropy
  | derived (ps : List Prov)
  deriving Repr, Inhabited

/-- values: opaque atoms and tuples -/
inductive Val where
  | atom (n : Nat)
  | tup (vs : List Val)
  deriving Repr, Inhabited

/-- Everything a run can observe besides its arguments: the states of the process-global
generators (`np.random`, `random`, jax configuration), the wall clock, the process id and
the OS entropy pool. -/
structure Ambient where
  numpy : Nat
  python : Nat
  jax : Nat
  clock : Nat
  pid : Nat
  entropy : Nat
  deriving Repr

/-- the arguments of a run: the seed (possibly absent), the problem, the trial history -/
structure Inputs where
  seed : Option Val
  problem : Val
  history : Val
  deriving Repr

/-- what a library constructor sees when it is given `None`: fresh OS entropy -/
def noneVal (a : Ambient) : Val := .tup [.atom 1, .atom a.entropy]

mutual
/-- value of a provenance expression (`derived` = the tuple of its inputs; the function
applied to it is part of the site's `lib`) -/
def Prov.eval (a : Ambient) (i : Inputs) : Prov → Val
  | .seedArg => match i.seed with
    | some v => v
    | none => noneVal a
  | .constNone => noneVal a
  | .const => .atom 0
  | .problem => i.problem
  | .history => i.history
  | .globalNumpy => .atom a.numpy
  | .globalPython => .atom a.python
  | .globalJax => .atom a.jax
  | .clock => .atom a.clock
  | .pid => .atom a.pid
  | .entropy => .atom a.entropy
  | .derived ps => .tup (evalList a i ps)
def evalList (a : Ambient) (i : Inputs) : List Prov → List Val
  | [] => []
  | p :: ps => p.eval a i :: evalList a i ps
end

mutual
/-- closure of `{seedArg, const, problem, history}` under `derived` -/
def Prov.clean : Prov → Bool
  | .seedArg | .const | .problem | .history => true
  | .derived ps => cleanList ps
  | _ => false
def cleanList : List Prov → Bool
  | [] => true
  | p :: ps => p.clean && cleanList ps
end

mutual
/-- does the expression read the seed argument at all? -/
def Prov.mentionsSeed : Prov → Bool
  | .seedArg => true
  | .derived ps => mentionsSeedList ps
  | _ => false
def mentionsSeedList : List Prov → Bool
  | [] => false
  | p :: ps => p.mentionsSeed || mentionsSeedList ps
end

mutual
/-- `p.subst q`: the callee's expression `p` with the callee's seed replaced by the
caller's expression `q` for it -/
def Prov.subst (p : Prov) (q : Prov) : Prov :=
  match p with
  | .seedArg => q
  | .derived ps => .derived (substList ps q)
  | .constNone => .constNone
  | .const => .const
  | .problem => .problem
  | .history => .history
  | .globalNumpy => .globalNumpy
  | .globalPython => .globalPython
  | .globalJax => .globalJax
  | .clock => .clock
  | .pid => .pid
  | .entropy => .entropy
def substList (ps : List Prov) (q : Prov) : List Prov :=
  match ps with
  | [] => []
  | p :: ps => p.subst q :: substList ps q
end

def Prov.isSeedArg : Prov → Bool
  | .seedArg => true
  | _ => false

/-! ## sites -/

/-- when is a site reached: always, only when no seed was given (`if seed is None:`), only
when one was given, never (contradictory nesting after inlining) -/
inductive Guard where
  | always | seedNone | seedSome | never
  deriving DecidableEq, Repr, Inhabited

inductive Kind where
  | construct | draw | forward | read
  deriving DecidableEq, Repr, Inhabited

/-- does the value obtained at the site reach the suggested parameters (`output`) or only
logs / metadata time stamps / durations (`telemetry`).  (A generator whose state is replaced
before anything is drawn — `obj = Cls(..); obj.load(md)`, `rng.bit_generator.state = x` — is
recorded by the translator as constructed from the replacing value.) -/
inductive Effect where
  | output | telemetry
  deriving DecidableEq, Repr, Inhabited

structure Site where
  kind : Kind
  api : String
  guard : Guard
  prov : Prov
  effect : Effect
  deriving Repr, Inhabited

def Guard.holds (seedGiven : Bool) : Guard → Bool
  | .always => true
  | .seedNone => !seedGiven
  | .seedSome => seedGiven
  | .never => false

def Guard.and : Guard → Guard → Guard
  | .always, g => g
  | g, .always => g
  | .never, _ => .never
  | _, .never => .never
  | .seedNone, .seedNone => .seedNone
  | .seedSome, .seedSome => .seedSome
  | .seedNone, .seedSome => .never
  | .seedSome, .seedNone => .never

def Effect.isOutput : Effect → Bool
  | .output => true
  | _ => false

/-- the site contributes to the output of a run with / without a seed -/
def Site.active (seedGiven : Bool) (s : Site) : Bool :=
  s.effect.isOutput && s.guard.holds seedGiven

/-- THE DECIDABLE CRITERION: under a provided seed, a site that reaches the output has a
seed / key whose provenance lies in the closure of `{seedArg, const, problem, history}`. -/
def allowed (s : Site) : Bool := !(s.active true) || s.prov.clean

/-- some site that reaches the output under a provided seed actually reads the seed -/
def seedUsed (sites : List Site) : Bool :=
  sites.any fun s => s.active true && s.prov.mentionsSeed

/-! ## semantics -/

/-- The trusted part: what the library does with a seed / key at a site (construct the
generator and draw the stream the designer consumes), and what the designer computes from
the problem, the history and those streams.  Arbitrary functions: no assumption except
that they are functions (deterministic). -/
structure Interp (Out : Type) where
  lib : Site → Val → Val
  post : Val → Val → List Val → Out

def streams {Out : Type} (I : Interp Out) (a : Ambient) (i : Inputs) : List Site → List Val
  | [] => []
  | s :: ss =>
    if s.active i.seed.isSome then I.lib s (s.prov.eval a i) :: streams I a i ss
    else streams I a i ss

def run {Out : Type} (I : Interp Out) (sites : List Site) (a : Ambient) (i : Inputs) : Out :=
  I.post i.problem i.history (streams I a i sites)

/-- the interpretation that hides nothing: each site yields its seed value, the output is
the list of streams -/
def Interp.transparent : Interp (List Val) := ⟨fun _ v => v, fun _ _ l => l⟩

/-! ## inlining a callee (a sub-designer, a sampler, a mutation, `from_problem → cls(..)`) -/

inductive Noneness where
  | same | isNone | notNone

def Prov.noneness : Prov → Noneness
  | .seedArg => .same
  | .constNone => .isNone
  | _ => .notNone

/-- the callee's guard (about the callee's seed) re-expressed about the caller's seed, when
the caller passes `q` -/
def Guard.resolve (q : Prov) : Guard → Guard
  | .always => .always
  | .never => .never
  | .seedNone => match q.noneness with
    | .same => .seedNone
    | .isNone => .always
    | .notNone => .never
  | .seedSome => match q.noneness with
    | .same => .seedSome
    | .isNone => .never
    | .notNone => .always

def Site.inline (g0 : Guard) (q : Prov) (s : Site) : Site :=
  { s with guard := g0.and (s.guard.resolve q), prov := s.prov.subst q }

/-- the callee's table seen from the caller: the call happens under guard `g0` with seed
expression `q` -/
def inlineSites (g0 : Guard) (q : Prov) (callee : List Site) : List Site :=
  callee.map (Site.inline g0 q)

/-- the seed the callee receives -/
def innerSeed (a : Ambient) (i : Inputs) : Prov → Option Val
  | .seedArg => i.seed
  | .constNone => none
  | q => some (q.eval a i)

def innerInputs (a : Ambient) (i : Inputs) (q : Prov) : Inputs :=
  { i with seed := innerSeed a i q }

/-! ## the benchmark chain -/

/-- one call of the chain: `caller` hands `seedProv` (an expression over *its* seed) to
`callee` as the callee's seed -/
structure Link where
  caller : String
  callee : String
  seedProv : Prov
  deriving Repr

/-- provenance of the innermost callee's seed in terms of the outermost seed
(outermost link first) -/
def compose : List Link → Prov
  | [] => .seedArg
  | l :: ls => (compose ls).subst l.seedProv

def chainThreaded (chain : List Link) : Bool := chain.all fun l => l.seedProv.isSeedArg

end VizierModel.Prov
