/-
Model of the Pareto routines of google/vizier (C11).  Core Lean only.

  pyvizier/multimetric/pareto_optimal.py   NaiveParetoOptimalAlgorithm, FastParetoOptimalAlgorithm
  _src/jax/xla_pareto.py                   _is_dominated, _is_pareto_optimal_against, is_frontier, pareto_rank
  _src/algorithms/evolution/nsga2.py       _pareto_rank
  _src/service/vizier_service.py           ListOptimalTrials
  _src/pythia/local_policy_supporters.py   InRamPolicySupporter.GetBestTrials (+ multimetric/safety.py)

Points are rows `List β`.  Everything is generic in a record `Cmp β` of the three
element comparisons the code uses (numpy's `>`, `<=`, `==`); the theorems are about
*lawful* comparisons (those of a strict total order, `Cmp.ofLt lt`), so ±inf are just
extreme elements.  `Cmp.val` lifts a comparison to `Val β = nan | num b` the way IEEE
does (every comparison with NaN is false); it is *not* lawful and is only used where
the code really meets NaN (trial level).

Boolean-mask assignment `mask[mask] = f(rows[mask])` with a row-wise `f` is modelled
as the pointwise `mask[k] := mask[k] && f(rows[k])`.
-/
namespace VizierModel.Pareto

/-- numpy's element comparisons `a > b`, `a <= b`, `a == b` -/
structure Cmp (β : Type) where
  gt : β → β → Bool
  le : β → β → Bool
  eq : β → β → Bool

/-- the comparisons of a strict order `lt` -/
def Cmp.ofLt {α : Type} [DecidableEq α] (lt : α → α → Bool) : Cmp α where
  gt a b := lt b a
  le a b := !lt b a
  eq a b := decide (a = b)

/-- a float that may be NaN -/
inductive Val (β : Type) where
  | nan
  | num (b : β)
  deriving DecidableEq, Repr

/-- IEEE lifting: any comparison involving NaN is false -/
def Cmp.val {β : Type} (c : Cmp β) : Cmp (Val β) where
  gt | .num a, .num b => c.gt a b | _, _ => false
  le | .num a, .num b => c.le a b | _, _ => false
  eq | .num a, .num b => c.eq a b | _, _ => false

variable {β : Type}

/-! ### row comparisons (numpy broadcasting + `np.any/np.all(axis=1)`) -/

/-- `np.any(p > q)` -/
def anyGt (c : Cmp β) : List β → List β → Bool
  | a :: as, b :: bs => c.gt a b || anyGt c as bs
  | _, _ => false

/-- `np.all(p <= q)` -/
def allLe (c : Cmp β) : List β → List β → Bool
  | a :: as, b :: bs => c.le a b && allLe c as bs
  | _, _ => true

/-- `np.all(p == q)` -/
def allEq (c : Cmp β) : List β → List β → Bool
  | a :: as, b :: bs => c.eq a b && allEq c as bs
  | _, _ => true

/-! ### the definition the property speaks about -/

/-- `q` dominates `p`: at least as good in every coordinate, better in one -/
def dominates (c : Cmp β) (q p : List β) : Bool := allLe c p q && anyGt c q p

/-- `p` is on the Pareto front of `ps`: no point of `ps` dominates it -/
def isFront (c : Cmp β) (ps : List (List β)) (p : List β) : Bool :=
  !ps.any (fun q => dominates c q p)

/-- the definitional front as a mask over `ps` -/
def front (c : Cmp β) (ps : List (List β)) : List Bool := ps.map (isFront c ps)

/-- `p` is optimal against `qs`.  `strict = true`: only strictly dominating points
count (a point equal to `p` does not); `strict = false`: any `q ≥ p` counts. -/
def isOptAgainst (c : Cmp β) (qs : List (List β)) (strict : Bool) (p : List β) : Bool :=
  !qs.any (fun q => if strict then dominates c q p else allLe c p q)

/-! ### NaiveParetoOptimalAlgorithm -/

/-- `is_pareto_optimal_against(points, against, strict=…)` -/
def naiveAgainst (c : Cmp β) (points against : List (List β)) (strict : Bool) : List Bool :=
  points.map fun point =>
    let strictDominating := against.map (fun a => anyGt c point a)
    if strictDominating.all id then true
    else if strict && (against.map (fun a => anyGt c point a || allEq c point a)).all id then true
    else false

/-- one iteration `i` of the sweep: if `is_optimal[i]`, revise all surviving points -/
def naiveStep (c : Cmp β) (ps : List (List β)) (mask : List Bool) (i : Nat) : List Bool :=
  if mask.getD i false then
    let point := ps.getD i []
    List.zipWith (fun m p => m && (anyGt c p point || allEq c p point)) mask ps
  else mask

/-- `is_pareto_optimal(points)` -/
def naive (c : Cmp β) (ps : List (List β)) : List Bool :=
  (List.range ps.length).foldl (naiveStep c ps) (ps.map fun _ => true)

/-! ### xla_pareto (jax) -/

/-- `_is_dominated(y1, y2, strict)` -/
def jaxIsDominated (c : Cmp β) (y1 y2 : List β) (strict : Bool) : Bool :=
  let dominatedOrEqual := allLe c y1 y2
  if strict then dominatedOrEqual && anyGt c y2 y1 else dominatedOrEqual

/-- `_is_pareto_optimal_against(yy, baseline, strict=…)` -/
def jaxAgainst (c : Cmp β) (yy baseline : List (List β)) (strict : Bool) : List Bool :=
  yy.map fun y => !(baseline.any fun b => jaxIsDominated c y b strict)

/-- `np.linspace(0, n, k).astype(int32)` (exact floor; `k = 1` gives `[0]`) -/
def shardIdx (k n : Nat) : List Nat := (List.range k).map fun j => j * n / (k - 1)

/-- `zip(idx[1:], idx[:-1])` -/
def shardPairs (idx : List Nat) : List (Nat × Nat) := idx.tail.zip idx.dropLast

/-- one filtering pass of `is_frontier` against the slice `ys[b:e]` -/
def frontierStep (c : Cmp β) (ys : List (List β)) (mask : List Bool) (be : Nat × Nat) : List Bool :=
  let slice := (ys.drop be.1).take (be.2 - be.1)
  List.zipWith (fun m y => m && !(slice.any fun b => jaxIsDominated c y b true)) mask ys

/-- `is_frontier(ys, num_shards=k)` -/
def isFrontier (c : Cmp β) (k : Nat) (ys : List (List β)) : List Bool :=
  (shardPairs (shardIdx k ys.length).reverse).foldl (frontierStep c ys) (ys.map fun _ => true)

/-- jax `pareto_rank(ys)`: row sums of the domination matrix -/
def jaxRank (c : Cmp β) (ys : List (List β)) : List Nat :=
  ys.map fun y => (ys.filter fun r => jaxIsDominated c y r true).length

/-- nsga2 `_pareto_rank(ys)` -/
def nsgaRank (c : Cmp β) (ys : List (List β)) : List Nat :=
  if ys.isEmpty then []
  else ys.map fun y => (ys.filter fun r => allLe c y r && anyGt c r y).length

/-! ### FastParetoOptimalAlgorithm -/

/-- Python `round(n / 2)` (round half to even) -/
def pyRoundHalf (n : Nat) : Nat :=
  if n % 2 = 0 then n / 2 else if (n / 2) % 2 = 0 then n / 2 else n / 2 + 1

/-- insertion into a list sorted ascending by `key`, before the first element that is
not smaller (so `sortBy` = `foldr` is stable) -/
def insertBy {γ : Type} (c : Cmp β) (key : γ → β) (x : γ) : List γ → List γ
  | [] => [x]
  | y :: ys => if c.gt (key x) (key y) then y :: insertBy c key x ys else x :: y :: ys

/-- stable insertion sort ascending by `key` -/
def sortBy {γ : Type} (c : Cmp β) (key : γ → β) (xs : List γ) : List γ :=
  xs.foldr (insertBy c key) []

/-- `out = zeros(n); out[idxs] = vals` -/
def scatter (n : Nat) (idxs : List Nat) (vals : List Bool) : List Bool :=
  (List.range n).map fun i => ((idxs.zip vals).lookup i).getD false

/-- the loop `while sorted[s][0] == v: s += 1; if s == len: fall back`; `rest` is
`firsts[s:]`.  `none` = no clean split. -/
def advance (c : Cmp β) (v : β) : List β → Nat → Option Nat
  | [], _ => none
  | x :: xs, s => if c.eq x v then advance c v xs (s + 1) else some s

/-- `np.searchsorted(sortedFirsts, v, side='right')` -/
def searchRight (c : Cmp β) (v : β) : List β → Nat
  | [] => 0
  | x :: xs => if c.gt x v then 0 else searchRight c v xs + 1

/-- `np.max` of a non-empty flat array -/
def maxOf (c : Cmp β) (a : β) (as : List β) : β := as.foldl (fun m x => if c.gt x m then x else m) a

variable [Inhabited β]

def first (p : List β) : β := p.headD default

/-- `np.argsort(keys)` with a *stable* sort.  numpy's default sort is not stable: the
algorithms below take the argsort as a parameter and the theorems hold for every
function that returns a sorting permutation (`IsArgsort`); this instance is what the
driver and the counterexample use. -/
def argsortStable (c : Cmp β) (keys : List β) : List Nat :=
  (sortBy c (fun x : β × Nat => x.1) keys.zipIdx).map (·.2)

/-- `rows[idx]` -/
def gather (rows : List (List β)) (idx : List Nat) : List (List β) := idx.map fun i => rows.getD i []

/-- `FastParetoOptimalAlgorithm(recursive_threshold=thr).is_pareto_optimal_against`.
`none` = out of fuel (`points.length + 1` is enough: `fastAgainst_correct`). -/
def fastAgainst (c : Cmp β) (argsort : List β → List Nat) (thr : Nat) :
    Nat → List (List β) → List (List β) → Bool → Option (List Bool)
  | 0, _, _, _ => none
  | fuel + 1, points, against, strict =>
    if points.isEmpty then some []
    else if against.isEmpty then some (points.map fun _ => true)
    else if against.length < thr || points.length < thr then
      some (naiveAgainst c points against strict)
    else if (against.headD []).length ≤ 1 then
      match against.flatten with
      | [] => none                                   -- np.max of an empty array raises
      | a :: as =>
        let maxValue := maxOf c a as
        some (points.map fun p => if strict then c.le maxValue (first p) else c.gt (first p) maxValue)
    else
      let ascendingIndices := argsort (points.map first)
      let sortedPoints := gather points ascendingIndices
      let firsts := sortedPoints.map first
      let s0 := pyRoundHalf points.length
      let splitValue := firsts.getD s0 default
      match advance c splitValue (firsts.drop s0) s0 with
      | none => some (naiveAgainst c points against strict)
      | some splitIndex =>
        let sortedDominating := gather against (argsort (against.map first))
        let domSplit := searchRight c splitValue (sortedDominating.map first)
        let lowerPoints := sortedPoints.take splitIndex
        let upperPoints := sortedPoints.drop splitIndex
        let lowerDominating := sortedDominating.take domSplit
        let upperDominating := sortedDominating.drop domSplit
        match fastAgainst c argsort thr fuel upperPoints upperDominating strict,
              fastAgainst c argsort thr fuel lowerPoints lowerDominating strict,
              fastAgainst c argsort thr fuel (lowerPoints.map List.tail) (upperDominating.map List.tail) false with
        | some upperOptimal, some lowerOptimal, some crossOptimal =>
          let lowerOptimal := List.zipWith (· && ·) lowerOptimal crossOptimal
          some (scatter points.length ascendingIndices (lowerOptimal ++ upperOptimal))
        | _, _, _ => none

/-- `is_pareto_optimal_against` with enough fuel -/
def fastAgainstTop (c : Cmp β) (argsort : List β → List Nat) (thr : Nat) (points against : List (List β))
    (strict : Bool) : Option (List Bool) :=
  fastAgainst c argsort thr (points.length + 1) points against strict

/-- `FastParetoOptimalAlgorithm(recursive_threshold=thr).is_pareto_optimal`.
`cleanSplit = false` is the code as written at the pinned commit (split at
`round(n/2)` wherever it falls); `cleanSplit = true` moves the split to a boundary
between distinct first coordinates as `is_pareto_optimal_against` does (the proposed
fix).  `none` = out of fuel = the Python recursion never ends (as written: `thr = 0`). -/
def fast (c : Cmp β) (argsort : List β → List Nat) (cleanSplit : Bool) (thr : Nat) :
    Nat → List (List β) → Option (List Bool)
  | 0, _ => none
  | fuel + 1, points =>
    if points.length ≤ thr then some (naive c points)
    else
      let ascendingIndices := argsort (points.map first)
      let sortedPoints := gather points ascendingIndices
      let firsts := sortedPoints.map first
      let s0 := pyRoundHalf points.length
      let split :=
        if cleanSplit then advance c (firsts.getD s0 default) (firsts.drop s0) s0 else some s0
      match split with
      | none => some (naive c points)
      | some splitIndex =>
        let lowerArray := sortedPoints.take splitIndex
        let higherArray := sortedPoints.drop splitIndex
        match fast c argsort cleanSplit thr fuel higherArray, fast c argsort cleanSplit thr fuel lowerArray,
              fastAgainstTop c argsort thr lowerArray higherArray true with
        | some higherPareto, some lowerPareto, some crossCheck =>
          let lowerPareto := List.zipWith (· && ·) lowerPareto crossCheck
          some (scatter points.length ascendingIndices (lowerPareto ++ higherPareto))
        | _, _, _ => none

def fastTop (c : Cmp β) (argsort : List β → List Nat) (cleanSplit : Bool) (thr : Nat)
    (points : List (List β)) : Option (List Bool) :=
  fast c argsort cleanSplit thr (points.length + 1) points

end VizierModel.Pareto
