/-
SqlKeys - the premise of the SQL representation model (`Model/Stores.lean`), decided on the CURRENT source: every
query of `SQLDataStore` selects rows by equality on the columns that identify the resource the call addresses.
The per-method query table is regenerated from the AST of sql_datastore.py on every run
(harness/translators/sql_where.py -> Generated/SqlWhere.lean).  First the obligations on the regenerated table,
then what they buy on the row model, and what a prefix filter would do.
-/
import VizierModel.Lemmas.SqlKeys

namespace VizierModel.SqlKeys
open VizierModel.Generated.SqlWhere VizierModel.Stores VizierModel.Svc

/-! ## obligations on the regenerated table -/

/-- the queries of today's source are the queries the Stores model assumes -/
theorem sqlkeys_shape_matches : sqlWhere = assumedWhere := by decide +kernel

/-- the resource name is the primary key of every table -/
theorem sqlkeys_schema_matches : sqlSchema = assumedSchema ∧ schemaKeyed sqlSchema = true := by decide +kernel

/-- every conjunct of every select / exists / update / delete is an equality -/
theorem sqlkeys_keyed_by_equality : keyedByEquality sqlWhere = true := by decide +kernel

/-- per-study and per-owner methods constrain BOTH owner and study (parsed from the study name given), or the full
study name / a full trial name of that study -/
theorem sqlkeys_study_queries_keyed : studyQueriesKeyed sqlWhere = true := by decide +kernel

/-- per-trial methods constrain `trial_name` by equality with the name given / the name of the proto given -/
theorem sqlkeys_trial_queries_keyed : trialQueriesKeyed sqlWhere = true := by decide +kernel

/-- per-operation methods constrain `operation_name`; per-client listings constrain `client_id` as well -/
theorem sqlkeys_op_queries_keyed : opQueriesKeyed sqlWhere = true := by decide +kernel

/-- inserts fill every key column from the parsed name of the inserted proto; updates keep them -/
theorem sqlkeys_inserts_fill_keys : insertsFillKeys sqlWhere = true := by decide +kernel

/-- every method is classified (level + where the addressed name comes from) and nothing is missing -/
theorem sqlkeys_methods_addressed : methodsAddressed sqlWhere = true := by decide +kernel

/-- the criteria bite (non-vacuity): the seeded `startswith` listing, a delete by `study_id` alone, a `like` lookup and a
max without the owner are each refused by the criterion meant for them, and accepted shapes are accepted -/
example :
    let sn : Source := .arg "study_name"
    keyedByEquality [("list_trials", [⟨.trials, .select,
        [⟨"trial_name", .other "trials.trial_name.startswith(study_name)", sn⟩], []⟩])] = false ∧
    studyQueriesKeyed [("list_trials", [⟨.trials, .select,
        [⟨"trial_name", .other "trials.trial_name.startswith(study_name)", sn⟩], []⟩])] = false ∧
    studyQueriesKeyed [("delete_study", [⟨.trials, .delete, [⟨"study_id", .eq, sr sn "study_id"⟩], []⟩])] = false ∧
    studyQueriesKeyed [("max_trial_id", [⟨.trials, .select, [⟨"study_id", .eq, sr sn "study_id"⟩], []⟩])] = false ∧
    trialQueriesKeyed [("get_trial", [⟨.trials, .select,
        [⟨"trial_name", .other "trials.trial_name.like(trial_name)", .arg "trial_name"⟩], []⟩])] = false ∧
    studyQueriesKeyed [("list_trials", [⟨.trials, .select, byStudy sn, []⟩])] = true ∧
    insertsFillKeys [("create_trial", [⟨.trials, .insert, [], [("trial_name", .field "trial" "name")]⟩])] = false ∧
    insertsFillKeys [("create_trial", [⟨.trials, .insert, [], trialVals (.field "trial" "name")⟩])] = true := by
  decide +kernel

/-! ## what the criteria buy on the row model -/

/-- **A keyed query can only pick the rows of the study addressed** (any query, not only today's): if a filtering
query on the trials table satisfies the per-study criterion for the name source `o`, then under every environment in
which `o` names study `k`, every trials row it selects is stored under `k`. -/
theorem sqlkeys_keyed_query_selects_own_trials (env : Env) (o : Source) (k : SKey) (q : Query)
    (he : StudyEnv env o k) (ht : q.table = .trials) (hk : rowKeyed .study o q = true)
    (row : SKey × Trial) (hs : selects env (trialsCol row) q = true) : row.1 = k := by
  unfold rowKeyed at hk
  rw [ht] at hk
  simp only [Bool.or_eq_true] at hk
  rcases hk with hk | hk
  · have := ownerStudy_selects he hk hs (trialsCol_owner row) (trialsCol_study row)
    rw [← this]
  · obtain ⟨a, ha1, ha2⟩ := hasEq_selects hk hs
    rw [trialsCol_name] at ha1
    obtain ⟨id, hid⟩ := he.trial a ha2
    rw [hid] at ha1
    cases ha1
    rfl

/-- the same for the suggestion-operation rows -/
theorem sqlkeys_keyed_query_selects_own_ops (env : Env) (o : Source) (k : SKey) (q : Query)
    (he : StudyEnv env o k) (ht : q.table = .sugOps) (hk : rowKeyed .study o q = true)
    (row : SKey × SugOp) (hs : selects env (opsCol row) q = true) : row.1 = k := by
  unfold rowKeyed at hk
  rw [ht] at hk
  have := ownerStudy_selects he hk hs (opsCol_owner row) (opsCol_study row)
  rw [← this]

/-- … hence **no per-study method of today's source can pick a row of another study**: for every per-study method
of the regenerated table, every filtering query it runs on the trials (operations) table selects only rows stored
under the study its name argument denotes. -/
theorem sqlkeys_study_methods_select_own_rows (m : String) (qs : List Query) (hm : (m, qs) ∈ sqlWhere)
    (o : Source) (ha : addressing.lookup m = some (.study, o)) (q : Query) (hq : q ∈ qs) (hf : isFilter q = true)
    (env : Env) (k : SKey) (he : StudyEnv env o k) :
    (q.table = .trials → ∀ row : SKey × Trial, selects env (trialsCol row) q = true → row.1 = k) ∧
    (q.table = .sugOps → ∀ row : SKey × SugOp, selects env (opsCol row) q = true → row.1 = k) := by
  have h := sqlkeys_study_queries_keyed
  unfold studyQueriesKeyed levelKeyed at h
  rw [List.all_eq_true] at h
  have h1 := h (m, qs) hm
  simp only [ha] at h1
  have h2 : (qs.all fun q => !isFilter q || rowKeyed .study o q) = true := by
    simpa using h1
  rw [List.all_eq_true] at h2
  have h3 := h2 q hq
  rw [hf] at h3
  simp only [Bool.not_true, Bool.false_or] at h3
  exact ⟨fun ht row hs => sqlkeys_keyed_query_selects_own_trials env o k q he ht h3 row hs,
         fun ht row hs => sqlkeys_keyed_query_selects_own_ops env o k q he ht h3 row hs⟩

/-- **`list_trials` / `max_trial_id` of today's source ARE the model functions**: running the regenerated queries of
the method (`exists` on the studies table, then the listing on the trials table) on the row lists of the `Sql` model
gives exactly `Sql.listTrials` / `Sql.maxTrialId`, for every database and every study addressed. -/
theorem sqlkeys_list_trials_is_model (qs : List Query) (hq : sqlWhere.lookup "list_trials" = some qs)
    (qs' : List Query) (hq' : sqlWhere.lookup "max_trial_id" = some qs')
    (env : Env) (k : SKey) (he : StudyEnv env (.arg "study_name") k) (q : Sql) :
    runListTrials qs env q = q.listTrials k ∧ runMaxTrialId qs' env q = q.maxTrialId k := by
  have e1 : sqlWhere.lookup "list_trials" =
      some [⟨.studies, .exist, by1 "study_name" (.arg "study_name"), []⟩, ⟨.trials, .select, byStudy (.arg "study_name"), []⟩] := by
    decide +kernel
  have e2 : sqlWhere.lookup "max_trial_id" =
      some [⟨.studies, .exist, by1 "study_name" (.arg "study_name"), []⟩, ⟨.trials, .select, byStudy (.arg "study_name"), []⟩] := by
    decide +kernel
  rw [e1] at hq
  rw [e2] at hq'
  cases hq
  cases hq'
  have f1 : (fun row : SKey × Head => selects env (studiesCol row) ⟨.studies, .exist, by1 "study_name" (.arg "study_name"), []⟩)
      = fun row => row.1 == k := funext fun row => selects_by1_studyName env _ k he.name row _ _ _
  have f2 : (fun row : SKey × Trial => selects env (trialsCol row) ⟨.trials, .select, byStudy (.arg "study_name"), []⟩)
      = fun row => row.1 == k := funext fun row => selects_byStudy_trials env _ k he row _ _ _
  unfold runListTrials runMaxTrialId Sql.listTrials Sql.maxTrialId Sql.hasStudy
  simp only [f1, f2]
  exact ⟨trivial, trivial⟩

/-- the hypotheses of the two theorems above are satisfiable: the environment of a call on study `("o", "s")` -/
example : ∃ env : Env, StudyEnv env (.arg "study_name") ("o", "s") :=
  ⟨fun s =>
      if s = .arg "study_name" then some (.studyName ("o", "s"))
      else if s = sr (.arg "study_name") "owner_id" then some (.str "o")
      else if s = sr (.arg "study_name") "study_id" then some (.str "s")
      else if s = sr (.arg "study_name") "trial_resource(_).name" then some (.trialName ("o", "s") 1)
      else none,
    ⟨by decide +kernel, by decide +kernel, by decide +kernel, fun v hv => ⟨1, by
      have : (some (Val.trialName ("o", "s") 1) : Option Val) = some v := by
        rw [← hv]; decide +kernel
      cases this; rfl⟩⟩⟩

/-! ## the model functions themselves: a filter by equality on the key returns exactly the rows of that study -/

/-- `Sql.listTrials q k` lists exactly the trials stored under `k`: never a trial that is only stored under
another key. -/
theorem sqlkeys_list_trials_exact (q : Sql) (k : SKey) (l : List Trial) (h : q.listTrials k = .ok l) (t : Trial) :
    t ∈ l ↔ (k, t) ∈ q.trials := by
  unfold Sql.listTrials at h
  split at h
  · cases h
    simp only [List.mem_map, List.mem_filter, beq_iff_eq]
    constructor
    · rintro ⟨⟨k', t'⟩, ⟨hm, hk⟩, ht⟩
      simp only at hk ht
      subst hk ht
      exact hm
    · intro hm
      exact ⟨(k, t), ⟨hm, rfl⟩, rfl⟩
  · cases h

/-- **The per-study reads depend on the rows of that study only**: two databases whose studies / trials /
operations rows under key `k` are the same (whatever they hold under other keys - e.g. `("o", "s1")`,
`("o1", "s")`) answer `load_study`, `list_trials`, `max_trial_id`, `list_suggestion_operations` and
`max_suggestion_operation_number` for `k` identically. -/
theorem sqlkeys_reads_ignore_other_studies (q q' : Sql) (k : SKey) (c : String)
    (hs : q'.studies.filter (·.1 == k) = q.studies.filter (·.1 == k))
    (ht : q'.trials.filter (·.1 == k) = q.trials.filter (·.1 == k))
    (ho : q'.ops.filter (·.1 == k) = q.ops.filter (·.1 == k)) :
    q'.loadStudy k = q.loadStudy k ∧ q'.listTrials k = q.listTrials k ∧ q'.maxTrialId k = q.maxTrialId k ∧
    q'.listOps k c = q.listOps k c ∧ q'.maxOpNumber k c = q.maxOpNumber k c := by
  have h1 : q'.hasStudy k = q.hasStudy k := any_of_filter_eq _ _ _ hs
  have h2 : q'.studies.find? (·.1 == k) = q.studies.find? (·.1 == k) := find?_of_filter_eq _ _ _ hs
  have h3 : q'.opsOf k c = q.opsOf k c := by unfold Sql.opsOf; rw [ho]
  refine ⟨?_, ?_, ?_, ?_, ?_⟩
  · unfold Sql.loadStudy; rw [h2]
  · unfold Sql.listTrials; rw [h1, ht]
  · unfold Sql.maxTrialId; rw [h1, ht]
  · unfold Sql.listOps; rw [h3]
  · unfold Sql.maxOpNumber; rw [h3]

/-- **`delete_study` removes the rows of that study and nothing else**: under every other key the studies, trials
and operations rows are untouched, under the deleted key none is left. -/
theorem sqlkeys_delete_study_keeps_other_studies (q q' : Sql) (k : SKey) (h : q.deleteStudy k = .ok q') :
    (∀ k', k' ≠ k →
      q'.studies.filter (·.1 == k') = q.studies.filter (·.1 == k') ∧
      q'.trials.filter (·.1 == k') = q.trials.filter (·.1 == k') ∧
      q'.ops.filter (·.1 == k') = q.ops.filter (·.1 == k')) ∧
    q'.studies.filter (·.1 == k) = [] ∧ q'.trials.filter (·.1 == k) = [] ∧ q'.ops.filter (·.1 == k) = [] := by
  unfold Sql.deleteStudy at h
  split at h
  · cases h
    exact ⟨fun k' hk => ⟨filter_key_of_filter_ne _ k k' hk, filter_key_of_filter_ne _ k k' hk, filter_key_of_filter_ne _ k k' hk⟩,
      filter_key_of_filter_self _ k, filter_key_of_filter_self _ k, filter_key_of_filter_self _ k⟩
  · cases h

/-! ## a prefix filter instead -/

/-- the equality filter is the model's listing -/
theorem sqlkeys_eq_filter_is_list_trials (q : Sql) (k : SKey) : listTrialsBy eqSel q k = q.listTrials k := rfl

def leakTrial (params : Nat) : Trial :=
  { id := 1, state := .active, client := "", params := params, meas := [], final := none, reason := "", md := [] }

/-- two studies `("o", "s")` and `("o", "s1")`, each with ITS OWN trial 1 -/
def leakDb : Sql :=
  { owners := ["o"],
    studies := [(("o", "s"), ⟨.active, 0, []⟩), (("o", "s1"), ⟨.active, 0, []⟩)],
    trials := [(("o", "s"), leakTrial 0), (("o", "s1"), leakTrial 7)],
    ops := [] }

/-- **A prefix filter leaks** (`trial_name.startswith(study_name)`, the seeded change): in `leakDb` the trial name
`owners/o/studies/s1/trials/1` starts with the study name `owners/o/studies/s`, so the listing of `("o", "s")` also
returns the trial stored under `("o", "s1")` - which the equality filter never does. -/
theorem sqlkeys_prefix_filter_leaks :
    listTrialsBy prefixSel leakDb ("o", "s") = .ok [leakTrial 0, leakTrial 7] ∧
    leakDb.listTrials ("o", "s") = .ok [leakTrial 0] ∧
    (("o", "s1"), leakTrial 7) ∈ leakDb.trials ∧ (("o", "s"), leakTrial 7) ∉ leakDb.trials := by
  refine ⟨by rfl, by rfl, by decide +kernel, by decide +kernel⟩

end VizierModel.SqlKeys
