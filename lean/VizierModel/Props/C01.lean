/-
C01 — trial lifecycle: only legal transitions, completed trials immutable, failing calls change
nothing, documented error classes.  Property theorems only (lemmas in `Lemmas/Service*.lean`).

All theorems are about the service model `Model/Service.lean` (every RPC body of
`vizier_service.py` over a datastore state), for EVERY history of requests — which includes every
algorithm behaviour, since each suggest / early-stop request carries the algorithm's outcome —
and for every variant flag `cfg` unless a hypothesis says otherwise.
-/
import VizierModel.Lemmas.ServiceEs

namespace VizierModel.C01
open VizierModel.Svc

/-- states reachable from the empty service by any history -/
def reach (cfg : Cfg) (h : List Req) : DB := run cfg DB.empty h

theorem c01_reachable_inv (cfg : Cfg) (h : List Req) : Inv (reach cfg h) :=
  run_inv cfg DB.empty h inv_empty

/-- MAIN: after any history, any further call leaves every study's trials legally evolved:
    (1) state moves only REQUESTED→ACTIVE→(STOPPING→)SUCCEEDED|INFEASIBLE, (2) parameters never change,
    (3) a completed trial is identical afterwards except for metadata, (4) the worker of a trial
    changes only when it leaves REQUESTED, (5) newly created trials have ids above every existing
    id, (6) ids stay unique. Deletion is the only other thing that can happen to a trial. -/
theorem c01_lifecycle (cfg : Cfg) (h : List Req) (r : Req) :
    ∀ st ∈ (reach cfg h).studies, ∀ st' ∈ (step cfg (reach cfg h) r).2.studies, keyOf st = keyOf st' →
      trialsStepOK st.trials st'.trials = true ∧ freshIdsOK st.trials st'.trials = true ∧
        (st'.trials.map (·.id)).Nodup := by
  intro st hst st' hst' hk
  have := (step_ok cfg (reach cfg h) r (c01_reachable_inv cfg h)).2 st hst st' hst' hk
  exact ⟨this.step, this.fresh, this.nodup⟩

/-- A call that fails (error status, or `error_details` for UpdateMetadata) leaves ALL stored data
    unchanged — every RPC but the early-stopping check (see `c01_earlystop_error_keeps_trials`). -/
theorem c01_error_leaves_data (cfg : Cfg) (hm : cfg.metadataAtomic = true) (hs : cfg.shortDeliveryOk = true)
    (hc : cfg.suggestCatchesAll = true) (h : List Req) (r : Req) (hr : r.isEarlyStop = false)
    (herr : (step cfg (reach cfg h) r).1.isError = true) :
    (step cfg (reach cfg h) r).2 = reach cfg h :=
  err_keeps_db cfg hm hs hc _ (c01_reachable_inv cfg h) r hr herr

/-! ### documented error classes -/

/-- any call on a missing study: NOT_FOUND (raised by the datastore lookup) -/
theorem c01_missing_study_not_found (cfg : Cfg) (db : DB) (o s : String) (guard : Bool) (f : Study → Resp × Study)
    (hmiss : findStudy db o s = none) : onStudy db o s guard f = (.err .notFound .raw, db) := by
  unfold onStudy; simp [hmiss]

/-- any mutating call on a study that is not active: FAILED_PRECONDITION, nothing changes -/
theorem c01_inactive_study_failed_precondition (db : DB) (o s : String) (f : Study → Resp × Study) (st : Study)
    (hf : findStudy db o s = some st) (hst : st.state = .inactive ∨ st.state = .completed) :
    onStudy db o s true f = (.err .failedPrecondition .handled, db) := by
  unfold onStudy
  rcases hst with h | h <;> simp [hf, Study.immutable, h]

/-- completing / measuring / stopping / early-stop-checking a missing trial: NOT_FOUND -/
theorem c01_missing_trial_not_found (cfg : Cfg) (st : Study) (id : Nat) (hmiss : st.findTrial id = none) :
    (∀ f i r, completeBody st id f i r = (.err .notFound .raw, st)) ∧
    (∀ m, addMeasurementBody st id m = (.err .notFound .raw, st)) ∧
    stopBody st id = (.err .notFound .raw, st) ∧
    deleteTrialBody st id = (.err .notFound .raw, st) ∧
    (∀ es, earlyStopBody cfg st id es = (.err .notFound .raw, st)) := by
  refine ⟨?_, ?_, ?_, ?_, ?_⟩ <;> intros <;>
    simp [completeBody, addMeasurementBody, stopBody, deleteTrialBody, earlyStopBody, hmiss]

/-- completing or early-stop-checking a trial that is not ACTIVE/STOPPING, measuring a REQUESTED or
    SUCCEEDED trial, stopping a REQUESTED or INFEASIBLE trial: FAILED_PRECONDITION, nothing changes.
    (Documented exceptions: measuring an INFEASIBLE trial and stopping a STOPPING/SUCCEEDED trial
    return the trial unchanged.) -/
theorem c01_immutable_trial_failed_precondition (cfg : Cfg) (st : Study) (id : Nat) (t : Trial)
    (hf : st.findTrial id = some t) :
    (t.state.mutable = false → ∀ f i r, completeBody st id f i r = (.err .failedPrecondition .handled, st)) ∧
    (t.state.mutable = false → ∀ es, earlyStopBody cfg st id es = (.err .failedPrecondition .handled, st)) ∧
    (t.state = .requested ∨ t.state = .succeeded → ∀ m, addMeasurementBody st id m = (.err .failedPrecondition .handled, st)) ∧
    (t.state = .requested ∨ t.state = .infeasible → stopBody st id = (.err .failedPrecondition .handled, st)) ∧
    (t.state = .infeasible → ∀ m, addMeasurementBody st id m = (.trial t, st)) ∧
    (t.state = .stopping ∨ t.state = .succeeded → stopBody st id = (.trial t, st)) := by
  refine ⟨?_, ?_, ?_, ?_, ?_, ?_⟩
  · intro hm f i r; simp [completeBody, hf, hm]
  · intro hm es; simp [earlyStopBody, hf, hm]
  · intro hs m; rcases hs with h | h <;> simp [addMeasurementBody, hf, h, TState.mutable]
  · intro hs; rcases hs with h | h <;> simp [stopBody, hf, h]
  · intro hs m; simp [addMeasurementBody, hf, hs]
  · intro hs; rcases hs with h | h <;> simp [stopBody, hf, h]

/-! ### the documented error table, as ONE function of (stored data, request) -/

/-- THE ERROR TABLE HOLDS: whenever the table promises an error class for a call - any stored data
    (reachable or not), any request, any algorithm outcome - the service answers exactly that class. -/
theorem c01_error_table (cfg : Cfg) (hc : cfg.deleteCascadesOps = true) (db : DB) (r : Req) (e : Code × Via)
    (h : specError db r = some e) : (step cfg db r).1 = .err e.1 e.2 := by
  cases r with
  | createStudy => simp [specError] at h
  | listStudies => simp [specError] at h
  | getStudy o s =>
    simp only [specError] at h
    cases hf : findStudy db o s with
    | none => simp [hf] at h; subst h; simp [step, onStudy, hf]
    | some st => simp [hf] at h
  | listTrials o s =>
    simp only [specError] at h
    cases hf : findStudy db o s with
    | none => simp [hf] at h; subst h; simp [step, onStudy, hf]
    | some st => simp [hf] at h
  | listOptimal o s =>
    simp only [specError] at h
    cases hf : findStudy db o s with
    | none => simp [hf] at h; subst h; simp [step, onStudy, hf]
    | some st => simp [hf] at h
  | deleteStudy o s =>
    simp only [specError] at h
    cases hf : findStudy db o s with
    | none => simp [hf] at h; subst h; simp [step, hf]
    | some st => simp [hf] at h
  | setStudyState o s stt =>
    simp only [specError] at h
    cases hf : findStudy db o s with
    | none => simp [hf] at h; subst h; simp [step, onStudy, hf]
    | some st => simp [hf] at h
  | getOperation o s c n =>
    simp only [specError] at h
    cases hf : findStudy db o s with
    | none => simp [hf] at h; subst h; simp [step, onStudy, hf, hc]
    | some st => simp [hf] at h
  | createTrial o s t =>
    simp only [specError] at h
    cases hf : findStudy db o s with
    | none => simp [hf] at h; subst h; simp [step, onStudy, hf]
    | some st =>
      by_cases hi : st.immutable = true
      · simp [hf, hi] at h; subst h; simp [step, onStudy, hf, hi]
      · simp [hf, hi] at h
  | suggest o s c n a =>
    simp only [specError] at h
    cases hf : findStudy db o s with
    | none => simp [hf] at h; subst h; simp [step, onStudy, hf]
    | some st =>
      by_cases hi : st.immutable = true
      · simp [hf, hi] at h; subst h; simp [step, onStudy, hf, hi]
      · simp [hf, hi] at h
  | updateMetadata o s us =>
    simp only [specError] at h
    cases hf : findStudy db o s with
    | none => simp [hf] at h; subst h; simp [step, onStudy, hf]
    | some st =>
      by_cases hi : st.immutable = true
      · simp [hf, hi] at h; subst h; simp [step, onStudy, hf, hi]
      · simp [hf, hi] at h
  | getTrial o s id =>
    simp only [specError] at h
    cases hf : findStudy db o s with
    | none => simp [hf] at h; subst h; simp [step, onStudy, hf]
    | some st =>
      cases ht : st.findTrial id with
      | none => simp [hf, ht] at h; subst h; simp [step, onStudy, hf, ht]
      | some t => simp [hf, ht] at h
  | deleteTrial o s id =>
    simp only [specError] at h
    cases hf : findStudy db o s with
    | none => simp [hf] at h; subst h; simp [step, onStudy, hf]
    | some st =>
      by_cases hi : st.immutable = true
      · simp [hf, hi] at h; subst h; simp [step, onStudy, hf, hi]
      · cases ht : st.findTrial id with
        | none => simp [hf, hi, ht] at h; subst h; simp [step, onStudy, hf, hi, deleteTrialBody, ht]
        | some t => simp [hf, hi, ht] at h
  | complete o s id f i rs =>
    simp only [specError] at h
    cases hf : findStudy db o s with
    | none => simp [hf] at h; subst h; simp [step, onStudy, hf]
    | some st =>
      by_cases hi : st.immutable = true
      · simp [hf, hi] at h; subst h; simp [step, onStudy, hf, hi]
      · cases ht : st.findTrial id with
        | none => simp [hf, hi, ht] at h; subst h; simp [step, onStudy, hf, hi, completeBody, ht]
        | some t =>
          by_cases hm : t.state.mutable = true
          · simp [hf, hi, ht, hm] at h
          · simp [hf, hi, ht, hm] at h; subst h; simp [step, onStudy, hf, hi, completeBody, ht, hm]
  | checkEarlyStop o s id es =>
    simp only [specError] at h
    cases hf : findStudy db o s with
    | none => simp [hf] at h; subst h; simp [step, onStudy, hf]
    | some st =>
      by_cases hi : st.immutable = true
      · simp [hf, hi] at h; subst h; simp [step, onStudy, hf, hi]
      · cases ht : st.findTrial id with
        | none => simp [hf, hi, ht] at h; subst h; simp [step, onStudy, hf, hi, earlyStopBody, ht]
        | some t =>
          by_cases hm : t.state.mutable = true
          · simp [hf, hi, ht, hm] at h
          · simp [hf, hi, ht, hm] at h; subst h; simp [step, onStudy, hf, hi, earlyStopBody, ht, hm]
  | addMeasurement o s id m =>
    simp only [specError] at h
    cases hf : findStudy db o s with
    | none => simp [hf] at h; subst h; simp [step, onStudy, hf]
    | some st =>
      by_cases hi : st.immutable = true
      · simp [hf, hi] at h; subst h; simp [step, onStudy, hf, hi]
      · cases ht : st.findTrial id with
        | none => simp [hf, hi, ht] at h; subst h; simp [step, onStudy, hf, hi, addMeasurementBody, ht]
        | some t =>
          cases hs : t.state <;> simp [hf, hi, ht, hs] at h <;>
            (subst h; simp [step, onStudy, hf, hi, addMeasurementBody, ht, hs, TState.mutable])
  | stop o s id =>
    simp only [specError] at h
    cases hf : findStudy db o s with
    | none => simp [hf] at h; subst h; simp [step, onStudy, hf]
    | some st =>
      by_cases hi : st.immutable = true
      · simp [hf, hi] at h; subst h; simp [step, onStudy, hf, hi]
      · cases ht : st.findTrial id with
        | none => simp [hf, hi, ht] at h; subst h; simp [step, onStudy, hf, hi, stopBody, ht]
        | some t =>
          cases hs : t.state <;> simp [hf, hi, ht, hs] at h <;>
            (subst h; simp [step, onStudy, hf, hi, stopBody, ht, hs])

/-- an early-stopping check whose algorithm raises never touches trials, study metadata or
    suggestion operations (only its own bookkeeping record) -/
theorem c01_earlystop_failure_keeps_data (cfg : Cfg) (st : Study) (id : Nat) :
    (earlyStopBody cfg st id .raises).2.trials = st.trials ∧
    (earlyStopBody cfg st id .raises).2.sugOps = st.sugOps ∧
    (earlyStopBody cfg st id .raises).2.md = st.md := by
  have hc : ∀ st1 : Study, (esCompute cfg st1 id .raises).2.trials = st1.trials ∧
      (esCompute cfg st1 id .raises).2.md = st1.md := by
    intro st1
    simp only [esCompute]
    split
    · constructor
      · simp
      · unfold Study.putEsOp; split <;> rfl
    · exact ⟨rfl, rfl⟩
  have hp : ∀ o : EsOp, (st.putEsOp o).trials = st.trials ∧ (st.putEsOp o).md = st.md := by
    intro o; constructor
    · simp
    · unfold Study.putEsOp; split <;> rfl
  refine ⟨?_, earlyStopBody_sugOps cfg st id _, ?_⟩
  · unfold earlyStopBody
    repeat' split
    all_goals (try rfl)
    all_goals (rw [(hc _).1, (hp _).1])
  · unfold earlyStopBody
    repeat' split
    all_goals (try rfl)
    all_goals (rw [(hc _).2, (hp _).2])

/-! ### non-vacuity: a short history reaches every trial state and several error classes -/

def demo : List Req :=
  [ .createStudy "o" "s" false .active 0 [],
    .suggest "o" "s" "w" 3 (.suggestions [⟨1, []⟩, ⟨2, []⟩, ⟨3, []⟩, ⟨4, []⟩] []),
    .complete "o" "s" 1 (some ⟨7, true⟩) false "",
    .complete "o" "s" 2 none true "bad",
    .stop "o" "s" 3 ]

example : ((reach Cfg.fixed demo).studies.map fun st => st.trials.map (·.state)) =
    [[.succeeded, .infeasible, .stopping, .requested]] := by decide

example : (step Cfg.fixed (reach Cfg.fixed demo) (.complete "o" "s" 1 (some ⟨9, true⟩) false "")).1.isError = true := by
  decide

/-- the table is not vacuous: it promises each of its three kinds of entries on a small store -/
example :
    specError (reach Cfg.fixed demo) (.getTrial "o" "nope" 1) = some (.notFound, .raw) ∧
    specError (reach Cfg.fixed demo) (.stop "o" "s" 99) = some (.notFound, .raw) ∧
    specError (reach Cfg.fixed demo) (.complete "o" "s" 1 none false "") = some (.failedPrecondition, .handled) := by
  decide

/-! ### CreateTrial of a trial evaluated elsewhere (warm start) -/

/-- `CreateTrial` of a trial given as completed keeps it completed — SUCCEEDED and (repaired code) INFEASIBLE
    alike — under a fresh id; every other state waits in the REQUESTED pool.  Any study, any trial. -/
theorem c01_create_trial_keeps_completed (cfg : Cfg) (hk : cfg.createKeepsInfeasible = true) (st : Study) (t : Trial) :
    let t' := { t with id := st.maxTrialId + 1, client := "",
                       state := if t.state == .succeeded || t.state == .infeasible then t.state else .requested }
    createTrialBody cfg.createKeepsInfeasible st t = (.trial t', st.addTrial t') := by
  rw [hk]
  cases h : t.state <;> simp [createTrialBody, h]

def infeasibleWarmStart : Trial :=
  { id := 0, state := .infeasible, client := "", params := 3, meas := [], final := none, reason := "crashed", md := [] }

/-- the pinned commit kept only SUCCEEDED: an INFEASIBLE trial added for warm-starting lands in the REQUESTED
    pool and the next SuggestTrials hands it to a worker for evaluation -/
theorem c01_create_trial_infeasible_counterexample :
    let cfg := { Cfg.fixed with createKeepsInfeasible := false }
    let db := run cfg DB.empty [ .createStudy "o" "s" false .active 0 [], .createTrial "o" "s" infeasibleWarmStart ]
    db.studies.map (fun st => st.trials.map (·.state)) = [[.requested]] ∧
    ((step cfg db (.suggest "o" "s" "w" 1 (.suggestions [⟨9, []⟩] []))).2.studies.map fun st => st.trials.map fun t => (t.state, t.client, t.params))
      = [[(.active, "w", 3)]] ∧
    (run Cfg.fixed DB.empty [ .createStudy "o" "s" false .active 0 [], .createTrial "o" "s" infeasibleWarmStart ]).studies.map
      (fun st => st.trials.map (·.state)) = [[.infeasible]] := by
  decide

end VizierModel.C01
