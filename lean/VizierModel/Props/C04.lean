/-
C04 — concurrent clients: every interleaving is equivalent to a serial order.  Property theorems.

Scope of the theorems: TWO concurrent RPCs on one study drawn from the RPCs whose datastore calls
all sit inside the study lock (CompleteTrial, AddTrialMeasurement, StopTrial, CreateTrial, DeleteTrial,
UpdateMetadata, SetStudyState) — `c04_shape_study_lock_rpcs` checks that on the current source.
Granularity: the unguarded study check and the critical section.  That a critical section may be
treated as ONE atomic event is itself proved for the fine-grained semantics
(`c04_lock_gives_atomic_sections`: two threads `acquire; op₁ … opₙ; release` with arbitrary
operations, every schedule the lock admits ends in one of the two serial results); what stays
trusted is that `threading.Lock` provides mutual exclusion and that one datastore call is atomic.  Initial state, arguments: arbitrary.  SuggestTrials,
CheckTrialEarlyStoppingState, DeleteStudy, CreateStudy pairs are decided by the exhaustive
schedule exploration on the real code only (stated as partial).  For MORE than two clients the lock-level
statement is proved for any number of threads (`c04_lock_gives_atomic_sections_n`: the result is the
serial execution of the sections in the order the lock was acquired), and so is the check-then-section
statement (`c04_study_lock_rpcs_serialisable_n` in `Props/C04N.lean`: any number of study-lock RPCs, any
complete schedule of their unguarded checks and critical sections).
-/
import VizierModel.Lemmas.ConcInst
import VizierModel.Lemmas.ConcLock
import VizierModel.Lemmas.ConcLockN

namespace VizierModel.C04
open VizierModel.Svc VizierModel.Conc

inductive StudyRpc where
  | complete (id : Nat) (f : Option Meas) (i : Bool) (r : String)
  | measure (id : Nat) (m : Meas)
  | stop (id : Nat)
  | create (t : Trial)
  | delete (id : Nat)
  | metadata (us : List (Meta.Upd K String))
  | setState (s : SState)

def StudyRpc.crit (cfg : Cfg) : StudyRpc → Crit
  | .complete id f i r => critComplete id f i r
  | .measure id m => critMeasure id m
  | .stop id => critStop id
  | .create t => critCreate cfg.createKeepsInfeasible t
  | .delete id => critDelete id
  | .metadata us => critMetadata cfg us
  | .setState s => critSetState s

theorem stateIndep_of (cfg : Cfg) (x : StudyRpc) (h : ∀ s, x ≠ .setState s) : StateIndep (x.crit cfg) := by
  cases x with
  | complete id f i r => exact stateIndep_complete id f i r
  | measure id m => exact stateIndep_measure id m
  | stop id => exact stateIndep_stop id
  | create t => exact stateIndep_create _ t
  | delete id => exact stateIndep_delete id
  | metadata us => exact stateIndep_metadata cfg us
  | setState s => exact absurd rfl (h s)

/-- swapping the roles of the two threads -/
theorem serialisable_commute_nocheck' (a b : Crit) (hb : b.checks = false) (ha : PresMut a) (hc : Commute b a)
    (st : Study) :
    ∀ evs ∈ interleavings,
      outcome (runEvs a b st evs) = outcome (runEvs a b st serialAB) ∨
      outcome (runEvs a b st evs) = outcome (runEvs a b st serialBA) := by
  intro evs hevs
  simp only [interleavings, List.mem_cons, List.mem_nil_iff, or_false] at hevs
  have hA := ha st
  obtain ⟨c1, c2, c3⟩ := hc st
  rcases hevs with rfl | rfl | rfl | rfl | rfl | rfl
  · exact Or.inl rfl
  · left
    simp only [runEvs, serialAB, List.foldl_cons, List.foldl_nil, stepEv, outcome, hb]
    cases hi : st.immutable <;> cases hac : a.checks <;> simp_all
  · left
    simp only [runEvs, serialAB, List.foldl_cons, List.foldl_nil, stepEv, outcome, hb]
    cases hi : st.immutable <;> cases hac : a.checks <;> simp_all
  · left
    simp only [runEvs, serialAB, List.foldl_cons, List.foldl_nil, stepEv, outcome, hb]
    cases hi : st.immutable <;> cases hac : a.checks <;> simp_all
  · left
    simp only [runEvs, serialAB, List.foldl_cons, List.foldl_nil, stepEv, outcome, hb]
    cases hi : st.immutable <;> cases hac : a.checks <;> simp_all
  · exact Or.inr rfl

/-- MAIN: for every initial study, every pair of study-lock RPCs with arbitrary arguments and every
    interleaving of their study checks and critical sections, what both callers observe (success or
    error class, trials handed out) and the final stored study equal those of one of the two serial
    orders. -/
theorem c04_study_lock_pairs_serialisable (cfg : Cfg) (x y : StudyRpc) (st : Study) :
    ∀ evs ∈ interleavings,
      outcome (runEvs (x.crit cfg) (y.crit cfg) st evs) = outcome (runEvs (x.crit cfg) (y.crit cfg) st serialAB) ∨
      outcome (runEvs (x.crit cfg) (y.crit cfg) st evs) = outcome (runEvs (x.crit cfg) (y.crit cfg) st serialBA) := by
  by_cases hx : ∃ s, x = .setState s
  · obtain ⟨s, rfl⟩ := hx
    by_cases hy : ∃ s', y = .setState s'
    · obtain ⟨s', rfl⟩ := hy
      exact serialisable_nochecks _ _ rfl rfl st
    · have hy' : ∀ s', y ≠ .setState s' := fun s' e => hy ⟨s', e⟩
      have hi := stateIndep_of cfg y hy'
      exact serialisable_nocheck_commute _ _ rfl hi.presMut (hi.commute_setState s) st
  · have hx' : ∀ s, x ≠ .setState s := fun s e => hx ⟨s, e⟩
    have hix := stateIndep_of cfg x hx'
    by_cases hy : ∃ s', y = .setState s'
    · obtain ⟨s', rfl⟩ := hy
      exact serialisable_commute_nocheck' _ _ rfl hix.presMut (hix.commute_setState s') st
    · have hy' : ∀ s', y ≠ .setState s' := fun s' e => hy ⟨s', e⟩
      exact serialisable_presMut _ _ hix.presMut (stateIndep_of cfg y hy').presMut st

/-! ### the two races of the pinned commit (kernel-checked witnesses; both repaired by fix: commits,
    `c04_shape_*` keep them repaired) -/

def allocRun (evs : List AllocEv) : AllocState := evs.foldl allocStep { ids := [1, 2] }

/-- id allocation without a common lock (CreateTrial under the study lock vs SuggestTrials under the
    operation lock): an interleaving makes one insert fail although no serial order does -/
theorem c04_id_race_counterexample :
    (allocRun [.readA, .readB, .insA, .insB]).failed = true ∧
    (allocRun [.readA, .insA, .readB, .insB]).failed = false ∧
    (allocRun [.readB, .insB, .readA, .insA]).failed = false := by decide

def lostRun (evs : List LostEv) : LostState := evs.foldl lostStep { md := 0, other := 0 }

/-- read-copy … write-back around an unlocked metadata write (UpdateMetadata at the pinned commit):
    the acknowledged metadata update is lost, in no serial order is it -/
theorem c04_lost_update_counterexample :
    (lostRun [.readA, .writeB, .writeBackA]).md = 0 ∧
    (lostRun [.readA, .writeBackA, .writeB]).md = 7 ∧
    (lostRun [.writeB, .readA, .writeBackA]).md = 7 := by decide

def poolRun (evs : List PoolEv) : PoolState := evs.foldl poolStep {}

/-- hand-out of a REQUESTED trial from a snapshot, without the study lock, around an unlocked DeleteTrial
    (the code before round g's repair): SuggestTrials fails inside (its operation stays pending), which
    happens in neither serial order -/
theorem c04_pool_race_counterexample :
    (poolRun [.snapshotA, .deleteB, .writeBackA]).failedA = true ∧
    (poolRun [.snapshotA, .writeBackA, .deleteB]).failedA = false ∧
    (poolRun [.deleteB, .snapshotA, .writeBackA]).failedA = false := by decide

/-- MUTUAL EXCLUSION ⇒ ATOMICITY (the step the coarse model takes for granted).  Two threads, each
    `acquire L; op₁; …; opₙ; release L`, the operations being ARBITRARY functions of the shared state
    (the datastore) and the thread's local state (its request, the copies it read, its response):
    every step-by-step schedule the lock admits that runs both threads to completion ends in the shared
    state and the two local states of one of the two serial orders.  Any number of operations, any
    state, any schedule. -/
theorem c04_lock_gives_atomic_sections {σ κ : Type} (opsA opsB : List (σ → κ → σ × κ)) (s0 : σ) (kA kB : κ)
    (sched : List Bool) (g' : ConcLock.G σ κ)
    (h : ConcLock.run (ConcLock.section_ opsA) (ConcLock.section_ opsB)
      { sh := s0, holder := none, a := ⟨0, kA⟩, b := ⟨0, kB⟩ } sched = some g')
    (hA : g'.a.pc = opsA.length + 2) (hB : g'.b.pc = opsB.length + 2) :
    (g'.sh, g'.a.loc, g'.b.loc) = ConcLock.serialAB opsA opsB s0 kA kB ∨
    (g'.sh, g'.a.loc, g'.b.loc) = ConcLock.serialBA opsA opsB s0 kA kB :=
  ConcLock.critical_sections_atomic opsA opsB s0 kA kB sched g' h hA hB

/-- MUTUAL EXCLUSION ⇒ ATOMICITY for ANY NUMBER of concurrent clients.  `n` threads, thread `i` running
    `acquire L; ops i …; release L` (arbitrary operations on the shared state and on its own local state —
    request, copies read, response), scheduled step by step by an arbitrary list of thread numbers: if the
    lock admits the schedule and every thread runs to completion, the final shared state and every thread's
    local state are those of the SERIAL execution of the sections in some order, and that order contains
    every thread exactly once (it is the order in which the lock was acquired). -/
theorem c04_lock_gives_atomic_sections_n {σ κ : Type} (n : Nat) (progs : Nat → List (σ → κ → σ × κ)) (s0 : σ)
    (locs0 : Nat → κ) (sched : List Nat) (g' : ConcLockN.GN σ κ)
    (h : ConcLockN.runN n progs { sh := s0, holder := none, ths := fun i => ⟨0, locs0 i⟩ } sched = some g')
    (hfin : ∀ i, i < n → (g'.ths i).pc = (progs i).length + 2) :
    ∃ order : List Nat, order.Nodup ∧ (∀ i, i ∈ order ↔ i < n) ∧
      g'.sh = (ConcLockN.serialN progs s0 locs0 order).1 ∧
      ∀ i, i < n → (g'.ths i).loc = (ConcLockN.serialN progs s0 locs0 order).2 i :=
  ConcLockN.critical_sections_atomic_n n progs s0 locs0 sched g' h hfin

/-- non-vacuity: three threads, each appending its number twice to a shared log (read-modify-write through
    the local state); the schedule lets 1 run first, then 0 and 2 alternate at the lock: admitted, all
    finished, log = sections of 1, 0, 2 — while a schedule that moves a thread waiting for the lock is not
    admitted -/
example :
    let progs : Nat → List (List Nat → Nat → List Nat × Nat) := fun i =>
      [fun s _ => (s, s.length), fun s k => (s ++ [i * 10 + k], k), fun s k => (s ++ [i], k)]
    let g0 : ConcLockN.GN (List Nat) Nat := { sh := [], holder := none, ths := fun _ => ⟨0, 0⟩ }
    ((ConcLockN.runN 3 progs g0 [1, 1, 1, 1, 1, 0, 0, 0, 0, 0, 2, 2, 2, 2, 2]).map (·.sh)) = some [10, 1, 2, 0, 24, 2] ∧
    ((ConcLockN.runN 3 progs g0 [1, 1, 0]).map (·.sh)) = none ∧
    (ConcLockN.serialN progs [] (fun _ => 0) [1, 0, 2]).1 = [10, 1, 2, 0, 24, 2] := by
  refine ⟨by rfl, by rfl, by rfl⟩

end VizierModel.C04
