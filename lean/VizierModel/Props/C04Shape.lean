/-
C04 — obligations tying the concurrency model to the CURRENT source: the lock/datastore-call shape
regenerated from vizier_service.py on every run must equal the shape the model assumes, and the
derived lock-discipline facts must hold of the generated shape.
-/
import VizierModel.Generated.ServicerShape

namespace VizierModel.C04
open VizierModel.Conc

theorem c04_shape_matches : Generated.servicerShape = assumedShape := by decide

/-- the RPCs of the serialisability theorem have ALL their datastore calls (but the leading study
    check) inside the study lock, so their critical sections are atomic w.r.t. each other -/
theorem c04_shape_study_lock_rpcs :
    [Rpc.setStudyState, .createTrial, .addTrialMeasurement, .completeTrial, .stopTrial, .deleteTrial, .updateMetadata].all
      (criticalUnderStudyLock Generated.servicerShape) = true := by decide

/-- every write of study data, in any RPC, happens under the study lock (no lost update on the
    study record, trials or metadata) -/
theorem c04_shape_study_data_writes_locked : studyDataWritesLocked Generated.servicerShape = true := by decide

/-- trial ids are always allocated under the study lock (no two trials with one id) -/
theorem c04_shape_id_allocation_locked : idAllocationLocked Generated.servicerShape = true := by decide

end VizierModel.C04
