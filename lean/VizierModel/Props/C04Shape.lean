/-
C04 — obligations tying the concurrency model to the CURRENT source: the lock/datastore-call shape
regenerated from vizier_service.py on every run must equal the shape the model assumes, and the
derived lock-discipline facts must hold of the generated shape.
-/
import VizierModel.Generated.ServicerShape

namespace VizierModel.C04
open VizierModel.Conc

theorem c04_shape_matches : Generated.servicerShape = assumedShape := by decide

/-- the RPCs of the serialisability theorem have ALL their datastore calls (but the leading study
    check) inside the study lock, so their critical sections are atomic w.r.t. each other -/
theorem c04_shape_study_lock_rpcs :
    [Rpc.setStudyState, .createTrial, .addTrialMeasurement, .completeTrial, .stopTrial, .deleteTrial, .updateMetadata].all
      (criticalUnderStudyLock Generated.servicerShape) = true := by decide

/-- every write of study data, in any RPC, happens under the study lock (no lost update on the
    study record, trials or metadata) -/
theorem c04_shape_study_data_writes_locked : studyDataWritesLocked Generated.servicerShape = true := by decide

/-- trial ids are always allocated under the study lock (no two trials with one id) -/
theorem c04_shape_id_allocation_locked : idAllocationLocked Generated.servicerShape = true := by decide

/-- no trial / operation row is created for a study deleted meanwhile: every row-creating datastore call
    shares a lock with `delete_study`, and a call that fails on a missing study precedes it under that lock -/
theorem c04_shape_child_rows_guarded : childRowsGuarded Generated.servicerShape = true := by decide

/-- ... which is exactly what the pinned commit lacked (`DeleteStudy` took no lock): the discipline fails
    for that shape (witness on the real code: schedule [CreateTrial.max_trial_id, DeleteStudy,
    CreateTrial.create_trial] on SQLite leaves a trial row without a study) -/
theorem c04_orphan_rows_counterexample : childRowsGuarded shapeWithUnlockedDelete = false := by decide

/-- the intermediate repair (a79221c alone: `delete_study` under the study lock only) still fails the discipline:
    operation records are created under the operation lock -/
example : childRowsGuarded (assumedShape.map fun rc =>
    if rc.1 == .deleteStudy then (rc.1, [(.deleteStudy, [.study])]) else rc) = false := by decide

end VizierModel.C04
