/-
C08 — local, gRPC and split-Pythia deployments behave identically for clients.
Property theorems only.
-/
import VizierModel.Lemmas.ServiceEs
import VizierModel.Model.Deploy

namespace VizierModel.C08
open VizierModel.Svc VizierModel.Deploy

/-- which servicer outcomes can occur: statuses are set through `handle_exception`, raw
    exceptions are Python exceptions -/
def WellFormed : Resp → Prop
  | .err c .handled => isStatus c = true
  | _ => True

/-- the error class of every call is the same in every deployment (repaired code), for every
    servicer outcome -/
theorem c08_error_class_transport_independent (r : Resp) (t : Transport) :
    classOf (serve DCfg.fixed t r) = classOf (serve DCfg.fixed .loc r) := by
  cases t <;> cases r <;> try rfl
  all_goals (rename_i c v; cases c <;> cases v <;> rfl)

/-- responses along a history (the servicer is the same function in every deployment) -/
def responses (cfg : Cfg) : DB → List Req → List Resp
  | _, [] => []
  | db, r :: rs => (step cfg db r).1 :: responses cfg (step cfg db r).2 rs

/-- MAIN: for every history, a caller sees the same sequence of (value | error class) through the
    in-process servicer and through a gRPC server -/
theorem c08_histories_transport_independent (cfg : Cfg) (h : List Req) (t : Transport) :
    (responses cfg DB.empty h).map (fun r => classOf (serve DCfg.fixed t r)) =
      (responses cfg DB.empty h).map (fun r => classOf (serve DCfg.fixed .loc r)) := by
  apply List.map_congr_left
  intro r _
  exact c08_error_class_transport_independent r t

/-- split Pythia: an algorithm failure reaches SuggestTrials as RpcError instead of the raw
    exception; with the repaired service both are reported the same way, leaving the same state -/
theorem c08_split_pythia_same_failure (cfg : Cfg) (hc : cfg.suggestCatchesAll = true) (op0 : SugOp) (st : Study)
    (need : Nat) (out : List Trial) (t : Transport) :
    pythiaStage cfg op0 st need out (algFailure t) = pythiaStage cfg op0 st need out (algFailure .loc) := by
  cases t <;> simp [algFailure, pythiaStage, hc]

/-- promised exceptions: `get_trial` of a missing trial raises ResourceNotFoundError, `suggest` on a
    finished study returns [], `from_resource_name` of a missing study raises ResourceNotFoundError —
    in every deployment -/
theorem c08_promised_exceptions (t : Transport) :
    clientGetTrial DCfg.fixed (serve DCfg.fixed t (.err .notFound .raw)) = .resourceNotFound ∧
    clientSuggest (serve DCfg.fixed t (.err .failedPrecondition .handled)) = .emptyList ∧
    clientFromResourceName (serve DCfg.fixed t (.err .notFound .raw)) = .resourceNotFound := by
  cases t <;> decide

/-- client observations agree across deployments for every servicer outcome (repaired code) -/
theorem c08_client_layer_transport_independent (r : Resp) (t : Transport) :
    clientGetTrial DCfg.fixed (serve DCfg.fixed t r) = clientGetTrial DCfg.fixed (serve DCfg.fixed .loc r) ∧
    clientSuggest (serve DCfg.fixed t r) = clientSuggest (serve DCfg.fixed .loc r) ∧
    clientPass (serve DCfg.fixed t r) = clientPass (serve DCfg.fixed .loc r) := by
  cases t <;> cases r <;> try exact ⟨rfl, rfl, rfl⟩
  all_goals (rename_i c v; cases c <;> cases v <;> exact ⟨rfl, rfl, rfl⟩)

/-! ### the pinned commit violates the property (kernel-checked witnesses) -/

/-- a missing trial: ResourceNotFoundError locally, an UNKNOWN RpcError escaping `get_trial` over gRPC -/
theorem c08_get_trial_counterexample :
    clientGetTrial DCfg.legacy (serve DCfg.legacy .loc (.err .notFound .raw)) = .resourceNotFound ∧
    clientGetTrial DCfg.legacy (serve DCfg.legacy .grpc (.err .notFound .raw)) = .error .other := by
  decide

/-- at the pinned commit `handle_exception` does not stop the servicer method when it runs behind
    gRPC: CompleteTrial on a completed trial goes on and overwrites the final measurement although
    the client is told FAILED_PRECONDITION.  `completeNoAbort` is that continued execution. -/
def completeNoAbort (st : Study) (id : Nat) (final : Option Meas) (infeasible : Bool) (reason : String) : Resp × Study :=
  match st.findTrial id with
  | none => (.err .notFound .raw, st)
  | some t =>
    match chooseFinal t final infeasible with
    | none => (.err .unknown .handled, st)
    | some t1 =>
      let t2 := markCompleted t1 infeasible reason
      (if !t.state.mutable then .err .failedPrecondition .handled else .trial t2, st.putTrial t2)

theorem c08_no_abort_counterexample :
    let t : Trial := { id := 1, state := .succeeded, client := "w", params := 0, meas := [], final := some ⟨1, true⟩, reason := "", md := [] }
    let st : Study := { owner := "o", sid := "s", state := .active, spec := 0, md := [], trials := [t], sugOps := [], esOps := [] }
    (completeBody st 1 (some ⟨2, true⟩) false "").2 = st ∧
    (completeNoAbort st 1 (some ⟨2, true⟩) false "").2 ≠ st ∧
    trialsStepOK st.trials (completeNoAbort st 1 (some ⟨2, true⟩) false "").2.trials = false := by
  decide

end VizierModel.C08
