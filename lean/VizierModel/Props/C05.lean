/-
C05 — the SQL-backed service survives a crash at any point.  Property theorems only.

Crash model (Model/Crash.lean): each datastore write call is one transaction (trusted: SQLite
journal; checked on every run: the real statement/commit trace of every call has exactly one commit,
at the end); a crash keeps a PREFIX of the RPC's write calls.  `crashStates cfg db r` are the states
a restarted server can find.
-/
import VizierModel.Lemmas.CrashInv

namespace VizierModel.C05
open VizierModel.Svc

def multiWrite : Req → Bool
  | .suggest .. => true
  | .checkEarlyStop .. => true
  | _ => false

/-- single-resource calls (create, complete, measure, stop, delete, set-state, update-metadata,
    delete-study with its trials and operations, create-study) are all-or-nothing under a crash -/
theorem c05_single_resource_atomic (cfg : Cfg) (db : DB) (r : Req) (hr : multiWrite r = false) :
    ∀ s ∈ crashStates cfg db r, s = db ∨ s = (step cfg db r).2 := by
  intro s hs
  cases r <;> simp_all [crashStates, multiWrite]

/-- the write list of SuggestTrials replays to exactly the state the service model computes:
    an acknowledged SuggestTrials (all writes committed) is durable as a whole -/
theorem c05_suggest_ack_durable (cfg : Cfg) (st : Study) (w : String) (n : Nat) (alg : AlgOutcome) :
    applyWrites cfg st (suggestWrites cfg st w n alg) = (suggestBody cfg st w n alg).2 :=
  applyWrites_suggest cfg st w n alg

/-- MAIN: a crash at ANY point inside SuggestTrials (any number of its writes committed) leaves the
    study's trials a legal evolution of what they were: unique ids, new ids above all old ones,
    legal states, parameters and completed trials untouched -/
theorem c05_suggest_crash_legal (cfg : Cfg) (st : Study) (w : String) (n : Nat) (alg : AlgOutcome)
    (hn : (st.trials.map (·.id)).Nodup) :
    ∀ s ∈ suggestCrashStates cfg st w n alg,
      trialsStepOK st.trials s.trials = true ∧ freshIdsOK st.trials s.trials = true ∧ (s.trials.map (·.id)).Nodup := by
  intro s hs
  simp only [suggestCrashStates, List.mem_map, List.mem_range] at hs
  obtain ⟨k, _, rfl⟩ := hs
  have := suggest_crash_ok cfg st w n alg hn k
  exact ⟨this.step, this.fresh, this.nodup⟩

/-- after a restart: ANY worker that has no unfinished operation of its own gets a new, finished
    operation from SuggestTrials — in every state, in particular in every crash state -/
theorem c05_progress_after_restart (cfg : Cfg) (hc : cfg.shortDeliveryOk = true) (hc2 : cfg.suggestCatchesAll = true)
    (st : Study) (w : String) (n : Nat) (alg : AlgOutcome)
    (hfree : (opsOf st w).find? (fun o => !o.done) = none) :
    ∃ o, (suggestBody cfg st w n alg).1.opOf = some o ∧ o.done = true ∧ o.client = w := by
  unfold suggestBody
  simp only [hfree]
  split
  · exact ⟨_, rfl, rfl, rfl⟩
  · split
    · exact ⟨_, rfl, rfl, rfl⟩
    · unfold pythiaStage
      split
      · exact ⟨_, rfl, rfl, rfl⟩
      · simp only [hc2, if_true]; exact ⟨_, rfl, rfl, rfl⟩
      · simp only
        split
        · exact ⟨_, rfl, rfl, rfl⟩
        · unfold createStage
          simp only [hc, Bool.not_true, Bool.and_false]
          exact ⟨_, rfl, rfl, rfl⟩

/-- … and completing a trial that is ACTIVE with a measurement succeeds in every state -/
theorem c05_complete_after_restart (st : Study) (id : Nat) (t : Trial) (m : Meas) (hm : m.hasMetrics = true)
    (hf : st.findTrial id = some t) (ha : t.state = .active) :
    ∃ t', (completeBody st id (some m) false "").1 = .trial t' ∧ t'.state = .succeeded ∧ t'.final = some m := by
  unfold completeBody
  simp only [hf, ha, TState.mutable, chooseFinal, hm, markCompleted]
  exact ⟨_, rfl, rfl, rfl⟩

/-- database level: every crash state of SuggestTrials satisfies the datastore invariant (unique study
    keys, unique trial ids), so all theorems of C01/C02 apply from the recovered state -/
theorem c05_restart_invariant (cfg : Cfg) (h : List Req) (o s w : String) (n : Nat) (alg : AlgOutcome) :
    ∀ db' ∈ crashStates cfg (run cfg DB.empty h) (.suggest o s w n alg), Inv db' := by
  intro db' hdb'
  have hi := run_inv cfg DB.empty h inv_empty
  simp only [crashStates] at hdb'
  split at hdb'
  · simp only [List.mem_singleton] at hdb'; subst hdb'; exact hi
  · rename_i st hfind
    split at hdb'
    · simp only [List.mem_singleton] at hdb'; subst hdb'; exact hi
    · simp only [suggestCrashStates, List.map_map, List.mem_map, List.mem_range, Function.comp] at hdb'
      obtain ⟨k, _, rfl⟩ := hdb'
      -- the crash state is `onStudy` with the body "apply the first k writes"
      let f : Study → Resp × Study := fun x => (.empty, applyWrites cfg x ((suggestWrites cfg x w n alg).take k))
      have hkeep : KeepsKey f := by
        intro x
        exact keyOf_applyWrites cfg x _
      have := (onStudy_ok hi o s false f hkeep (fun x hn => suggest_crash_ok cfg x w n alg hn k)).1
      simpa [onStudy, hfind, f] using this

/-! ### known limitation of the code (kernel-checked witness) -/

def isPending : Resp → Bool
  | .op _ o _ => !o.done
  | _ => false

/-- a crash right after `create_suggestion_operation` committed: the restarted server finds the
    worker's operation unfinished, and every later SuggestTrials of THAT worker returns it unchanged,
    whatever the algorithm would deliver (other workers are served: `c05_progress_after_restart`). -/
theorem c05_same_worker_wedge_counterexample :
    let st0 : Study := { owner := "o", sid := "s", state := .active, spec := 0, md := [], trials := [], sugOps := [], esOps := [] }
    let crashed := applyWrites Cfg.fixed st0 ((suggestWrites Cfg.fixed st0 "w" 1 (.suggestions [⟨1, []⟩] [])).take 1)
    isPending (suggestBody Cfg.fixed crashed "w" 1 (.suggestions [⟨2, []⟩] [])).1 = true ∧
    (suggestBody Cfg.fixed crashed "w" 1 (.suggestions [⟨2, []⟩] [])).2 = crashed := by
  decide

end VizierModel.C05
