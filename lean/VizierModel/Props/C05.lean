/-
C05 — the SQL-backed service survives a crash at any point.  Property theorems only.

Crash model (Model/Crash.lean): each datastore write call is one transaction (trusted: SQLite
journal; checked on every run: the real statement/commit trace of every call has exactly one commit,
at the end); a crash keeps a PREFIX of the RPC's write calls.  `crashStates cfg db r` are the states
a restarted server can find.
-/
import VizierModel.Lemmas.CrashInv

namespace VizierModel.C05
open VizierModel.Svc

def multiWrite : Req → Bool
  | .suggest .. => true
  | .checkEarlyStop .. => true
  | _ => false

/-- single-resource calls (create, complete, measure, stop, delete, set-state, update-metadata,
    delete-study with its trials and operations, create-study) are all-or-nothing under a crash -/
theorem c05_single_resource_atomic (cfg : Cfg) (db : DB) (r : Req) (hr : multiWrite r = false) :
    ∀ s ∈ crashStates cfg db r, s = db ∨ s = (step cfg db r).2 := by
  intro s hs
  cases r <;> simp_all [crashStates, multiWrite]

/-- the write list of SuggestTrials replays to exactly the state the service model computes:
    an acknowledged SuggestTrials (all writes committed) is durable as a whole -/
theorem c05_suggest_ack_durable (cfg : Cfg) (st : Study) (w : String) (n : Nat) (alg : AlgOutcome) :
    applyWrites cfg st (suggestWrites cfg st w n alg) = (suggestBody cfg st w n alg).2 :=
  applyWrites_suggest cfg st w n alg

/-- MAIN: a crash at ANY point inside SuggestTrials (any number of its writes committed) leaves the
    study's trials a legal evolution of what they were: unique ids, new ids above all old ones,
    legal states, parameters and completed trials untouched -/
theorem c05_suggest_crash_legal (cfg : Cfg) (st : Study) (w : String) (n : Nat) (alg : AlgOutcome)
    (hn : (st.trials.map (·.id)).Nodup) :
    ∀ s ∈ suggestCrashStates cfg st w n alg,
      trialsStepOK st.trials s.trials = true ∧ freshIdsOK st.trials s.trials = true ∧ (s.trials.map (·.id)).Nodup := by
  intro s hs
  simp only [suggestCrashStates, List.mem_map, List.mem_range] at hs
  obtain ⟨k, _, rfl⟩ := hs
  have := suggest_crash_ok cfg st w n alg hn k
  exact ⟨this.step, this.fresh, this.nodup⟩

/-- after a restart: ANY worker that has no unfinished operation of its own gets a new, finished
    operation from SuggestTrials — in every state, in particular in every crash state -/
theorem c05_progress_after_restart (cfg : Cfg) (hc : cfg.shortDeliveryOk = true) (hc2 : cfg.suggestCatchesAll = true)
    (st : Study) (w : String) (n : Nat) (alg : AlgOutcome)
    (hfree : (opsOf st w).find? (fun o => !o.done) = none) :
    ∃ o, (suggestBody cfg st w n alg).1.opOf = some o ∧ o.done = true ∧ o.client = w := by
  rw [suggestBody_of_free _ _ _ _ _ hfree]
  obtain ⟨o, h1, h2, h3, _⟩ := suggestRest_answer cfg hc hc2 _ _ w n alg
  exact ⟨o, h1, h2, h3⟩

/-- after a restart, repaired service (an abandoned operation is RESUMED): EVERY worker — also the one whose
    SuggestTrials call the crash interrupted — is answered with a finished operation of its own, in ANY
    study state (in particular every crash state), whatever the algorithm does.  No hypothesis on `st`. -/
theorem c05_progress_after_restart_every_worker (cfg : Cfg) (hc : cfg.shortDeliveryOk = true)
    (hc2 : cfg.suggestCatchesAll = true) (hr : cfg.resumesAbandonedOp = true)
    (st : Study) (w : String) (n : Nat) (alg : AlgOutcome) :
    ∃ o, (suggestBody cfg st w n alg).1.opOf = some o ∧ o.done = true ∧ o.client = w := by
  obtain ⟨o, h1, h2, h3, _⟩ := suggestBody_answer_done cfg hc hc2 hr st w n alg
  exact ⟨o, h1, h2, h3⟩

/-- … the resumed operation keeps its number (no new record is created for it); a worker without an
    abandoned operation gets the next number -/
theorem c05_resumed_keeps_number (cfg : Cfg) (hc : cfg.shortDeliveryOk = true)
    (hc2 : cfg.suggestCatchesAll = true) (hr : cfg.resumesAbandonedOp = true)
    (st : Study) (w : String) (n : Nat) (alg : AlgOutcome) :
    ∃ o, (suggestBody cfg st w n alg).1.opOf = some o ∧
      o.num = (match (opsOf st w).find? (fun o => !o.done) with
               | some o0 => o0.num
               | none => (opsOf st w).length + 1) := by
  obtain ⟨o, h1, _, _, h4⟩ := suggestBody_answer_done cfg hc hc2 hr st w n alg
  exact ⟨o, h1, h4⟩

/-- … and the call leaves NO unfinished operation of that worker behind, provided the worker had at most
    one before (true of every crash state: `c05_crash_leaves_at_most_one_unfinished`).  The hypothesis is
    needed: `update_suggestion_operation` finishes the one record it resumed, not others. -/
theorem c05_no_unfinished_after_restart (cfg : Cfg) (hc : cfg.shortDeliveryOk = true)
    (hc2 : cfg.suggestCatchesAll = true) (hr : cfg.resumesAbandonedOp = true)
    (st : Study) (w : String) (n : Nat) (alg : AlgOutcome)
    (hone : ((opsOf st w).filter (fun o => !o.done)).length ≤ 1) :
    ∀ o ∈ opsOf (suggestBody cfg st w n alg).2 w, o.done = true := by
  intro o ho
  have hm := List.mem_filter.mp ho
  exact suggestBody_doneFor cfg hc hc2 hr st w n alg hone o hm.1 (by simpa using hm.2)

/-- a crash at ANY point inside a SuggestTrials call of worker `w` (any variant of the service) keeps
    "at most one unfinished operation" for EVERY worker `c` (`c = w` or not): a fresh call creates one
    record only when `w` has none, a resumed call creates none, finishing a record never adds one.
    So the hypothesis of `c05_no_unfinished_after_restart` is an invariant of calls and crashes. -/
theorem c05_crash_leaves_at_most_one_unfinished (cfg : Cfg) (st : Study) (w : String) (n : Nat) (alg : AlgOutcome)
    (c : String) (hone : ((opsOf st c).filter (fun o => !o.done)).length ≤ 1) :
    ∀ s ∈ suggestCrashStates cfg st w n alg, ((opsOf s c).filter (fun o => !o.done)).length ≤ 1 := by
  intro s hs
  simp only [suggestCrashStates, List.mem_map, List.mem_range] at hs
  obtain ⟨k, _, rfl⟩ := hs
  exact crash_at_most_one_pending cfg st w n alg c hone k

/-- in particular from a state without unfinished operations (every state reached by calls alone with the
    repaired service: C06) -/
theorem c05_crash_from_clean_at_most_one_unfinished (cfg : Cfg) (st : Study) (w : String) (n : Nat) (alg : AlgOutcome) :
    ∀ s ∈ suggestCrashStates cfg st w n alg, PendingFree st →
      ((opsOf s w).filter (fun o => !o.done)).length ≤ 1 := by
  intro s hs hpf
  refine c05_crash_leaves_at_most_one_unfinished cfg st w n alg w ?_ s hs
  have : (opsOf st w).filter (fun o => !o.done) = [] := by
    rw [List.filter_eq_nil_iff]
    intro o ho
    simp [hpf o (List.mem_filter.mp ho).1]
  simp [this]

/-- crash, restart, ask again: from a clean state, after a crash at any point inside a SuggestTrials call of
    `w`, the next SuggestTrials of ANY worker `w'` is answered with a finished operation of `w'` and leaves
    no unfinished operation of `w'` -/
theorem c05_recovery_after_crash (cfg : Cfg) (hc : cfg.shortDeliveryOk = true)
    (hc2 : cfg.suggestCatchesAll = true) (hr : cfg.resumesAbandonedOp = true)
    (st : Study) (hpf : PendingFree st) (w : String) (n : Nat) (alg : AlgOutcome)
    (w' : String) (n' : Nat) (alg' : AlgOutcome) :
    ∀ s ∈ suggestCrashStates cfg st w n alg,
      (∃ o, (suggestBody cfg s w' n' alg').1.opOf = some o ∧ o.done = true ∧ o.client = w') ∧
      ∀ o ∈ opsOf (suggestBody cfg s w' n' alg').2 w', o.done = true := by
  intro s hs
  refine ⟨c05_progress_after_restart_every_worker cfg hc hc2 hr s w' n' alg', ?_⟩
  apply c05_no_unfinished_after_restart cfg hc hc2 hr
  refine c05_crash_leaves_at_most_one_unfinished cfg st w n alg w' ?_ s hs
  have : (opsOf st w').filter (fun o => !o.done) = [] := by
    rw [List.filter_eq_nil_iff]
    intro o ho
    simp [hpf o (List.mem_filter.mp ho).1]
  simp [this]

/-- the hypotheses are those of the repaired service -/
example : Cfg.fixed.shortDeliveryOk = true ∧ Cfg.fixed.suggestCatchesAll = true ∧
    Cfg.fixed.resumesAbandonedOp = true := by decide

/-- … and completing a trial that is ACTIVE with a measurement succeeds in every state -/
theorem c05_complete_after_restart (st : Study) (id : Nat) (t : Trial) (m : Meas) (hm : m.hasMetrics = true)
    (hf : st.findTrial id = some t) (ha : t.state = .active) :
    ∃ t', (completeBody st id (some m) false "").1 = .trial t' ∧ t'.state = .succeeded ∧ t'.final = some m := by
  unfold completeBody
  simp only [hf, ha, TState.mutable, chooseFinal, hm, markCompleted]
  exact ⟨_, rfl, rfl, rfl⟩

/-- database level: every crash state of SuggestTrials satisfies the datastore invariant (unique study
    keys, unique trial ids), so all theorems of C01/C02 apply from the recovered state -/
theorem c05_restart_invariant (cfg : Cfg) (h : List Req) (o s w : String) (n : Nat) (alg : AlgOutcome) :
    ∀ db' ∈ crashStates cfg (run cfg DB.empty h) (.suggest o s w n alg), Inv db' := by
  intro db' hdb'
  have hi := run_inv cfg DB.empty h inv_empty
  simp only [crashStates] at hdb'
  split at hdb'
  · simp only [List.mem_singleton] at hdb'; subst hdb'; exact hi
  · rename_i st hfind
    split at hdb'
    · simp only [List.mem_singleton] at hdb'; subst hdb'; exact hi
    · simp only [suggestCrashStates, List.map_map, List.mem_map, List.mem_range, Function.comp] at hdb'
      obtain ⟨k, _, rfl⟩ := hdb'
      -- the crash state is `onStudy` with the body "apply the first k writes"
      let f : Study → Resp × Study := fun x => (.empty, applyWrites cfg x ((suggestWrites cfg x w n alg).take k))
      have hkeep : KeepsKey f := by
        intro x
        exact keyOf_applyWrites cfg x _
      have := (onStudy_ok hi o s false f hkeep (fun x hn => suggest_crash_ok cfg x w n alg hn k)).1
      simpa [onStudy, hfind, f] using this

/-! ### the code at the pinned commit: the interrupted worker is wedged (kernel-checked witnesses) -/

def isPending : Resp → Bool
  | .op _ o _ => !o.done
  | _ => false

/-- the repaired service except that an abandoned operation is returned unchanged (pinned commit) -/
def noResume : Cfg := { Cfg.fixed with resumesAbandonedOp := false }

/-- WITHOUT resuming: a crash right after `create_suggestion_operation` committed: the restarted server
    finds the worker's operation unfinished, and every later SuggestTrials of THAT worker returns it
    unchanged, whatever the algorithm would deliver (other workers are served: `c05_progress_after_restart`). -/
theorem c05_same_worker_wedge_counterexample :
    let st0 : Study := { owner := "o", sid := "s", state := .active, spec := 0, md := [], trials := [], sugOps := [], esOps := [] }
    let crashed := applyWrites noResume st0 ((suggestWrites noResume st0 "w" 1 (.suggestions [⟨1, []⟩] [])).take 1)
    isPending (suggestBody noResume crashed "w" 1 (.suggestions [⟨2, []⟩] [])).1 = true ∧
    (suggestBody noResume crashed "w" 1 (.suggestions [⟨2, []⟩] [])).2 = crashed := by
  decide

/-- the same crashed state under the repaired service: the abandoned operation number 1 is resumed, finished,
    and hands out a trial made from what the algorithm delivers now; no second record is created -/
theorem c05_same_worker_resumed :
    let st0 : Study := { owner := "o", sid := "s", state := .active, spec := 0, md := [], trials := [], sugOps := [], esOps := [] }
    let crashed := applyWrites Cfg.fixed st0 ((suggestWrites Cfg.fixed st0 "w" 1 (.suggestions [⟨1, []⟩] [])).take 1)
    let r := suggestBody Cfg.fixed crashed "w" 1 (.suggestions [⟨2, []⟩] [])
    crashed.sugOps = [{ client := "w", num := 1, done := false, result := .none }] ∧
    isPending r.1 = false ∧
    r.1.opOf = some { client := "w", num := 1, done := true, result := .trials [1] } ∧
    r.1.handed.map (fun t => (t.id, t.state, t.client, t.params)) = [(1, .active, "w", 2)] ∧
    r.2.sugOps = [{ client := "w", num := 1, done := true, result := .trials [1] }] ∧
    r.2.trials.map (fun t => (t.id, t.state, t.client, t.params)) = [(1, .active, "w", 2)] := by
  decide

end VizierModel.C05
