/-
Resource names (`vizier/_src/service/resources.py`): `name` / `from_name` of the five kinds, the alias class of
the numeric component, injectivity within and across kinds, cross-study separation, Python's `int()` on ASCII,
`StudyResource.trial_resource`.  Property theorems only; helper lemmas are in `Lemmas/Resources*.lean`.

All statements are over arbitrary components (`List Char`: blanks, newlines, unicode, regex metacharacters,
the keywords themselves) and arbitrary ids (`Nat`: the attrs validator `assert_not_negative` is the `Nat`).
-/
import VizierModel.Lemmas.Resources

namespace VizierModel.Res

/-! ## `int(str)` -/

/-- `int(str(k)) == k`: what `name` prints is read back as the same number -/
theorem resources_pyInt_digits (k : Nat) : pyInt (digits k) = some (k : Int) := pyInt_digits' k

/-- `int()` accepts exactly the documented literals (blanks, one sign, digits with single underscores between
digits, blanks) and returns their value -/
theorem resources_pyInt_iff (t : List Char) (v : Int) :
    pyInt t = some v ↔ wellFormedInt t = true ∧ value t = v := pyInt_iff t v

/-- the decimal rendering is injective -/
theorem resources_digits_injective (a b : Nat) (h : digits a = digits b) : a = b := digits_inj a b h

/-- a canonical numeric component is the rendering of the number it denotes, and only that -/
theorem resources_canonical_iff (t : List Char) : isCanonical t = true ↔ ∃ k : Nat, t = digits k := by
  unfold isCanonical
  constructor
  · intro h
    cases hp : pyInt t with
    | none => rw [hp] at h; cases h
    | some v =>
      rw [hp] at h
      simp only [Bool.and_eq_true, decide_eq_true_eq] at h
      exact ⟨v.toNat, h.2⟩
  · rintro ⟨k, rfl⟩
    rw [pyInt_digits' k]
    simp

/-! ## round trip: `from_name(name(r)) == r` -/

theorem resources_roundtrip_owner (r : Owner) (h : r.valid = true) : ownerFromName (ownerName r) = .ok r :=
  (ownerFromName_ok_iff _ r).mpr ⟨h, rfl⟩

theorem resources_roundtrip_study (r : Study) (h : r.valid = true) : studyFromName (studyName r) = .ok r :=
  (studyFromName_ok_iff _ r).mpr ⟨h, rfl⟩

theorem resources_roundtrip_trial (r : Trial) (h : r.valid = true) : trialFromName (trialName r) = .ok r :=
  (trialFromName_ok_iff _ r).mpr ⟨h, digits r.id, pyInt_digits' r.id, rfl⟩

theorem resources_roundtrip_es (r : EsOp) (h : r.valid = true) : esFromName (esName r) = .ok r :=
  (esFromName_ok_iff _ r).mpr ⟨h, digits r.id, pyInt_digits' r.id, rfl⟩

theorem resources_roundtrip_sug (r : SugOp) (h : r.valid = true) : sugFromName (sugName r) = .ok r :=
  (sugFromName_ok_iff _ r).mpr ⟨h, digits r.num, pyInt_digits' r.num, rfl⟩

/-! ## exactness: which strings `from_name` accepts, and as what

For Owner / Study: exactly the names of valid resources.  For the three kinds with a numeric component:
exactly the names of valid resources with the numeric component replaced by ANY string `t` that `int()`
reads as the id — the alias class (`'01'`, `'+1'`, `' 1'`, `'1_0'` for 10, `'-0'` for 0). -/

theorem resources_exact_owner (n : List Char) (r : Owner) :
    ownerFromName n = .ok r ↔ r.valid = true ∧ n = ownerName r := ownerFromName_ok_iff n r

theorem resources_exact_study (n : List Char) (r : Study) :
    studyFromName n = .ok r ↔ r.valid = true ∧ n = studyName r := studyFromName_ok_iff n r

theorem resources_exact_trial (n : List Char) (r : Trial) :
    trialFromName n = .ok r ↔
      r.valid = true ∧ ∃ t, pyInt t = some (r.id : Int) ∧ n = trialNameWith r.owner r.study t :=
  trialFromName_ok_iff n r

theorem resources_exact_es (n : List Char) (r : EsOp) :
    esFromName n = .ok r ↔
      r.valid = true ∧ ∃ t, pyInt t = some (r.id : Int) ∧ n = esNameWith r.owner r.study t :=
  esFromName_ok_iff n r

theorem resources_exact_sug (n : List Char) (r : SugOp) :
    sugFromName n = .ok r ↔
      r.valid = true ∧ ∃ t, pyInt t = some (r.num : Int) ∧ n = sugNameWith r.owner r.study r.client t :=
  sugFromName_ok_iff n r

/-- the numeric component of a string: its last segment -/
def numSeg (n : List Char) : List Char := (segs n).getLast?.getD []

theorem numSeg_join (l : List (List Char)) (t : List Char) (hl : ∀ c ∈ l, SlashFree c) (ht : SlashFree t) :
    numSeg (join (l ++ [t])) = t := by
  unfold numSeg
  rw [segs_join (l ++ [t]) (by simp)]
  · simp
  · intro c hc
    rcases List.mem_append.mp hc with hc | hc
    · exact hl c hc
    · simp at hc; subst hc; exact ht

/-- when the numeric component of an accepted string is canonical, the string IS the name -/
theorem resources_canonical_trial (n : List Char) (r : Trial) (h : trialFromName n = .ok r)
    (hc : isCanonical (numSeg n) = true) : trialName r = n := by
  obtain ⟨hv, t, ht, rfl⟩ := (trialFromName_ok_iff n r).mp h
  simp only [Trial.valid, Bool.and_eq_true] at hv
  have hn : numSeg (trialNameWith r.owner r.study t) = t := by
    apply numSeg_join [kwOwners, r.owner, kwStudies, r.study, kwTrials] t _ (pyInt_comp t _ ht).2
    intro c hc
    simp only [List.mem_cons, List.not_mem_nil, or_false] at hc
    rcases hc with rfl | rfl | rfl | rfl | rfl
    · exact slashFree_kwOwners
    · exact slashFree_of_valid hv.1
    · exact slashFree_kwStudies
    · exact slashFree_of_valid hv.2
    · exact slashFree_kwTrials
  rw [hn] at hc
  obtain ⟨k, rfl⟩ := (resources_canonical_iff t).mp hc
  rw [pyInt_digits' k] at ht
  have : k = r.id := by cases ht; rfl
  subst this; rfl

theorem resources_canonical_es (n : List Char) (r : EsOp) (h : esFromName n = .ok r)
    (hc : isCanonical (numSeg n) = true) : esName r = n := by
  obtain ⟨hv, t, ht, rfl⟩ := (esFromName_ok_iff n r).mp h
  simp only [EsOp.valid, Bool.and_eq_true] at hv
  have hn : numSeg (esNameWith r.owner r.study t) = t := by
    apply numSeg_join [kwOwners, r.owner, kwOperations, kwEarlyStopping, r.study] t _ (pyInt_comp t _ ht).2
    intro c hc
    simp only [List.mem_cons, List.not_mem_nil, or_false] at hc
    rcases hc with rfl | rfl | rfl | rfl | rfl
    · exact slashFree_kwOwners
    · exact slashFree_of_valid hv.1
    · exact slashFree_kwOperations
    · exact slashFree_kwEarlyStopping
    · exact slashFree_of_valid hv.2
  rw [hn] at hc
  obtain ⟨k, rfl⟩ := (resources_canonical_iff t).mp hc
  rw [pyInt_digits' k] at ht
  have : k = r.id := by cases ht; rfl
  subst this; rfl

theorem resources_canonical_sug (n : List Char) (r : SugOp) (h : sugFromName n = .ok r)
    (hc : isCanonical (numSeg n) = true) : sugName r = n := by
  obtain ⟨hv, t, ht, rfl⟩ := (sugFromName_ok_iff n r).mp h
  simp only [SugOp.valid, Bool.and_eq_true] at hv
  have hn : numSeg (sugNameWith r.owner r.study r.client t) = t := by
    apply numSeg_join [kwOwners, r.owner, kwOperations, kwSuggestion, r.study, r.client] t _ (pyInt_comp t _ ht).2
    intro c hc
    simp only [List.mem_cons, List.not_mem_nil, or_false] at hc
    rcases hc with rfl | rfl | rfl | rfl | rfl | rfl
    · exact slashFree_kwOwners
    · exact slashFree_of_valid hv.1.1
    · exact slashFree_kwOperations
    · exact slashFree_kwSuggestion
    · exact slashFree_of_valid hv.1.2
    · exact slashFree_of_valid hv.2
  rw [hn] at hc
  obtain ⟨k, rfl⟩ := (resources_canonical_iff t).mp hc
  rw [pyInt_digits' k] at ht
  have : k = r.num := by cases ht; rfl
  subst this; rfl

/-! ## injectivity, within and across kinds -/

/-- the segments of a name, with the numeric component given as a string (ignored by Owner / Study) -/
def Res.segsWith : Res → List Char → List (List Char)
  | .owner r, _ => [kwOwners, r.owner]
  | .study r, _ => [kwOwners, r.owner, kwStudies, r.study]
  | .trial r, t => [kwOwners, r.owner, kwStudies, r.study, kwTrials, t]
  | .es r, t => [kwOwners, r.owner, kwOperations, kwEarlyStopping, r.study, t]
  | .sug r, t => [kwOwners, r.owner, kwOperations, kwSuggestion, r.study, r.client, t]

/-- the id (0 for Owner / Study) -/
def Res.num : Res → Nat
  | .owner _ => 0 | .study _ => 0 | .trial r => r.id | .es r => r.id | .sug r => r.num

theorem Res.name_eq (a : Res) : a.name = join (a.segsWith (digits a.num)) := by
  cases a <;> rfl

theorem Res.segsWith_ne_nil (a : Res) (t : List Char) : a.segsWith t ≠ [] := by
  cases a <;> simp [Res.segsWith]

theorem Res.segsWith_slashFree (a : Res) (t : List Char) (ha : a.valid = true) (ht : SlashFree t) :
    ∀ c ∈ a.segsWith t, SlashFree c := by
  intro c hc
  cases a with
  | owner r =>
    simp only [Res.valid, Owner.valid] at ha
    simp only [Res.segsWith, List.mem_cons, List.not_mem_nil, or_false] at hc
    rcases hc with rfl | rfl
    · exact slashFree_kwOwners
    · exact slashFree_of_valid ha
  | study r =>
    simp only [Res.valid, Study.valid, Bool.and_eq_true] at ha
    simp only [Res.segsWith, List.mem_cons, List.not_mem_nil, or_false] at hc
    rcases hc with rfl | rfl | rfl | rfl
    · exact slashFree_kwOwners
    · exact slashFree_of_valid ha.1
    · exact slashFree_kwStudies
    · exact slashFree_of_valid ha.2
  | trial r =>
    simp only [Res.valid, Trial.valid, Bool.and_eq_true] at ha
    simp only [Res.segsWith, List.mem_cons, List.not_mem_nil, or_false] at hc
    rcases hc with rfl | rfl | rfl | rfl | rfl | rfl
    · exact slashFree_kwOwners
    · exact slashFree_of_valid ha.1
    · exact slashFree_kwStudies
    · exact slashFree_of_valid ha.2
    · exact slashFree_kwTrials
    · exact ht
  | es r =>
    simp only [Res.valid, EsOp.valid, Bool.and_eq_true] at ha
    simp only [Res.segsWith, List.mem_cons, List.not_mem_nil, or_false] at hc
    rcases hc with rfl | rfl | rfl | rfl | rfl | rfl
    · exact slashFree_kwOwners
    · exact slashFree_of_valid ha.1
    · exact slashFree_kwOperations
    · exact slashFree_kwEarlyStopping
    · exact slashFree_of_valid ha.2
    · exact ht
  | sug r =>
    simp only [Res.valid, SugOp.valid, Bool.and_eq_true] at ha
    simp only [Res.segsWith, List.mem_cons, List.not_mem_nil, or_false] at hc
    rcases hc with rfl | rfl | rfl | rfl | rfl | rfl | rfl
    · exact slashFree_kwOwners
    · exact slashFree_of_valid ha.1.1
    · exact slashFree_kwOperations
    · exact slashFree_kwSuggestion
    · exact slashFree_of_valid ha.1.2
    · exact slashFree_of_valid ha.2
    · exact ht

/-- equal segment lists, equal numbers ⇒ equal resources (of the same kind) -/
theorem Res.eq_of_segsWith (a b : Res) (ta tb : List Char) (h : a.segsWith ta = b.segsWith tb)
    (hn : ta = tb → a.num = b.num) : a = b := by
  cases a <;> cases b <;>
    simp [Res.segsWith, kwOwners, kwStudies, kwTrials, kwOperations, kwEarlyStopping, kwSuggestion] at h
  · rename_i r r'; cases r; cases r'; simp_all
  · rename_i r r'; cases r; cases r'; simp_all
  · rename_i r r'; cases r; cases r'; simp_all [Res.num]
  · rename_i r r'; cases r; cases r'; simp_all [Res.num]
  · rename_i r r'; cases r; cases r'; simp_all [Res.num]

/-- two valid resources — of the same kind or of different kinds — with the same `name` are equal:
distinct studies / trials / operations never share a name, and an operation name is never a trial name -/
theorem resources_injective (a b : Res) (ha : a.valid = true) (hb : b.valid = true)
    (h : a.name = b.name) : a = b := by
  rw [Res.name_eq, Res.name_eq] at h
  have hl := join_inj _ _ (a.segsWith_ne_nil _) (b.segsWith_ne_nil _)
    (a.segsWith_slashFree _ ha (digits_slashFree a.num)) (b.segsWith_slashFree _ hb (digits_slashFree b.num)) h
  exact Res.eq_of_segsWith a b _ _ hl (digits_inj _ _)

/-- the kind of a resource -/
def Res.kind : Res → Nat
  | .owner _ => 0 | .study _ => 1 | .trial _ => 2 | .es _ => 3 | .sug _ => 4

/-- names of different kinds never coincide -/
theorem resources_kinds_disjoint (a b : Res) (ha : a.valid = true) (hb : b.valid = true)
    (hk : a.kind ≠ b.kind) : a.name ≠ b.name :=
  fun h => hk (by rw [resources_injective a b ha hb h])

/-- trials / operations of two different studies (different owner or different study id) have different
names — what the cross-study isolation of both datastores rests on -/
theorem resources_no_cross_study (a b : Res) (ha : a.valid = true) (hb : b.valid = true)
    (hk : a.studyKey ≠ b.studyKey) : a.name ≠ b.name :=
  fun h => hk (by rw [resources_injective a b ha hb h])

/-! ### … and for every string `from_name` accepts, aliases included -/

/-- everything that some `from_name` makes of the string `n` -/
def parseAll (n : List Char) : List Res :=
  (match ownerFromName n with | .ok r => [Res.owner r] | .error _ => []) ++
  (match studyFromName n with | .ok r => [Res.study r] | .error _ => []) ++
  (match trialFromName n with | .ok r => [Res.trial r] | .error _ => []) ++
  (match esFromName n with | .ok r => [Res.es r] | .error _ => []) ++
  (match sugFromName n with | .ok r => [Res.sug r] | .error _ => [])

theorem mem_parseAll (n : List Char) (a : Res) (h : a ∈ parseAll n) :
    a.valid = true ∧ ∃ t, SlashFree t ∧ (pyInt t = some (a.num : Int) ∨ t = digits a.num) ∧
      n = join (a.segsWith t) := by
  unfold parseAll at h
  simp only [List.mem_append] at h
  rcases h with (((h | h) | h) | h) | h
  · cases hp : ownerFromName n with
    | error e => rw [hp] at h; simp at h
    | ok r =>
      rw [hp] at h; simp at h; subst h
      obtain ⟨hv, hn⟩ := (ownerFromName_ok_iff n r).mp hp
      exact ⟨hv, digits 0, digits_slashFree 0, Or.inr rfl, hn⟩
  · cases hp : studyFromName n with
    | error e => rw [hp] at h; simp at h
    | ok r =>
      rw [hp] at h; simp at h; subst h
      obtain ⟨hv, hn⟩ := (studyFromName_ok_iff n r).mp hp
      exact ⟨hv, digits 0, digits_slashFree 0, Or.inr rfl, hn⟩
  · cases hp : trialFromName n with
    | error e => rw [hp] at h; simp at h
    | ok r =>
      rw [hp] at h; simp at h; subst h
      obtain ⟨hv, t, ht, hn⟩ := (trialFromName_ok_iff n r).mp hp
      exact ⟨hv, t, (pyInt_comp t _ ht).2, Or.inl ht, hn⟩
  · cases hp : esFromName n with
    | error e => rw [hp] at h; simp at h
    | ok r =>
      rw [hp] at h; simp at h; subst h
      obtain ⟨hv, t, ht, hn⟩ := (esFromName_ok_iff n r).mp hp
      exact ⟨hv, t, (pyInt_comp t _ ht).2, Or.inl ht, hn⟩
  · cases hp : sugFromName n with
    | error e => rw [hp] at h; simp at h
    | ok r =>
      rw [hp] at h; simp at h; subst h
      obtain ⟨hv, t, ht, hn⟩ := (sugFromName_ok_iff n r).mp hp
      exact ⟨hv, t, (pyInt_comp t _ ht).2, Or.inl ht, hn⟩

/-- a string — canonical or an alias — is accepted as at most ONE resource, over all five `from_name`s:
no string is both a trial name and an operation name, and no alias leads into another study -/
theorem resources_parse_unique (n : List Char) (a b : Res) (ha : a ∈ parseAll n) (hb : b ∈ parseAll n) :
    a = b := by
  obtain ⟨hva, ta, hta, hpa, hna⟩ := mem_parseAll n a ha
  obtain ⟨hvb, tb, htb, hpb, hnb⟩ := mem_parseAll n b hb
  have hl := join_inj _ _ (a.segsWith_ne_nil _) (b.segsWith_ne_nil _)
    (a.segsWith_slashFree _ hva hta) (b.segsWith_slashFree _ hvb htb) (hna.symm.trans hnb)
  apply Res.eq_of_segsWith a b ta tb hl
  rintro rfl
  have ha' : pyInt ta = some (a.num : Int) := by
    rcases hpa with h | h
    · exact h
    · rw [h]; exact pyInt_digits' _
  have hb' : pyInt ta = some (b.num : Int) := by
    rcases hpb with h | h
    · exact h
    · rw [h]; exact pyInt_digits' _
  rw [ha'] at hb'
  exact Int.ofNat_inj.mp (Option.some.inj hb')

/-- every alias of a trial name lies under the name of the trial's study -/
theorem resources_alias_same_study (n : List Char) (r : Trial) (h : trialFromName n = .ok r) :
    ∃ t, n = studyName ⟨r.owner, r.study⟩ ++ '/' :: kwTrials ++ '/' :: t := by
  obtain ⟨_, t, _, rfl⟩ := (trialFromName_ok_iff n r).mp h
  exact ⟨t, by simp [trialNameWith, studyName, join]⟩

/-! ## `StudyResource.trial_resource` -/

/-- succeeds iff `int()` gives a POSITIVE number; the result is that trial of the study -/
theorem resources_trial_resource (st : Study) (t : List Char) (r : Trial) :
    trialResource st t = .ok r ↔
      ∃ v : Int, pyInt t = some v ∧ 0 < v ∧ r = ⟨st.owner, st.study, v.toNat⟩ :=
  trialResource_ok_iff st t r

/-- on the canonical rendering of a positive id it is the identity -/
theorem resources_trial_resource_digits (st : Study) (k : Nat) (hk : 0 < k) :
    trialResource st (digits k) = .ok ⟨st.owner, st.study, k⟩ :=
  (trialResource_ok_iff st _ _).mpr ⟨k, pyInt_digits' k, by omega, by simp⟩

/-- … and `0` is refused -/
theorem resources_trial_resource_zero (st : Study) (t : List Char) (h : pyInt t = some 0) :
    trialResource st t = .error .notPositive := by
  simp [trialResource, h]

/-! ## non-vacuity and the witnesses of the classes the tie looks for -/

/-- results of `from_name` can be compared by evaluation -/
instance instDecEqExcept {ε α : Type} [DecidableEq ε] [DecidableEq α] : DecidableEq (Except ε α) :=
  fun a b => match a, b with
    | .ok x, .ok y => if h : x = y then isTrue (by rw [h]) else isFalse (fun h' => h (Except.ok.inj h'))
    | .error x, .error y => if h : x = y then isTrue (by rw [h]) else isFalse (fun h' => h (Except.error.inj h'))
    | .ok _, .error _ => isFalse (fun h => nomatch h)
    | .error _, .ok _ => isFalse (fun h => nomatch h)

/-- blanks, newlines and keywords are ordinary component characters -/
example : (Res.trial ⟨['a', ' '], ['t', 'r', 'i', 'a', 'l', 's', '\n'], 10⟩).valid = true := by decide
example : trialFromName (trialName ⟨['a', ' '], ['b'], 10⟩) = .ok ⟨['a', ' '], ['b'], 10⟩ := by decide
/-- a trailing newline belongs to the component (`$` does not swallow it) -/
example : ownerFromName ['o', 'w', 'n', 'e', 'r', 's', '/', 'a', '\n'] = .ok ⟨['a', '\n']⟩ := by decide
/-- `'02'` names trial 2 -/
example : trialResource ⟨['a'], ['b']⟩ ['0', '2'] = trialResource ⟨['a'], ['b']⟩ ['2'] := by decide
example : trialFromName (trialNameWith ['a'] ['b'] ['0', '1']) = .ok ⟨['a'], ['b'], 1⟩ := by decide
example : trialFromName (trialNameWith ['a'] ['b'] [' ', '+', '1', '_', '0', '\n']) = .ok ⟨['a'], ['b'], 10⟩ := by
  decide
example : isCanonical ['0', '1'] = false ∧ isCanonical ['1'] = true := by decide
example : trialFromName (trialNameWith ['a'] ['b'] ['-', '1']) = .error .negative := by decide
example : trialFromName (trialNameWith ['a'] ['b'] ['1', '_', '_', '0']) = .error .notInt := by decide
/-- a study name with something after it is not a study name (the `$` of the regex) -/
example : studyFromName (trialName ⟨['a'], ['b'], 1⟩) = .error .notName := by decide
example : esFromName (trialName ⟨['a'], ['b'], 1⟩) = .error .notName := by decide
example : pyInt ['-', '0'] = some 0 ∧ pyInt ['+'] = none ∧ pyInt ['1', ' ', '1'] = none := by decide

/-- `name` is the f-string: `'owners/' + owner + '/studies/' + study + '/trials/' + str(id)` -/
example (o s : List Char) (k : Nat) :
    trialName ⟨o, s, k⟩ =
      kwOwners ++ '/' :: (o ++ '/' :: (kwStudies ++ '/' :: (s ++ '/' :: (kwTrials ++ '/' :: digits k)))) := by
  simp [trialName, trialNameWith, join]
example (o s c : List Char) (k : Nat) :
    sugName ⟨o, s, c, k⟩ =
      kwOwners ++ '/' :: (o ++ '/' :: (kwOperations ++ '/' :: (kwSuggestion ++ '/' :: (s ++ '/' :: (c ++ '/' :: digits k))))) := by
  simp [sugName, sugNameWith, join]
example : digits 0 = ['0'] ∧ digits 907 = ['9', '0', '7'] := by decide

end VizierModel.Res
