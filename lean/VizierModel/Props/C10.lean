/-
C10 — metadata is an exact last-writer-wins store; namespaces never collide.
Property theorems only; helper lemmas are in `Lemmas/`.
-/
import VizierModel.Lemmas.Namespace
import VizierModel.Lemmas.MetaHistory
import Mathlib.Data.String.Basic

namespace VizierModel.C10
open VizierModel.NS VizierModel.Meta

/-! ## Namespace codec -/

/-- FULL STATEMENT (what the docstring of `Namespace` promises): -/
def CodecRoundTrip : Prop := ∀ ns : List (List Char), decode (encode ns) = ns

/-- … which is false for the code as written (a component ending in a backslash): -/
theorem c10_codec_counterexample : ¬ CodecRoundTrip := by
  intro h
  exact absurd (h [['a', '\\']]) (by decide)

/-- two distinct namespaces with the same string form -/
theorem c10_codec_not_injective :
    encode [['a', '\\'], ['b']] = encode [['a', ':', 'b']] ∧
      [['a', '\\'], ['b']] ≠ [['a', ':', 'b']] := by decide

/-- PROVED PART: outside the class "some component ends in a backslash" the round trip
holds for every namespace over arbitrary strings (empty components, colons, interior
backslashes, unicode). -/
theorem c10_codec_roundtrip_partial (ns : List (List Char)) (h : trailingBS ns = false) :
    decode (encode ns) = ns := by
  apply decode_encode
  intro c hc
  have := List.any_eq_false.mp h c hc
  simpa using this

/-- hence distinct namespaces of that class never collide -/
theorem c10_codec_injective_partial (a b : List (List Char)) (ha : trailingBS a = false)
    (hb : trailingBS b = false) (h : encode a = encode b) : a = b := by
  rw [← c10_codec_roundtrip_partial a ha, ← c10_codec_roundtrip_partial b hb, h]

/-! ## merge is last-writer-wins; the concrete key order of the driver is a strict total order -/

theorem keyLt_strictTotal : StrictTotal keyLt where
  irrefl a := by simp [keyLt]
  trans a b c h1 h2 := by
    simp only [keyLt, Bool.or_eq_true, decide_eq_true_eq, Bool.and_eq_true, beq_iff_eq] at *
    rcases h1 with h1 | ⟨e1, h1⟩ <;> rcases h2 with h2 | ⟨e2, h2⟩
    · exact Or.inl (lt_trans h1 h2)
    · exact Or.inl (e2 ▸ h1)
    · exact Or.inl (e1 ▸ h2)
    · exact Or.inr ⟨e1.trans e2, lt_trans h1 h2⟩
  tri a b h1 h2 := by
    simp only [keyLt, Bool.or_eq_false_iff, decide_eq_false_iff_not, Bool.and_eq_false_iff,
      beq_eq_false_iff_ne] at *
    have e1 : a.1 = b.1 := le_antisymm (not_lt.mp h2.1) (not_lt.mp h1.1)
    have e2 : a.2 = b.2 := by
      rcases h1.2 with h | h
      · exact absurd e1 h
      · rcases h2.2 with h' | h'
        · exact absurd e1.symm h'
        · exact le_antisymm (not_lt.mp h') (not_lt.mp h)
    exact Prod.ext e1 e2

theorem c10_merge_lww {ν : Type} (old new : List ((String × String) × ν)) (k : String × String) :
    lookupLast (merge keyLt old new) k =
      match lookupLast new k with | some v => some v | none => lookupLast old k :=
  lookupLast_merge keyLt_strictTotal old new k

/-- the stored list is strictly sorted by `(ns, key)`: no duplicates, canonical order -/
theorem c10_merge_sorted {ν : Type} (old new : List ((String × String) × ν)) :
    (merge keyLt old new).Pairwise (fun a b => keyLt a.1 b.1 = true) :=
  sorted_merge keyLt_strictTotal old new

/-! ## the store -/

variable {ν : Type}
abbrev K := String × String

/-- a successful update: every `(target, ns, key)` reads back the value written last by this
update, everything else is untouched; the set of trials is unchanged -/
theorem c10_update_lww (s s' : Store K ν) (us : List (Upd K ν))
    (h : updateAtomic keyLt s us = .ok s') (t : Target) (k : K) :
    view s' t k = (match lastWrite us t k with | some v => some v | none => view s t k) :=
  (view_updateAtomic keyLt_strictTotal s s' us h t k).1

/-- an update naming a missing trial reports an error and changes nothing -/
theorem c10_failed_update_noop (s : Store K ν) (us : List (Upd K ν))
    (hmiss : ∃ id ∈ namedIds us, hasTrial s id = false) :
    updateAtomic keyLt s us = .error .notFound ∧ step keyLt s (.update us) = s := by
  obtain ⟨id, hid, hm⟩ := hmiss
  have hall : ¬ (namedIds us).all (hasTrial s) = true := by
    intro h
    have := List.all_eq_true.mp h id hid
    rw [hm] at this; cases this
  have e : updateAtomic keyLt s us = .error .notFound := by
    unfold updateAtomic; rw [if_neg hall]
  exact ⟨e, by simp only [step, e]⟩

/-- MAIN: for every history of updates (by users or algorithms, study and trial level),
trial creations and deletions, what a reader sees equals the abstract last-writer-wins
specification run over the same history. -/
theorem c10_store_lww (s : Store K ν) (h : List (Op K ν)) :
    SpecEq (abs (run keyLt s h)) (h.foldl specStep (abs s)) := by
  induction h generalizing s with
  | nil => exact SpecEq.refl _
  | cons op ops ih =>
    simp only [run, List.foldl_cons] at *
    exact SpecEq.trans (ih (step keyLt s op))
      (foldl_specStep_congr (step_refines keyLt_strictTotal s op) ops)

/-- algorithm state kept under a reserved namespace never disturbs other entries: an update
whose keys all satisfy `P` (e.g. "namespace starts with the algorithm's root") leaves every
key outside `P` exactly as it was -/
theorem c10_reserved_ns_disjoint (P : K → Prop) (s s' : Store K ν) (us : List (Upd K ν))
    (h : updateAtomic keyLt s us = .ok s') (hP : ∀ u ∈ us, P u.k) (t : Target) (k : K) (hk : ¬ P k) :
    view s' t k = view s t k := by
  rw [c10_update_lww s s' us h t k]
  have : lastWrite us t k = none := by
    unfold lastWrite
    rw [Option.map_eq_none_iff, List.find?_eq_none]
    intro u hu
    simp only [decide_eq_true_eq, not_and]
    intro _ hk'
    exact hk (hk' ▸ hP u (List.mem_reverse.mp hu))
  rw [this]

/-! ## the RAM datastore as written at the pinned commit is not all-or-nothing -/

def isError {ε α : Type} : Except ε α → Bool
  | .error _ => true
  | .ok _ => false

/-- witness: the study entry is written although the update fails on the missing trial 7 -/
theorem c10_ram_legacy_counterexample :
    ∃ (s : Store Nat Nat) (us : List (Upd Nat Nat)),
      isError (updateRamLegacy Nat.blt s us).1 = true ∧
      view (updateRamLegacy Nat.blt s us).2 .study 0 ≠ view s .study 0 :=
  ⟨{ study := [], trials := [] }, [⟨.study, 0, 1⟩, ⟨.trial 7, 0, 2⟩], by decide⟩

end VizierModel.C10
