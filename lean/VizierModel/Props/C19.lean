/-
C19 — the acquisition optimiser returns in-bounds candidates, the best it evaluated.
Property theorems only; helper lemmas are in `Lemmas/TopK.lean`, `Lemmas/TopKOpt.lean`.

All theorems are about `TopK.optimize`: ANY strategy (any state type, any suggest / update /
init functions), any number of iterations, any batch sizes, any `count`, any score function,
rewards in any carrier with a total preorder `le` (ties allowed).  The placeholder reward `ph`
(−∞) is an arbitrary element of the carrier unless a theorem assumes it least: with the IEEE
total order that `lax.top_k` uses, a NaN with the sign bit set ranks below −∞.
-/
import VizierModel.Lemmas.TopKOpt

namespace VizierModel.C19
open VizierModel.TopK

/-- the concrete order of the driver (rewards travel as integer keys of the float32 total order) -/
theorem intLe_total : TotalLe (fun a b : Int => decide (a ≤ b)) where
  total a b := by
    rcases Int.le_total a b with h | h
    · exact Or.inl (by simpa using h)
    · exact Or.inr (by simpa using h)
  trans a b c h1 h2 := by
    simp only [decide_eq_true_eq] at *
    exact Int.le_trans h1 h2

section
variable {κ σ ρ α : Type} (cfg : Cfg) (K : Keys κ) (S : Strategy κ σ ρ α) {le : α → α → Bool} (T : TotalLe le)
  (zero : ρ) (ph : α) (L : Layout) (scoreOf : κ → Feat ρ → α) (count nIter : Nat)
  (priors : Option (List (Feat ρ) × Nat × Nat)) (seed : κ)
include T

local notation "result" => Prod.fst (optimize cfg K S le zero ph L scoreOf count nIter priors seed)
local notation "trace" => Prod.snd (optimize cfg K S le zero ph L scoreOf count nIter priors seed)
local notation "score" => acqScore K scoreOf seed
local notation "scored" => callScored K zero ph L scoreOf priors seed
local notation "pool" => initPool cfg zero ph L count (callScored K zero ph L scoreOf priors seed)

/-- **Exactly `count` candidates**, whatever the batch sizes and the number of iterations
(including none at all). -/
theorem c19_count : (result).length = count := by
  rw [optimize_fst_eq cfg K S le zero ph L scoreOf count nIter priors seed T, List.length_take,
    length_sortDesc, List.length_append]
  have : count ≤ (pool).length := by
    unfold initPool; rw [List.length_append]; simp [placeholders]
  omega

/-- **The best it evaluated.**  (1) The result is a top-`count` selection — `count` entries,
with multiplicity, of everything evaluated ∪ what the best results were seeded with, and no
entry left out has a larger reward than a returned one; so the returned rewards are the
`count` largest of that multiset.  (2) Exactly: it is the first `count` entries of the stable
descending sort, newest batch first (ties are resolved as `lax.top_k` does).  (3) Every
returned (features, reward) pair was produced by scoring: `reward = score features` for the
call's score function — or it comes from the seed pool (placeholders, scored priors). -/
theorem c19_topk :
    IsTopK le count (evaluated (trace) ++ pool) (result) ∧
    (result) = (sortDesc le (evaluated (trace) ++ pool)).take count ∧
    ∀ x ∈ (result), ((∃ b ∈ (trace), x ∈ b) ∧ x.reward = score x.feat) ∨ x ∈ pool := by
  have heq := optimize_fst_eq cfg K S le zero ph L scoreOf count nIter priors seed T
  have htop : IsTopK le count (evaluated (trace) ++ pool) (result) := by
    rw [heq]
    apply isTopK_take_sort T
    rw [List.length_append]
    have : count ≤ (pool).length := by
      unfold initPool; rw [List.length_append]; simp [placeholders]
    omega
  refine ⟨htop, heq, ?_⟩
  intro x hx
  rcases List.mem_append.mp (htop.mem x hx) with h | h
  · left
    obtain ⟨b, hb, hxb⟩ := (mem_evaluated _ x).mp h
    refine ⟨⟨b, hb, hxb⟩, ?_⟩
    obtain ⟨k, st, rfl⟩ := optimize_trace_mem cfg K S le zero ph L scoreOf count nIter priors seed b hb
    obtain ⟨_, _, _, hr⟩ := mem_scoreBatch zero L _ _ x hxb
    exact hr
  · exact Or.inr h

omit T in
/-- the executable predicate the harness evaluates on the REAL result (driver op `istopk`) is
exactly the specification used in `c19_topk` -/
theorem c19_isTopKB_iff [DecidableEq ρ] [DecidableEq α] (k : Nat) (all res : List (Entry (Feat ρ) α)) :
    isTopKB le k all res = true ↔ IsTopK le k all res := isTopKB_iff le k all res

/-- For the code as written the seed pool is just the placeholders: every returned pair is an
evaluated pair carrying the score the function gave, or the placeholder (zeros, −∞). -/
theorem c19_reported_score_is_function_value (x : Entry (Feat ρ) α)
    (hx : x ∈ (optimize Cfg.asWritten K S le zero ph L scoreOf count nIter priors seed).1) :
    x.reward = score x.feat ∨ x = ⟨zerosFeat zero L, ph⟩ := by
  rcases (c19_topk Cfg.asWritten K S T zero ph L scoreOf count nIter priors seed).2.2 x hx with h | h
  · exact Or.inl h.2
  · right
    simp only [initPool, Cfg.asWritten, placeholders, Bool.false_eq_true, if_false, List.nil_append] at h
    exact (List.mem_replicate.mp h).2

/-- **No placeholder when enough was evaluated** (independent of how ties are resolved): if at
least `count` evaluations rank strictly above the placeholder reward, every returned entry ranks
strictly above it — so none is a placeholder (nor a masked prior row) — and it is an evaluated
pair or a scored prior. -/
theorem c19_no_placeholder
    (h : count ≤ (evaluated (trace)).countP (fun e => !le e.reward ph)) :
    ∀ x ∈ (result), le x.reward ph = false ∧ x ≠ ⟨zerosFeat zero L, ph⟩ := by
  have htop := (c19_topk cfg K S T zero ph L scoreOf count nIter priors seed).1
  have hc : count ≤ (evaluated (trace) ++ pool).countP (fun e => !le e.reward ph) := by
    rw [List.countP_append]; omega
  intro x hx
  have := htop.above T ph hc x hx
  refine ⟨this, ?_⟩
  rintro rfl
  rw [T.refl ph] at this
  cases this

/-- … and when −∞ really is least in the carrier (no sign-bit NaN rewards), `count` evaluations
of *any* reward suffice for the code as written: the result is the top `count` of the
evaluated pairs alone — placeholders lose every tie, because `lax.top_k` prefers lower
indices and `concatenate([batch, best])` puts the newer entries first. -/
theorem c19_no_placeholder_stable (hbot : ∀ a, le ph a = true)
    (h : count ≤ (evaluated (optimize Cfg.asWritten K S le zero ph L scoreOf count nIter priors seed).2).length) :
    (optimize Cfg.asWritten K S le zero ph L scoreOf count nIter priors seed).1 =
      (sortDesc le (evaluated (optimize Cfg.asWritten K S le zero ph L scoreOf count nIter priors seed).2)).take count := by
  rw [optimize_fst_eq Cfg.asWritten K S le zero ph L scoreOf count nIter priors seed T]
  simp only [initPool, Cfg.asWritten, Bool.false_eq_true, if_false, List.nil_append]
  rw [sortDesc_append_placeholders T _ ph hbot, List.take_append_of_le_length]
  rw [length_sortDesc]; exact h

/-- **In bounds.**  If the strategy delivers candidates whose real continuous entries are in
[0,1] and whose real categorical entries are below their arity (padded entries arbitrary), then
every returned candidate has continuous features in [0,1], categorical features that are valid
indices, and all padded dimensions equal to zero.  (For the variant that merges the priors the
prior rows must satisfy the same; padded prior *rows* — NaN / −1 fill — do not, they carry reward
−∞ and are covered by `c19_no_placeholder`.) -/
theorem c19_in_bounds [DecidableEq ρ] (leR : ρ → ρ → Bool) (one : ρ)
    (h00 : leR zero zero = true) (h01 : leR zero one = true)
    (hpos : ∀ a ∈ L.arities, 0 < a) (hlen : L.arities.length ≤ L.nCatPad)
    (hS : ∀ k st, ∀ f ∈ S.suggest k st, rawOk leR zero one L f = true)
    (hP : cfg.priorsEnterBest = true → ∀ ps vc vk, priors = some (ps, vc, vk) →
      ∀ f ∈ ps, rawOk leR zero one L f = true) :
    ∀ x ∈ (result), inBounds leR zero one L x.feat = true := by
  intro x hx
  rcases (c19_topk cfg K S T zero ph L scoreOf count nIter priors seed).2.2 x hx with h | h
  · obtain ⟨⟨b, hb, hxb⟩, _⟩ := h
    obtain ⟨k, st, rfl⟩ := optimize_trace_mem cfg K S le zero ph L scoreOf count nIter priors seed b hb
    obtain ⟨f, hf, hfeat, _⟩ := mem_scoreBatch zero L _ _ x hxb
    rw [hfeat]
    exact inBounds_maskFeat leR zero one L f (hS k st f hf)
  · unfold initPool at h
    rcases List.mem_append.mp h with h | h
    · cases hc : cfg.priorsEnterBest with
      | false => simp [hc] at h
      | true =>
        simp only [hc, if_true] at h
        unfold callScored scoredPriors at h
        cases hp : priors with
        | none => simp [hp] at h
        | some t =>
          obtain ⟨ps, vc, vk⟩ := t
          simp only [hp, scorePriors] at h
          obtain ⟨f, hf, hfeat, _⟩ := mem_scorePriorsAux zero L _ ph vc vk 0 ps x h
          rw [hfeat]
          exact inBounds_maskFeat leR zero one L f (hP hc ps vc vk hp f hf)
    · rw [(List.mem_replicate.mp h).2]
      exact inBounds_zerosFeat leR zero one L h00 h01 hpos hlen

omit T in
/-- **Deterministic.**  The result is a function of the seed, the priors and the values of the
score function at the one acquisition key derived from the seed (`acq_fn_seed`, used for every
batch): two calls that agree on these return the same candidates and evaluate the same batches. -/
theorem c19_deterministic (scoreOf' : κ → Feat ρ → α)
    (hf : ∀ f, scoreOf (K.split2 seed).2 f = scoreOf' (K.split2 seed).2 f) :
    optimize cfg K S le zero ph L scoreOf count nIter priors seed =
      optimize cfg K S le zero ph L scoreOf' count nIter priors seed := by
  have : scoreOf (K.split2 seed).2 = scoreOf' (K.split2 seed).2 := funext hf
  unfold optimize
  simp only [this]

end

/-! ## never worse than the best prior -/

/-- FULL STATEMENT: for every valid prior row (index below both row counts) some returned
candidate's reward is at least the score of that prior. -/
def NotWorseThanPrior (cfg : Cfg) : Prop :=
  ∀ {κ σ ρ α : Type} (K : Keys κ) (S : Strategy κ σ ρ α) (le : α → α → Bool), TotalLe le →
    ∀ (zero : ρ) (ph : α) (L : Layout) (scoreOf : κ → Feat ρ → α) (count nIter : Nat)
      (ps : List (Feat ρ)) (vc vk : Nat) (seed : κ), 0 < count →
      ∀ (j : Nat) (hj : j < ps.length), j < vc → j < vk →
        ∃ x ∈ (optimize cfg K S le zero ph L scoreOf count nIter (some (ps, vc, vk)) seed).1,
          le (acqScore K scoreOf seed (maskFeat zero L ps[j])) x.reward = true

/-- It holds for the variant that seeds the best results with the scored priors
(`fixes/c19-merge-priors-into-best.diff`). -/
theorem c19_not_worse_than_prior : NotWorseThanPrior Cfg.fixed := by
  intro κ σ ρ α K S le T zero ph L scoreOf count nIter ps vc vk seed hcount j hj hjc hjk
  have htop := (c19_topk Cfg.fixed K S T zero ph L scoreOf count nIter (some (ps, vc, vk)) seed).1
  -- the prior's entry is in the pool
  have hmem : (⟨maskFeat zero L ps[j], acqScore K scoreOf seed (maskFeat zero L ps[j])⟩ : Entry (Feat ρ) α) ∈
      evaluated (optimize Cfg.fixed K S le zero ph L scoreOf count nIter (some (ps, vc, vk)) seed).2 ++
        initPool Cfg.fixed zero ph L count (callScored K zero ph L scoreOf (some (ps, vc, vk)) seed) := by
    apply List.mem_append_right
    unfold initPool
    apply List.mem_append_left
    simp only [Cfg.fixed, if_true, callScored, scoredPriors, scorePriors]
    exact scorePriorsAux_valid zero L _ ph vc vk 0 ps j hj (by omega) (by omega)
  rcases htop.dominates _ hmem with h | h
  · exact ⟨_, h, T.refl _⟩
  · have hlen := htop.1
    cases hres : (optimize Cfg.fixed K S le zero ph L scoreOf count nIter (some (ps, vc, vk)) seed).1 with
    | nil => rw [hres] at hlen; simp at hlen; omega
    | cons x xs =>
      rw [hres] at h
      exact ⟨x, List.mem_cons_self, h x List.mem_cons_self⟩

/-- a strategy that always suggests the single point 0 (one continuous dimension) -/
def witnessStrategy : Strategy Unit Unit Nat Nat :=
  { init := fun _ _ => (), suggest := fun _ _ => [⟨[0], []⟩], update := fun _ _ _ => () }

/-- a score function peaked at the point 7 -/
def witnessScore : Unit → Feat Nat → Nat := fun _ f => if f.cont = [7] then 10 else 1

/-- It is FALSE for the code as written: score peaked at a prior point (7 ↦ 10), batches
elsewhere (0 ↦ 1); the prior is scored, handed to the strategy, and forgotten. -/
theorem c19_not_worse_than_prior_counterexample : ¬ NotWorseThanPrior Cfg.asWritten := by
  intro h
  have T : TotalLe (fun a b : Nat => decide (a ≤ b)) :=
    { total := fun a b => by
        rcases Nat.le_total a b with h | h
        · exact Or.inl (by simpa using h)
        · exact Or.inr (by simpa using h)
      trans := fun a b c h1 h2 => by
        simp only [decide_eq_true_eq] at *
        exact Nat.le_trans h1 h2 }
  have := h (κ := Unit) (σ := Unit) (ρ := Nat) (α := Nat) ⟨fun _ => ((), ()), fun _ => ((), (), ())⟩
    witnessStrategy (fun a b => decide (a ≤ b)) T 0 0 ⟨1, 1, [], 0⟩ witnessScore 1 2 [⟨[7], []⟩] 1 1 ()
    (by decide) 0 (by decide) (by decide) (by decide)
  revert this
  decide

/-! ## the eagle strategy's last steps establish the hypothesis of `c19_in_bounds` -/

/-- whatever mutation and perturbation produced, after `clip(·, 0, 1)` and sampling each
category from logits that are −∞ outside `range(arity)`, the suggestion satisfies `rawOk` -/
theorem c19_eagle_raw_ok {ρ : Type} (leR : ρ → ρ → Bool) (zero one : ρ)
    (total : ∀ a b, leR a b = true ∨ leR b a = true) (h01 : leR zero one = true)
    (L : Layout) (maxCat : Nat) (hpos : ∀ a ∈ L.arities, 0 < a) (hmax : ∀ a ∈ L.arities, a ≤ maxCat)
    (mutated : List ρ) (rs padCats : List Nat) (hc : mutated.length = L.nContPad)
    (hk : L.arities.length + padCats.length = L.nCatPad) :
    rawOk leR zero one L (eagleFinish leR zero one L maxCat mutated rs padCats) = true := by
  simp only [rawOk, eagleFinish, project, Bool.and_eq_true, decide_eq_true_eq, List.length_map,
    List.length_append, length_sampleCats]
  refine ⟨⟨⟨hc, ?_⟩, hk⟩, catsOk_sampleCats maxCat _ rs padCats hpos hmax⟩
  apply firstAll_map_of_forall
  intro x
  have := clip01_bounds leR zero one total h01 x
  simp [this.1, this.2]

/-- the projection does not move a point that is already inside the cube (the "clip to [0,1)
exclusive is harmless" remark of DESIGN: only the closed bounds matter) -/
theorem c19_clip_fixes_cube {ρ : Type} (leR : ρ → ρ → Bool) (zero one x : ρ)
    (h0 : leR zero x = true) (h1 : leR x one = true) : clip01 leR zero one x = x :=
  clip01_id leR zero one x h0 h1

/-- **Results → trials** (`best_candidates_to_trials`, the form in which the designers consume the
result): the trials are exactly the candidates of the result rows — each with the reward of ITS row, the
continuous and the categorical part decoded together — with multiplicity, and they come best first. -/
theorem c19_to_trials {π ψ α : Type} {le : α → α → Bool} (T : TotalLe le) (decode : ψ → π)
    (res : List (Entry (List ψ) α)) :
    (toTrials le decode res).Perm (res.flatMap fun e => e.feat.map fun f => (decode f, e.reward)) ∧
    (toTrials le decode res).Pairwise (fun a b => le b.2 a.2 = true) := by
  refine ⟨(perm_sortDesc le res).flatMap_right _, ?_⟩
  have hs := sorted_sortDesc T res
  unfold toTrials
  generalize sortDesc le res = l at hs
  induction l with
  | nil => simp
  | cons e l ih =>
    have hs' : Sorted le (e :: l) := hs
    simp only [Sorted, List.pairwise_cons] at hs'
    rw [List.flatMap_cons, List.pairwise_append]
    refine ⟨?_, ih hs'.2, ?_⟩
    · rw [List.pairwise_map]
      exact List.pairwise_of_forall (fun _ _ => T.refl _)
    · intro a ha b hb
      rcases List.mem_map.1 ha with ⟨f, _, rfl⟩
      rcases List.mem_flatMap.1 hb with ⟨e', he', hb'⟩
      rcases List.mem_map.1 hb' with ⟨g, _, rfl⟩
      exact hs'.1 e' he'

/-! ## non-vacuity: the hypotheses are satisfiable and the statements bite -/

/-- a run with ties, a batch larger than `count`, a batch smaller than `count`: rewards
[5,3,5] then [3]; count 2 keeps both fives, the first one first -/
example : runTopK (fun a b : Nat => decide (a ≤ b)) 2 (0 : Nat) 0
    [[⟨10, 5⟩, ⟨11, 3⟩, ⟨12, 5⟩], [⟨13, 3⟩]] = [⟨10, 5⟩, ⟨12, 5⟩] := by decide

/-- `count` larger than the number of evaluations: placeholders are returned (D13) -/
example : runTopK (fun a b : Nat => decide (a ≤ b)) 3 (0 : Nat) 0 [[⟨10, 5⟩]] =
    [⟨10, 5⟩, ⟨0, 0⟩, ⟨0, 0⟩] := by decide

/-- a reward ranking below the placeholder's (a sign-bit NaN under the float total order; here
integers with ph = 0) loses against the placeholder although it was evaluated -/
example : runTopK (fun a b : Int => decide (a ≤ b)) 1 (0 : Nat) 0 [[⟨10, -1⟩]] = [⟨0, 0⟩] := by decide

/-- the seeded variant on the counterexample's data returns the prior -/
example : runTopKSeeded (fun a b : Nat => decide (a ≤ b)) 1 (0 : Nat) 0 [⟨7, 10⟩] [[⟨1, 1⟩], [⟨2, 1⟩]] =
    [⟨7, 10⟩] := by decide

/-- the hypothesis of `c19_in_bounds` is satisfiable: a clipped, sampled eagle suggestion -/
example : rawOk (fun a b : Int => decide (a ≤ b)) 0 10 ⟨2, 3, [3, 2], 3⟩
    (eagleFinish (fun a b : Int => decide (a ≤ b)) 0 10 ⟨2, 3, [3, 2], 3⟩ 3 [-4, 17, 5] [7, 4] [9]) = true := by
  decide

/-- rows out of order, a tie, two parallel candidates in one row -/
example : toTrials (fun a b : Nat => decide (a ≤ b)) (fun n : Nat => n * 10) [⟨[1], 3⟩, ⟨[2, 3], 7⟩, ⟨[4], 3⟩] =
    [(20, 7), (30, 7), (10, 3), (40, 3)] := by decide

end VizierModel.C19
