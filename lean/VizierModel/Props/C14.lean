/-
C14 — seeded algorithms and benchmark runs are reproducible.
Property theorems only; the mini-language is `Model/Provenance.lean`, helper lemmas are in
`Lemmas/Provenance.lean`.  The site tables of the real designers are generated from the
Python source (`Generated/RngSites.lean`) and discharged in `Props/C14Sites.lean`.
-/
import VizierModel.Lemmas.Provenance

namespace VizierModel.C14
open VizierModel.Prov

/-- THE PROPERTY (first half): for every interpretation of the library calls and of the
designer's own computation, every problem, history and *provided* seed, the output is the
same in any two ambients (global numpy / python / jax RNG state, clock, pid, OS entropy) —
as soon as every site of the table passes the decidable criterion `allowed`. -/
theorem c14_noninterference {Out : Type} (I : Interp Out) (sites : List Site)
    (hall : ∀ s ∈ sites, allowed s = true) (i : Inputs) (hseed : i.seed.isSome = true)
    (a₁ a₂ : Ambient) : run I sites a₁ i = run I sites a₂ i := by
  unfold run
  congr 1
  apply streams_congr I a₁ a₂ i i rfl
  intro s hs hact
  have h := hall s hs
  rw [hseed] at hact
  simp only [allowed, hact, Bool.not_true, Bool.false_or] at h
  exact eval_of_clean a₁ a₂ i hseed s.prov h

/-- The criterion is tight: a site that reaches the output under a provided seed and whose
provenance is NOT in the closure makes the (transparent) run depend on the ambient.  So a
table with a disallowed site cannot be proved reproducible by any other argument within
the model. -/
theorem c14_allowed_necessary (s : Site) (h : allowed s = false) (i : Inputs)
    (hseed : i.seed.isSome = true) :
    run Interp.transparent [s] ambient0 i ≠ run Interp.transparent [s] ambient1 i := by
  simp only [allowed, Bool.or_eq_false_iff, Bool.not_eq_eq_eq_not, Bool.not_false] at h
  have hact : s.active i.seed.isSome = true := by rw [hseed]; exact h.1
  simp only [run, Interp.transparent, streams, hact, if_true]
  intro heq
  exact eval_ne_of_unclean i s.prov h.2 (List.cons.inj heq).1

/-- running an inlined callee table = running the callee's own table on the seed the
caller hands over (so checking the inlined table checks the composition) -/
theorem c14_inline_sound {Out : Type} (I : Interp Out) (g0 : Guard) (q : Prov) (a : Ambient)
    (i : Inputs) (hg0 : g0.holds i.seed.isSome = true) :
    ∀ callee : List Site,
      streams I a i (inlineSites g0 q callee) =
        streams ⟨fun s => I.lib (s.inline g0 q), I.post⟩ a (innerInputs a i q) callee
  | [] => rfl
  | s :: ss => by
    have ih := c14_inline_sound I g0 q a i hg0 ss
    have hact : (s.inline g0 q).active i.seed.isSome = s.active (innerInputs a i q).seed.isSome := by
      simp [Site.active, Site.inline, Guard.holds_and, hg0, Guard.holds_resolve a i q]
    have hev : (s.inline g0 q).prov.eval a i = s.prov.eval a (innerInputs a i q) := by
      simp [Site.inline, eval_subst]
    simp only [inlineSites, List.map_cons, streams, hact, hev]
    simp only [inlineSites] at ih
    rw [ih]

/-- a callee called with the caller's own seed, unconditionally, contributes exactly its
own table -/
theorem c14_inline_seedArg (callee : List Site) : inlineSites .always .seedArg callee = callee := by
  induction callee with
  | nil => rfl
  | cons s ss ih =>
    simp only [inlineSites, List.map_cons] at ih ⊢
    rw [ih]
    congr 1
    cases s
    simp [Site.inline, Guard.resolve_seedArg, Guard.always_and, subst_seedArg]

/-! ## the seed is used -/

/-- A table in which no site (active under a provided seed) mentions `seedArg` is flagged
by `seedUsed = false`, and rightly so: its runs do not depend on the seed. -/
theorem c14_seed_ignored_if_unused {Out : Type} (I : Interp Out) (sites : List Site)
    (h : seedUsed sites = false) (a : Ambient) (p hist v₁ v₂ : Val) :
    run I sites a ⟨some v₁, p, hist⟩ = run I sites a ⟨some v₂, p, hist⟩ := by
  unfold run
  congr 1
  apply streams_congr I a a ⟨some v₁, p, hist⟩ ⟨some v₂, p, hist⟩ rfl
  intro s hs hact
  have hm : s.prov.mentionsSeed = false := by
    have := List.any_eq_false.mp h s hs
    simp only [Option.isSome_some] at hact
    simpa [hact] using this
  exact eval_of_seedfree a ⟨some v₁, p, hist⟩ ⟨some v₂, p, hist⟩ rfl rfl s.prov hm

/-- THE PROPERTY (second half): if some site that reaches the output reads the seed and the
library constructors are injective in their seed (no two seeds give the same stream) and the
designer exposes its streams, then two different seeds give two different outputs. -/
theorem c14_seed_threaded {Out : Type} (I : Interp Out)
    (hlib : ∀ s x y, I.lib s x = I.lib s y → x = y)
    (hpost : ∀ p h l₁ l₂, I.post p h l₁ = I.post p h l₂ → l₁ = l₂)
    (sites : List Site) (hused : seedUsed sites = true) (a : Ambient) (p hist v₁ v₂ : Val)
    (hv : v₁ ≠ v₂) :
    run I sites a ⟨some v₁, p, hist⟩ ≠ run I sites a ⟨some v₂, p, hist⟩ := by
  intro heq
  have hl := hpost _ _ _ _ heq
  clear heq
  induction sites with
  | nil => simp [seedUsed] at hused
  | cons s ss ih =>
    by_cases hact : s.active true = true
    · simp only [streams, Option.isSome_some, hact, if_true, List.cons.injEq] at hl
      by_cases hm : s.prov.mentionsSeed = true
      · exact eval_ne_of_mentions a p hist v₁ v₂ hv s.prov hm (hlib _ _ _ hl.1)
      · apply ih _ hl.2
        simp only [seedUsed, List.any_cons, Bool.or_eq_true] at hused
        rcases hused with h | h
        · simp [hm] at h
        · exact h
    · simp only [streams, Option.isSome_some, hact] at hl
      apply ih _ hl
      simp only [seedUsed, List.any_cons, Bool.or_eq_true] at hused
      rcases hused with h | h
      · simp [hact] at h
      · exact h

/-! ## the benchmark chain -/

/-- `BenchmarkStateFactory(seed) → PolicySuggester.from_designer_factory(seed=seed) →
InRamDesignerPolicy(seed=seed) → designer_factory(problem, seed=self._seed)`: when every
link hands its own seed on, the designer receives the benchmark's seed … -/
theorem c14_chain_threaded (chain : List Link) (h : chainThreaded chain = true) :
    compose chain = .seedArg := by
  induction chain with
  | nil => rfl
  | cons l ls ih =>
    simp only [chainThreaded, List.all_cons, Bool.and_eq_true] at h
    have ih' := ih (by simpa [chainThreaded] using h.2)
    simp [compose, ih', Prov.subst, isSeedArg_eq h.1]

/-- … so the designer's table seen from the benchmark is the designer's own table … -/
theorem c14_chain_run {Out : Type} (I : Interp Out) (chain : List Link)
    (h : chainThreaded chain = true) (designer : List Site) (a : Ambient) (i : Inputs) :
    run I (inlineSites .always (compose chain) designer) a i = run I designer a i := by
  rw [c14_chain_threaded chain h, c14_inline_seedArg]

/-- … and a single link that does not read its seed (a factory that forgets `seed=seed`)
cuts the designer off from the benchmark's seed: nothing the designer does mentions it. -/
theorem c14_chain_dropped (chain : List Link)
    (h : ∃ l ∈ chain, l.seedProv.mentionsSeed = false) :
    (compose chain).mentionsSeed = false := by
  induction chain with
  | nil => simp at h
  | cons l ls ih =>
    simp only [compose, mentionsSeed_subst]
    rcases h with ⟨l', hl', hm⟩
    rcases List.mem_cons.mp hl' with rfl | hin
    · simp [hm]
    · simp [ih ⟨l', hin, hm⟩]

theorem c14_chain_dropped_unused (chain : List Link)
    (h : ∃ l ∈ chain, l.seedProv.mentionsSeed = false) (designer : List Site) :
    seedUsed (inlineSites .always (compose chain) designer) = false := by
  have hc := c14_chain_dropped chain h
  apply List.any_eq_false.mpr
  intro s hs
  rcases List.mem_map.mp hs with ⟨t, _, rfl⟩
  simp [Site.inline, mentionsSeed_subst, hc]

/-! ## the lift used by the generated obligations -/

/-- `sites_ok` (decided by the kernel on the generated table) ⇒ noninterference of the
designer, for all interpretations, problems, histories, provided seeds and ambients. -/
theorem c14_sites_ok_lift {Out : Type} (sites : List Site)
    (sites_ok : ∀ s ∈ sites, allowed s = true) :
    ∀ (I : Interp Out) (seed problem history : Val) (a₁ a₂ : Ambient),
      run I sites a₁ ⟨some seed, problem, history⟩ = run I sites a₂ ⟨some seed, problem, history⟩ :=
  fun I _ _ _ a₁ a₂ => c14_noninterference I sites sites_ok _ rfl a₁ a₂

/-! ## non-vacuity and what the criterion rejects -/

/-- `np.random.RandomState(seed)` drawn from in `suggest`: allowed, seed used -/
example : (∀ s ∈ [(⟨.construct, "np.random.RandomState", .always, .seedArg, .output⟩ : Site),
    ⟨.draw, "Generator.random", .always, .seedArg, .output⟩], allowed s = true) := by decide
example : seedUsed [(⟨.construct, "np.random.RandomState", .always, .seedArg, .output⟩ : Site)] = true := by
  decide
/-- `if seed is None: seed = int(time.time())`: allowed (only reached without a seed) -/
example : allowed ⟨.construct, "np.random.default_rng", .seedNone, .clock, .output⟩ = true := by decide
/-- `np.random.rand()` in `suggest`: rejected -/
example : allowed ⟨.draw, "np.random.rand", .always, .globalNumpy, .output⟩ = false := by decide
/-- `seed or int(time.time())` (seed 0 falls through to the clock): rejected -/
example : allowed ⟨.construct, "np.random.default_rng", .seedSome,
    .derived [.seedArg, .clock], .output⟩ = false := by decide
/-- `np.random.default_rng()` without the seed: rejected -/
example : allowed ⟨.construct, "np.random.default_rng", .always, .constNone, .output⟩ = false := by decide
/-- a time stamp that only goes to the logs: accepted -/
example : allowed ⟨.read, "time.time", .always, .clock, .telemetry⟩ = true := by decide
/-- a sub-designer built with `seed=None` and a `seed is None → time` fallback: after
inlining the fallback is unconditional, rejected -/
example : (inlineSites .always .constNone
    [(⟨.construct, "qmc.Halton", .seedNone, .clock, .output⟩ : Site)]).all allowed = false := by decide
/-- a factory link that forgets the seed is not threaded -/
example : chainThreaded [⟨"A", "B", .seedArg⟩, ⟨"B", "C", .constNone⟩] = false := by decide

end VizierModel.C14
