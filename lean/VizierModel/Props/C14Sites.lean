/-
C14 — the obligations about the site tables GENERATED from the Python source
(`Generated/RngSites.lean`, rewritten by `harness/translators/rng_provenance.py` on every
run of the check).  Each is decided by the kernel; a source change that introduces a draw
from a process-global generator, a clock / pid / entropy seed reachable with a seed given,
an RNG constructed without the seed, or a factory link that drops the seed makes the
corresponding `decide` fail, i.e. breaks the build of this module.
-/
import VizierModel.Generated.RngSites
import VizierModel.Props.C14

namespace VizierModel.C14
open VizierModel.Prov VizierModel.Generated.RngSites

/-- every site of every class / function group of the analysed files passes `allowed` -/
theorem c14_sites_ok : ∀ t ∈ allTables, ∀ s ∈ t.2, allowed s = true := by decide +kernel

/-- every designer / sampler / optimiser named in the property reads its seed at a site
that reaches the output -/
theorem c14_seeds_used : ∀ t ∈ seededTables, seedUsed t.2 = true := by decide +kernel

/-- every link of the benchmark chain hands its own seed on -/
theorem c14_chain_ok : chainThreaded benchmarkChain = true ∧ chainThreaded sideLinks = true := by
  decide +kernel

/-- hence: every analysed class is reproducible in the model, for all library behaviours,
problems, histories, provided seeds and ambients … -/
theorem c14_real_tables_noninterferent {Out : Type} (I : Interp Out) :
    ∀ t ∈ allTables, ∀ (seed problem history : Val) (a₁ a₂ : Ambient),
      run I t.2 a₁ ⟨some seed, problem, history⟩ = run I t.2 a₂ ⟨some seed, problem, history⟩ :=
  fun t ht => c14_sites_ok_lift t.2 (c14_sites_ok t ht) I

/-- … different seeds give different (transparent) runs of every seeded class … -/
theorem c14_real_seeds_matter :
    ∀ t ∈ seededTables, ∀ (a : Ambient) (p h v₁ v₂ : Val), v₁ ≠ v₂ →
      run Interp.transparent t.2 a ⟨some v₁, p, h⟩ ≠ run Interp.transparent t.2 a ⟨some v₂, p, h⟩ :=
  fun t ht a p h v₁ v₂ hv =>
    c14_seed_threaded Interp.transparent (fun _ _ _ e => e) (fun _ _ _ _ e => e) t.2
      (c14_seeds_used t ht) a p h v₁ v₂ hv

/-- … and the designer built by the benchmark chain receives the benchmark's seed. -/
theorem c14_benchmark_seed_reaches_designer : compose benchmarkChain = .seedArg :=
  c14_chain_threaded benchmarkChain c14_chain_ok.1

end VizierModel.C14
