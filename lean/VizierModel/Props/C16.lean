/-
C16 — search-space definitions are validated and membership is decided correctly.
Property theorems only; helper lemmas are in `Lemmas/Space*.lean`; the specification
predicates (`typeOK`, `inDomain`, `memberSpec`, `normalised`, `activeSpace`) are in
`Model/SpaceSpec.lean` and are written from the property text, not from the code.
-/
import VizierModel.Lemmas.SpaceMember
import VizierModel.Lemmas.SpaceFactory
import VizierModel.Lemmas.SpaceWalk

namespace VizierModel.C16
open VizierModel.Space

/-! ## membership -/

/-- MAIN (membership biconditional).  For a flat space of well-formed configs (what
`factory` produces, `c16_factory_normalises`) and an assignment (a dict: unique keys),
`SearchSpace.contains` answers `True` exactly when the assignment has exactly the names of
the space and every parameter's value is type-compatible and inside its domain.  Holds for
both variants of the code (`cfg` arbitrary). -/
theorem c16_membership_iff (cfg : Cfg) (ss : List PC) (a : Assign)
    (hflat : isConditional ss = false) (hwf : ∀ p ∈ ss, p.h.wf = true)
    (hss : (names ss).Nodup) (ha : (keys a).Nodup) :
    contains cfg ss a = .ok true ↔ memberSpec ss a = true := by
  rw [contains_ok_true_iff]
  unfold assertContains memberSpec
  rw [hflat]
  simp only [Bool.false_eq_true, if_false, bne_iff_ne, ne_eq, ite_not, Bool.and_eq_true, List.all_eq_true,
    List.contains_iff_mem]
  constructor
  · intro h
    by_cases hlen : a.length = ss.length
    · rw [if_pos hlen] at h
      have hall := (checkAll_ok_iff cfg a ss).mp h
      have hsub : names ss ⊆ keys a := by
        intro n hn
        unfold names at hn
        rw [List.mem_map] at hn
        obtain ⟨p, hp, rfl⟩ := hn
        obtain ⟨v, hv, _⟩ := hall p hp
        exact lookup_some_mem hv
      have hlen' : (keys a).length ≤ (names ss).length := by simp [keys, names, hlen]
      refine ⟨fun n hn => subset_of_nodup_length hss hsub hlen' hn, ?_⟩
      intro p hp
      obtain ⟨v, hv, hc⟩ := hall p hp
      rw [hv]
      exact (pcContains_true_iff cfg p.h v (hwf p hp)).mp hc
    · rw [if_neg hlen] at h; cases h
  · intro ⟨hk, hp⟩
    have hall : ∀ p ∈ ss, ∃ v, lookup a p.name = some v ∧ pcContains cfg p.h v = .ok true := by
      intro p hpm
      have := hp p hpm
      cases hl : lookup a p.name with
      | none => rw [hl] at this; cases this
      | some v =>
        rw [hl] at this
        exact ⟨v, rfl, (pcContains_true_iff cfg p.h v (hwf p hpm)).mpr this⟩
    have hsub : names ss ⊆ keys a := by
      intro n hn
      unfold names at hn
      rw [List.mem_map] at hn
      obtain ⟨p, hp', rfl⟩ := hn
      obtain ⟨v, hv, _⟩ := hall p hp'
      exact lookup_some_mem hv
    have hlen : a.length = ss.length := by
      have := length_eq_of_nodup_subsets ha hss (fun n hn => hk n hn) hsub
      simpa [keys, names] using this
    rw [if_pos hlen]
    exact (checkAll_ok_iff cfg a ss).mpr hall

/-- never a wrong boolean: a `False` answer is never given to a member -/
theorem c16_membership_never_wrong (cfg : Cfg) (ss : List PC) (a : Assign)
    (hflat : isConditional ss = false) (hwf : ∀ p ∈ ss, p.h.wf = true)
    (hss : (names ss).Nodup) (ha : (keys a).Nodup) (h : contains cfg ss a = .ok false) :
    memberSpec ss a = false := by
  cases hm : memberSpec ss a with
  | false => rfl
  | true =>
    have := (c16_membership_iff cfg ss a hflat hwf hss ha).mpr hm
    rw [this] at h; cases h

/-- FULL STATEMENT "membership is always decided": `contains` returns the boolean the
specification prescribes, for every assignment. -/
def MembershipDecided (cfg : Cfg) : Prop :=
  ∀ (ss : List PC) (a : Assign), isConditional ss = false → (∀ p ∈ ss, p.h.wf = true) →
    (∀ p ∈ ss, p.h.type ≠ .custom) → (names ss).Nodup → (keys a).Nodup →
    contains cfg ss a = .ok (memberSpec ss a)

/-- … holds for the variant with the overflow guard (`fixes/c16-assert-correct-type-overflow.diff`) -/
theorem c16_membership_decided : MembershipDecided Cfg.fixed := by
  intro ss a hflat hwf hnc hss ha
  cases hm : memberSpec ss a with
  | true => exact (c16_membership_iff _ ss a hflat hwf hss ha).mpr hm
  | false =>
    have hne : contains Cfg.fixed ss a ≠ .ok true := fun h =>
      by rw [(c16_membership_iff _ ss a hflat hwf hss ha).mp h] at hm; cases hm
    unfold contains at hne ⊢
    cases hac : assertContains Cfg.fixed ss a with
    | ok u => rw [hac] at hne; exact absurd rfl hne
    | error e =>
      have he : e = .invalidParam := by
        unfold assertContains at hac
        rw [hflat] at hac
        simp only [Bool.false_eq_true, if_false] at hac
        by_cases hlen : (a.length != ss.length) = true
        · rw [if_pos hlen] at hac; cases hac; rfl
        · rw [if_neg hlen] at hac
          rcases checkAll_error _ a ss e hac with h | ⟨p, hp, v, _, hc⟩
          · exact h
          · rw [pcContains_fixed p.h v (hwf p hp) (hnc p hp)] at hc; cases hc
      subst he; rfl

def intParam05 : PC :=
  .mk { name := "i", type := .integer, bounds := some (.int 0, .int 5), feasible := [], default := none, ext := .internal } []

/-- … and is false of the code as written: an infinity given to an INTEGER parameter makes
`contains` die with OverflowError instead of answering `False` (witness replayed on the
real code by the check; known finding / proposed fix). -/
theorem c16_int_inf_counterexample : ¬ MembershipDecided Cfg.asWritten := by
  intro h
  have := h [intParam05] [("i", .flt .pinf)] (by decide) (by decide) (by decide) (by decide) (by decide)
  revert this
  decide

/-! ## conditional spaces are refused -/

/-- `contains` / `assert_contains` on a conditional space: NotImplementedError, never a boolean -/
theorem c16_conditional_refused (cfg : Cfg) (ss : List PC) (a : Assign) (h : isConditional ss = true) :
    contains cfg ss a = .error .notImplemented ∧ assertContains cfg ss a = .error .notImplemented := by
  have : assertContains cfg ss a = .error .notImplemented := by unfold assertContains; rw [h]; rfl
  exact ⟨by unfold contains; rw [this], this⟩

/-! ## definitions are normalised -/

/-- A config accepted by `ParameterConfig.factory` (hence by every `add_*_param` builder) is
normalised: DISCRETE/CATEGORICAL feasible values strictly increasing (sorted, duplicate
free), non-empty, DISCRETE bounds = (first, last); DOUBLE/INTEGER bounds finite and
ordered; the name is the given, non-empty one; and it is well formed in the sense the
membership theorem needs. -/
theorem c16_factory_normalises (cfg : Cfg) (a : FArgs) (p : PC) (h : factory cfg a = .ok p) :
    normalised p.h = true ∧ p.h.wf = true ∧ p.h.name = a.name ∧ a.name.isEmpty = false := by
  obtain ⟨hn, t, b, fv, d, hi, _, hh, _⟩ := factory_ok h
  have := (inferDomain_ok hi).normalised a.name d a.ext
  rw [hh]
  exact ⟨this.1, this.2, rfl, hn⟩

/-- the type is inferred from the kinds of the values given, and the values are kept
(the stored feasible values are a permutation of the given ones) -/
theorem c16_factory_infers_type (cfg : Cfg) (a : FArgs) (p : PC) (h : factory cfg a = .ok p) :
    match p.h.type with
    | .discrete => ∃ fv, a.feasible = some fv ∧ fv ≠ [] ∧ fv.all isNumInst = true ∧ p.h.feasible.Perm fv
    | .categorical => ∃ fv, a.feasible = some fv ∧ fv ≠ [] ∧ fv.all isStr = true ∧ p.h.feasible.Perm fv
    | .integer => ∃ lo hi, a.bounds = some [lo, hi] ∧ isIntInst lo = true ∧ isIntInst hi = true ∧
        p.h.bounds = some (lo, hi)
    | .double => ∃ lo hi, a.bounds = some [lo, hi] ∧ isFloatInst lo = true ∧ isFloatInst hi = true ∧
        p.h.bounds = some (lo, hi)
    | .custom => nonEmpty a.feasible = false ∧ nonEmpty a.bounds = false := by
  obtain ⟨_, t, b, fv, d, hi, _, hh, _⟩ := factory_ok h
  rw [hh]
  cases inferDomain_ok hi with
  | discrete fv0 hfe hne hb hd hnum hfin => exact ⟨fv0, hfe, hne, hnum, insSort_perm _ _⟩
  | categorical fv0 hfe hne hb hd hstr => exact ⟨fv0, hfe, hne, hstr, insSort_perm _ _⟩
  | integer lo up hfe hb hi1 hi2 hf1 hf2 hle => exact ⟨lo, up, hb, hi1, hi2, rfl⟩
  | double lo up hfe hb hi1 hi2 hf1 hf2 hle => exact ⟨lo, up, hb, hi1, hi2, rfl⟩
  | custom hfe hb => exact ⟨hfe, hb⟩

/-! ## invalid definitions are rejected (each class with its error class) -/

/-- empty name -/
theorem c16_factory_rejects_empty_name (cfg : Cfg) (a : FArgs) (h : a.name.isEmpty = true) :
    factory cfg a = .error .value := by
  unfold factory; rw [if_pos h]

/-- both `feasible_values` and `bounds` given -/
theorem c16_factory_rejects_both (cfg : Cfg) (a : FArgs) (h1 : nonEmpty a.feasible = true)
    (h2 : nonEmpty a.bounds = true) : factory cfg a = .error .value :=
  factory_of_inferDomain_value (inferDomain_both h1 h2)

/-- duplicate feasible values (Python equality: `1`, `1.0` and `True` are duplicates) -/
theorem c16_factory_rejects_duplicates (cfg : Cfg) (a : FArgs) (h1 : nonEmpty a.feasible = true)
    (hd : hasDup (a.feasible.getD []) = true) : factory cfg a = .error .value :=
  factory_of_inferDomain_value (inferDomain_feasible_branch h1 (Or.inl hd))

/-- feasible values of mixed kinds (neither all numbers nor all strings) -/
theorem c16_factory_rejects_mixed (cfg : Cfg) (a : FArgs) (h1 : nonEmpty a.feasible = true)
    (hn : (a.feasible.getD []).all isNumInst = false) (hs : (a.feasible.getD []).all isStr = false) :
    factory cfg a = .error .value :=
  factory_of_inferDomain_value (inferDomain_feasible_branch h1 (Or.inr (Or.inr ⟨hn, hs⟩)))

/-- a non-finite numeric feasible value (NaN, ±inf) -/
theorem c16_factory_rejects_nonfinite_feasible (cfg : Cfg) (a : FArgs) (h1 : nonEmpty a.feasible = true)
    (hn : (a.feasible.getD []).all isNumInst = true) (hf : (a.feasible.getD []).all isFinitePV = false) :
    factory cfg a = .error .value :=
  factory_of_inferDomain_value (inferDomain_feasible_branch h1 (Or.inr (Or.inl ⟨hn, hf⟩)))

/-- bounds that are non-finite or reversed (whatever their kinds) -/
theorem c16_factory_rejects_bad_bounds (cfg : Cfg) (a : FArgs) (lo hi : PVal)
    (h1 : nonEmpty a.feasible = false) (hb : a.bounds = some [lo, hi])
    (hbad : isFinitePV lo = false ∨ isFinitePV hi = false ∨ pyLe lo hi = false) :
    factory cfg a = .error .value :=
  factory_of_inferDomain_value (inferDomain_bad_bounds h1 hb hbad)

/-- an ill-typed default: a non-number for a numeric parameter, a non-string for a categorical one -/
theorem c16_factory_rejects_illtyped_default (cfg : Cfg) (a : FArgs) (t : PType) (b : Option (PVal × PVal))
    (fv : List PVal) (d : PVal) (hi : inferDomain a = .ok (t, b, fv)) (hd : a.default = some d)
    (hbad : (t.isNumeric = true ∧ isNumInst d = false) ∨ (t = .categorical ∧ isStr d = false)) :
    factory cfg a = .error .value := by
  have hg : getDefault t d = .error .value := by
    unfold getDefault
    rcases hbad with ⟨h1, h2⟩ | ⟨rfl, h2⟩
    · cases t <;> simp [PType.isNumeric] at h1 <;> simp [h2]
    · simp [h2]
  unfold factory
  by_cases hn : a.name.isEmpty = true
  · rw [if_pos hn]
  · rw [if_neg hn, hi]; simp only [hd, hg]

/-- children under a continuous (DOUBLE) or CUSTOM parameter: `subspace()` refuses, so a
config produced by `factory` never has any … -/
theorem c16_no_children_under_continuous (cfg : Cfg) (a : FArgs) (p : PC) (h : factory cfg a = .ok p)
    (ht : p.h.type = .double ∨ p.h.type = .custom) : p.kids = [] := by
  obtain ⟨_, t, b, fv, d, _, _, hh, hac⟩ := factory_ok h
  have ht' : (PC.mk ⟨a.name, t, b, fv, d, a.ext⟩ []).h.type = .double ∨
      (PC.mk ⟨a.name, t, b, fv, d, a.ext⟩ []).h.type = .custom := by
    rw [hh] at ht; exact ht
  rw [addChildren_continuous ht' hac]
  rfl

/-- … and a call that tries to attach one (first child entry with a parent value) is refused -/
theorem c16_factory_rejects_children_under_continuous (cfg : Cfg) (p : PC)
    (ht : p.h.type = .double ∨ p.h.type = .custom) (v : PVal) (vs : List PVal) (c : PC)
    (rest : List (List PVal × PC)) : ∃ e, addChildren cfg p ((v :: vs, c) :: rest) = .error e := by
  cases h : addChildren cfg p ((v :: vs, c) :: rest) with
  | error e => exact ⟨e, rfl⟩
  | ok p' =>
    exfalso
    unfold addChildren at h
    cases hs : pySorted (v :: vs) with
    | error e => rw [hs] at h; cases h
    | ok sv =>
      rw [hs] at h
      simp only at h
      cases hk : addKidForValues cfg c p sv with
      | error e => rw [hk] at h; cases h
      | ok p1 =>
        exact pySorted_ne_nil hs (List.cons_ne_nil _ _) (addKidForValues_continuous ht hk).1

/-- duplicate names in one subspace: `SearchSpace.add` refuses the second … -/
theorem c16_add_rejects_duplicate_name (ss : List PC) (p q : PC) (hq : q ∈ ss) (hn : q.name = p.name) :
    spaceAdd ss p = .error .value := by
  unfold spaceAdd
  rw [if_pos]
  rw [List.any_eq_true]
  exact ⟨q, hq, by simp [hn]⟩

/-- … so the names of a space stay unique (the invariant the membership theorem assumes) -/
theorem c16_add_keeps_names_unique (ss ss' : List PC) (p : PC) (hu : (names ss).Nodup)
    (h : spaceAdd ss p = .ok ss') : ss' = ss ++ [p] ∧ (names ss').Nodup := by
  unfold spaceAdd at h
  by_cases hd : (ss.any fun q => q.name == p.name) = true
  · rw [if_pos hd] at h; cases h
  · rw [if_neg hd] at h
    cases h
    refine ⟨rfl, ?_⟩
    simp only [names, List.map_append, List.map_cons, List.map_nil]
    rw [List.nodup_append]
    refine ⟨hu, by simp, ?_⟩
    intro a ha b hb
    simp only [List.mem_singleton] at hb
    subst hb
    intro hab
    apply hd
    rw [List.any_eq_true]
    rw [List.mem_map] at ha
    obtain ⟨q, hq, hqn⟩ := ha
    exact ⟨q, hq, by simp [hqn, hab]⟩

/-! ## walking a conditional space one parameter at a time -/

/-- Hypotheses of the walk theorem for the tree(s) `ss`: names unique over the whole tree,
every node stores its subspaces under keys of its own internal kind (invariant of
`factory`, `c16_factory_tree_ok`), and the chooser only chooses values the builder's own
validation (`get_subspace_deepcopy`) accepts. -/
structure WalkHyps (cfg : Cfg) (choose : PC → Option PVal) (ss : List PC) : Prop where
  uniq : (names (allSpace ss)).Nodup
  node : ∀ p ∈ allSpace ss, nodeOK p = true
  choice : ∀ p ∈ allSpace ss, ∀ v, choose p = some v → ∃ sub, getSubspace cfg p v = .ok sub

/-- MAIN (builder).  For a conditional tree of any depth, the parameters yielded by
`SequentialParameterBuilder` are exactly the active parameters defined recursively (the
parameters of the space; below a parameter, the subspace of the value chosen for it):
in DFS order the yielded sequence IS the preorder list of active parameters, in BFS order
it is a permutation of it; each active parameter is yielded exactly once (the list has no
repetition); any fuel ≥ the size of the tree suffices, i.e. the walk terminates. -/
theorem c16_builder_visits_active (cfg : Cfg) (choose : PC → Option PVal) (ss : List PC)
    (H : WalkHyps cfg choose ss) (fuel : Nat) (hf : sizeSpace ss ≤ fuel) :
    walk cfg false choose fuel ss = .ok (activeSpace choose ss) ∧
    (∃ l, walk cfg true choose fuel ss = .ok l ∧ l.Perm (activeSpace choose ss)) ∧
    (activeSpace choose ss).Nodup ∧ (activeSpace choose ss).Sublist (allSpace ss) := by
  have inv : WalkInv cfg choose ss := ⟨H.uniq, H.node, H.choice⟩
  have hsub := activeSpace_sublist choose (sizeSpace ss) ss (Nat.le_refl _)
  refine ⟨walk_dfs cfg choose fuel ss hf inv, walk_bfs cfg choose fuel ss hf inv, ?_, hsub⟩
  have : ((activeSpace choose ss).map PC.name).Nodup := List.Nodup.sublist (hsub.map PC.name) H.uniq
  exact (List.Pairwise.of_map PC.name (fun _ _ hne heq => hne (congrArg PC.name heq))) this

/-- skipped parameters (`builder.skip()`) are yielded but nothing below them is -/
theorem c16_builder_skip (choose : PC → Option PVal) (p : PC) (h : choose p = none) :
    activeOf choose p = [p] := by
  rw [activeOf_eq, h]

/-- the tree invariant holds for whatever `factory` builds from trees that have it -/
theorem c16_factory_tree_ok (cfg : Cfg) (a : FArgs) (p : PC) (h : factory cfg a = .ok p)
    (hc : ∀ e ∈ a.children, ∀ q ∈ allOf e.2, nodeOK q = true) : ∀ q ∈ allOf p, nodeOK q = true := by
  obtain ⟨_, t, b, fv, d, _, _, hh, hac⟩ := factory_ok h
  have hk := addChildren_kids hac
  have hph : p.h.type = t := by rw [hh]
  intro q hq
  rw [allOf_eq] at hq
  rcases List.mem_cons.mp hq with rfl | hq
  · unfold nodeOK
    rw [List.all_eq_true]
    intro kc hkc
    rcases hk kc hkc with h1 | ⟨_, h2⟩
    · simp [PC.kids] at h1
    · rw [hph]; exact h2
  · obtain ⟨kc, hkc, hqc⟩ := mem_allKids hq
    rcases hk kc hkc with h1 | ⟨⟨e, he, hce⟩, _⟩
    · simp [PC.kids] at h1
    · rw [hce] at hqc; exact hc e he q hqc

/-! ## `Study.add_trial` reaches the service only for members -/

theorem c16_add_trial_guard (cfg : Cfg) (ss : List PC) (trials trials' : List Assign) (a : Assign)
    (hwf : ∀ p ∈ ss, p.h.wf = true) (hss : (names ss).Nodup) (ha : (keys a).Nodup)
    (h : studyAddTrial cfg ss trials a = .ok trials') :
    isConditional ss = false ∧ memberSpec ss a = true ∧ trials' = trials ++ [a] := by
  unfold studyAddTrial at h
  cases hac : assertContains cfg ss a with
  | error e => rw [hac] at h; cases h
  | ok u =>
    rw [hac] at h; cases h
    have hflat : isConditional ss = false := by
      cases hc : isConditional ss with
      | false => rfl
      | true => rw [(c16_conditional_refused cfg ss a hc).2] at hac; cases hac
    exact ⟨hflat, (c16_membership_iff cfg ss a hflat hwf hss ha).mp ((contains_ok_true_iff cfg ss a).mpr hac), rfl⟩

/-! ## non-vacuity: a concrete conditional tree of depth 3 satisfying every hypothesis -/

def exLeaf (n : String) : PC :=
  .mk { name := n, type := .double, bounds := some (.flt (.fin 0), .flt (.fin 1)), feasible := [], default := none, ext := .internal } []
def exMid : PC :=
  .mk { name := "units", type := .integer, bounds := some (.int 1, .int 3), feasible := [], default := none, ext := .internal }
    [(.int 2, exLeaf "lr2"), (.int 3, exLeaf "lr3")]
def exRoot : PC :=
  .mk { name := "model", type := .categorical, bounds := none, feasible := [.str "dnn", .str "linear"], default := none, ext := .internal }
    [(.str "dnn", exMid), (.str "linear", exLeaf "l2")]
def exChoose (p : PC) : Option PVal :=
  if p.name == "model" then some (.str "dnn") else if p.name == "units" then some (.flt (.fin 2)) else some (.flt (.fin (1/2)))

example : (names (allSpace [exRoot, exLeaf "x"])).Nodup ∧
    (allSpace [exRoot, exLeaf "x"]).all nodeOK = true ∧
    (walk Cfg.asWritten false exChoose 6 [exRoot, exLeaf "x"]).toOption.map (·.map PC.name) =
      some ["model", "units", "lr2", "x"] ∧
    (walk Cfg.asWritten true exChoose 6 [exRoot, exLeaf "x"]).toOption.map (·.map PC.name) =
      some ["model", "x", "units", "lr2"] ∧
    (activeSpace exChoose [exRoot, exLeaf "x"]).map PC.name = ["model", "units", "lr2", "x"] := by
  decide +kernel

example : memberSpec [intParam05] [("i", .flt (.fin 3))] = true ∧ memberSpec [intParam05] [("i", .flt (.fin (7/2)))] = false ∧
    contains Cfg.asWritten [intParam05] [("i", .bool true)] = .ok true := by decide +kernel

end VizierModel.C16
