/-
C04 — concurrent clients, ANY NUMBER of them: every interleaving of the unguarded study checks and the critical
sections is equivalent to a serial order.  Property theorem.

`Props/C04.lean` has the statement for PAIRS of study-lock RPCs (`c04_study_lock_pairs_serialisable`, the six
interleavings enumerated) and the lock-level statement for any number of threads
(`c04_lock_gives_atomic_sections_n`).  Here the check-then-critical-section statement for any number of
study-lock RPCs (CompleteTrial, AddTrialMeasurement, StopTrial, CreateTrial, DeleteTrial, UpdateMetadata,
SetStudyState) with arbitrary arguments, arbitrary initial study, arbitrary complete schedule.  Granularity and
what stays trusted: as in `Props/C04.lean` (a critical section is one event because of the study lock).
Proof: `Lemmas/ConcN.lean` (`serialisable_n`), an invariant carried along the schedule.
-/
import VizierModel.Props.C04
import VizierModel.Lemmas.ConcN

namespace VizierModel.C04
open VizierModel.Svc VizierModel.Conc

/-- the hypothesis of `serialisable_n` holds of the real critical sections -/
theorem crit_setState_or_stateIndep (cfg : Cfg) (rpcs : List StudyRpc) :
    ∀ c ∈ rpcs.map (·.crit cfg), (∃ s, c = critSetState s) ∨ StateIndep c := by
  intro c hc
  obtain ⟨x, _, rfl⟩ := List.mem_map.mp hc
  by_cases hx : ∃ s, x = .setState s
  · obtain ⟨s, rfl⟩ := hx
    exact Or.inl ⟨s, rfl⟩
  · exact Or.inr (stateIndep_of cfg x (fun s e => hx ⟨s, e⟩))

/-- MAIN: for every initial study, every list of study-lock RPCs with arbitrary arguments (thread `i` runs
    `rpcs[i]`) and every complete schedule of their study checks and critical sections (each thread checks
    once, then runs its section once; the events of different threads interleave arbitrarily), what every
    caller observes (success or error class, trials handed out) and the final stored study equal those of
    the SERIAL execution of the RPCs in some order `π`, a permutation of the threads. -/
theorem c04_study_lock_rpcs_serialisable_n (cfg : Cfg) (rpcs : List StudyRpc) (st : Study)
    (evs : List EvN) (hc : Complete rpcs.length evs) :
    ∃ π : List Nat, π.Perm (List.range rpcs.length) ∧
      outcomeN rpcs.length (runN (rpcs.map (·.crit cfg)) st evs)
        = outcomeN rpcs.length (runN (rpcs.map (·.crit cfg)) st (serialN π)) := by
  have h := serialisable_n (rpcs.map (·.crit cfg)) (crit_setState_or_stateIndep cfg rpcs) st evs
    (by rw [List.length_map]; exact hc)
  rw [List.length_map] at h
  exact h

/-- the two permutations of two threads -/
theorem perm_range_two {π : List Nat} (h : π.Perm (List.range 2)) : π = [0, 1] ∨ π = [1, 0] := by
  have hr : List.range 2 = [0, 1] := by decide
  rw [hr] at h
  have hl := h.length_eq
  have hn : π.Nodup := h.nodup_iff.mpr (by decide)
  match π, hl, h, hn with
  | [a, b], _, h, hn =>
    have ha : a ∈ [0, 1] := h.subset (by simp)
    have hb : b ∈ [0, 1] := h.subset (by simp)
    have hab : a ≠ b := by
      intro e
      rw [e] at hn
      simp at hn
    simp only [List.mem_cons, List.not_mem_nil, or_false] at ha hb
    rcases ha with rfl | rfl <;> rcases hb with rfl | rfl
    · exact absurd rfl hab
    · exact Or.inl rfl
    · exact Or.inr rfl
    · exact absurd rfl hab

/-- two threads: the shape of `c04_study_lock_pairs_serialisable`, for every complete schedule -/
theorem c04_study_lock_rpcs_serialisable_two (cfg : Cfg) (x y : StudyRpc) (st : Study)
    (evs : List EvN) (hc : Complete 2 evs) :
    outcomeN 2 (runN [x.crit cfg, y.crit cfg] st evs) = outcomeN 2 (runN [x.crit cfg, y.crit cfg] st (serialN [0, 1])) ∨
    outcomeN 2 (runN [x.crit cfg, y.crit cfg] st evs) = outcomeN 2 (runN [x.crit cfg, y.crit cfg] st (serialN [1, 0])) := by
  obtain ⟨π, hp, ho⟩ := c04_study_lock_rpcs_serialisable_n cfg [x, y] st evs hc
  rcases perm_range_two hp with rfl | rfl
  · exact Or.inl ho
  · exact Or.inr ho

/-! ### non-vacuity -/

/-- StopTrial 1 / SetStudyState INACTIVE / CompleteTrial 1 on an ACTIVE study with one ACTIVE trial.  All three
    check first, then SetStudyState runs, then CompleteTrial and StopTrial run although the study is
    inactive by now ("stale" checks). -/
def exRpcs : List StudyRpc := [.stop 1, .setState .inactive, .complete 1 (some ⟨7, true⟩) false ""]
def exStudy : Study :=
  { (default : Study) with state := .active, trials := [{ (default : Trial) with id := 1, state := .active }] }
def exSchedule : List EvN := [.chk 0, .chk 1, .chk 2, .body 1, .body 2, .body 0]

/-- the schedule is complete, and it is not a serial schedule -/
example : Complete exRpcs.length exSchedule ∧
    ∀ π ∈ [[0, 1, 2], [0, 2, 1], [1, 0, 2], [1, 2, 0], [2, 0, 1], [2, 1, 0]], exSchedule ≠ serialN π := by
  decide

/-- an incomplete schedule (thread 2 runs its section before its check) is rejected -/
example : ¬ Complete exRpcs.length [.chk 0, .chk 1, .body 2, .body 1, .chk 2, .body 0] := by decide

/-- its outcome is that of the serial order CompleteTrial, StopTrial, SetStudyState — the two stale sections
    moved in front of the SetStudyState section, in the order they ran — and not that of the order of the
    sections in the schedule (there CompleteTrial and StopTrial are refused) -/
example :
    outcomeN 3 (runN (exRpcs.map (·.crit Cfg.fixed)) exStudy exSchedule)
      = outcomeN 3 (runN (exRpcs.map (·.crit Cfg.fixed)) exStudy (serialN [2, 0, 1])) ∧
    (outcomeN 3 (runN (exRpcs.map (·.crit Cfg.fixed)) exStudy exSchedule)).1
      ≠ (outcomeN 3 (runN (exRpcs.map (·.crit Cfg.fixed)) exStudy (serialN [1, 2, 0]))).1 := by
  decide

end VizierModel.C04
