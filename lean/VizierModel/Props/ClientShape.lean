/-
The RPC shape of the client library — obligations tying the client model to the CURRENT source, and the link
between the shape and the model.

* `Generated.clientShape` / `Generated.facadeShape` are regenerated from `vizier_client.py` / `clients.py` of the
  tree under test on every run (`harness/translators/client_shape.py`); the first group of theorems is decided by
  the kernel on THAT table: it is the table the model was written against, and it satisfies the criteria
  (one writing RPC per method, single-resource methods are one unconditional writing RPC, loops only read).
* The second group holds for ALL variant flags, fuels, handles, calls and states: the requests `clientExec` issues,
  by RPC name, are a run of the Python method the call stands for as the (generated) tables describe it - a run that
  may have been cut short by an exception in general, a complete one whenever the call returns a value -, and every
  client call contains at most one writing RPC (derived THROUGH the generated table, so the statement is about the
  source as well as about the model).
-/
import VizierModel.Generated.ClientShape
import VizierModel.Lemmas.ClientShape

namespace VizierModel.ClientShape
open VizierModel VizierModel.Svc VizierModel.Client

/-! ### the regenerated tables -/

/-- the RPC sequences extracted from `vizier_client.py` are the ones the client model was written against -/
theorem clientshape_matches : Generated.clientShape = assumedClientShape := by decide

/-- … and so are the `VizierClient` methods each `clients.Study` / `clients.Trial` method calls -/
theorem clientshape_facade_matches : Generated.facadeShape = assumedFacadeShape := by decide

/-- every method of `vizier_client.py` issues at most one writing RPC on every path (none in a loop) -/
theorem clientshape_at_most_one_write : atMostOneWrite Generated.clientShape = true := by decide

/-- complete_trial, report_intermediate_objective_value, stop_trial, delete_trial, add_trial, update_metadata,
    set_study_state, delete_study: exactly one writing RPC, executed exactly once -/
theorem clientshape_single_resource_single_rpc : singleResourceMethodsSingleRpc Generated.clientShape = true := by decide

/-- what is repeated (the polling loop of `get_suggestions`) only reads -/
theorem clientshape_polling_only_reads : pollingOnlyReads Generated.clientShape = true := by decide

/-- every method of `clients.py` resolves to methods of `vizier_client.py` and issues at most one writing RPC -/
theorem clientshape_facade_at_most_one_write :
    facadeAtMostOneWrite Generated.clientShape Generated.facadeShape = true := by decide

/-! ### what the criterion buys (any tables) -/

/-- **Soundness of "at most one writing RPC"**: for ANY pair of tables that satisfies the two criteria, every run -
    complete or cut short by an exception - of every method they describe contains at most one writing RPC. -/
theorem clientshape_criterion_sound (cs fs : Table) (hc : atMostOneWrite cs = true)
    (hf : facadeAtMostOneWrite cs fs = true) (m : Method) (names : List String)
    (h : conformsPrefix cs fs m names = true) : writeCount names ≤ 1 :=
  conformsPrefix_writeCount cs fs hc hf m names h

/-- a complete run is in particular a run that may have been cut short -/
theorem clientshape_conforms_prefix (cs fs : Table) (m : Method) (names : List String)
    (h : conforms cs fs m names = true) : conformsPrefix cs fs m names = true := by
  unfold conforms at h
  unfold conformsPrefix
  split
  · rename_i sh hs
    simp only [hs] at h
    exact admits_admitsPrefix sh names h
  · rename_i hs
    simp [hs] at h

/-! ### the client model follows the shape -/

/-- **The requests a client call issues are a run of its Python method as the GENERATED tables describe it**
    (possibly cut short: `Study.add_trial` stops after GetStudy when that fails or the trial lies outside the search
    space) - every variant of the service, every fuel of the polling loop, every handle, call and state. -/
theorem clientshape_model_conforms (cfg : Cfg) (fuel : Nat) (h : Handle) (c : Call) (db : DB) :
    conformsPrefix Generated.clientShape Generated.facadeShape (callMethod c)
      (rpcNames (clientExec cfg fuel h c db).reqs) = true := by
  rw [clientshape_matches, clientshape_facade_matches]
  have hsug : ∀ count ov alg m, shapeOf assumedClientShape assumedFacadeShape m = some [("SuggestTrials", .once), ("GetOperation", .loop)] →
      conformsPrefix assumedClientShape assumedFacadeShape m (rpcNames (getSuggestions cfg fuel h count ov alg db).reqs) = true := by
    intro count ov alg m hm
    obtain ⟨n, hn⟩ := getSuggestionsAs_names cfg fuel h count (askingId h ov) alg db
    unfold conformsPrefix getSuggestions
    rw [hm, hn]
    exact admits_admitsPrefix _ _ (suggest_shape_admits n)
  cases c with
  | suggest count w alg => exact hsug count (some w) alg _ (by simp only [callMethod]; decide)
  | getSuggestions count alg => exact hsug count none alg _ (by simp only [callMethod]; decide)
  | addTrial params final inSpace =>
    rcases addTrial_names cfg fuel h params final inSpace db with ⟨hn, _⟩ | hn <;> rw [hn] <;> simp only [callMethod] <;> decide
  | updateMetadata target kvs =>
    cases target <;> simp only [clientExec, rpc1, rpcNames, metadataReq, List.map_cons, List.map_nil, reqRpc, callMethod] <;> decide
  | _ => simp only [clientExec, rpc1, rpcNames, completeReq, List.map_cons, List.map_nil, reqRpc, callMethod] <;> decide

/-- **… a COMPLETE run whenever the call returns a value** (no exception escapes it) -/
theorem clientshape_model_conforms_complete (cfg : Cfg) (fuel : Nat) (h : Handle) (c : Call) (db : DB)
    (hret : returned (clientExec cfg fuel h c db).obs = true) :
    conforms Generated.clientShape Generated.facadeShape (callMethod c)
      (rpcNames (clientExec cfg fuel h c db).reqs) = true := by
  rw [clientshape_matches, clientshape_facade_matches]
  have hsug : ∀ count ov alg m, shapeOf assumedClientShape assumedFacadeShape m = some [("SuggestTrials", .once), ("GetOperation", .loop)] →
      conforms assumedClientShape assumedFacadeShape m (rpcNames (getSuggestions cfg fuel h count ov alg db).reqs) = true := by
    intro count ov alg m hm
    obtain ⟨n, hn⟩ := getSuggestionsAs_names cfg fuel h count (askingId h ov) alg db
    unfold conforms getSuggestions
    rw [hm, hn]
    exact suggest_shape_admits n
  cases c with
  | suggest count w alg => exact hsug count (some w) alg _ (by simp only [callMethod]; decide)
  | getSuggestions count alg => exact hsug count none alg _ (by simp only [callMethod]; decide)
  | addTrial params final inSpace =>
    rcases addTrial_names cfg fuel h params final inSpace db with ⟨_, hx⟩ | hn
    · rw [hx] at hret; cases hret
    · rw [hn]; simp only [callMethod]; decide
  | updateMetadata target kvs =>
    cases target <;> simp only [clientExec, rpc1, rpcNames, metadataReq, List.map_cons, List.map_nil, reqRpc, callMethod] <;> decide
  | _ => simp only [clientExec, rpc1, rpcNames, completeReq, List.map_cons, List.map_nil, reqRpc, callMethod] <;> decide

/-- **Every client call contains at most one writing RPC** - derived from the criteria decided on the regenerated
    tables and the conformance of the model, for every variant, fuel, handle, call and state (this is what lets C01's
    per-RPC lifecycle theorem and C05's per-RPC crash atomicity lift to client calls). -/
theorem clientshape_call_one_write (cfg : Cfg) (fuel : Nat) (h : Handle) (c : Call) (db : DB) :
    writeCount (rpcNames (clientExec cfg fuel h c db).reqs) ≤ 1 :=
  clientshape_criterion_sound _ _ clientshape_at_most_one_write clientshape_facade_at_most_one_write _ _
    (clientshape_model_conforms cfg fuel h c db)

/-! ### non-vacuity: the predicates discriminate -/

/-- the shape of `get_suggestions` admits a polling run and refuses a second SuggestTrials -/
example : admits [("SuggestTrials", .once), ("GetOperation", .loop)] ["SuggestTrials", "GetOperation", "GetOperation"] = true ∧
    admitsPrefix [("SuggestTrials", .once), ("GetOperation", .loop)] ["SuggestTrials", "SuggestTrials"] = false ∧
    admits [("SuggestTrials", .once), ("GetOperation", .loop)] [] = false ∧
    admitsPrefix [("SuggestTrials", .once), ("GetOperation", .loop)] [] = true := by decide

/-- `update_metadata` split into one RPC per level (seeded change C05_h) is refused by every criterion … -/
example :
    let torn : Table := [("update_metadata", [("UpdateMetadata", .loop)])]
    atMostOneWrite torn = false ∧ pollingOnlyReads torn = false ∧
      exactlyOneWrite [("UpdateMetadata", .loop)] = false := by decide

/-- … and so are a second unconditional write, a write behind a read-modify-write of another writing RPC, and a
    facade method that calls a writing client method twice -/
example : exactlyOneWrite [("GetTrial", .once), ("CompleteTrial", .once), ("CompleteTrial", .once)] = false ∧
    oneWrite [("CheckTrialEarlyStoppingState", .once), ("StopTrial", .once)] = false ∧
    exactlyOneWrite [("GetTrial", .once), ("CompleteTrial", .once)] = true ∧
    facadeAtMostOneWrite assumedClientShape [("Study.suggest", [("get_suggestions", .once), ("get_suggestions", .once)])] = false := by
  decide

/-- a call of the model that is cut short: `Study.add_trial` of a trial outside the search space issues GetStudy only,
    which is a prefix but not a complete run -/
example :
    rpcNames (clientExec Cfg.fixed 0 ⟨"o", "s", "c"⟩ (.addTrial 1 none false) DB.empty).reqs = ["GetStudy"] ∧
    conforms assumedClientShape assumedFacadeShape (.facade "Study.add_trial") ["GetStudy"] = false ∧
    conformsPrefix assumedClientShape assumedFacadeShape (.facade "Study.add_trial") ["GetStudy"] = true := by decide

end VizierModel.ClientShape
