/-
C06 (early-stopping side) — no early-stopping record is ever left ACTIVE, so no
`CheckTrialEarlyStoppingState` is ever answered from an abandoned record.  Property theorems only.
-/
import VizierModel.Lemmas.ServiceEsIdle
import VizierModel.Model.Crash

namespace VizierModel.C06
open VizierModel.Svc

/-- MAIN (early-stopping side): for every history of calls and every algorithm behaviour — raising,
    an answer whose metadata delta is refused, decisions with or without one for the checked trial —
    the repaired service never leaves an ACTIVE early-stopping record that `get_early_stopping_operation`
    could return. -/
theorem c06_no_active_earlystop_record (cfg : Cfg) (hc1 : cfg.esFailureFinishesOp = true)
    (hc2 : cfg.esAnswerFinishesOp = true) (hc3 : cfg.deleteCascadesOps = true) (h : List Req) :
    ∀ st ∈ (run cfg DB.empty h).studies, EsIdle st :=
  run_esIdle cfg hc1 hc2 hc3 DB.empty h (by intro st hst; cases hst)

/-- hence, in every reachable state of the repaired service with recycle period 0, a check of a
    mutable trial is answered by the algorithm (`esCompute`), never from a stored record: with no
    record a new ACTIVE one is opened, a stored record is finished and is re-opened. -/
theorem c06_earlystop_check_reaches_algorithm (cfg : Cfg) (hc1 : cfg.esFailureFinishesOp = true)
    (hc2 : cfg.esAnswerFinishesOp = true) (hc3 : cfg.deleteCascadesOps = true) (hr : cfg.esRecycle = true)
    (h : List Req) (st : Study) (hst : st ∈ (run cfg DB.empty h).studies)
    (id : Nat) (t : Trial) (ht : st.findTrial id = some t) (hm : t.state.mutable = true) (es : EsOutcome) :
    (esOpOf st id = none →
      earlyStopBody cfg st id es =
        esCompute cfg (st.putEsOp { trialId := id, active := true, shouldStop := false }) id es) ∧
    (∀ o, esOpOf st id = some o → o.active = false ∧
      earlyStopBody cfg st id es = esCompute cfg (st.putEsOp { o with active := true, shouldStop := false }) id es) :=
  earlyStopBody_reaches_algorithm cfg hr st (c06_no_active_earlystop_record cfg hc1 hc2 hc3 h st hst) id t ht hm es

/-- the hypotheses are satisfiable: the intended configuration -/
example : Cfg.fixed.esFailureFinishesOp = true ∧ Cfg.fixed.esAnswerFinishesOp = true ∧
    Cfg.fixed.deleteCascadesOps = true ∧ Cfg.fixed.esRecycle = true := ⟨rfl, rfl, rfl, rfl⟩

example (h : List Req) : ∀ st ∈ (run Cfg.fixed DB.empty h).studies, EsIdle st :=
  c06_no_active_earlystop_record Cfg.fixed rfl rfl rfl h

/-! ### an abandoned (ACTIVE) record is recomputed -/

/-- the repaired `CheckTrialEarlyStoppingState` treats an ACTIVE record it finds like a stale one: whatever the
    recycle period, the record is re-opened and the algorithm is consulted -/
theorem c06_active_record_is_recomputed (cfg : Cfg) (hra : cfg.esResumesActive = true) (st : Study) (id : Nat)
    (t : Trial) (o : EsOp) (ht : st.findTrial id = some t) (hm : t.state.mutable = true)
    (ho : esOpOf st id = some o) (hact : o.active = true) (es : EsOutcome) :
    earlyStopBody cfg st id es = esCompute cfg (st.putEsOp { o with active := true, shouldStop := false }) id es :=
  earlyStop_active_record_is_recomputed cfg hra st id t o ht hm ho hact es

/-- precisely when the repaired service does NOT answer from the stored record `o` of a mutable trial: the
    record is ACTIVE (abandoned) or the recycle period is over (`esRecycle`); then the algorithm is consulted.
    In the one remaining case — a finished, recent record — the stored answer is returned and nothing is written. -/
theorem c06_stored_answer_returned_iff (cfg : Cfg) (hra : cfg.esResumesActive = true) (st : Study) (id : Nat)
    (t : Trial) (o : EsOp) (ht : st.findTrial id = some t) (hm : t.state.mutable = true)
    (ho : esOpOf st id = some o) (es : EsOutcome) :
    (esReturnsStored cfg o = false ↔ (o.active = true ∨ cfg.esRecycle = true)) ∧
    (esReturnsStored cfg o = false →
      earlyStopBody cfg st id es =
        esCompute cfg (st.putEsOp { o with active := true, shouldStop := false }) id es) ∧
    (esReturnsStored cfg o = true → o.active = false ∧ cfg.esRecycle = false ∧
      earlyStopBody cfg st id es = (.earlyStop o.shouldStop, st)) := by
  refine ⟨esReturnsStored_eq_false_iff cfg hra o, fun hns => earlyStopBody_recomputes cfg st id t o ht hm ho hns es, ?_⟩
  intro hs
  have h2 : o.active = false ∧ cfg.esRecycle = false := by
    unfold esReturnsStored at hs
    rw [hra] at hs
    cases ha : o.active <;> cases hr : cfg.esRecycle <;> simp [ha, hr] at hs ⊢
  refine ⟨h2.1, h2.2, ?_⟩
  unfold earlyStopBody
  simp [ht, hm, ho, hs]

/-- **a check after a crash finishes the record**: from ANY study state in which every record other than trial
    `id`'s reads finished — in particular the state a server that died inside an earlier check of `id` left
    behind, with `id`'s record ACTIVE — a check of the mutable trial `id` by the repaired service leaves no
    ACTIVE record at all.  (When the stored answer is NOT returned — record ACTIVE, or `esRecycle`; see
    `c06_stored_answer_returned_iff` — this is `esCompute` finishing the record; when it is returned the record
    is a finished one and the state is unchanged, so the conclusion needs no proviso.) -/
theorem c06_check_after_crash_finishes_record (cfg : Cfg) (hc1 : cfg.esFailureFinishesOp = true)
    (hc2 : cfg.esAnswerFinishesOp = true) (hra : cfg.esResumesActive = true)
    (st : Study) (id : Nat) (t : Trial) (ht : st.findTrial id = some t) (hm : t.state.mutable = true)
    (es : EsOutcome) (h : EsIdleExcept st id) :
    EsIdle (earlyStopBody cfg st id es).2 :=
  earlyStopBody_esIdle_of_except cfg hc1 hc2 hra st id t ht hm es h

/-- the same without ANY hypothesis on the state (a crash inside a check can also leave the record of another
    trial ACTIVE: a decision for a trial without a record is stored as "create ACTIVE, then set DONE"): the
    check of a mutable trial `id` leaves `id`'s record finished, and every ACTIVE record of another trial seen
    afterwards was there, unchanged, before — so checking each abandoned trial once clears all of them. -/
theorem c06_check_finishes_own_record_any_state (cfg : Cfg) (hc1 : cfg.esFailureFinishesOp = true)
    (hc2 : cfg.esAnswerFinishesOp = true) (hra : cfg.esResumesActive = true)
    (st : Study) (id : Nat) (t : Trial) (ht : st.findTrial id = some t) (hm : t.state.mutable = true)
    (es : EsOutcome) :
    (∀ o, esOpOf (earlyStopBody cfg st id es).2 id = some o → o.active = false) ∧
    (∀ j x, j ≠ id → esOpOf (earlyStopBody cfg st id es).2 j = some x → x.active = true → esOpOf st j = some x) :=
  earlyStopBody_finishes_own_opens_none cfg hc1 hc2 hra st id t ht hm es

/-- the hypotheses are satisfiable: the intended configuration, and a study whose only ACTIVE record is the
    checked trial's -/
example : Cfg.fixed.esFailureFinishesOp = true ∧ Cfg.fixed.esAnswerFinishesOp = true ∧
    Cfg.fixed.esResumesActive = true := ⟨rfl, rfl, rfl⟩

/-! ### the code at the pinned commit violates the property (kernel-checked witness) -/

/-- the pinned commit in this respect only: an answer without a decision for the checked trial
    leaves the record ACTIVE, and an ACTIVE record found by a later check is returned, not recomputed -/
def legacyAnswer : Cfg := { Cfg.fixed with esAnswerFinishesOp := false, esResumesActive := false }

def answersNoStop : Resp → Bool
  | .earlyStop false => true
  | _ => false

def answersStop : Resp → Bool
  | .earlyStop true => true
  | _ => false

/-- one ACTIVE trial (id 1, handed to worker "w" from the pool), then a check whose algorithm
    answers with no decision at all -/
def noDecisionHistory : List Req :=
  [ .createStudy "o" "s" false .active 0 [],
    .createTrial "o" "s" { id := 0, state := .active, client := "", params := 0, meas := [], final := none,
                           reason := "", md := [] },
    .suggest "o" "s" "w" 1 .raisesOther,          -- served from the pool: the algorithm is not consulted
    .checkEarlyStop "o" "s" 1 (.decisions [] []) ]

/-- the algorithm answers one check with no decision for the trial: the record stays ACTIVE, and the
    NEXT check of that trial — although the algorithm would now say "stop" — is answered
    `should_stop = False` from the abandoned record, with nothing in the database changing -/
theorem c06_legacy_no_decision_wedge :
    let db := run legacyAnswer DB.empty noDecisionHistory
    let next := step legacyAnswer db (.checkEarlyStop "o" "s" 1 (.decisions [(1, true)] []))
    db.studies.map (fun st => (st.trials.map (fun t => (t.id, t.state)), st.esOps)) =
      [([(1, .active)], [{ trialId := 1, active := true, shouldStop := false }])] ∧
    answersNoStop next.1 = true ∧
    next.2.studies = db.studies ∧ next.2.owners = db.owners ∧ next.2.orphans = db.orphans := by
  decide

/-- the repaired service on the same history: the record is finished, the next check reaches the
    algorithm and its decision is returned -/
theorem c06_fixed_no_decision_recovers :
    let db := run Cfg.fixed DB.empty noDecisionHistory
    let next := step Cfg.fixed db (.checkEarlyStop "o" "s" 1 (.decisions [(1, true)] []))
    db.studies.map (·.esOps) = [[{ trialId := 1, active := false, shouldStop := false }]] ∧
    answersStop next.1 = true ∧
    next.2.studies.map (·.esOps) = [[{ trialId := 1, active := false, shouldStop := true }]] := by
  decide

/-! ### a record abandoned by a server that died inside the call -/

/-- the pinned commit in this respect only: an ACTIVE record is returned, not recomputed -/
def legacyResume : Cfg := { Cfg.fixed with esResumesActive := false }

/-- the history up to the first check: one ACTIVE trial (id 1) -/
def oneActiveTrial : List Req := noDecisionHistory.take 3

/-- what the server that died inside `CheckTrialEarlyStoppingState` of trial 1 left: the record is ACTIVE -/
def abandonedStudy : Study :=
  { owner := "o", sid := "s", state := .active, spec := 0, md := [],
    trials := [{ id := 1, state := .active, client := "w", params := 0, meas := [], final := none, reason := "",
                 md := [] }],
    sugOps := [{ client := "w", num := 1, done := true, result := .trials [1] }],
    esOps := [{ trialId := 1, active := true, shouldStop := false }] }

def abandonedDb : DB := { owners := ["o"], studies := [abandonedStudy], orphans := [] }

/-- `abandonedDb` is what a restarted server finds after a crash inside a check of trial 1 (after the record
    was opened, before the algorithm's decision was stored) — for either variant — and in it every record
    other than trial 1's is finished -/
theorem c06_abandoned_earlystop_record_reachable :
    let req := Req.checkEarlyStop "o" "s" 1 (.decisions [(1, true)] [])
    [abandonedStudy] ∈ (crashStates Cfg.fixed (run Cfg.fixed DB.empty oneActiveTrial) req).map (·.studies) ∧
    [abandonedStudy] ∈ (crashStates legacyResume (run legacyResume DB.empty oneActiveTrial) req).map (·.studies) := by
  decide

/-- pinned commit: the abandoned ACTIVE record answers the next check of trial 1 — although the algorithm
    would say "stop" — with `should_stop = False`, and nothing in the database changes: every later check is
    answered the same way, for ever -/
theorem c06_abandoned_earlystop_record_wedge :
    let next := step legacyResume abandonedDb (.checkEarlyStop "o" "s" 1 (.decisions [(1, true)] []))
    answersNoStop next.1 = true ∧
    next.2.studies = abandonedDb.studies ∧ next.2.owners = abandonedDb.owners ∧
    next.2.orphans = abandonedDb.orphans := by
  decide

/-- the repaired service on the same state: the check reaches the algorithm, its decision is returned and
    the record is finished -/
theorem c06_abandoned_earlystop_record_recomputed :
    let next := step Cfg.fixed abandonedDb (.checkEarlyStop "o" "s" 1 (.decisions [(1, true)] []))
    answersStop next.1 = true ∧
    next.2.studies.map (·.esOps) = [[{ trialId := 1, active := false, shouldStop := true }]] ∧
    next.2.studies.map (·.trials) = abandonedDb.studies.map (·.trials) := by
  decide

/-- `abandonedStudy` satisfies the hypotheses of `c06_check_after_crash_finishes_record` (non-vacuity) -/
example : EsIdleExcept abandonedStudy 1 ∧ ¬ EsIdle abandonedStudy ∧
    (∃ t, abandonedStudy.findTrial 1 = some t ∧ t.state.mutable = true) := by
  refine ⟨?_, ?_, ⟨_, rfl, rfl⟩⟩
  · intro j o hj ho
    have hb : (1 == j) = false := by simpa using fun e : 1 = j => hj e.symm
    simp [esOpOf, abandonedStudy, hb] at ho
  · intro h
    have := h 1 { trialId := 1, active := true, shouldStop := false } rfl
    simp at this

end VizierModel.C06
