/-
C06 (early-stopping side) — no early-stopping record is ever left ACTIVE, so no
`CheckTrialEarlyStoppingState` is ever answered from an abandoned record.  Property theorems only.
-/
import VizierModel.Lemmas.ServiceEsIdle

namespace VizierModel.C06
open VizierModel.Svc

/-- MAIN (early-stopping side): for every history of calls and every algorithm behaviour — raising,
    an answer whose metadata delta is refused, decisions with or without one for the checked trial —
    the repaired service never leaves an ACTIVE early-stopping record that `get_early_stopping_operation`
    could return. -/
theorem c06_no_active_earlystop_record (cfg : Cfg) (hc1 : cfg.esFailureFinishesOp = true)
    (hc2 : cfg.esAnswerFinishesOp = true) (hc3 : cfg.deleteCascadesOps = true) (h : List Req) :
    ∀ st ∈ (run cfg DB.empty h).studies, EsIdle st :=
  run_esIdle cfg hc1 hc2 hc3 DB.empty h (by intro st hst; cases hst)

/-- hence, in every reachable state of the repaired service with recycle period 0, a check of a
    mutable trial is answered by the algorithm (`esCompute`), never from a stored record: with no
    record a new ACTIVE one is opened, a stored record is finished and is re-opened. -/
theorem c06_earlystop_check_reaches_algorithm (cfg : Cfg) (hc1 : cfg.esFailureFinishesOp = true)
    (hc2 : cfg.esAnswerFinishesOp = true) (hc3 : cfg.deleteCascadesOps = true) (hr : cfg.esRecycle = true)
    (h : List Req) (st : Study) (hst : st ∈ (run cfg DB.empty h).studies)
    (id : Nat) (t : Trial) (ht : st.findTrial id = some t) (hm : t.state.mutable = true) (es : EsOutcome) :
    (esOpOf st id = none →
      earlyStopBody cfg st id es =
        esCompute cfg (st.putEsOp { trialId := id, active := true, shouldStop := false }) id es) ∧
    (∀ o, esOpOf st id = some o → o.active = false ∧
      earlyStopBody cfg st id es = esCompute cfg (st.putEsOp { o with active := true, shouldStop := false }) id es) :=
  earlyStopBody_reaches_algorithm cfg hr st (c06_no_active_earlystop_record cfg hc1 hc2 hc3 h st hst) id t ht hm es

/-- the hypotheses are satisfiable: the intended configuration -/
example : Cfg.fixed.esFailureFinishesOp = true ∧ Cfg.fixed.esAnswerFinishesOp = true ∧
    Cfg.fixed.deleteCascadesOps = true ∧ Cfg.fixed.esRecycle = true := ⟨rfl, rfl, rfl, rfl⟩

example (h : List Req) : ∀ st ∈ (run Cfg.fixed DB.empty h).studies, EsIdle st :=
  c06_no_active_earlystop_record Cfg.fixed rfl rfl rfl h

/-! ### the code at the pinned commit violates the property (kernel-checked witness) -/

/-- the pinned commit in this respect only: an answer without a decision for the checked trial
    leaves the record ACTIVE -/
def legacyAnswer : Cfg := { Cfg.fixed with esAnswerFinishesOp := false }

def answersNoStop : Resp → Bool
  | .earlyStop false => true
  | _ => false

def answersStop : Resp → Bool
  | .earlyStop true => true
  | _ => false

/-- one ACTIVE trial (id 1, handed to worker "w" from the pool), then a check whose algorithm
    answers with no decision at all -/
def noDecisionHistory : List Req :=
  [ .createStudy "o" "s" false .active 0 [],
    .createTrial "o" "s" { id := 0, state := .active, client := "", params := 0, meas := [], final := none,
                           reason := "", md := [] },
    .suggest "o" "s" "w" 1 .raisesOther,          -- served from the pool: the algorithm is not consulted
    .checkEarlyStop "o" "s" 1 (.decisions [] []) ]

/-- the algorithm answers one check with no decision for the trial: the record stays ACTIVE, and the
    NEXT check of that trial — although the algorithm would now say "stop" — is answered
    `should_stop = False` from the abandoned record, with nothing in the database changing -/
theorem c06_legacy_no_decision_wedge :
    let db := run legacyAnswer DB.empty noDecisionHistory
    let next := step legacyAnswer db (.checkEarlyStop "o" "s" 1 (.decisions [(1, true)] []))
    db.studies.map (fun st => (st.trials.map (fun t => (t.id, t.state)), st.esOps)) =
      [([(1, .active)], [{ trialId := 1, active := true, shouldStop := false }])] ∧
    answersNoStop next.1 = true ∧
    next.2.studies = db.studies ∧ next.2.owners = db.owners ∧ next.2.orphans = db.orphans := by
  decide

/-- the repaired service on the same history: the record is finished, the next check reaches the
    algorithm and its decision is returned -/
theorem c06_fixed_no_decision_recovers :
    let db := run Cfg.fixed DB.empty noDecisionHistory
    let next := step Cfg.fixed db (.checkEarlyStop "o" "s" 1 (.decisions [(1, true)] []))
    db.studies.map (·.esOps) = [[{ trialId := 1, active := false, shouldStop := false }]] ∧
    answersStop next.1 = true ∧
    next.2.studies.map (·.esOps) = [[{ trialId := 1, active := false, shouldStop := true }]] := by
  decide

end VizierModel.C06
