/-
C03 — every suggestion lies inside the search space, for every algorithm.
Property theorems only; helper lemmas are in `Lemmas/Codec*.lean`, `Lemmas/Sampling.lean`.

Shape of the argument.  A suggestion is produced by one of the value-producing mechanisms
below.  The algorithm proper (GP regression and acquisition optimisation, firefly dynamics,
NSGA-II selection, CMA-ES, BOCS, Harmonica, a Halton sequence, a PRNG) only supplies the
*argument* of the mechanism — an array of features, a uniform variate, an index — and every
theorem is universally quantified over that argument: it holds for whatever the algorithm
computes.  Carrier: any ordered field; `fin` = "finite in the carrier" (abstract).
-/
import VizierModel.Lemmas.Sampling
import VizierModel.Lemmas.CodecRoundtripSpace
import Mathlib.Algebra.Order.Ring.Rat
import Mathlib.Algebra.Order.Field.Rat
import Mathlib.Tactic.NormNum
import Mathlib.Data.Rat.Floor

set_option linter.unusedSectionVars false
set_option linter.unusedVariables false

namespace VizierModel.C03
open VizierModel.Codec VizierModel.Sampling

variable {α : Type} [Field α] [LinearOrder α] [IsStrictOrderedRing α]
variable (lg ex : α → α) (fin : α → Bool)

/-! ## (a) the feature decoder (GP bandit, GP-UCB-PE, NSGA-II, random, quasi-random, grid, eagle) -/

/-- Any algorithm `alg` whatsoever (a function of an arbitrary history type `H`) whose output is
handed to `to_parameters` yields, for every history, an assignment of every parameter exactly
once, inside its domain — provided the features have the right shape, index entries are list
indices and continuous entries are finite after un-scaling (`GoodFeats`). -/
theorem c03_decode_in_space {H : Type} (alg : H → List (Feat α)) (cfg : Cfg) (ps : List (Param α))
    (hnd : (ps.map (·.name)).Nodup) (hv : ∀ p ∈ ps, ValidParam (fieldOps lg ex fin) cfg p)
    (hist : H) (hg : GoodFeats (fieldOps lg ex fin) cfg ps (alg hist)) :
    ∃ a, decode (fieldOps lg ex fin) cfg ps (alg hist) = .ok a ∧ inSpace (fieldOps lg ex fin) ps a = true := by
  obtain ⟨a, ha1, ha2⟩ := decode_assignOK lg ex fin cfg ps (alg hist) hv hg
  exact ⟨a, ha1, inSpace_of_assignOK _ ps a hnd ha2⟩

/-- No hypothesis on the array at all: whatever block of entries is decoded, the decoder either
returns a member of the domain, or drops the parameter, or raises — it never returns an
out-of-domain value.  (The "drops the parameter" outcome for a *finite* entry is defect D11;
see `C15.c15_decode_total_fixed` for the repaired variant.) -/
theorem c03_decode_never_outside (cfg : Cfg) (p : Param α) (block : List (Feat α)) (v : PVal α)
    (hv : ValidParam (fieldOps lg ex fin) cfg p)
    (h : decodeBlock (fieldOps lg ex fin) cfg p block = .ok (some v)) :
    inDomain (fieldOps lg ex fin) p.dom v = true :=
  decodeBlock_some_inDomain lg ex fin cfg p block v hv h

/-- index features drawn by `RandomDesigner` (`random_integers(lo, hi - num_oovs)`) and by
`QuasiRandomDesigner` (`floor(h·k) + lo`, `0 ≤ h < 1`) are list indices of feasible values:
with `lo = 0`, `hi = n`, one OOV slot, the Halton index lies in `[0, n - 1]` -/
theorem c03_halton_in_space (flr : α → Int) (hf : FloorLaw flr) (h : α) (n : Nat) (hn : 0 < n)
    (h0 : 0 ≤ h) (h1 : h < 1) (cfg : Cfg) (p : Param α)
    (hspec : specOf (fieldOps lg ex fin) cfg p = .index n) (hoh : cfg.onehot = false) :
    0 ≤ haltonIndex (fieldOps lg ex fin) flr h 0 n 1 ∧ haltonIndex (fieldOps lg ex fin) flr h 0 n 1 ≤ (n : Int) - 1 ∧
    GoodBlock (fieldOps lg ex fin) cfg p [.idx (haltonIndex (fieldOps lg ex fin) flr h 0 n 1)] := by
  have hm := haltonIndex_mem lg ex fin flr hf h 0 n 1 h0 h1 (by omega)
  refine ⟨hm.1, hm.2, ?_⟩
  unfold GoodBlock
  rw [hspec]
  simp only [hoh, Bool.false_eq_true, if_false]
  exact ⟨_, rfl, by omega, by omega⟩

/-! ## (b) `random_sample.sample_parameters` -/

theorem c03_random_in_space (rnd : α → Int) (hr : RoundLaw rnd) (ps : List (Param α)) (us : List α) (ks : List Nat)
    (hnd : (ps.map (·.name)).Nodup) (hd : ∀ p ∈ ps, NonEmptyDom p.dom)
    (hu : ∀ u ∈ us, 0 ≤ u ∧ u ≤ 1)
    (hk : ∀ (i : Nat) (p : Param α) cs, ps[i]? = some p → p.dom = .categorical cs → (ks.drop i).headD 0 < cs.length) :
    ∃ a, sampleParameters (fieldOps lg ex fin) rnd ps us ks = some a ∧ inSpace (fieldOps lg ex fin) ps a = true := by
  obtain ⟨a, ha1, ha2⟩ := sampleParameters_assignOK lg ex fin rnd hr ps us ks hd hu hk
  exact ⟨a, ha1, inSpace_of_assignOK _ ps a hnd ha2⟩

/-! ## (c) grid search -/

/-- every grid index — wrapped around or not, shuffled grids or not (`grid` is any assignment of
in-domain value lists) — gives a suggestion inside the space whenever the code returns one … -/
theorem c03_grid_any_in_space (ops : NumOps α) (ps : List (Param α)) (grid : Param α → List (PVal α)) (index : Nat)
    (a : List (String × PVal α)) (hnd : (ps.map (·.name)).Nodup)
    (hg : ∀ p ∈ ps, ∀ v ∈ grid p, inDomain ops p.dom v = true)
    (h : gridPoint (ps.map fun p => (p.name, grid p)) index = some a) : inSpace ops ps a = true :=
  inSpace_of_assignOK ops ps a hnd (gridPoint_assignOK ops ps grid index a hg h)

/-- … in particular for the grids the designer builds (DOUBLE: decoded `linspace(0, 1, res)`;
INTEGER: `range(lo, hi + 1)`; DISCRETE / CATEGORICAL: the feasible values) … -/
theorem c03_grid_in_space (cfg : Cfg) (res : Nat) (ps : List (Param α)) (index : Nat) (a : List (String × PVal α))
    (hnd : (ps.map (·.name)).Nodup) (hv : ∀ p ∈ ps, ValidParam (fieldOps lg ex fin) cfg p)
    (h : gridSuggestion (fieldOps lg ex fin) cfg res ps index = some a) :
    inSpace (fieldOps lg ex fin) ps a = true :=
  c03_grid_any_in_space (fieldOps lg ex fin) ps (gridValues (fieldOps lg ex fin) cfg res) index a hnd
    (fun p hp => gridValues_inDomain lg ex fin cfg res p (hv p hp)) h

/-- … and non-empty grids always give one (no modulo by zero) -/
theorem c03_grid_total (gs : List (String × List (PVal α))) (index : Nat) (hne : ∀ g ∈ gs, g.2 ≠ []) :
    ∃ a, gridPoint gs index = some a := gridPoint_isSome gs index hne

/-! ## (e) default / centre seeding -/

/-- FULL STATEMENT for the seeding as written (DOUBLE defaults are not validated): false. -/
def DefaultSeedInSpaceAsWritten : Prop :=
  ∀ (d : Domain ℚ) (dflt : Option (PVal ℚ)) (v : PVal ℚ), NonEmptyDom d →
    defaultValue (fieldOps id id (fun _ => true)) false d dflt = .ok v →
    inDomain (fieldOps id id (fun _ => true)) d v = true

/-- witness: DOUBLE parameter [0, 1] with `default_value=5.0` is seeded with 5.0 -/
theorem c03_default_counterexample : ¬ DefaultSeedInSpaceAsWritten := by
  intro h
  have := h (.double 0 1) (some (.dbl 5)) (.dbl 5) (by simp [NonEmptyDom]) (by simp [defaultValue])
  simp [inDomain] at this

/-- PROVED: the seed (default value if set, else the middle feasible value / the midpoint of the
bounds) is inside the space whenever it is returned — for the repaired variant outright, for
the code as written when DOUBLE defaults lie within their bounds; an infeasible default of any
other type is refused with an error in both variants. -/
theorem c03_default_in_space (vd : Bool) (pds : List (Param α × Option (PVal α))) (a : List (String × PVal α))
    (hnd : ((pds.map (·.1)).map (·.name)).Nodup) (hd : ∀ pd ∈ pds, NonEmptyDom pd.1.dom)
    (hdbl : vd = true ∨ ∀ pd ∈ pds, ∀ lo hi w, pd.1.dom = .double lo hi → pd.2 = some w →
      inDomain (fieldOps lg ex fin) pd.1.dom w = true)
    (h : defaultParameters (fieldOps lg ex fin) vd pds = .ok a) :
    inSpace (fieldOps lg ex fin) (pds.map (·.1)) a = true :=
  inSpace_of_assignOK _ _ a hnd (defaultParameters_assignOK lg ex fin vd pds a hd hdbl h)

/-- without defaults the centre of every non-empty domain exists -/
theorem c03_centre_total (vd : Bool) (d : Domain α) (hd : NonEmptyDom d) :
    ∃ v, defaultValue (fieldOps lg ex fin) vd d none = .ok v ∧ inDomain (fieldOps lg ex fin) d v = true := by
  obtain ⟨v, hv⟩ := defaultValue_centre_ok lg ex fin vd d hd
  exact ⟨v, hv, defaultValue_inDomain lg ex fin vd d none v hd (Or.inr (fun _ _ _ _ h => by cases h)) hv⟩

/-! ## (f) eagle strategy -/

/-- `ProblemAndTrialsScaler.unmap`: whatever embedded value the firefly dynamics produced, a
returned original value is inside the domain -/
theorem c03_unmap_in_space (cfg : Cfg) (p : Param α) (v w : PVal α)
    (hv : ValidParam (fieldOps lg ex fin) cfg p)
    (hcat : ∀ cs s, p.dom = .categorical cs → v = .str s → s ∈ cs)
    (h : unmapValue (fieldOps lg ex fin) cfg p v = .ok (some w)) :
    inDomain (fieldOps lg ex fin) p.dom w = true :=
  unmapValue_inDomain lg ex fin cfg p v w hv hcat h

/-- the dynamics themselves stay inside the (embedded) domain: `combine_two_parameters` and
`perturb_parameter` clamp / snap whatever weighted or perturbed value `w` they computed -/
theorem c03_eagle_dynamics_in_domain (rnd : α → Int) (hr : RoundLaw rnd) (d : Domain α) (w : α) (v : PVal α)
    (hd : NonEmptyDom d) :
    (eagleCombine (fieldOps lg ex fin) rnd d w = some v → inDomain (fieldOps lg ex fin) d v = true) ∧
    (eaglePerturb (fieldOps lg ex fin) rnd d w = some v → inDomain (fieldOps lg ex fin) d v = true) :=
  ⟨eagleCombine_inDomain lg ex fin rnd d w v hd, eaglePerturb_inDomain lg ex fin rnd hr d w v hd⟩

/-! ## (g) NSGA-II -/

/-- `LinfMutation` returns coordinates in [0, 1] for every parent and every perturbation;
`UniformRandomSampler` draws in [0, 1); both are then decoded by (a), which does not even need
the unit interval. -/
theorem c03_population_in_space (x delta : α) :
    0 ≤ linfMutate (fieldOps lg ex fin) x delta ∧ linfMutate (fieldOps lg ex fin) x delta ≤ 1 :=
  linfMutate_unit lg ex fin x delta

/-! ## each parameter exactly once -/

/-- the decoded dict has exactly the names of the space (in order), for every mechanism that
builds the suggestion parameter by parameter -/
theorem c03_each_param_once (ops : NumOps α) (ps : List (Param α)) (a : List (String × PVal α))
    (h : AssignOK ops ps a) : a.map (·.1) = ps.map (·.name) := assignOK_names ops ps a h

/-! ## non-vacuity -/

/-- the laws assumed of `floor` and `round` hold for the rationals' floor and for
round-half-up (Python's round-half-even satisfies the same law: it is monotone and fixes
integers) -/
example : FloorLaw (α := ℚ) (fun x => ⌊x⌋) := fun x => ⟨Int.floor_le x, Int.lt_floor_add_one x⟩

example : RoundLaw (α := ℚ) (fun x => ⌊x + 1 / 2⌋) := by
  intro a b x h1 h2
  show a ≤ ⌊x + 1 / 2⌋ ∧ ⌊x + 1 / 2⌋ ≤ b
  constructor
  · exact Int.le_floor.mpr (by linarith)
  · have : ⌊x + 1 / 2⌋ < b + 1 := Int.floor_lt.mpr (by push_cast; linarith)
    omega

end VizierModel.C03
