/-
C09 — study configs, trials and measurements survive the wire format unchanged.
Property theorems only; helper lemmas are in `Lemmas/Wire*.lean`, the model in `Model/Wire.lean`.

Shape of every pair `T`:
* `c09_T_roundtrip   : valid x → fromProto (toProto x) = norm x`   for the intended converters
  (`Cfg.fixed`); `norm` is the normal form modulo the documented non-transmitted fields, so this
  is `fromProto (toProto x) ≈ x` with `x ≈ y := norm x = norm y` (and `norm` is idempotent);
* `c09_T_roundtrip_partial` : the same for ANY variant `cfg` of the converters — in particular the
  code as written (`Cfg.asWritten`) — on the class of inputs that variant transmits (`…Ok cfg`);
* `c09_T_idempotent  : toProto (fromProto (toProto x)) = toProto x`;
* `c09_T_…_counterexample` : the full statement is false of every variant that lacks the
  corresponding repair — from a concrete witness, so each repair is necessary.
-/
import VizierModel.Lemmas.WireStudy
import VizierModel.Lemmas.WireEndpoint

namespace VizierModel.C09
open VizierModel.Wire VizierModel

/-! ## time -/

/-- a time stamp that is a whole number of microseconds survives `Timestamp` exactly -/
theorem c09_time_microsecond (t : Nat) : fromTs (toTs t) = t := fromTs_toTs t

/-! ## Measurement -/

/-- FULL STATEMENT for a variant of the converters -/
def MeasurementRoundTrip (cfg : Cfg) : Prop :=
  ∀ m : Meas, MeasWF m → measFromProto cfg (measToProto m) = measNorm m

theorem c09_measurement_roundtrip_partial (cfg : Cfg) (m : Meas) (h : MeasOk cfg m) :
    measFromProto cfg (measToProto m) = measNorm m := meas_roundtrip cfg m h

theorem c09_measurement_roundtrip : MeasurementRoundTrip Cfg.fixed :=
  fun m h => meas_roundtrip Cfg.fixed m ⟨h, Or.inl rfl⟩

theorem c09_measurement_idempotent (m : Meas) (h : MeasWF m) :
    measToProto (measFromProto Cfg.fixed (measToProto m)) = measToProto m := by
  rw [c09_measurement_roundtrip m h, measToProto_measNorm]

/-- 1.5 elapsed seconds -/
def measWitness : Meas := ⟨[], 3 / 2, 0, ""⟩

theorem c09_measWitness_valid : MeasWF measWitness :=
  ⟨by decide, ⟨1500000000, by decide +kernel⟩⟩

/-- a reader that never looks at `elapsed_duration.nanos` turns 1.5 s into 1 s -/
theorem c09_measurement_counterexample (cfg : Cfg) (h : cfg.readNanos = false) :
    ¬ MeasurementRoundTrip cfg := by
  intro hrt
  have := hrt measWitness c09_measWitness_valid
  obtain ⟨a, b, c, d⟩ := cfg
  cases a <;> cases b <;> cases c <;> cases d <;>
    first | (exact absurd h (by decide)) | (revert this; decide +kernel)

/-- … and the second conversion differs from the first (nanos 0 instead of 500000000) -/
theorem c09_measurement_idempotent_counterexample :
    measToProto (measFromProto Cfg.asWritten (measToProto measWitness)) ≠ measToProto measWitness := by
  decide +kernel

/-! ## ParameterConfig (conditional tree of any depth) -/

def ParamConfigRoundTrip (cfg : Cfg) : Prop :=
  ∀ p : PC, p.wf = true → fromProto cfg (toProto cfg p) = p

/-- for every variant, on the class it transmits; by structural induction on the tree -/
theorem c09_paramConfig_roundtrip_partial (cfg : Cfg) (p : PC) (h : p.ok cfg = true) :
    fromProto cfg (toProto cfg p) = p := pc_roundtrip cfg p h

theorem c09_paramConfig_roundtrip : ParamConfigRoundTrip Cfg.fixed :=
  fun p h => pc_roundtrip Cfg.fixed p h

theorem c09_paramConfig_idempotent (p : PC) (h : p.wf = true) :
    toProto Cfg.fixed (fromProto Cfg.fixed (toProto Cfg.fixed p)) = toProto Cfg.fixed p := by
  rw [c09_paramConfig_roundtrip p h]

/-- DOUBLE in [-1, 1] with default 0.0 -/
def dfltWitness : PC := .mk ⟨"x", .double (-1) 1 (some 0), none, .internal⟩ []
/-- CATEGORICAL {"", "a"} with default "" -/
def dfltStrWitness : PC := .mk ⟨"c", .categorical ["", "a"] (some ""), none, .internal⟩ []
/-- a → (x) b → (1) c : a grandchild -/
def depthWitness : PC := .mk ⟨"a", .categorical ["x", "y"] none, none, .internal⟩
  [(.str "x", [.mk ⟨"b", .integer 0 3 none, none, .internal⟩
    [(.int 1, [.mk ⟨"c", .double 0 1 none, some .linear, .internal⟩ []])]])]

example : dfltWitness.wf = true ∧ dfltStrWitness.wf = true ∧ depthWitness.wf = true := by decide +kernel

/-- a truthiness test on `default_value.value` drops the default 0.0 (and 0, and "") -/
theorem c09_paramConfig_default_counterexample (cfg : Cfg) (h : cfg.defaultHasField = false) :
    ¬ ParamConfigRoundTrip cfg := by
  intro hrt
  have := congrArg PC.hdr (hrt dfltWitness (by decide +kernel))
  obtain ⟨a, b, c, d⟩ := cfg
  cases a <;> cases b <;> cases c <;> cases d <;>
    first | (exact absurd h (by decide)) | (revert this; decide +kernel)

theorem c09_paramConfig_default_str_counterexample (cfg : Cfg) (h : cfg.defaultHasField = false) :
    ¬ ParamConfigRoundTrip cfg := by
  intro hrt
  have := congrArg PC.hdr (hrt dfltStrWitness (by decide +kernel))
  obtain ⟨a, b, c, d⟩ := cfg
  cases a <;> cases b <;> cases c <;> cases d <;>
    first | (exact absurd h (by decide)) | (revert this; decide +kernel)

/-- filling the child proto after it has been copied into the parent loses every parameter at
depth ≥ 2 -/
theorem c09_paramConfig_depth_counterexample (cfg : Cfg) (h : cfg.recurseBeforeCopy = false) :
    ¬ ParamConfigRoundTrip cfg := by
  intro hrt
  have := congrArg PC.depth (hrt depthWitness (by decide +kernel))
  obtain ⟨a, b, c, d⟩ := cfg
  cases a <;> cases b <;> cases c <;> cases d <;>
    first | (exact absurd h (by decide)) | (revert this; decide +kernel)

/-- the wire enum has no `UNIFORM_DISCRETE`: such a scale type comes back as `None` even with
all repairs (recorded finding; excluded from `wf`) -/
theorem c09_paramConfig_uniform_discrete_counterexample :
    ∃ p : PC, (fromProto Cfg.fixed (toProto Cfg.fixed p)).hdr ≠ p.hdr :=
  ⟨.mk ⟨"d", .discrete [1, 2] none, some .uniformDiscrete, .internal⟩ [], by decide +kernel⟩

/-! ## SearchSpace -/

theorem c09_searchSpace_roundtrip_partial (cfg : Cfg) (ps : List PC) (h : SpaceOk cfg ps) :
    spaceFromProto cfg (spaceToProto cfg ps) = ps := space_roundtrip cfg ps h

theorem c09_searchSpace_roundtrip (ps : List PC) (h : SpaceOk Cfg.fixed ps) :
    spaceFromProto Cfg.fixed (spaceToProto Cfg.fixed ps) = ps := space_roundtrip Cfg.fixed ps h

theorem c09_searchSpace_idempotent (ps : List PC) (h : SpaceOk Cfg.fixed ps) :
    spaceToProto Cfg.fixed (spaceFromProto Cfg.fixed (spaceToProto Cfg.fixed ps)) = spaceToProto Cfg.fixed ps := by
  rw [c09_searchSpace_roundtrip ps h]

/-! ## MetricInformation -/

theorem c09_metricInformation_roundtrip (m : MetricInfo) (h : MetricWF m) :
    metricFromProto (metricToProto m) = m := metric_roundtrip m h

theorem c09_metricInformation_idempotent (m : MetricInfo) (h : MetricWF m) :
    metricToProto (metricFromProto (metricToProto m)) = metricToProto m := by
  rw [metric_roundtrip m h]

/-! ## Trial -/

def TrialRoundTrip (cfg : Cfg) : Prop :=
  ∀ t : Trial, TrialOk Cfg.fixed t → trialFromProto cfg (trialToProto t) = trialNorm t

theorem c09_trial_roundtrip_partial (cfg : Cfg) (t : Trial) (h : TrialOk cfg t) :
    trialFromProto cfg (trialToProto t) = trialNorm t := trial_roundtrip cfg t h

theorem c09_trial_roundtrip : TrialRoundTrip Cfg.fixed :=
  fun t h => trial_roundtrip Cfg.fixed t h

theorem c09_trial_idempotent (t : Trial) (h : TrialOk Cfg.fixed t) :
    trialToProto (trialFromProto Cfg.fixed (trialToProto t)) = trialToProto t := by
  rw [c09_trial_roundtrip t h, trialToProto_trialNorm]

/-- an infeasible trial created at t = 1 s and completed at t = 2 s -/
def infeasibleWitness : Trial :=
  { id := 1, description := some "", isRequested := false, assignedWorker := none,
    stoppingReason := none, infeasibilityReason := some "bad", relatedLinks := [], params := [],
    final := none, measurements := [], creationTime := some 1000000, completionTime := some 2000000,
    metadata := [] }

theorem c09_infeasibleWitness_valid : TrialOk Cfg.fixed infeasibleWitness where
  params_nodup := by decide
  metadata := ⟨by decide, (by intro g hg; cases hg), (by intro g hg; cases hg)⟩
  final := by intro m hm; cases hm
  measurements := by intro m hm; cases hm
  post_init := by intro _ h; cases h
  pending_no_time := by intro h; exact absurd (by decide) h
  infeasible_time := Or.inl rfl

/-- `end_time` is only read for SUCCEEDED trials: an infeasible trial comes back with its creation
time as completion time -/
theorem c09_trial_infeasible_time_counterexample (cfg : Cfg) (h : cfg.infeasibleEndTime = false) :
    ¬ TrialRoundTrip cfg := by
  intro hrt
  have := congrArg Trial.completionTime (hrt infeasibleWitness c09_infeasibleWitness_valid)
  obtain ⟨a, b, c, d⟩ := cfg
  cases a <;> cases b <;> cases c <;> cases d <;>
    first | (exact absurd h (by decide)) | (revert this; decide +kernel)

/-- a trial whose final measurement took 1.5 s -/
theorem c09_trial_nanos_counterexample (cfg : Cfg) (h : cfg.readNanos = false) :
    ¬ TrialRoundTrip cfg := by
  intro hrt
  let t : Trial := { infeasibleWitness with infeasibilityReason := none, final := some measWitness }
  have ht : TrialOk Cfg.fixed t :=
    { params_nodup := by decide
      metadata := ⟨by decide, (by intro g hg; cases hg), (by intro g hg; cases hg)⟩
      final := by
        intro m hm
        have : m = measWitness := by simpa [t] using hm.symm
        subst this
        exact ⟨c09_measWitness_valid, Or.inl rfl⟩
      measurements := by intro m hm; cases hm
      post_init := by intro _ h; cases h
      pending_no_time := by intro h; exact absurd (by decide) h
      infeasible_time := Or.inl rfl }
  have := congrArg Trial.final (hrt t ht)
  obtain ⟨a, b, c, d⟩ := cfg
  cases a <;> cases b <;> cases c <;> cases d <;>
    first | (exact absurd h (by decide)) | (revert this; decide +kernel)

/-! ## TrialSuggestion -/

theorem c09_trialSuggestion_roundtrip (s : Suggestion) (h : SuggestionWF s) :
    suggestionFromProto (suggestionToProto s) = suggestionNorm s := suggestion_roundtrip s h

theorem c09_trialSuggestion_idempotent (s : Suggestion) (h : SuggestionWF s) :
    suggestionToProto (suggestionFromProto (suggestionToProto s)) = suggestionToProto s := by
  rw [suggestion_roundtrip s h, suggestionToProto_suggestionNorm]

/-! ## Metadata and MetadataDelta -/

theorem c09_metadata_roundtrip (md : Md) (h : MdWF md) : mdFromProto (mdToProto md) = mdNorm md :=
  mdFromProto_mdToProto md h

theorem c09_metadata_idempotent (md : Md) (h : MdWF md) :
    mdToProto (mdFromProto (mdToProto md)) = mdToProto md := by
  rw [mdFromProto_mdToProto md h, mdToProto_mdNorm]

theorem c09_metadataDelta_roundtrip (d : Delta) (h : DeltaWF d) :
    deltaFromProto (deltaToProto d) = deltaNorm d := deltaFromProto_deltaToProto d h

theorem c09_metadataDelta_idempotent (d : Delta) (h : DeltaWF d) :
    deltaToProto (deltaFromProto (deltaToProto d)) = deltaToProto d := by
  rw [deltaFromProto_deltaToProto d h, deltaToProto_deltaNorm]

/-- the class excluded by `MdWF.no_trailing_bs` is C10's finding: a namespace component ending in a
backslash does not survive `Namespace.encode/decode` -/
theorem c09_metadata_trailing_backslash_counterexample :
    mdFromProto (mdToProto [([['a', '\\']], [("k", .str "v")])]) ≠ mdNorm [([['a', '\\']], [("k", .str "v")])] := by
  decide +kernel

/-! ## ProblemStatement and StudyConfig -/

theorem c09_problemStatement_roundtrip_partial (cfg : Cfg) (p : Problem) (h : ProblemOk cfg p) :
    problemFromProto cfg (problemToProto cfg p) = problemNorm p := problem_roundtrip cfg p h

theorem c09_problemStatement_roundtrip (p : Problem) (h : ProblemOk Cfg.fixed p) :
    problemFromProto Cfg.fixed (problemToProto Cfg.fixed p) = problemNorm p :=
  problem_roundtrip Cfg.fixed p h

theorem c09_problemStatement_idempotent (p : Problem) (h : ProblemOk Cfg.fixed p) :
    problemToProto Cfg.fixed (problemFromProto Cfg.fixed (problemToProto Cfg.fixed p))
      = problemToProto Cfg.fixed p := by
  rw [problem_roundtrip Cfg.fixed p h, problemToProto_problemNorm]

/-- FULL STATEMENT for StudyConfig -/
def StudyConfigRoundTrip (cfg : Cfg) : Prop :=
  ∀ s : Study, StudyOk cfg s → studyFromProto cfg (studyToProto cfg s) = studyNorm s

/-- PROVED PART: `StudyConfig.from_proto` sorts the metrics by name, so the round trip holds for
study configs whose metrics are listed in name order (every single-metric study) -/
theorem c09_studyConfig_roundtrip_partial (cfg : Cfg) (s : Study) (h : StudyOk cfg s)
    (hs : MetricsSorted s.metrics) :
    studyFromProto cfg (studyToProto cfg s) = studyNorm s := study_roundtrip cfg s h hs

theorem c09_studyConfig_idempotent_partial (s : Study) (h : StudyOk Cfg.fixed s)
    (hs : MetricsSorted s.metrics) :
    studyToProto Cfg.fixed (studyFromProto Cfg.fixed (studyToProto Cfg.fixed s)) = studyToProto Cfg.fixed s := by
  rw [study_roundtrip Cfg.fixed s h hs, studyToProto_studyNorm]

def metricOrderWitness : Study :=
  { space := [], metrics := [⟨"b", .maximize, none, none⟩, ⟨"a", .minimize, none, none⟩], metadata := [],
    algorithm := "", noise := .unspecified, autoStop := false, cachedStopping := false }

/-- metrics `[b, a]` come back as `[a, b]` under every variant (recorded finding) -/
theorem c09_studyConfig_metric_order_counterexample (cfg : Cfg) : ¬ StudyConfigRoundTrip cfg := by
  intro hrt
  have hok : StudyOk cfg metricOrderWitness :=
    { space := ⟨by decide, by intro p hp; cases hp⟩
      metrics := by intro m hm h; simp [metricOrderWitness] at hm; rcases hm with rfl | rfl <;> rfl
      metadata := ⟨by decide, (by intro g hg; cases hg), (by intro g hg; cases hg)⟩ }
  have := congrArg Study.metrics (hrt metricOrderWitness hok)
  obtain ⟨a, b, c, d⟩ := cfg
  cases a <;> cases b <;> cases c <;> cases d <;> (revert this; decide +kernel)

/-! ### `StudyConfig.pythia_endpoint` (a view of the metadata entry `service / PYTHIA_ENDPOINT`) -/

/-- FULL STATEMENT (second conversion) for a variant of the endpoint write of `StudyConfig.to_proto` -/
def StudyConfigEndpointIdempotent (merged : Bool) : Prop :=
  ∀ s : StudyE, StudyEOk Cfg.fixed s →
    (studyEToProto Cfg.fixed merged (studyEFromProto Cfg.fixed (studyEToProto Cfg.fixed merged s))).metadata
      = (studyEToProto Cfg.fixed merged s).metadata

/-- a study config WITH its endpoint comes back as what a reader sees (metrics listed in name order) -/
theorem c09_studyConfig_endpoint_roundtrip (cfg : Cfg) (s : StudyE) (h : StudyEOk cfg s) :
    studyEFromProto cfg (studyEToProto cfg true s) = studyENorm s := studyE_roundtrip cfg s h

/-- the configured endpoint itself comes back, whatever else the metadata holds -/
theorem c09_studyConfig_endpoint_kept (cfg : Cfg) (s : StudyE) (h : StudyEOk cfg s) (v : MdVal) (hv : s.endpoint = some v) :
    (studyEFromProto cfg (studyEToProto cfg true s)).endpoint = some (mdValNorm v) := by
  rw [studyE_roundtrip cfg s h]; exact studyE_endpoint_kept s v h.base.metadata hv

/-- and a second conversion yields the identical message -/
theorem c09_studyConfig_endpoint_idempotent (s : StudyE) (h : StudyEOk Cfg.fixed s) :
    studyEToProto Cfg.fixed true (studyEFromProto Cfg.fixed (studyEToProto Cfg.fixed true s))
      = studyEToProto Cfg.fixed true s := by
  rw [studyE_roundtrip Cfg.fixed s h, studyEToProto_studyENorm Cfg.fixed s h.base.metadata]

def endpointOrderWitness : StudyE :=
  { base := { space := [], metrics := [], metadata := [(endpointNs, [("a", .str "1")]), ([['o']], [("b", .str "2")])],
              algorithm := "", noise := .unspecified, autoStop := false, cachedStopping := false },
    endpoint := some (.str "host:1") }

/-- the write order of the pinned commit (flatten the metadata, THEN assign the endpoint into the flat list):
    with another entry in the `service` namespace and a later namespace the endpoint entry is appended at the
    end by the first conversion and sits inside its namespace after the second — not the identical message -/
theorem c09_studyConfig_endpoint_order_counterexample : ¬ StudyConfigEndpointIdempotent false := by
  intro h
  have hok : StudyEOk Cfg.fixed endpointOrderWitness :=
    { base := { space := ⟨by decide, by intro p hp; cases hp⟩
                metrics := by intro m hm; cases hm
                metadata := ⟨by decide, (by decide), (by decide)⟩ }
      sorted := List.Pairwise.nil }
  exact absurd (h endpointOrderWitness hok) (by decide +kernel)

example : StudyEOk Cfg.fixed endpointOrderWitness ∧ endpointOrderWitness.endpoint ≠ none :=
  ⟨{ base := { space := ⟨by decide, by intro p hp; cases hp⟩
               metrics := by intro m hm; cases hm
               metadata := ⟨by decide, (by decide), (by decide)⟩ }
     sorted := List.Pairwise.nil }, by decide⟩

/-! ## Pythia requests and decisions -/

theorem c09_suggestRequest_roundtrip (r : SuggestRequest) (h : ProblemOk Cfg.fixed r.descriptor.config) :
    suggestRequestFromProto Cfg.fixed (suggestRequestToProto Cfg.fixed r) = suggestRequestNorm r :=
  suggestRequest_roundtrip Cfg.fixed r h

theorem c09_suggestRequest_idempotent (r : SuggestRequest) (h : ProblemOk Cfg.fixed r.descriptor.config) :
    suggestRequestToProto Cfg.fixed (suggestRequestFromProto Cfg.fixed (suggestRequestToProto Cfg.fixed r))
      = suggestRequestToProto Cfg.fixed r := by
  rw [suggestRequest_roundtrip Cfg.fixed r h, suggestRequestToProto_norm]

theorem c09_suggestDecision_roundtrip (d : SuggestDecision) (h : SuggestDecisionWF d) :
    suggestDecisionFromProto (suggestDecisionToProto d) = suggestDecisionNorm d :=
  suggestDecision_roundtrip d h

theorem c09_suggestDecision_idempotent (d : SuggestDecision) (h : SuggestDecisionWF d) :
    suggestDecisionToProto (suggestDecisionFromProto (suggestDecisionToProto d)) = suggestDecisionToProto d := by
  rw [suggestDecision_roundtrip d h, suggestDecisionToProto_norm]

theorem c09_earlyStopRequest_roundtrip (r : EarlyStopRequest) (h : ProblemOk Cfg.fixed r.descriptor.config) :
    earlyStopRequestFromProto Cfg.fixed (earlyStopRequestToProto Cfg.fixed r) = earlyStopRequestNorm r :=
  earlyStopRequest_roundtrip Cfg.fixed r h

theorem c09_earlyStopRequest_idempotent (r : EarlyStopRequest) (h : ProblemOk Cfg.fixed r.descriptor.config) :
    earlyStopRequestToProto Cfg.fixed (earlyStopRequestFromProto Cfg.fixed (earlyStopRequestToProto Cfg.fixed r))
      = earlyStopRequestToProto Cfg.fixed r := by
  rw [earlyStopRequest_roundtrip Cfg.fixed r h, earlyStopRequestToProto_norm]

/-- FULL STATEMENT for EarlyStopDecisions (no hypothesis about predictions); `optPred`: which variant of the
converter (true = the repaired one, the optional field is set only when there is a prediction) -/
def EarlyStopDecisionsRoundTrip (optPred : Bool) (cfg : Cfg) : Prop :=
  ∀ d : EarlyStopDecisions, DeltaWF d.metadata →
    (∀ e ∈ d.decisions, ∀ m, e.predicted = some m → MeasOk cfg m) →
    earlyStopDecisionsFromProto optPred cfg (earlyStopDecisionsToProto optPred d) = earlyStopDecisionsNorm d

/-- the repaired converter: decisions with and without a predicted final measurement survive -/
theorem c09_earlyStopDecisions_roundtrip : EarlyStopDecisionsRoundTrip true Cfg.fixed :=
  fun d hw hm => earlyStopDecisions_roundtrip_opt Cfg.fixed d hw hm

theorem c09_earlyStopDecisions_idempotent (d : EarlyStopDecisions) (hw : DeltaWF d.metadata)
    (hm : ∀ e ∈ d.decisions, ∀ m, e.predicted = some m → MeasOk Cfg.fixed m) :
    earlyStopDecisionsToProto true (earlyStopDecisionsFromProto true Cfg.fixed (earlyStopDecisionsToProto true d))
      = earlyStopDecisionsToProto true d := by
  rw [earlyStopDecisions_roundtrip_opt Cfg.fixed d hw hm, earlyStopDecisionsToProto_norm]

/-- PROVED PART for either variant: decisions that all carry a predicted final measurement -/
theorem c09_earlyStopDecisions_roundtrip_partial (o : Bool) (d : EarlyStopDecisions) (h : EarlyStopDecisionsOk Cfg.fixed d) :
    earlyStopDecisionsFromProto o Cfg.fixed (earlyStopDecisionsToProto o d) = earlyStopDecisionsNorm d :=
  earlyStopDecisions_roundtrip o Cfg.fixed d h

theorem c09_earlyStopDecisions_idempotent_partial (o : Bool) (d : EarlyStopDecisions) (h : EarlyStopDecisionsOk Cfg.fixed d) :
    earlyStopDecisionsToProto o (earlyStopDecisionsFromProto o Cfg.fixed (earlyStopDecisionsToProto o d))
      = earlyStopDecisionsToProto o d := by
  rw [earlyStopDecisions_roundtrip o Cfg.fixed d h, earlyStopDecisionsToProto_norm]

def noPredictionWitness : EarlyStopDecisions := ⟨[⟨1, "r", false, none⟩], ⟨[], []⟩⟩

/-- the pinned converter: a decision without prediction is sent with an empty `Measurement()` and comes back
with a prediction (and the second conversion adds an `elapsed_duration`) — under every variant of the other
flags (repaired in /repo; the witness identifies the variant of the current tree) -/
theorem c09_earlyStopDecisions_no_prediction_counterexample (cfg : Cfg) : ¬ EarlyStopDecisionsRoundTrip false cfg := by
  intro hrt
  have hw : DeltaWF noPredictionWitness.metadata :=
    { study := ⟨by decide, (by intro g hg; cases hg), (by intro g hg; cases hg)⟩
      ids_nodup := by decide
      trials := by intro t ht; cases ht }
  have := hrt noPredictionWitness hw (by
    intro e he m hm
    simp [noPredictionWitness] at he
    subst he
    cases hm)
  obtain ⟨a, b, c, d⟩ := cfg
  cases a <;> cases b <;> cases c <;> cases d <;> (revert this; decide +kernel)

theorem c09_earlyStopDecisions_no_prediction_idempotent_counterexample :
    earlyStopDecisionsToProto false (earlyStopDecisionsFromProto false Cfg.fixed (earlyStopDecisionsToProto false noPredictionWitness))
      ≠ earlyStopDecisionsToProto false noPredictionWitness := by decide +kernel

/-- non-vacuity of the repaired statement: the witness itself survives -/
example : earlyStopDecisionsFromProto true Cfg.fixed (earlyStopDecisionsToProto true noPredictionWitness)
    = earlyStopDecisionsNorm noPredictionWitness := by decide +kernel

/-! ## the normal forms are normal forms, and the hypotheses are satisfiable -/

theorem c09_norm_idempotent (m : Meas) (md : Md) :
    measNorm (measNorm m) = measNorm m ∧ mdNorm (mdNorm md) = mdNorm md := by
  refine ⟨?_, mdNorm_idem md⟩
  simp [measNorm, List.map_map, Function.comp_def]

/-- non-vacuity: a depth-2 conditional tree with a zero default is valid, and a trial with a final
measurement of 1.5 s, metadata in two namespaces and a time stamp satisfies `TrialOk Cfg.fixed` -/
example : (PC.mk ⟨"a", .integer 0 3 (some 0), some .log, .boolean⟩
    [(.int 0, [depthWitness, dfltWitness]), (.int 2, [dfltStrWitness])]).wf = true := by decide +kernel

/-- non-vacuity: metadata in the root namespace and in a two-component namespace containing ':'
and an interior backslash, with an empty string, an `Any` and a packed message as values -/
def mdWitness : Md :=
  [([], [("k", .str "")]), ([['a', ':', 'b'], ['x', '\\', 'y']], [("", .any "t"), ("k", .msg "u")])]

example : MdWF mdWitness := ⟨by decide, by decide, by decide⟩

example : DeltaWF ⟨mdWitness, [(7, mdWitness), (0, [])]⟩ :=
  ⟨⟨by decide, by decide, by decide⟩, by decide,
    by intro t ht; simp at ht; rcases ht with rfl | rfl <;> exact ⟨by decide, by decide, by decide⟩⟩

/-- non-vacuity: a completed, infeasible trial with falsy parameter values, a final measurement of
1.5 s, metadata and its own completion time satisfies the hypothesis of `c09_trial_roundtrip` -/
example : TrialOk Cfg.fixed
    { infeasibleWitness with
      params := [("x", .int 0), ("y", .float 0), ("z", .str ""), ("w", .bool false)]
      final := some measWitness, metadata := mdWitness } where
  params_nodup := by decide
  metadata := ⟨by decide, by decide, by decide⟩
  final := by
    intro m hm
    have : m = measWitness := by simpa using hm.symm
    subst this
    exact ⟨c09_measWitness_valid, Or.inl rfl⟩
  measurements := by intro m hm; cases hm
  post_init := by intro _ h; cases h
  pending_no_time := by intro h; exact absurd (by decide) h
  infeasible_time := Or.inl rfl

end VizierModel.C09
