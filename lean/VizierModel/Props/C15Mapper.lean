/-
C15 — ContinuousCategoricalFeatureMapper: splitting a feature row into continuous columns and
categorical INDICES and rebuilding it are inverse to each other, for every layout of continuous columns
and one-hot blocks (any order, any widths), and the rebuilt one-hot blocks have exactly one active entry.
-/
import VizierModel.Lemmas.FeatureMapper

namespace VizierModel.C15
open VizierModel.FeatureMapper

/-- rebuilding what was split gives the row back - every layout, every row the converter can produce -/
theorem c15_mapper_unmap_map {τ : Type} (specs : List Spec) (row : List (Cell τ)) (h : WellFormed specs row) :
    unmapRow specs (mapRow row) = some row :=
  unmap_map specs row h

/-- splitting what was rebuilt gives the values back, and the rebuilt row is well formed (one active
    entry per one-hot block, at the given index) - every layout, every valid index vector -/
theorem c15_mapper_map_unmap {τ : Type} (specs : List Spec) (m : Mapped τ) (h : ValidMapped specs m) :
    ∃ row, unmapRow specs m = some row ∧ mapRow row = m ∧ WellFormed specs row :=
  map_unmap specs m h

/-- non-vacuity: the docstring's layout (categorical of 3, continuous, categorical of 2) with the
    continuous column in the middle: 'b', 0.23, 'y' ↦ continuous [0.23], indices [1, 1] -/
example :
    mapRow [Cell.block [false, true, false], Cell.c "0.23", Cell.block [false, true]] = { cont := ["0.23"], cat := [1, 1] } ∧
    unmapRow [.onehot 3, .cont, .onehot 2] ({ cont := ["0.23"], cat := [1, 1] } : Mapped String) =
      some [Cell.block [false, true, false], Cell.c "0.23", Cell.block [false, true]] := by decide

end VizierModel.C15
