/-
C08 — obligations tying the deployment model to the CURRENT source: the exception -> status table of
`grpc_util.handle_exception`, the fact that its remote branch stops the servicer method, and the set of
RPCs that report datastore lookup errors with their status code behind gRPC are regenerated from the
source on every run (harness/translators/error_table.py) and must equal what Model/Deploy.lean assumes.
-/
import VizierModel.Generated.ErrorTable
import VizierModel.Model.Deploy

namespace VizierModel.C08
open VizierModel.Deploy

/-- the status code of every handled error is the one the model gives it -/
theorem c08_error_table_matches :
    Generated.errorTable = assumedErrorTable ∧ Generated.errorDefault = "UNKNOWN" := by decide

/-- behind gRPC a refused request stops the servicer method (`context.abort`), as in the local case:
    the premise of `DCfg.fixed` against `c08_no_abort_counterexample` -/
theorem c08_remote_branch_aborts : Generated.remoteAborts = true := by decide

/-- NotFound / AlreadyExists raised by a datastore lookup are reported with their status code behind
    gRPC by every RPC that can raise them (`rawErrorsMapped` of `DCfg.fixed`) -/
theorem c08_lookup_errors_reported :
    Generated.lookupErrorsCaught = ["AlreadyExistsError", "NotFoundError"] ∧
    rpcsRaisingLookupErrors.all (Generated.lookupErrorsReportedBy.contains ·) = true := by decide

end VizierModel.C08
