/-
C17 — clients receive parameter values in the declared external types.
Property theorems only; lemmas are in `Lemmas/Present*.lean`; the specification
predicates (`valueOK`, `declaredTag`, `sameValue`, `activePresent`, `trialKnown`,
`extOK`, `allIntegral`) are in `Model/PresentSpec.lean`, written from the property text.
-/
import VizierModel.Lemmas.PresentLoop
import VizierModel.Lemmas.PresentTwin
import VizierModel.Lemmas.PresentGroup

namespace VizierModel.C17
open VizierModel.Space

/-! ## the wire -/

/-- every number arrives as a double, strings as strings; the numeric value is unchanged
and nothing arrives as a Python bool or int -/
theorem c17_wire (v : PVal) : Wired (wire v) ∧ numOf (wire v) = numOf v ∧ isBool (wire v) = false ∧
    wire (wire v) = wire v := by
  refine ⟨wire_wired v, wire_numOf v, ?_, wire_idem v⟩
  cases v <;> rfl

/-! ## values equal the stored ones, in the declared type -/

/-- `cast` always yields a value of the declared external type (or `None`) -/
theorem c17_declared_type (e : ExtType) (v r : PVal) (h : Space.cast e v = .ok (some r)) :
    match e with
    | .boolean => tagOf r = .bool
    | .integer => tagOf r = .int
    | .float => tagOf r = .flt
    | .internal => r = v := by
  cases e with
  | internal => simp [Space.cast] at h; exact h.symm
  | boolean =>
    simp only [Space.cast, Except.ok.injEq] at h
    cases hb : asBool v with
    | none => rw [hb] at h; cases h
    | some b => rw [hb] at h; cases h; rfl
  | integer =>
    simp only [Space.cast] at h
    cases hi : asInt v with
    | error e => rw [hi] at h; cases h
    | ok o =>
      rw [hi] at h
      cases o with
      | none => cases h
      | some i => cases h; rfl
  | float =>
    simp only [Space.cast, Except.ok.injEq] at h
    cases hf : asFloat v with
    | none => rw [hf] at h; cases h
    | some f => rw [hf] at h; cases h; rfl

/-- MAIN (per parameter).  A stored value (off the wire) that lies in its parameter's domain
(C16's `typeOK ∧ inDomain`) is presented, never as `None`, with the same value
(numerically / as a string; `'True'`/`'False'` as the bool) and in the declared type:
BOOLEAN ⇒ bool, INTEGER ⇒ int, FLOAT ⇒ float, categorical ⇒ str, other numbers ⇒ float. -/
theorem c17_values_equal_stored (h : Hdr) (v : PVal) (hw : Wired v) (hext : extOK h = true)
    (hin : (typeOK h v && inDomain h v) = true) :
    ∃ r, Space.cast h.ext v = .ok (some r) ∧ sameValue v r = true ∧
      (∀ tg, declaredTag h = some tg → tagOf r = tg) := by
  obtain ⟨r, hc, hv⟩ := cast_stored h v hw hext hin
  refine ⟨r, hc, ?_⟩
  simp only [valueOK, Bool.and_eq_true] at hv
  refine ⟨hv.1, ?_⟩
  intro tg htg
  rw [htg] at hv
  simpa using hv.2

/-! ## auto_cast -/

/-- `add_discrete_param` declares INTEGER exactly when `auto_cast` is on and every feasible
value is integral; FLOAT otherwise -/
theorem c17_autocast_iff (name : String) (fv : List PVal) (d : Option PVal) (idx : Option Int) (ac : Bool)
    (a : FArgs) (h : addDiscreteArgs name fv d idx ac = .ok a) :
    (a.ext = .integer ↔ (ac = true ∧ allIntegral fv = true)) ∧ (a.ext = .integer ∨ a.ext = .float) := by
  unfold addDiscreteArgs at h
  cases hn : paramName name idx with
  | error e => rw [hn] at h; cases h
  | ok n =>
    rw [hn] at h
    simp only at h
    cases ac with
    | false =>
      simp only [Bool.false_eq_true, if_false] at h
      cases hs : pySorted fv with
      | error e => rw [hs] at h; cases h
      | ok s => rw [hs] at h; cases h; simp
    | true =>
      simp only [if_true] at h
      cases hr : allRoundTrip fv with
      | error e => rw [hr] at h; cases h
      | ok b =>
        have hb := allRoundTrip_eq fv b hr
        rw [hr] at h
        cases b with
        | true =>
          simp only at h
          cases hs : pySorted fv with
          | error e => rw [hs] at h; cases h
          | ok s => rw [hs] at h; cases h; simp [← hb]
        | false =>
          simp only at h
          cases hs : pySorted fv with
          | error e => rw [hs] at h; cases h
          | ok s => rw [hs] at h; cases h; simp [← hb]

/-! ## only active parameters are presented; unknown or inactive ones are an error -/

/-- hypotheses on the space and the stored trial: parameter names unique over the tree,
nothing stored is a Python bool (the wire guarantees it, `c17_wire`) or an infinity -/
structure PresentHyps (ss : List PC) (t : Assign) : Prop where
  uniq : (names (allSpace ss)).Nodup
  nobool : ∀ n v, lookup t n = some v → isBool v = false
  noinf : ∀ n v, lookup t n = some v → v ≠ .flt .pinf ∧ v ≠ .flt .ninf

/-- MAIN (active only).  In a conditional space of any depth, `_trial_to_external_values`
(both variants of the parent test) yields, up to order, exactly one entry per ACTIVE
parameter that the trial carries — active as defined recursively in C16 with the trial's own
stored values as the choices — each with its value cast to the external type. -/
theorem c17_active_only (cfg : Cfg) (ss : List PC) (t : Assign) (H : PresentHyps ss t) :
    ∃ ext, trialToExternalValues cfg ss t = .ok ext ∧
      ext.Perm ((activePresent ss t).map fun pv => (pv.1.name, castV pv.1.h.ext pv.2)) := by
  have hc : ∀ p ∈ allSpace ss, ∀ v, lookup t p.name = some v → ∃ x, Space.cast p.h.ext v = .ok x :=
    fun p _ v hv => cast_total_of_finite _ v (H.noinf _ v hv)
  unfold trialToExternalValues
  cases hb : cfg.parentByName with
  | true =>
    obtain ⟨st, hst, hp⟩ := extLoopByName_presents ss t H.uniq H.nobool hc
    exact ⟨st.ext, by simp [hst], hp⟩
  | false =>
    obtain ⟨st, hst, hp⟩ := extLoopById_presents ss t H.uniq H.nobool hc
    exact ⟨st.ext, by simp [hst], hp⟩

/-- MAIN (unknown is an error).  Under the same hypotheses and for a trial that is a dict
(unique keys): `_pytrial_parameters` raises ValueError exactly when the trial carries a
parameter that is not an active parameter of the space (unknown name, or a parameter of an
inactive branch); otherwise it returns the grouped presentation of all of them — never a
silently shorter dict. -/
theorem c17_unknown_is_error (cfg : Cfg) (ss : List PC) (t : Assign) (H : PresentHyps ss t)
    (hk : (keys t).Nodup) :
    (trialKnown ss t = false → pytrialParameters cfg ss t = .error .value) ∧
    (trialKnown ss t = true → ∃ ext, trialToExternalValues cfg ss t = .ok ext ∧
      ext.length = t.length ∧ pytrialParameters cfg ss t = .ok (group ext)) := by
  obtain ⟨ext, hext, hperm⟩ := c17_active_only cfg ss t H
  let A := (activePresent ss t).map fun pv => pv.1.name
  have hlen : ext.length = A.length := by
    rw [hperm.length_eq]; simp [A]
  have hAsub : A ⊆ keys t := by
    intro n hn
    simp only [A, List.mem_map] at hn
    obtain ⟨pv, hpv, rfl⟩ := hn
    unfold activePresent at hpv
    rw [List.mem_filterMap] at hpv
    obtain ⟨p, _, hp⟩ := hpv
    cases hl : lookup t p.name with
    | none => rw [hl] at hp; cases hp
    | some v => rw [hl] at hp; cases hp; exact lookup_some_mem hl
  have hAnd : A.Nodup := by
    have h1 := names_activePresent_sublist ss t
    have h2 := (activeSpace_sublist (chooseOf t) (sizeSpace ss) ss (Nat.le_refl _)).map PC.name
    exact List.Nodup.sublist (h1.trans h2) H.uniq
  have hknown : trialKnown ss t = true ↔ keys t ⊆ A := by
    unfold trialKnown
    simp only [List.all_eq_true, List.contains_iff_mem]
    exact Iff.rfl
  have hklen : (keys t).length = t.length := by simp [keys]
  constructor
  · intro hf
    unfold pytrialParameters
    rw [hext]
    simp only
    have hne : ext.length ≠ t.length := by
      intro heq
      have : keys t ⊆ A := subset_of_nodup_length hAnd hAsub (by rw [hklen, ← heq, hlen])
      rw [hknown.mpr this] at hf; cases hf
    simp [hne]
  · intro ht
    have hsub := hknown.mp ht
    have heq : ext.length = t.length := by
      rw [hlen, ← hklen]
      exact length_eq_of_nodup_subsets hAnd hk hAsub hsub
    refine ⟨ext, hext, heq, ?_⟩
    unfold pytrialParameters
    rw [hext]
    simp [heq]

/-! ## the same name under two parent values: the code as written is fooled, the variant is not -/

def twinLeaf (n : String) : PC :=
  .mk { name := n, type := .double, bounds := some (.flt (.fin 0), .flt (.fin 1)), feasible := [], default := none, ext := .internal } []
def twinLr (kids : List (PVal × PC)) : PC :=
  .mk { name := "lr", type := .discrete, bounds := some (.int 1, .int 2), feasible := [.int 1, .int 2], default := none, ext := .integer } kids
def twinSpace : List PC :=
  [.mk { name := "model", type := .categorical, bounds := none, feasible := [.str "a", .str "b"], default := none, ext := .internal }
    [(.str "a", twinLr [(.flt (.fin 1), twinLeaf "mom")]), (.str "b", twinLr [])]]
def twinTrial : Assign := [("model", .str "b"), ("lr", .flt (.fin 1)), ("mom", .flt (.fin (1/2)))]

def storedOK (t : Assign) : Bool :=
  t.all fun e => !isBool e.2 && decide (e.2 ≠ .flt .pinf) && decide (e.2 ≠ .flt .ninf)

/-- FULL STATEMENT: in any space whose names are unique within each subspace (all that
`SearchSpace.add` enforces), a trial carrying an unknown or inactive parameter is an error -/
def InactiveIsError (cfg : Cfg) : Prop :=
  ∀ (ss : List PC) (t : Assign), siblingUnique ss = true → (keys t).Nodup → storedOK t = true →
    trialKnown ss t = false → ∃ e, pytrialParameters cfg ss t = .error e

/-- … is false of the code as written: `mom` exists only under (model = a, lr = 1), the trial
has model = b, lr = 1, mom = 0.5, and is presented without an error (witness replayed on the
real code by the check; proposed fix `fixes/c17-parent-by-value.diff`) -/
theorem c17_twin_counterexample : ¬ InactiveIsError Cfg.asWritten := by
  intro h
  obtain ⟨e, he⟩ := h twinSpace twinTrial (by decide +kernel) (by decide) (by decide +kernel) (by decide +kernel)
  have hok : (match pytrialParameters Cfg.asWritten twinSpace twinTrial with
      | .ok _ => true | .error _ => false) = true := by decide +kernel
  rw [he] at hok
  cases hok

/-- … the variant that carries the parent's value refuses the witness … -/
theorem c17_twin_fixed : pytrialParameters Cfg.fixed twinSpace twinTrial = .error .value := by
  decide +kernel

/-- PROVED PART of the full statement (both variants): when names are unique over the whole tree -/
theorem c17_inactive_is_error_partial (cfg : Cfg) (ss : List PC) (t : Assign) (H : PresentHyps ss t)
    (hk : (keys t).Nodup) (h : trialKnown ss t = false) : pytrialParameters cfg ss t = .error .value :=
  (c17_unknown_is_error cfg ss t H hk).1 h

/-! ## twin spaces: one name defined under several parent values (repaired variant only) -/

/-- MAIN (active only, twin spaces).  For the variant that carries the parent's stored value
(`Cfg.fixed`, what /repo does now) tree-wide uniqueness of names is NOT needed: it is enough
that the parameters ACTIVE under the trial's own values have distinct names (`ActiveDistinct`;
the same name may be defined under several parent values).  Same conclusion as
`c17_active_only`. -/
theorem c17_active_only_twins (ss : List PC) (t : Assign) (hA : ActiveDistinct ss t)
    (hb : ∀ n v, lookup t n = some v → isBool v = false)
    (hinf : ∀ n v, lookup t n = some v → v ≠ .flt .pinf ∧ v ≠ .flt .ninf) :
    ∃ ext, trialToExternalValues Cfg.fixed ss t = .ok ext ∧
      ext.Perm ((activePresent ss t).map fun pv => (pv.1.name, castV pv.1.h.ext pv.2)) := by
  have hc : ∀ p ∈ allSpace ss, ∀ v, lookup t p.name = some v → ∃ x, Space.cast p.h.ext v = .ok x :=
    fun p _ v hv => cast_total_of_finite _ v (hinf _ v hv)
  obtain ⟨st, hst, hp⟩ := extLoopById_presents_active ss t hA hb hc
  refine ⟨st.ext, ?_, hp⟩
  unfold trialToExternalValues
  simp [Cfg.fixed, hst]

/-- MAIN (inactive is an error, twin spaces).  `Cfg.fixed`, a trial that is a dict (unique
keys), active names distinct: `_pytrial_parameters` raises ValueError when the trial carries a
parameter that is not an active parameter of the space (unknown name, or a parameter that only
exists in an inactive branch — also when an active twin of the same name exists elsewhere);
otherwise it returns the grouped presentation of all of them.  Mirrors `c17_unknown_is_error`
with `ActiveDistinct` in place of tree-wide uniqueness. -/
theorem c17_inactive_is_error (ss : List PC) (t : Assign) (hA : ActiveDistinct ss t)
    (hb : ∀ n v, lookup t n = some v → isBool v = false)
    (hinf : ∀ n v, lookup t n = some v → v ≠ .flt .pinf ∧ v ≠ .flt .ninf)
    (hk : (keys t).Nodup) :
    (trialKnown ss t = false → pytrialParameters Cfg.fixed ss t = .error .value) ∧
    (trialKnown ss t = true → ∃ ext, trialToExternalValues Cfg.fixed ss t = .ok ext ∧
      ext.length = t.length ∧ pytrialParameters Cfg.fixed ss t = .ok (group ext)) := by
  obtain ⟨ext, hext, hperm⟩ := c17_active_only_twins ss t hA hb hinf
  let A := (activePresent ss t).map fun pv => pv.1.name
  have hlen : ext.length = A.length := by
    rw [hperm.length_eq]; simp [A]
  have hAsub : A ⊆ keys t := by
    intro n hn
    simp only [A, List.mem_map] at hn
    obtain ⟨pv, hpv, rfl⟩ := hn
    unfold activePresent at hpv
    rw [List.mem_filterMap] at hpv
    obtain ⟨p, _, hp⟩ := hpv
    cases hl : lookup t p.name with
    | none => rw [hl] at hp; cases hp
    | some v => rw [hl] at hp; cases hp; exact lookup_some_mem hl
  have hAnd : A.Nodup := hA.carried
  have hknown : trialKnown ss t = true ↔ keys t ⊆ A := by
    unfold trialKnown
    simp only [List.all_eq_true, List.contains_iff_mem]
    exact Iff.rfl
  have hklen : (keys t).length = t.length := by simp [keys]
  constructor
  · intro hf
    unfold pytrialParameters
    rw [hext]
    simp only
    have hne : ext.length ≠ t.length := by
      intro heq
      have : keys t ⊆ A := subset_of_nodup_length hAnd hAsub (by rw [hklen, ← heq, hlen])
      rw [hknown.mpr this] at hf; cases hf
    simp [hne]
  · intro ht
    have hsub := hknown.mp ht
    have heq : ext.length = t.length := by
      rw [hlen, ← hklen]
      exact length_eq_of_nodup_subsets hAnd hk hAsub hsub
    refine ⟨ext, hext, heq, ?_⟩
    unfold pytrialParameters
    rw [hext]
    simp [heq]

/-- … as an equivalence: under the same hypotheses ValueError is raised EXACTLY when the trial
carries an unknown or inactive parameter -/
theorem c17_inactive_is_error_iff (ss : List PC) (t : Assign) (hA : ActiveDistinct ss t)
    (hb : ∀ n v, lookup t n = some v → isBool v = false)
    (hinf : ∀ n v, lookup t n = some v → v ≠ .flt .pinf ∧ v ≠ .flt .ninf)
    (hk : (keys t).Nodup) :
    pytrialParameters Cfg.fixed ss t = .error .value ↔ trialKnown ss t = false := by
  have H := c17_inactive_is_error ss t hA hb hinf hk
  constructor
  · intro herr
    cases hkn : trialKnown ss t with
    | false => rfl
    | true =>
      obtain ⟨ext, _, _, hok⟩ := H.2 hkn
      rw [hok] at herr
      cases herr
  · exact H.1

/-! ## indexed parameters -/

/-- `name[0], name[1], …` are presented as one list under `name` in index order (stable),
built from exactly the values of those parameters; a name that does not match the pattern
is presented alone with its value -/
theorem c17_indexed_grouping (ext : List (String × Option PVal)) :
    (∀ b, idxOf b ext ≠ [] →
      dictGet (group ext) b = some (.many ((sortIdx (idxOf b ext)).map (·.2)))) ∧
    (∀ n, idxOf n ext = [] → dictGet (group ext) n = (lastPlain n ext).map Presented.one) ∧
    (∀ l, (sortIdx l).Perm l ∧ (sortIdx l).Pairwise fun a b => a.1 ≤ b.1) := by
  have hs := splitNames_spec ext [] []
  have hnd := splitNames_multi_nodup ext [] [] (by simp)
  have hg : ∀ n, dictGet (group ext) n =
      match (splitNames ext ([], [])).2.find? (fun e => e.1 == n) with
      | some e => some (.many ((sortIdx e.2).map (·.2)))
      | none => dictGet (splitNames ext ([], [])).1 n := by
    intro n
    have := mergeMulti_spec (splitNames ext ([], [])).2 (splitNames ext ([], [])).1 n
    rw [find?_reverse_of_nodup _ _ hnd] at this
    exact this
  refine ⟨?_, ?_, fun l => ⟨sortIdx_perm l, sortIdx_sorted l⟩⟩
  · intro b hb
    have h2 := hs.2 b
    rw [if_neg hb] at h2
    rw [hg b]
    unfold lk dictGet at h2
    cases hf : (splitNames ext ([], [])).2.find? (fun e => e.1 == b) with
    | none => rw [hf] at h2; simp at h2
    | some e =>
      rw [hf] at h2
      simp only [Option.map_some, List.find?_nil, Option.map_none, Option.getD_none, List.nil_append,
        Option.some.injEq] at h2
      simp only [h2]
  · intro n hn
    have h2 := hs.2 n
    rw [if_pos hn] at h2
    rw [hg n]
    unfold lk dictGet at h2
    cases hf : (splitNames ext ([], [])).2.find? (fun e => e.1 == n) with
    | some e => rw [hf] at h2; simp at h2
    | none =>
      simp only
      have h1 := hs.1 n
      unfold lk at h1
      rw [h1]
      cases lastPlain n ext <;> simp [dictGet]

/-- MAIN (composition).  A stored trial whose active parameters all lie in their domains is
presented completely: every presented entry belongs to an active parameter the trial
carries and shows that parameter's stored value in its declared type. -/
theorem c17_presented_values (cfg : Cfg) (ss : List PC) (t : Assign) (H : PresentHyps ss t)
    (hdom : ∀ pv ∈ activePresent ss t, Wired pv.2 ∧ extOK pv.1.h = true ∧
      (typeOK pv.1.h pv.2 && inDomain pv.1.h pv.2) = true) :
    ∃ ext, trialToExternalValues cfg ss t = .ok ext ∧ ext.length = (activePresent ss t).length ∧
      ∀ e ∈ ext, ∃ pv ∈ activePresent ss t, e.1 = pv.1.name ∧ valueOK pv.1.h pv.2 e.2 = true := by
  obtain ⟨ext, hext, hperm⟩ := c17_active_only cfg ss t H
  refine ⟨ext, hext, by rw [hperm.length_eq]; simp, ?_⟩
  intro e he
  have := hperm.mem_iff.mp he
  rw [List.mem_map] at this
  obtain ⟨pv, hpv, rfl⟩ := this
  obtain ⟨hw, hx, hin⟩ := hdom pv hpv
  obtain ⟨r, hc, hv⟩ := cast_stored pv.1.h pv.2 hw hx hin
  refine ⟨pv, hpv, rfl, ?_⟩
  simp only [castV, hc]
  exact hv

/-! ## non-vacuity -/

def exTrial : Assign := [("model", .str "a"), ("lr", .flt (.fin 1)), ("mom", .flt (.fin (1/2)))]
def exUniqueSpace : List PC :=
  [.mk { name := "model", type := .categorical, bounds := none, feasible := [.str "a", .str "b"], default := none, ext := .internal }
    [(.str "a", twinLr [(.flt (.fin 1), twinLeaf "mom")]), (.str "b", twinLeaf "l2")]]

example : (names (allSpace exUniqueSpace)).Nodup ∧ storedOK exTrial = true ∧ trialKnown exUniqueSpace exTrial = true ∧
    (activePresent exUniqueSpace exTrial).map (·.1.name) = ["model", "lr", "mom"] ∧
    pytrialParameters Cfg.asWritten exUniqueSpace exTrial =
      .ok [("model", .one (some (.str "a"))), ("lr", .one (some (.int 1))), ("mom", .one (some (.flt (.fin (1/2)))))] ∧
    ((activePresent exUniqueSpace exTrial).all fun pv => extOK pv.1.h && typeOK pv.1.h pv.2 && inDomain pv.1.h pv.2) = true := by
  decide +kernel

/-- non-vacuity of the twin theorems: `twinSpace` defines `lr` under model = a and under
model = b, so names are NOT unique over the tree, yet both trials satisfy `ActiveDistinct`;
the trial of the active branch is known and presented, the trial that carries `mom` of the
inactive branch (`twinTrial`, model = b) is not known -/
example : ¬ (names (allSpace twinSpace)).Nodup ∧ siblingUnique twinSpace = true ∧
    ActiveDistinct twinSpace exTrial ∧ storedOK exTrial = true ∧ trialKnown twinSpace exTrial = true ∧
    pytrialParameters Cfg.fixed twinSpace exTrial =
      .ok [("model", .one (some (.str "a"))), ("lr", .one (some (.int 1))), ("mom", .one (some (.flt (.fin (1/2)))))] ∧
    ActiveDistinct twinSpace twinTrial ∧ storedOK twinTrial = true ∧ (keys twinTrial).Nodup ∧
    trialKnown twinSpace twinTrial = false := by
  decide +kernel

theorem c17_storedOK_spec {t : Assign} (h : storedOK t = true) :
    (∀ n v, lookup t n = some v → isBool v = false) ∧
    (∀ n v, lookup t n = some v → v ≠ .flt .pinf ∧ v ≠ .flt .ninf) := by
  have key : ∀ n v, lookup t n = some v → isBool v = false ∧ v ≠ .flt .pinf ∧ v ≠ .flt .ninf := by
    intro n v hl
    unfold lookup at hl
    rw [Option.map_eq_some_iff] at hl
    obtain ⟨e, he, rfl⟩ := hl
    have hm := List.mem_of_find?_eq_some he
    unfold storedOK at h
    rw [List.all_eq_true] at h
    have := h e hm
    simp only [Bool.and_eq_true, Bool.not_eq_true', decide_eq_true_eq] at this
    exact ⟨this.1.1, this.1.2, this.2⟩
  exact ⟨fun n v hl => (key n v hl).1, fun n v hl => ⟨(key n v hl).2.1, (key n v hl).2.2⟩⟩

/-- the new theorem, instantiated: the trial with model = b that carries `mom` (defined only
under model = a, lr = 1) is reported as an error — derived from `c17_inactive_is_error`, not by
evaluation -/
example : pytrialParameters Cfg.fixed twinSpace twinTrial = .error .value :=
  (c17_inactive_is_error twinSpace twinTrial (by decide +kernel)
    (c17_storedOK_spec (t := twinTrial) (by decide +kernel)).1
    (c17_storedOK_spec (t := twinTrial) (by decide +kernel)).2 (by decide)).1 (by decide +kernel)

example : parseIndexed "m[10]" = some ("m", 10) ∧ parseIndexed "q[0][1]" = some ("q[0]", 1) ∧
    parseIndexed "w(a)[0]" = none ∧ parseIndexed "m[]" = none ∧ parseIndexed "m" = none ∧
    group [("m[2]", some (.flt (.fin 2))), ("x", some (.str "a")), ("m[0]", some (.flt (.fin 0)))] =
      [("x", .one (some (.str "a"))), ("m", .many [some (.flt (.fin 0)), some (.flt (.fin 2))])] := by
  decide +kernel

end VizierModel.C17
