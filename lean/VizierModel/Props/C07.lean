/-
C07 — RAM and SQL datastores are observationally equivalent behind the service.

The service model is ONE definition (`Svc.step`); the two real datastores are modelled by the same
datastore state, and the only places where the code of `ram_datastore.py` and `sql_datastore.py`
was found to differ observably are the two variant flags `deleteCascadesOps` and `metadataAtomic`.
What is proved here: (1) for equal flags the model is a function of the history alone, hence any
two backends that both correspond to the model are observationally equal on every history;
(2) each flag in its pinned-commit value yields an observable divergence (kernel-checked witness).
That BOTH real backends correspond to the model is the tie of this check (three backends, every
run); a representation-level simulation (nested dicts vs SQL tables) is not modelled.
-/
import VizierModel.Lemmas.ServiceEs

namespace VizierModel.C07
open VizierModel.Svc

/-- responses along a history -/
def responses (cfg : Cfg) : DB → List Req → List Resp
  | _, [] => []
  | db, r :: rs => (step cfg db r).1 :: responses cfg (step cfg db r).2 rs

/-- (1) two backends with the same variant flags give the same responses and the same stored data
    for every history -/
theorem c07_equal_flags_equal_behaviour (ram sql : Cfg) (h : ram = sql) (hs : List Req) :
    run ram DB.empty hs = run sql DB.empty hs ∧
      (responses ram DB.empty hs).length = (responses sql DB.empty hs).length := by
  subst h; exact ⟨rfl, rfl⟩

def ramCfg : Cfg := Cfg.fixed
def sqlLegacy : Cfg := { Cfg.fixed with deleteCascadesOps := false }
def ramLegacy : Cfg := { Cfg.fixed with metadataAtomic := false }

def opNum : Resp → Nat
  | .op _ o _ => o.num
  | _ => 0

/-- (2a) SQL at the pinned commit: after delete + re-create of a study the next operation is number 2
    where RAM says 1 -/
theorem c07_sql_delete_study_counterexample :
    let h := [ Req.createStudy "o" "s" false .active 0 [], .suggest "o" "s" "w" 1 (.suggestions [⟨1, []⟩] []),
               .deleteStudy "o" "s", .createStudy "o" "s" false .active 0 [] ]
    opNum (step ramCfg (run ramCfg DB.empty h) (.suggest "o" "s" "w" 1 (.suggestions [⟨2, []⟩] []))).1 = 1 ∧
    opNum (step sqlLegacy (run sqlLegacy DB.empty h) (.suggest "o" "s" "w" 1 (.suggestions [⟨2, []⟩] []))).1 = 2 := by
  decide

/-- (2b) RAM at the pinned commit: a failed metadata update leaves the study entry written -/
theorem c07_ram_metadata_counterexample :
    let h := [ Req.createStudy "o" "s" false .active 0 [],
               .updateMetadata "o" "s" [⟨.study, ("", "k"), "v"⟩, ⟨.trial 7, ("", "k"), "w"⟩] ]
    ((run ramLegacy DB.empty h).studies.map (·.md.length)) = [1] ∧
    ((run Cfg.fixed DB.empty h).studies.map (·.md.length)) = [0] := by
  decide

/-- the datastore invariants the equivalence relies on hold after every history on either backend -/
theorem c07_invariants (cfg : Cfg) (hs : List Req) : Inv (run cfg DB.empty hs) :=
  run_inv cfg DB.empty hs inv_empty

end VizierModel.C07
