/-
C07 — RAM and SQL datastores are observationally equivalent behind the service.

The service model is ONE definition (`Svc.step`); the two real datastores are modelled by the same
datastore state, and the only places where the code of `ram_datastore.py` and `sql_datastore.py`
was found to differ observably are the two variant flags `deleteCascadesOps` and `metadataAtomic`.
What is proved here: (1) for equal flags the model is a function of the history alone, hence any
two backends that both correspond to the model are observationally equal on every history;
(2) each flag in its pinned-commit value yields an observable divergence (kernel-checked witness).
That BOTH real backends correspond to the model is the tie of this check (three backends, every
run).

(3) Representation level (Model/Stores.lean): `ram_datastore.py`'s nested dictionaries and
`sql_datastore.py`'s tables are modelled separately, method by method.  The nested-dict store is
proved to be the ABSTRACTION (`absQ`) of the table store along every sequence of study / trial
and suggestion-operation writes the service can issue, and every read returns the same value on both
(`c07_store_simulation`); the one place where the two stores differ at the datastore level -
`create_trial` into a study that does not exist - is exhibited (`c07_create_trial_orphan_counterexample`)
and excluded by the guard the service provides.  `len(ops)` (RAM) and `max(operation_number)` (SQL)
agree on consecutively numbered operation lists (`c07_op_number_len_eq_max`).  `update_metadata` is one of
the write calls of that simulation (study must exist, every named trial must exist before anything is
written, then last-writer-wins merges).

(4) Early-stopping operations (Model/StoresEs.lean): RAM's per-study dict and SQL's table are related by
an observational simulation along every sequence of study creations / deletions and early-stopping
operation writes the service issues (`c07_es_store_simulation`); the two datastore-level differences
(SQL inserts an operation of a study that does not exist; RAM's update is an upsert) are exhibited and
excluded by the service's guards.
-/
import VizierModel.Lemmas.ServiceEs
import VizierModel.Lemmas.StoresRun
import VizierModel.Lemmas.StoresEs

namespace VizierModel.C07
open VizierModel.Svc

/-- responses along a history -/
def responses (cfg : Cfg) : DB → List Req → List Resp
  | _, [] => []
  | db, r :: rs => (step cfg db r).1 :: responses cfg (step cfg db r).2 rs

/-- (1) two backends with the same variant flags give the same responses and the same stored data
    for every history -/
theorem c07_equal_flags_equal_behaviour (ram sql : Cfg) (h : ram = sql) (hs : List Req) :
    run ram DB.empty hs = run sql DB.empty hs ∧
      (responses ram DB.empty hs).length = (responses sql DB.empty hs).length := by
  subst h; exact ⟨rfl, rfl⟩

def ramCfg : Cfg := Cfg.fixed
def sqlLegacy : Cfg := { Cfg.fixed with deleteCascadesOps := false }
def ramLegacy : Cfg := { Cfg.fixed with metadataAtomic := false }

def opNum : Resp → Nat
  | .op _ o _ => o.num
  | _ => 0

/-- (2a) SQL at the pinned commit: after delete + re-create of a study the next operation is number 2
    where RAM says 1 -/
theorem c07_sql_delete_study_counterexample :
    let h := [ Req.createStudy "o" "s" false .active 0 [], .suggest "o" "s" "w" 1 (.suggestions [⟨1, []⟩] []),
               .deleteStudy "o" "s", .createStudy "o" "s" false .active 0 [] ]
    opNum (step ramCfg (run ramCfg DB.empty h) (.suggest "o" "s" "w" 1 (.suggestions [⟨2, []⟩] []))).1 = 1 ∧
    opNum (step sqlLegacy (run sqlLegacy DB.empty h) (.suggest "o" "s" "w" 1 (.suggestions [⟨2, []⟩] []))).1 = 2 := by
  decide

/-- (2b) RAM at the pinned commit: a failed metadata update leaves the study entry written -/
theorem c07_ram_metadata_counterexample :
    let h := [ Req.createStudy "o" "s" false .active 0 [],
               .updateMetadata "o" "s" [⟨.study, ("", "k"), "v"⟩, ⟨.trial 7, ("", "k"), "w"⟩] ]
    ((run ramLegacy DB.empty h).studies.map (·.md.length)) = [1] ∧
    ((run Cfg.fixed DB.empty h).studies.map (·.md.length)) = [0] := by
  decide

/-- the datastore invariants the equivalence relies on hold after every history on either backend -/
theorem c07_invariants (cfg : Cfg) (hs : List Req) : Inv (run cfg DB.empty hs) :=
  run_inv cfg DB.empty hs inv_empty

/-! ### (3) representation level -/
open VizierModel.Stores in
/-- For every sequence of study / trial write calls (failing calls included) from the empty stores:
    the same calls fail with the same error kind on both stores, and every read call returns the same
    value afterwards - nested dictionaries and tables are observationally equal. -/
theorem c07_store_simulation (ops : List WOp) (rd : ROp) :
    (Ram.empty.runW ops).2 = (Sql.empty.runW ops).2 ∧
    (Ram.empty.runW ops).1.read rd = (Sql.empty.runW ops).1.read rd := by
  have h := runW_sim Sql.empty wf_empty numbered_empty ops
  rw [absQ_empty] at h
  refine ⟨by rw [h.1], ?_⟩
  rw [h.1]
  exact read_sim _ h.2.1 h.2.2 rd

open VizierModel.Stores in
/-- the table invariants (unique keys, owners registered, no trial row without its study) hold after
    every such sequence -/
theorem c07_store_wf (ops : List WOp) : WF (Sql.empty.runW ops).1 :=
  (runW_sim Sql.empty wf_empty numbered_empty ops).2.1

open VizierModel.Stores in
/-- along every such sequence each (study, worker) operation list is numbered 1, 2, 3, … in row order:
    this is why RAM's `len(ops)` and SQL's `max(operation_number)` hand the same next number to
    SuggestTrials (`maxOpNumber` is one of the reads of `c07_store_simulation`) -/
theorem c07_store_ops_numbered (ops : List WOp) : Numbered (Sql.empty.runW ops).1 :=
  (runW_sim Sql.empty wf_empty numbered_empty ops).2.2

open VizierModel.Stores in
/-- non-vacuity: a concrete history with successes, failures and a delete / re-create -/
example :
    let t : Trial := { id := 1, state := .active, client := "w", params := 3, meas := [], final := none, reason := "", md := [] }
    let h : Head := { state := .active, spec := 0, md := [] }
    (Sql.empty.runW [.createStudy ("o", "s") h, .createTrial ("o", "s") t, .createTrial ("o", "s") t,
                     .deleteStudy ("o", "s"), .createStudy ("o", "s") h, .updateTrial ("o", "s") t]).2 =
      [none, none, some .alreadyExists, none, none, some .notFound] := by decide

open VizierModel.Stores in
/-- non-vacuity for operations: two operations of one worker get the numbers 1 and 2 on both stores, the
    second create for another study fails (no such study), an update of an operation that exists succeeds -/
example :
    let h : Head := { state := .active, spec := 0, md := [] }
    let ops : List WOp := [.createStudy ("o", "s") h, .createNextOp ("o", "s") "w" false .none,
      .createNextOp ("o", "s") "w" false .none, .createNextOp ("o", "zz") "w" false .none,
      .updateOp ("o", "s") { client := "w", num := 2, done := true, result := .error },
      .updateOp ("o", "s") { client := "w", num := 3, done := true, result := .error }]
    (Sql.empty.runW ops).2 = [none, none, none, some .notFound, none, some .notFound] ∧
    ((Sql.empty.runW ops).1.opsOf ("o", "s") "w").map (fun o => (o.num, o.done)) = [(1, false), (2, true)] ∧
    ((Ram.empty.runW ops).1.maxOpNumber ("o", "s") "w").toOption = some 2 := by decide

open VizierModel.Stores in
/-- non-vacuity for `update_metadata`: a successful update is visible through `load_study` / `get_trial`
    on both stores; an update naming a trial that does not exist fails and changes NOTHING (the study part
    is not written either) -/
example :
    let t : Trial := { id := 1, state := .active, client := "w", params := 3, meas := [], final := none, reason := "", md := [] }
    let h : Head := { state := .active, spec := 0, md := [] }
    let ops : List WOp := [.createStudy ("o", "s") h, .createTrial ("o", "s") t,
      .updateMetadata ("o", "s") { study := [(("", "a"), "1")], trials := [(1, [(("n", "b"), "2")])] },
      .updateMetadata ("o", "s") { study := [(("", "a"), "LOST")], trials := [(1, [(("n", "b"), "LOST")]), (7, [])] }]
    (Sql.empty.runW ops).2 = [none, none, none, some .notFound] ∧
    (Ram.empty.runW ops).2 = [none, none, none, some .notFound] ∧
    ((Sql.empty.runW ops).1.loadStudy ("o", "s")).toOption.map (·.md) = some [(("", "a"), "1")] ∧
    ((Ram.empty.runW ops).1.getTrial ("o", "s") 1).toOption.map (·.md) = some [(("n", "b"), "2")] := by decide

open VizierModel.Stores VizierModel.StoresEs in
/-- **Early-stopping operations**: for every sequence of study creations / deletions and early-stopping
    operation writes (failing calls included) from the empty stores, the nested-dict store and the table
    store report the same outcome for every call and afterwards return the same value for every
    `get_early_stopping_operation`. -/
theorem c07_es_store_simulation (ops : List EOp) (k : SKey) (id : Nat) :
    (RamE.runE [] ops).2 = (SqlE.runE SqlE.empty ops).2 ∧
    (RamE.runE [] ops).1.getEs k id = (SqlE.runE SqlE.empty ops).1.getEs k id := by
  have h := runE_sim ops [] SqlE.empty sim_empty
  exact ⟨h.1, getEs_sim h.2 k id⟩

open VizierModel.Stores VizierModel.StoresEs in
/-- non-vacuity: create / duplicate create / update / delete study (the operation goes with it) /
    re-create: the operation of the old study is gone on both stores -/
example :
    let o : EsOp := { trialId := 3, active := true, shouldStop := false }
    let ops : List EOp := [.createStudy ("o", "s"), .createEs ("o", "s") o, .createEs ("o", "s") o,
      .updateEs ("o", "s") { o with active := false, shouldStop := true }, .createEs ("o", "zz") o,
      .updateEs ("o", "s") { o with trialId := 4 }]
    (SqlE.runE SqlE.empty ops).2 = [none, none, some .alreadyExists, none, some .notFound, some .notFound] ∧
    ((RamE.runE [] ops).1.getEs ("o", "s") 3).toOption.map (·.shouldStop) = some true ∧
    ((SqlE.runE SqlE.empty (ops ++ [.deleteStudy ("o", "s"), .createStudy ("o", "s")])).1.getEs ("o", "s") 3).toOption = none ∧
    ((RamE.runE [] (ops ++ [.deleteStudy ("o", "s"), .createStudy ("o", "s")])).1.getEs ("o", "s") 3).toOption = none := by
  decide

open VizierModel.Stores VizierModel.StoresEs in
/-- WITHOUT the service's guards the stores differ at the datastore level (replayed on the real stores by
    the check): SQL inserts an early-stopping operation of a study that does not exist where RAM reports
    NOT_FOUND, and RAM's update of an operation that does not exist creates it where SQL reports NOT_FOUND -/
theorem c07_es_unguarded_counterexamples :
    let o : EsOp := { trialId := 1, active := true, shouldStop := false }
    (match SqlE.empty.createEs ("o", "s") o with | .ok q => q.es.length | .error _ => 0) = 1 ∧
    (match RamE.createEs [] ("o", "s") o with | .error .notFound => true | _ => false) = true ∧
    (match RamE.updateEs [(("o", "s"), [])] ("o", "s") o with | .ok r => (RamE.getEs r ("o", "s") 1).toOption.isSome | .error _ => false) = true ∧
    (match SqlE.updateEs { studies := [("o", "s")], es := [] } ("o", "s") o with | .error .notFound => true | _ => false) = true := by
  decide

open VizierModel.Stores in
/-- WITHOUT the service's guard the stores differ: SQL `create_trial` does not check that the study
    exists and stores an orphan row, RAM reports NOT_FOUND (replayed on the real stores by the check) -/
theorem c07_create_trial_orphan_counterexample :
    let t : Trial := { id := 1, state := .active, client := "", params := 0, meas := [], final := none, reason := "", md := [] }
    (match Sql.empty.createTrial ("o", "s") t with | .ok q => q.trials.length | .error _ => 0) = 1 ∧
    (match Ram.empty.createTrial ("o", "s") t with | .error .notFound => true | _ => false) = true := by
  decide

/-- `len(ops)` (RAM `max_suggestion_operation_number`) = `max(operation_number)` (SQL) when the
    operations of a (study, client) are numbered 1, 2, 3, … — which `run_opsNumbered` proves for
    every history of the service -/
theorem c07_op_number_len_eq_max (l : List SugOp) (h : l.map (·.num) = List.range' 1 l.length) :
    l.foldl (fun m o => max m o.num) 0 = l.length := by
  have key : ∀ (n s m : Nat), (List.range' s n).foldl max m = if n = 0 then m else max m (s + n - 1) := by
    intro n
    induction n with
    | zero => intro s m; simp
    | succ n ih =>
      intro s m
      rw [List.range'_succ, List.foldl_cons, ih]
      by_cases hn : n = 0
      · subst hn; simp
      · simp only [hn, if_false, Nat.succ_ne_zero]
        omega
  have : l.foldl (fun m o => max m o.num) 0 = (l.map (·.num)).foldl max 0 := by
    rw [List.foldl_map]
  rw [this, h, key]
  by_cases hl : l.length = 0
  · simp [hl]
  · simp only [hl, if_false]; omega

end VizierModel.C07
