/-
C12 — algorithms get each completed trial exactly once, and all active trials.
Property theorems only; the model is `Model/Loader.lean`, helper lemmas are in
`Lemmas/Loader*.lean`.

Histories are arbitrary lists of `Op` (trial created with id `max_trial_id + 1` in any status,
any status change, deletion, a suggest request served in one of the four policy modes), run
from the empty study.  The log has one entry per `Designer.update` (newest first) holding the
lineage of the designer, the trial table at that moment and the two argument lists.

Side conditions (Boolean, evaluated along the run):
* `okWF`    — what a rebuilt policy finds in the metadata is what was dumped, in any order;
* `okTop`   — the trial holding the largest id is never deleted;
* `okFresh` — no id is handed out twice (implied by `okTop`).
-/
import VizierModel.Lemmas.LoaderRun

namespace VizierModel.C12
open VizierModel.Loader

/-- every update's active list is exactly the ACTIVE trials of that moment — all histories, all
policy modes, both loader variants, no side condition (STOPPING / REQUESTED are not ACTIVE) -/
theorem c12_active_exact (cfg : Cfg) (h : List Op) : ActiveExact (run cfg .init h).log :=
  run_active cfg h .init (by simp [ActiveExact, State.init])

/-- MAIN (code as written, and equally without the shortcut): if the trial holding the largest id
is never deleted, every update's completed list is EXACTLY the trials completed at that moment
that this designer lineage was not given before. -/
theorem c12_update_exact (cfg : Cfg) (h : List Op)
    (hwf : holds cfg okWF .init h = true) (htop : holds cfg okTop .init h = true) :
    UpdateExact (run cfg .init h).log :=
  (run_top cfg h .init inv_init top_init hwf htop).2.2 trivial

/-- without the `len(inc) == max_trial_id` shortcut the weaker side condition "no id is handed
out twice" suffices (the top trial may be deleted as long as its id is not given away again) -/
theorem c12_update_exact_noshortcut (h : List Op)
    (hwf : holds .noShortcut okWF .init h = true) (hfresh : holds .noShortcut okFresh .init h = true) :
    UpdateExact (run .noShortcut .init h).log :=
  (run_fresh .noShortcut rfl h .init inv_init hwf hfresh).2 trivial

/-- corollary: over any such history no lineage is given a trial twice, and every trial that is
completed at the time of an update has been given by then — each completed trial exactly once -/
theorem c12_exactly_once (cfg : Cfg) (h : List Op)
    (hwf : holds cfg okWF .init h = true) (htop : holds cfg okTop .init h = true) :
    ExactlyOnce (run cfg .init h).log :=
  have r := run_top cfg h .init inv_init top_init hwf htop
  exactlyOnce_of_exact _ (r.2.2 trivial) r.1.logInv.snaps

theorem c12_exactly_once_noshortcut (h : List Op)
    (hwf : holds .noShortcut okWF .init h = true) (hfresh : holds .noShortcut okFresh .init h = true) :
    ExactlyOnce (run .noShortcut .init h).log :=
  have r := run_fresh .noShortcut rfl h .init inv_init hwf hfresh
  exactlyOnce_of_exact _ (r.2 trivial) r.1.logInv.snaps

/-- log-level form used on the log recorded from the real code: exact updates (over snapshots
with distinct trials) imply exactly-once delivery -/
theorem c12_exact_implies_once (log : List Entry) (hx : UpdateExact log) (hw : SnapshotsWF log) :
    ExactlyOnce log := exactlyOnce_of_exact log hx hw

/-- a policy rebuilt for every request that restores `inc` from the dumped JSON list — in ANY
order — produces the same deliveries as the policy object kept alive (the service's behaviour
equals the in-RAM one) -/
theorem c12_restored_equals_live (cfg : Cfg) (h : List Op) (hwf : holds cfg okWF .init h = true) :
    (run cfg .init h).log = (run cfg .init (h.map toLive)).log :=
  (run_sim cfg h .init .init
    ⟨rfl, rfl, rfl, rfl, rfl, rfl, List.Perm.refl _, by simp [State.init]⟩ hwf).log

/-- `DesignerPolicy` (rebuilt from scratch on every request): every update carries the complete
current set of completed and of active trials -/
theorem c12_rebuilt_gets_all (cfg : Cfg) (h : List Op) (hs : AllStateless h) :
    GetsAll (run cfg .init h).log :=
  run_stateless cfg h .init hs (by simp [GetsAll, State.init])

/-- state lost (metadata missing / undecodable / other namespace ⇒ `clear`, fresh designer): after
ANY history the next update goes to a new lineage and delivers all currently completed trials
and all active ones -/
theorem c12_state_lost (cfg : Cfg) (h : List Op) :
    let s := run cfg .init h
    (step cfg s (.update .lost)).log =
      { inst := s.nextInst, env := s.env,
        completed := s.env.filter (fun t => decide (t.st = .completed)),
        active := s.env.filter (fun t => decide (t.st = .active)) } :: s.log ∧
    ∀ e ∈ s.log, e.inst ≠ s.nextInst := by
  intro s
  have hb : Basic s := run_basic cfg h .init basic_init
  refine ⟨?_, fun e he => Nat.ne_of_lt (hb.logInst e he)⟩
  show ({ inst := s.nextInst, env := s.env,
          completed := (newlyCompleted cfg s.env clear (maxId s.env)).1,
          active := activeTrials s.env } : Entry) :: s.log = _
  rw [newly_after_clear cfg s.env hb.idsPos, activeTrials_eq]

/-! ## the full statements are false of the code -/

/-- FULL STATEMENT (what the property says, no restriction on deletions) -/
def C12Full (cfg : Cfg) : Prop :=
  ∀ h : List Op, holds cfg okWF .init h = true →
    UpdateExact (run cfg .init h).log ∧ ExactlyOnce (run cfg .init h).log

/-- the statement for histories that never hand out an id twice -/
def C12FreshIds (cfg : Cfg) : Prop :=
  ∀ h : List Op, holds cfg okWF .init h = true → holds cfg okFresh .init h = true →
    UpdateExact (run cfg .init h).log ∧ ExactlyOnce (run cfg .init h).log

/-- (a): no id is re-used, yet with `len(inc) == max_trial_id` (2 = 2) the completed trial 2 is
not delivered in the update that should carry it -/
theorem c12_shortcut_counterexample : ¬ C12FreshIds .asWritten := by
  intro hall
  have := hall witnessShortcut (by decide) (by decide)
  exact absurd this.1 (by decide)

/-- … and that witness is repaired by dropping the shortcut -/
theorem c12_shortcut_witness_fixed :
    UpdateExact (run .noShortcut .init witnessShortcut).log ∧
      ExactlyOnce (run .noShortcut .init witnessShortcut).log := by decide

/-- (b): the id of the deleted top trial is handed out again; the new trial is never delivered —
with or without the shortcut -/
theorem c12_idreuse_counterexample (cfg : Cfg) : ¬ C12Full cfg := by
  intro hall
  obtain ⟨sc⟩ := cfg
  cases sc
  · exact absurd (hall witnessIdReuse (by decide)).1 (by decide)
  · exact absurd (hall witnessIdReuse (by decide)).1 (by decide)

theorem c12_idreuse_not_exactly_once (cfg : Cfg) :
    ¬ ExactlyOnce (run cfg .init witnessIdReuse).log := by
  obtain ⟨sc⟩ := cfg
  cases sc <;> decide

/-- the witnesses are what the side conditions exclude -/
theorem c12_witness_classes :
    holds .asWritten okTop .init witnessShortcut = false ∧
    holds .asWritten okFresh .init witnessShortcut = true ∧
    holds .asWritten okFresh .init witnessIdReuse = false := by decide

/-! ## the `GetTrials` filter both policy supporters implement -/

/-- **GetTrials** (`ServicePolicySupporter.GetTrials` through `vz.TrialFilter`, and the loop of
`InRamPolicySupporter.GetTrials`): a trial is returned iff it is in the table and meets EVERY given
condition (id in the set, id ≥ min, id ≤ max, status equal) - absent conditions do not restrict; the
result keeps the table order; without bounds it is the filter the loader model uses. -/
theorem c12_get_trials_filter (env : Env) (ids : Option (List Nat)) (minId maxId : Option Nat) (st : Option Status) :
    (∀ t, t ∈ getTrialsF env ids minId maxId st ↔
      t ∈ env ∧ (∀ l, ids = some l → t.id ∈ l) ∧ (∀ m, minId = some m → m ≤ t.id) ∧
        (∀ m, maxId = some m → t.id ≤ m) ∧ (∀ s, st = some s → t.st = s)) ∧
    (getTrialsF env ids minId maxId st).Sublist env ∧
    getTrialsF env ids none none st = getTrials env ids st := by
  refine ⟨?_, List.filter_sublist, ?_⟩
  · intro t
    unfold getTrialsF
    rw [List.mem_filter]
    cases ids <;> cases minId <;> cases maxId <;> cases st <;> simp [and_assoc]
  · unfold getTrialsF getTrials
    congr 1
    funext t
    cases ids <;> cases st <;> simp

example : (getTrialsF [⟨1, 1, .active⟩, ⟨2, 2, .completed⟩, ⟨3, 3, .completed⟩, ⟨5, 4, .completed⟩]
    (some [5, 3, 1]) (some 2) (some 5) (some .completed)).map (·.id) = [3, 5] := by decide

/-! ## non-vacuity: a history meeting every side condition with non-trivial deliveries -/

example :
    let h : List Op := [.create .active, .create .requested, .create .completed, .setStatus 1 .completed,
      .update .live, .delete 1, .setStatus 2 .active, .create .stopping, .update (.restored [3, 1]),
      .setStatus 2 .completed, .update .lost, .update .stateless]
    holds .asWritten okWF .init h = true ∧ holds .asWritten okTop .init h = true ∧
      (run .asWritten .init h).log.map (fun e => (e.inst, e.completed.map (·.id), e.active.map (·.id))) =
        [(2, [2, 3], []), (1, [2, 3], []), (0, [], [2]), (0, [1, 3], [])] := by decide

end VizierModel.C12
