/-
C11 — optimal trials are exactly the non-dominated completed trials; every Pareto
routine of the library agrees with that definition.
Property theorems only; the models are in `Model/Pareto*.lean`, helper lemmas in
`Lemmas/Pareto*.lean`.

Carrier: any type `β` with comparisons `c : Cmp β` that are *lawful* (those of a strict
total order: `c11_ofLt_lawful`), so ±inf are just extreme elements; points are rows
`List β` of a common dimension `d` (`Rect d`); duplicates and ties are ordinary inputs.
NaN exists only at trial level (`Val β`).
-/
import VizierModel.Lemmas.ParetoNaive
import VizierModel.Lemmas.ParetoAgainst
import VizierModel.Lemmas.ParetoFast
import VizierModel.Lemmas.ParetoService
import VizierModel.Lemmas.ParetoInRam
import VizierModel.Lemmas.ParetoInRamSingle

namespace VizierModel.C11
open VizierModel.Pareto

variable {β : Type}

/-! ## the order -/

/-- the comparisons derived from any strict total order are lawful -/
theorem c11_ofLt_lawful {α : Type} [DecidableEq α] (lt : α → α → Bool) (h : StrictTotal lt) :
    (Cmp.ofLt lt).Lawful := Cmp.ofLt_lawful h

/-- the driver's carrier -/
def ltI (a b : Int) : Bool := decide (a < b)
def cI : Cmp Int := Cmp.ofLt ltI

theorem c11_int_strictTotal : StrictTotal ltI where
  irrefl a := by simp [ltI]
  trans a b c h1 h2 := by simp only [ltI, decide_eq_true_eq] at *; omega
  tri a b h1 h2 := by simp only [ltI, decide_eq_false_iff_not] at *; omega

theorem c11_cI_lawful : cI.Lawful := c11_ofLt_lawful ltI c11_int_strictTotal

/-! ## the definition

`dominates c q p`: `q` is at least as good as `p` in every coordinate and better in one;
equivalently (DESIGN): `(∀ i, p_i ≤ q_i) ∧ q ≠ p`.  `front c ps` marks the points of `ps`
that no point of `ps` dominates. -/

theorem c11_dominates_spec {c : Cmp β} (h : c.Lawful) (q p : List β) (hlen : p.length = q.length) :
    dominates c q p = true ↔ (allLe c p q = true ∧ q ≠ p) := by
  unfold dominates
  rw [Bool.and_eq_true, h.anyGt_eq_not_allLe]
  constructor
  · rintro ⟨h1, h2⟩
    refine ⟨h1, ?_⟩
    rintro rfl
    rw [h.allLe_refl] at h2; cases h2
  · rintro ⟨h1, hne⟩
    refine ⟨h1, ?_⟩
    cases hx : allLe c q p
    · rfl
    · exfalso; apply hne
      clear hne
      induction p generalizing q with
      | nil => cases q <;> simp_all
      | cons a as ih =>
        cases q with
        | nil => simp at hlen
        | cons b bs =>
          simp only [allLe, Bool.and_eq_true, List.length_cons, Nat.add_right_cancel_iff] at *
          rw [h.le_antisymm a b h1.1 hx.1, ih bs hlen h1.2 hx.2]

theorem c11_allLe_spec (c : Cmp β) (p q : List β) (hlen : p.length = q.length) :
    allLe c p q = true ↔ ∀ i (hi : i < p.length), c.le p[i] (q[i]'(hlen ▸ hi)) = true := by
  induction p generalizing q with
  | nil =>
    cases q with
    | nil => simp [allLe]
    | cons b bs => simp at hlen
  | cons a as ih =>
    cases q with
    | nil => simp at hlen
    | cons b bs =>
      simp only [List.length_cons, Nat.add_right_cancel_iff] at hlen
      simp only [allLe, Bool.and_eq_true, ih bs hlen]
      constructor
      · rintro ⟨h0, hs⟩ i hi
        cases i with
        | zero => exact h0
        | succ j => exact hs j (by simpa using hi)
      · intro hall
        exact ⟨hall 0 (by simp), fun i hi => hall (i + 1) (by simpa using hi)⟩

/-! ## NaiveParetoOptimalAlgorithm -/

/-- the sweep with in-place revision marks exactly the definitional front -/
theorem c11_naive_correct {c : Cmp β} (h : c.Lawful) {d : Nat} (ps : List (List β)) (hr : Rect d ps) :
    naive c ps = front c ps := naive_correct h ps hr

/-- `is_pareto_optimal_against`, both strict modes -/
theorem c11_against_correct {c : Cmp β} (h : c.Lawful) (points against : List (List β)) (strict : Bool) :
    naiveAgainst c points against strict = points.map (isOptAgainst c against strict) :=
  naiveAgainst_correct h points against strict

/-- the jax `_is_pareto_optimal_against`, both strict modes -/
theorem c11_jax_against_correct (c : Cmp β) (yy baseline : List (List β)) (strict : Bool) :
    jaxAgainst c yy baseline strict = yy.map (isOptAgainst c baseline strict) :=
  jaxAgainst_correct c yy baseline strict

/-! ## FastParetoOptimalAlgorithm -/

variable [Inhabited β]

/-- numpy's argsort is not stable: the theorems hold for *every* sorting permutation -/
theorem c11_argsortStable_isArgsort {c : Cmp β} (h : c.Lawful) : IsArgsort c (argsortStable c) :=
  argsortStable_isArgsort h

/-- the recursive `is_pareto_optimal_against` terminates and equals the naive one for
every threshold, every argsort, both strict modes, every dimension `d ≥ 1` -/
theorem c11_fast_against_correct {c : Cmp β} (h : c.Lawful) {argsort : List β → List Nat}
    (hs : IsArgsort c argsort) (thr d : Nat) (points against : List (List β)) (strict : Bool)
    (hd : 1 ≤ d) (hrp : Rect d points) (hra : Rect d against) :
    fastAgainstTop c argsort thr points against strict =
      some (naiveAgainst c points against strict) := by
  rw [naiveAgainst_correct h]
  exact fastAgainst_correct h hs thr _ d points against strict hd hrp hra (Nat.lt_succ_self _)

/-- FULL STATEMENT for `is_pareto_optimal` (what the class promises) -/
def FastCorrect (c : Cmp β) (argsort : List β → List Nat) (cleanSplit : Bool) : Prop :=
  ∀ (thr d : Nat) (points : List (List β)), 1 ≤ thr → 1 ≤ d → Rect d points →
    fastTop c argsort cleanSplit thr points = some (naive c points)

/-- … which is false for the code as written: two points tied in the first coordinate
that straddle the split (`[[1,5],[1,3]]`, threshold 1) are both reported optimal -/
theorem c11_fast_counterexample : ¬ FastCorrect cI (argsortStable cI) false := by
  intro hf
  have := hf 1 2 [[1, 5], [1, 3]] (Nat.le_refl _) (by decide) (by intro p hp; simp at hp; rcases hp with rfl | rfl <;> rfl)
  revert this
  decide +kernel

theorem c11_fast_counterexample_values :
    fastTop cI (argsortStable cI) false 1 [[1, 5], [1, 3]] = some [true, true] ∧
      front cI [[1, 5], [1, 3]] = [true, false] := by decide +kernel

/-- PROVED PART for the code as written: with pairwise distinct first coordinates (no tie
can straddle a split) the result is the definitional front, for every threshold ≥ 1,
every argsort, any dimension -/
theorem c11_fast_correct_partial {c : Cmp β} (h : c.Lawful) {argsort : List β → List Nat}
    (hs : IsArgsort c argsort) (thr d : Nat) (points : List (List β)) (ht : 1 ≤ thr) (hd : 1 ≤ d)
    (hr : Rect d points) (hdist : DistinctFirst points) :
    fastTop c argsort false thr points = some (naive c points) := by
  rw [naive_correct h points hr]
  exact fast_correct h hs false thr _ d points hd hr (Or.inr ⟨ht, hdist⟩) (Nat.lt_succ_self _)

/-- the variant that moves the split to a clean boundary (proposed fix) is correct for all
point sets — ties, duplicates — every threshold (also 0) and every argsort -/
theorem c11_fast_fixed_correct {c : Cmp β} (h : c.Lawful) {argsort : List β → List Nat}
    (hs : IsArgsort c argsort) (thr d : Nat) (points : List (List β)) (hd : 1 ≤ d) (hr : Rect d points) :
    fastTop c argsort true thr points = some (front c points) :=
  fast_correct h hs true thr _ d points hd hr (Or.inl rfl) (Nat.lt_succ_self _)

theorem c11_fast_fixed_full {c : Cmp β} (h : c.Lawful) {argsort : List β → List Nat}
    (hs : IsArgsort c argsort) : FastCorrect c argsort true := by
  intro thr d points _ hd hr
  rw [naive_correct h points hr]
  exact c11_fast_fixed_correct h hs thr d points hd hr

/-- as written, `recursive_threshold = 0` never terminates on a non-empty input -/
theorem c11_fast_thr0_diverges : fastTop cI (argsortStable cI) false 0 [[1]] = none := by decide +kernel

omit [Inhabited β]

/-! ## jax `is_frontier` -/

/-- with at least two boundaries (`num_shards ≥ 2`) the sharded filter is the front -/
theorem c11_sharded_correct (c : Cmp β) (k : Nat) (hk : 2 ≤ k) (ys : List (List β)) :
    isFrontier c k ys = front c ys := isFrontier_correct c k hk ys

/-- FULL STATEMENT (the docstring: "Efficiently compute `_is_pareto_optimal_against(ys, ys, strict=True)`") -/
def ShardedCorrect (c : Cmp β) : Prop := ∀ (k : Nat) (ys : List (List β)), 1 ≤ k → isFrontier c k ys = front c ys

/-- … false for `num_shards = 1`: `linspace(0, n, 1) = [0]`, no slice, nothing is filtered -/
theorem c11_sharded_counterexample : ¬ ShardedCorrect cI := by
  intro hf
  have := hf 1 [[1, 5], [1, 3]] (Nat.le_refl _)
  revert this
  decide +kernel

theorem c11_sharded_one_keeps_all (c : Cmp β) (ys : List (List β)) :
    isFrontier c 1 ys = ys.map fun _ => true := isFrontier_le_one c 1 (Nat.le_refl _) ys

/-! ## dominance ranks -/

/-- jax `pareto_rank` and nsga2 `_pareto_rank` count the dominators of each point … -/
theorem c11_rank_eq (c : Cmp β) (ys : List (List β)) : nsgaRank c ys = jaxRank c ys :=
  nsgaRank_eq_jaxRank c ys

/-- … so a point has rank 0 iff it is on the definitional front -/
theorem c11_rank_zero_iff_front (c : Cmp β) (ys : List (List β)) (i : Nat) (hi : i < ys.length) :
    ((jaxRank c ys).getD i 1 = 0 ↔ (front c ys).getD i false = true) ∧
    ((nsgaRank c ys).getD i 1 = 0 ↔ (front c ys).getD i false = true) := by
  rw [c11_rank_eq]
  have : (jaxRank c ys).getD i 1 = 0 ↔ (front c ys).getD i false = true := by
    simp only [jaxRank, front, List.getD_eq_getElem?_getD, List.getElem?_map, List.getElem?_eq_getElem hi,
      Option.map_some, Option.getD_some]
    exact jaxRank_zero_iff c ys ys[i]
  exact ⟨this, this⟩

/-! ## ListOptimalTrials -/

variable {μ : Type} [DecidableEq μ]

/-- MAIN (service): with the NaN filter (proposed fix) `ListOptimalTrials` returns, in
stored order, exactly the trials that SUCCEEDED, report a number for every configured
metric and are dominated by no other such trial under the configured goals
(MINIMIZE = reversed order; `neg` is any order-reversing map). -/
theorem c11_service_correct {c : Cmp β} (h : c.Lawful) {neg : β → β} (ha : Antitone c neg)
    (spec : List (μ × Goal)) (trials : List (STrial μ β)) :
    listOptimal c neg true spec trials = optimalDef c spec trials :=
  listOptimal_fixed_correct h ha spec trials

/-- FULL STATEMENT for the code as written -/
def ServiceCorrect (c : Cmp β) (neg : β → β) : Prop :=
  ∀ (spec : List (Nat × Goal)) (trials : List (STrial Nat β)),
    listOptimal c neg false spec trials = optimalDef c spec trials

/-- … false: a SUCCEEDED trial whose objective is NaN is never dominated (every comparison
with NaN is false) and is returned -/
theorem c11_service_nan_counterexample : ¬ ServiceCorrect cI (fun a => -a) := by
  intro hf
  have := hf [(0, .maximize), (1, .minimize)]
    [⟨1, .succeeded, [(0, .num 1), (1, .num 1)]⟩, ⟨2, .succeeded, [(0, .nan), (1, .num 0)]⟩]
  revert this
  decide +kernel

/-- PROVED PART for the code as written: when no trial reports NaN for a configured metric -/
theorem c11_service_correct_partial {c : Cmp β} (h : c.Lawful) {neg : β → β} (ha : Antitone c neg)
    (spec : List (μ × Goal)) (trials : List (STrial μ β)) (hn : NoNaNObjective spec trials) :
    listOptimal c neg false spec trials = optimalDef c spec trials := by
  rw [listOptimal_asWritten_eq_fixed c neg spec trials hn]
  exact listOptimal_fixed_correct h ha spec trials

/-- infeasible, unfinished, partial-metric and NaN-objective trials are never reported -/
theorem c11_service_only_eligible {c : Cmp β} (h : c.Lawful) {neg : β → β} (ha : Antitone c neg)
    (spec : List (μ × Goal)) (trials : List (STrial μ β)) (t : STrial μ β)
    (ht : t ∈ listOptimal c neg true spec trials) :
    t ∈ trials ∧ t.state = .succeeded ∧ ∀ mg ∈ spec, ∃ b, lookupLast t.final mg.1 = some (.num b) := by
  rw [c11_service_correct h ha, optimalDef, List.mem_filter, Bool.and_eq_true] at ht
  obtain ⟨hm, he, _⟩ := ht
  unfold eligible at he
  rw [Bool.and_eq_true, decide_eq_true_eq, List.all_eq_true] at he
  refine ⟨hm, he.1, ?_⟩
  intro mg hmg
  obtain ⟨b, hb⟩ := Option.isSome_iff_exists.mp (he.2 mg hmg)
  exact ⟨b, (numOf_eq_some _ _ _).mp hb⟩

/-- single objective: the optimal trials are the eligible trials attaining the best value -/
theorem c11_service_single_objective {c : Cmp β} (h : c.Lawful) {neg : β → β} (ha : Antitone c neg)
    (m : μ) (trials : List (STrial μ β)) (t : STrial μ β) :
    t ∈ listOptimal c neg true [(m, .maximize)] trials ↔
      t ∈ trials ∧ eligible [(m, .maximize)] t = true ∧
        ∀ t' ∈ trials, eligible [(m, .maximize)] t' = true →
          ∀ a b, numOf t'.final m = some a → numOf t.final m = some b → c.gt a b = false := by
  rw [c11_service_correct h ha, optimalDef, List.mem_filter, Bool.and_eq_true, Bool.not_eq_true',
    List.any_eq_false]
  constructor
  · rintro ⟨hm, he, hno⟩
    refine ⟨hm, he, ?_⟩
    intro t' ht' he' a b ha' hb
    have := hno t' ht'
    rw [he'] at this
    simp only [dominatesG, List.all_cons, List.all_nil, List.any_cons, List.any_nil, ha', hb, betterEq,
      better, Bool.and_true, Bool.or_false, Bool.true_and] at this
    cases hg : c.gt a b
    · rfl
    · rw [hg, (h.le_iff _ _).mpr (h.gt_asymm _ _ hg)] at this; simp at this
  · rintro ⟨hm, he, hall⟩
    refine ⟨hm, he, ?_⟩
    intro t' ht'
    cases he' : eligible [(m, .maximize)] t'
    · simp
    · have h1 := eligible_numOf _ t he (m, .maximize) (List.mem_cons_self ..)
      have h2 := eligible_numOf _ t' he' (m, .maximize) (List.mem_cons_self ..)
      obtain ⟨b, hb⟩ := Option.isSome_iff_exists.mp h1
      obtain ⟨a, ha'⟩ := Option.isSome_iff_exists.mp h2
      have := hall t' ht' he' a b ha' hb
      simp [dominatesG, ha', hb, better, this]

/-! ## InRamPolicySupporter.GetBestTrials (multi-objective) -/

/-- the driver's order operations: `-x`, `±inf` as extreme integers -/
def oI : OrderOps Int := { cmp := cI, neg := fun a => -a, top := 1000000000, bot := -1000000000 }

theorem c11_oI_lawful : oI.Lawful where
  cmp := c11_cI_lawful
  neg := by
    intro a b
    simp only [oI, cI, Cmp.ofLt, ltI]
    by_cases h : a < b <;> simp [h] <;> omega

/-- FULL STATEMENT for the code as written: the best trials are the optimal trials of the
definition (completed, feasible, a number for every objective, not dominated) -/
def InRamCorrect (o : OrderOps β) (allTied : Bool) : Prop :=
  ∀ (objs : List (Nat × Goal)) (safety : List (Nat × Goal × β)) (trials : List (PTrial Nat β)),
    2 ≤ objs.length → getBest o objs safety false allTied none trials = some (bestDef o objs safety trials)

/-- … false: an unfinished trial with the smallest id is a NaN label row which the sweep
processes first; nothing survives (every comparison with NaN is false) -/
theorem c11_inram_counterexample : ∀ allTied, ¬ InRamCorrect oI allTied := by
  intro allTied hf
  have := hf [(0, .maximize), (1, .maximize)] []
    [⟨1, false, none⟩, ⟨2, false, some [(0, .num 1), (1, .num 1)]⟩] (by decide)
  revert this
  cases allTied <;> decide +kernel

/-- a partial NaN row (a missing objective) later in the list also empties the result, and an
infeasible trial that carries a measurement is reported -/
theorem c11_inram_counterexample_values : ∀ allTied,
    getBest oI [(0, .maximize), (1, .maximize)] [] false allTied none
        [⟨1, false, some [(0, .num 1), (1, .num 1)]⟩, ⟨2, false, some [(0, .num 5)]⟩] = some [] ∧
    (getBest oI [(0, .maximize), (1, .maximize)] [] false allTied none
        [⟨1, false, some [(0, .num 1), (1, .num 1)]⟩, ⟨2, true, some [(0, .num 9), (1, .num 9)]⟩]).map
      (·.map (·.id)) = some [2] := by decide +kernel

/-- PROVED PART for the code as written: when every trial of the study is completed, feasible
and reports a number for every objective (no NaN row), the query returns exactly the optimal
trials — any number of objectives ≥ 2, mixed goals, safety warping, duplicates, ties -/
theorem c11_inram_correct_partial {o : OrderOps β} (h : o.Lawful) (objs : List (μ × Goal))
    (safety : List (μ × Goal × β)) (allTied : Bool) (trials : List (PTrial μ β)) (hm : 2 ≤ objs.length)
    (hel : ∀ t ∈ trials, eligibleP objs t = true) :
    getBest o objs safety false allTied none trials = some (bestDef o objs safety trials) :=
  getBest_asWritten_correct h objs safety allTied trials hm hel

/-- with the eligibility filter (proposed fix): for every history -/
theorem c11_inram_fixed_correct {o : OrderOps β} (h : o.Lawful) (objs : List (μ × Goal))
    (safety : List (μ × Goal × β)) (allTied : Bool) (trials : List (PTrial μ β)) (hm : 2 ≤ objs.length) :
    getBest o objs safety true allTied none trials = some (bestDef o objs safety trials) :=
  getBest_fixed_correct h objs safety allTied trials hm

/-! ## InRamPolicySupporter.GetBestTrials (single objective, `count = None`)

Docstring: "If `count` is unset, returns all tied top trials."  For one objective the optimal
trials of the definition (`bestDef`: eligible and dominated by no eligible trial) are the
eligible trials attaining the best value. -/

/-- FULL STATEMENT: for one objective and `count = None` the query returns the best trials of
the definition, each once, in some order -/
def InRamSingleAllTied (o : OrderOps β) (allTied : Bool) : Prop :=
  ∀ (mg : Nat × Goal) (safety : List (Nat × Goal × β)) (trials : List (PTrial Nat β)),
    ∃ r, getBest o [mg] safety true allTied none trials = some r ∧
      r.Perm (bestDef o [mg] safety trials)

/-- with the repair (`allTied = true`): for every lawful order, either goal, any safety list
(unsafe trials count as the worst value), every study history — the result is a permutation of
the best trials of the definition; in particular the same members and the same number -/
theorem c11_inram_single_all_tied {o : OrderOps β} (h : o.Lawful) (mg : μ × Goal)
    (safety : List (μ × Goal × β)) (trials : List (PTrial μ β)) :
    ∃ r, getBest o [mg] safety true true none trials = some r ∧
      r.Perm (bestDef o [mg] safety trials) ∧
      (∀ t, t ∈ r ↔ t ∈ bestDef o [mg] safety trials) ∧
      r.length = (bestDef o [mg] safety trials).length := by
  obtain ⟨r, hr, hp⟩ := getBest_single_allTied_perm h mg safety trials
  exact ⟨r, hr, hp, fun _ => hp.mem_iff, hp.length_eq⟩

/-- … as written (`count = count or 1`, `allTied = false`) the full statement is false: of two
completed trials of equal value only one is returned although both are best -/
theorem c11_inram_single_one_of_tied_counterexample :
    ¬ InRamSingleAllTied oI false ∧
    (getBest oI [(0, .maximize)] [] true false none
        [⟨1, false, some [(0, .num 5)]⟩, ⟨2, false, some [(0, .num 5)]⟩]).map (·.map (·.id)) = some [1] ∧
    (bestDef oI [(0, .maximize)] []
        [⟨1, false, some [(0, .num 5)]⟩, ⟨2, false, some [(0, .num 5)]⟩]).map (·.id) = [1, 2] := by
  refine ⟨?_, by decide +kernel, by decide +kernel⟩
  intro hf
  obtain ⟨r, hr, hp⟩ := hf (0, .maximize) []
    [⟨1, false, some [(0, .num 5)]⟩, ⟨2, false, some [(0, .num 5)]⟩]
  have hlen := hp.length_eq
  have e : getBest oI [(0, .maximize)] [] true false none
      [⟨1, false, some [(0, .num 5)]⟩, ⟨2, false, some [(0, .num 5)]⟩] =
      some [⟨1, false, some [(0, .num 5)]⟩] := by decide +kernel
  rw [e] at hr
  cases hr
  revert hlen
  decide +kernel

/-- the repaired variant satisfies the full statement on the driver's carrier -/
theorem c11_inram_single_all_tied_oI : InRamSingleAllTied oI true := fun mg safety trials =>
  let ⟨r, hr, hp, _⟩ := c11_inram_single_all_tied c11_oI_lawful mg safety trials
  ⟨r, hr, hp⟩

/-! ## non-vacuity: the hypotheses are satisfiable by non-trivial inputs -/

example : Rect 2 ([[1, 5], [1, 3], [2, 2], [2, 2]] : List (List Int)) ∧
    front cI [[1, 5], [1, 3], [2, 2], [2, 2]] = [true, false, true, true] := by
  refine ⟨?_, by decide +kernel⟩
  intro p hp; simp at hp; rcases hp with rfl | rfl | rfl <;> rfl

example : DistinctFirst ([[1, 5], [2, 3], [0, 9]] : List (List Int)) ∧
    fastTop cI (argsortStable cI) false 1 [[1, 5], [2, 3], [0, 9]] = some [true, true, true] := by
  refine ⟨?_, by decide +kernel⟩
  unfold DistinctFirst
  decide +kernel

example : NoNaNObjective [(0, Goal.maximize)] [(⟨1, .succeeded, [(0, .num 3)]⟩ : STrial Nat Int)] := by
  intro t ht mg hmg
  simp at ht hmg; subst ht hmg; decide

example : ∀ t ∈ [(⟨1, false, some [(0, .num 1), (1, .num 2)]⟩ : PTrial Nat Int)],
    eligibleP [(0, Goal.maximize), (1, Goal.minimize)] t = true := by decide

/-- three completed trials, two tied for the best value and one worse: the repaired query returns
the two (the as-written one returns one); with MINIMIZE, an unfinished and an infeasible trial too -/
example :
    (getBest oI [(0, .maximize)] [] true true none
        [⟨1, false, some [(0, .num 3)]⟩, ⟨2, false, some [(0, .num 7)]⟩, ⟨3, false, some [(0, .num 7)]⟩]).map
      (·.map (·.id)) = some [2, 3] ∧
    (bestDef oI [(0, .maximize)] []
        [⟨1, false, some [(0, .num 3)]⟩, ⟨2, false, some [(0, .num 7)]⟩, ⟨3, false, some [(0, .num 7)]⟩]).map
      (·.id) = [2, 3] ∧
    (getBest oI [(0, .maximize)] [] true false none
        [⟨1, false, some [(0, .num 3)]⟩, ⟨2, false, some [(0, .num 7)]⟩, ⟨3, false, some [(0, .num 7)]⟩]).map
      (·.map (·.id)) = some [2] ∧
    (getBest oI [(0, .minimize)] [] true true none
        [⟨1, false, some [(0, .num 3)]⟩, ⟨2, false, none⟩, ⟨3, true, some [(0, .num 1)]⟩,
         ⟨4, false, some [(0, .num 9)]⟩, ⟨5, false, some [(0, .num 3)]⟩]).map
      (·.map (·.id)) = some [1, 5] := by decide +kernel

end VizierModel.C11
