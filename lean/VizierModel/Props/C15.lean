/-
C15 — numeric encoding of trials is invertible and always decodes into the space.
Property theorems only; helper lemmas are in `Lemmas/Codec*.lean`.

Carrier: any ordered field `α`; `lg`/`ex` abstract with the laws `LogExp` (mutually inverse,
`log` strictly monotone on the positives, `exp` positive); `fin : α → Bool` is the abstract
"is finite in the carrier" (`np.isfinite`).  `fieldOps lg ex fin` is the model's arithmetic
over that carrier.  Nothing here is about IEEE floats: the float gap is the tie's.
-/
import VizierModel.Lemmas.CodecRoundtripSpace
import Mathlib.Algebra.Order.Ring.Rat
import Mathlib.Algebra.Order.Field.Rat
import Mathlib.Tactic.NormNum

set_option linter.unusedSectionVars false
set_option linter.unusedVariables false

namespace VizierModel.C15
open VizierModel.Codec

variable {α : Type} [Field α] [LinearOrder α] [IsStrictOrderedRing α]
variable (lg ex : α → α) (fin : α → Bool)

/-! ## Round trip -/

/-- INTEGER, DISCRETE and CATEGORICAL parameters: `decode (encode v) = v` exactly, in every
converter configuration (plain index, one-hot with or without the OOV column, continuified
with nearest-feasible decoding under identity / singleton / linear / log / reverse-log scaling,
clipping on or off, either variant of the two repaired defects). -/
theorem c15_roundtrip_exact (L : LogExp lg ex) (hfin : ∀ z, fin z = true) (cfg : Cfg) (p : Param α) (v : PVal α)
    (hnd : ∀ lo hi, p.dom ≠ .double lo hi) (hwf : RTValid p)
    (hin : inDomain (fieldOps lg ex fin) p.dom v = true) :
    ∃ block, encodeValue (fieldOps lg ex fin) cfg p (some v) = .ok block ∧
      decodeBlock (fieldOps lg ex fin) cfg p block = .ok (some v) :=
  roundtrip_param lg ex fin L hfin cfg p v hwf hin

/-- DOUBLE parameters: `decode (encode x) = x` in a lawful ordered field (linear:
`((x-lo)/(hi-lo))·(hi-lo)+lo = x`; log / reverse-log by the inverse-pair law; singleton domain by
the ±1/2 shift; the final clip is the identity on the domain). -/
theorem c15_roundtrip_field (L : LogExp lg ex) (hfin : ∀ z, fin z = true) (cfg : Cfg) (name : String)
    (lo hi x : α) (sc : Scale) (hlh : lo ≤ hi) (hpos : logScaled sc → 0 < lo) (hx1 : lo ≤ x) (hx2 : x ≤ hi) :
    ∃ block, encodeValue (fieldOps lg ex fin) cfg ⟨name, .double lo hi, sc⟩ (some (.dbl x)) = .ok block ∧
      decodeBlock (fieldOps lg ex fin) cfg ⟨name, .double lo hi, sc⟩ block = .ok (some (.dbl x)) :=
  roundtrip_param lg ex fin L hfin cfg ⟨name, .double lo hi, sc⟩ (.dbl x) ⟨hlh, hpos⟩
    (inDomain_double lg ex fin lo hi x hx1 hx2)

/-- whole search space: `to_parameters (to_features [point]) = [point]` -/
theorem c15_roundtrip_space (L : LogExp lg ex) (hfin : ∀ z, fin z = true) (cfg : Cfg)
    (ps : List (Param α)) (point : List (String × PVal α))
    (h : ∀ p ∈ ps, RTValid p ∧ ∃ v, lookup p.name point = some v ∧ inDomain (fieldOps lg ex fin) p.dom v = true) :
    ∃ fs, encode (fieldOps lg ex fin) cfg ps point = .ok fs ∧
      decode (fieldOps lg ex fin) cfg ps fs = .ok (restrict ps point) :=
  roundtrip_space lg ex fin L hfin cfg ps point h

/-! ## Scaled features: unit interval, orientation, monotonicity -/

/-- With scaling on, the feature of a value of the domain lies in `[0, 1]`; for a non-singleton
domain the lower bound maps to 0 and the upper bound to 1 — for LINEAR, LOG and REVERSE_LOG alike
(reverse-log changes the curvature, not the orientation) — and the map is monotone.  A singleton
domain maps to 1/2. -/
theorem c15_unit_interval (L : LogExp lg ex) (hfin : ∀ z, fin z = true) (st : Bool) (low high : α) (sc : Scale)
    (hpos : logScaled sc → 0 < low) (hlh : low ≤ high) :
    (∀ x, low ≤ x → x ≤ high →
      0 ≤ fwd (fieldOps lg ex fin) st (branch (fieldOps lg ex fin) true low high sc) low high x ∧
      fwd (fieldOps lg ex fin) st (branch (fieldOps lg ex fin) true low high sc) low high x ≤ 1) ∧
    (low < high →
      fwd (fieldOps lg ex fin) st (branch (fieldOps lg ex fin) true low high sc) low high low = 0 ∧
      fwd (fieldOps lg ex fin) st (branch (fieldOps lg ex fin) true low high sc) low high high = 1) ∧
    (∀ x y, low ≤ x → x ≤ y → y ≤ high →
      fwd (fieldOps lg ex fin) st (branch (fieldOps lg ex fin) true low high sc) low high x ≤
      fwd (fieldOps lg ex fin) st (branch (fieldOps lg ex fin) true low high sc) low high y) :=
  ⟨fun x h1 h2 => fwd_unit lg ex fin L hfin st low high x sc hpos hlh h1 h2,
   fun hlt => fwd_ends lg ex fin L st low high sc hpos hlt,
   fun x y h1 h2 h3 => fwd_mono lg ex fin L hfin st low high x y sc true hpos hlh h1 h2 h3⟩

/-- the two ways of writing the reverse-log argument (`(low+high)-x` as in the code, and
`low+(high-x)` as in the proposed repair) are the same function over a field: the repair
changes floating-point behaviour only -/
theorem c15_reverse_log_variants_agree (b : Branch) (low high x : α) :
    fwd (fieldOps lg ex fin) true b low high x = fwd (fieldOps lg ex fin) false b low high x :=
  fwd_stable_eq lg ex fin b low high x

/-! ## One-hot blocks -/

/-- The one-hot block of an index spec with OOV padding has `n + 1` entries; entry `j` is 1 iff
`j` is the index of the value and 0 otherwise (so exactly one entry is 1); a missing value sets
the OOV column `n`, a feasible value never does. -/
theorem c15_onehot (cfg : Cfg) (p : Param α) (n : Nat) (v : Option (PVal α))
    (hspec : specOf (fieldOps lg ex fin) cfg p = .index n) (hn : p.dom.numFeasible = some n)
    (hoh : cfg.onehot = true) (hpad : cfg.padOovs = true)
    (hv : v = none ∨ ∃ w, v = some w ∧ inDomain (fieldOps lg ex fin) p.dom w = true) :
    ∃ i, i ≤ n ∧
      encodeValue (fieldOps lg ex fin) cfg p v = .ok ((indic (fieldOps lg ex fin) i 0 (n + 1)).map .num) ∧
      (∀ j, j < n + 1 → (indic (fieldOps lg ex fin) i 0 (n + 1))[j]? = some (if j = i then (1 : α) else 0)) ∧
      (v = none → i = n) ∧ (v ≠ none → i < n) := by
  refine ⟨indexOfValue (fieldOps lg ex fin) p.dom n v, ?_⟩
  have hi : indexOfValue (fieldOps lg ex fin) p.dom n v ≤ n ∧
      (v = none → indexOfValue (fieldOps lg ex fin) p.dom n v = n) ∧
      (v ≠ none → indexOfValue (fieldOps lg ex fin) p.dom n v < n) := by
    rcases hv with rfl | ⟨w, rfl, hw⟩
    · have : indexOfValue (fieldOps lg ex fin) p.dom n none = n := by
        unfold indexOfValue; cases p.dom <;> rfl
      exact ⟨le_of_eq this, fun _ => this, fun h => absurd rfl h⟩
    · have := indexOfValue_lt lg ex fin p.dom n w hn hw
      exact ⟨le_of_lt this, fun h => absurd h (by simp), fun _ => this⟩
  refine ⟨hi.1, ?_, ?_, hi.2.1, hi.2.2⟩
  · unfold encodeValue
    rw [hspec]
    simp only [hoh, if_true, onehotDim, hpad]
    rw [if_pos (by omega)]
  · intro j hj
    rw [indic_getElem? _ _ _ _ _ hj]
    simp only [Nat.zero_add, fo_one, fo_zero]

/-! ## Decoding any array lands in the space -/

/-- FULL STATEMENT one would like (any finite array decodes into the space, no further
hypothesis).  It is false of the code as written: see `c15_decode_drop_counterexample`. -/
def DecodeTotalAsWritten : Prop :=
  ∀ (fin : ℚ → Bool) (cfg : Cfg) (p : Param ℚ) (y : ℚ),
    cfg.clipScaled = false → ValidParam (fieldOps id id fin) cfg p → fin y = true →
    (∀ z, 0 ≤ z → z ≤ 1 → fin z = true) →
    (∀ lo hi, p.dom = .double lo hi → ∀ z, lo ≤ z → z ≤ hi → fin z = true) →
    ∃ v, decodeBlock (fieldOps id id fin) cfg p [.num y] = .ok (some v)

/-- PROVED PART (code as written or repaired): for every flat valid space and every converter
configuration with clipping on, every feature vector of the right shape whose continuous
entries are finite *after un-scaling* (hypothesis inside `GoodFeats`/`GoodBlock`) and whose index
entries are list indices decodes to an assignment of every parameter of the space, each exactly
once, each inside its domain.  The array itself is arbitrary: whatever an optimiser produces. -/
theorem c15_decode_total_in_space (cfg : Cfg) (ps : List (Param α)) (fs : List (Feat α))
    (hnd : (ps.map (·.name)).Nodup)
    (hv : ∀ p ∈ ps, ValidParam (fieldOps lg ex fin) cfg p)
    (hg : GoodFeats (fieldOps lg ex fin) cfg ps fs) :
    ∃ a, decode (fieldOps lg ex fin) cfg ps fs = .ok a ∧ inSpace (fieldOps lg ex fin) ps a = true ∧
      a.map (·.1) = ps.map (·.name) := by
  obtain ⟨a, ha1, ha2⟩ := decode_assignOK lg ex fin cfg ps fs hv hg
  exact ⟨a, ha1, inSpace_of_assignOK _ ps a hnd ha2, assignOK_names _ ps a ha2⟩

/-- REPAIRED VARIANT (`clipScaled`): with scaling and clipping on, the hypothesis "finite after
un-scaling" follows from "the array entry is finite" (plus: values between finite bounds, and in
the unit interval, are finite — true of floats).  So every finite array decodes into the space. -/
theorem c15_decode_total_fixed (L : LogExp lg ex) (cfg : Cfg) (p : Param α) (low high y : α)
    (hspec : specOf (fieldOps lg ex fin) cfg p = .continuous low high)
    (hcs : cfg.clipScaled = true) (hclip : cfg.shouldClip = true) (hscale : cfg.scale = true)
    (hy : fin y = true) (hpos : logScaled p.scale → 0 < low) (hlh : low ≤ high)
    (hunit : ∀ z, 0 ≤ z → z ≤ 1 → fin z = true) (hrange : ∀ z, low ≤ z → z ≤ high → fin z = true) :
    GoodBlock (fieldOps lg ex fin) cfg p [.num y] := by
  unfold GoodBlock
  rw [hspec]
  exact ⟨y, rfl, unscale_finite_fixed lg ex fin L cfg low high y p.scale hcs hclip hscale hy hpos hlh hunit hrange⟩

/-- witness carrier: the rationals, "finite" = of absolute value at most 1000 -/
def finQ : ℚ → Bool := fun z => decide (|z| ≤ 1000)
def cfgWritten : Cfg := { scale := true, onehot := true, padOovs := true, shouldClip := true, maxDiscrete := some 0,
                          clipScaled := false, stableRlog := false }
def cfgFixed : Cfg := { cfgWritten with clipScaled := true }
def pWitness : Param ℚ := ⟨"x", .double 0 10, .linear⟩

/-- D11, the shape of the defect on an exact carrier: the finite entry 1000 un-scales to 10000,
which is not finite in the carrier, and the parameter is dropped (`none`) … -/
theorem c15_decode_drop_witness :
    decodeBlock (fieldOps id id finQ) cfgWritten pWitness [.num 1000] = .ok none := by
  simp only [decodeBlock, specOf, pWitness, cfgWritten, branch, unscale, bwd, toParameterValue, fo_cast, fo_beq, fo_sub,
    fo_one, fo_zero, fo_add, fo_mul, fo_finite, finQ]
  norm_num
  intro h; cases h

/-- … so the full statement fails for the code as written … -/
theorem c15_decode_drop_counterexample : ¬ DecodeTotalAsWritten := by
  intro h
  have hvalid : ValidParam (fieldOps id id finQ) cfgWritten pWitness := by
    refine ⟨⟨by norm_num, rfl⟩, ?_⟩
    simp only [specOf, pWitness, cfgWritten, branch, fo_cast, fo_beq, fo_sub, fo_one, fo_zero]
    norm_num
    intro h; cases h
  obtain ⟨v, hv⟩ := h finQ cfgWritten pWitness 1000 rfl hvalid (by simp [finQ])
    (by intro z h0 h1; simp only [finQ, decide_eq_true_eq]; rw [abs_of_nonneg h0]; linarith)
    (by
      intro lo hi hd z h0 h1
      simp only [pWitness, Domain.double.injEq] at hd
      obtain ⟨rfl, rfl⟩ := hd
      simp only [finQ, decide_eq_true_eq]; rw [abs_of_nonneg h0]; linarith)
  rw [c15_decode_drop_witness] at hv
  cases hv

/-- … while the repaired variant decodes the same entry to the upper bound. -/
theorem c15_decode_fixed_witness :
    decodeBlock (fieldOps id id finQ) cfgFixed pWitness [.num 1000] = .ok (some (.dbl 10)) := by
  simp only [decodeBlock, specOf, pWitness, cfgFixed, cfgWritten, branch, unscale, bwd, toParameterValue, outBounds, clip,
    fo_cast, fo_beq, fo_sub, fo_one, fo_zero, fo_add, fo_mul, fo_finite, fo_lt, finQ]
  norm_num
  intro h; cases h

/-! ## Labels -/

/-- objective metrics: converting to model form and back is the identity under either sign
convention (negation is an involution) -/
theorem c15_labels_roundtrip (flip : Bool) (x : α) :
    toMetric (fieldOps lg ex fin) ⟨flip, none⟩ (convertLabel (fieldOps lg ex fin) ⟨flip, none⟩ x) = x := by
  cases flip <;> simp [toMetric, convertLabel]

/-- NOT claimed for safety metrics with shifting: the threshold is subtracted in both
directions (as the property text documents) -/
theorem c15_labels_safety_shift_not_inverse :
    toMetric (fieldOps id id finQ) ⟨false, some 1⟩ (convertLabel (fieldOps id id finQ) ⟨false, some 1⟩ 0) ≠ 0 := by
  simp [toMetric, convertLabel]
  norm_num

/-! ## Non-vacuity: the hypotheses are satisfiable -/

/-- a lawful `log`/`exp` pair exists over the rationals (piecewise rational bijection
`ℚ ≃ ℚ_{>0}`), so the log / reverse-log theorems are not vacuous -/
def exQ (y : ℚ) : ℚ := if 0 ≤ y then y + 1 else 1 / (1 - y)
def lgQ (x : ℚ) : ℚ := if 1 ≤ x then x - 1 else 1 - 1 / x

theorem logExpQ : LogExp lgQ exQ where
  exp_log x hx := by
    unfold lgQ exQ
    by_cases h1 : 1 ≤ x
    · simp only [h1, if_true]; rw [if_pos (by linarith)]; ring
    · simp only [h1, if_false]
      have hx1 : x < 1 := not_le.mp h1
      have : ¬ (0 : ℚ) ≤ 1 - 1 / x := by
        rw [not_le, sub_neg, lt_div_iff₀ hx]; linarith
      rw [if_neg this]
      field_simp
      ring
  log_exp y := by
    unfold lgQ exQ
    by_cases h0 : 0 ≤ y
    · simp only [h0, if_true]; rw [if_pos (by linarith)]; ring
    · simp only [h0, if_false]
      have hy : y < 0 := not_le.mp h0
      have hp : 0 < 1 - y := by linarith
      have : ¬ (1 : ℚ) ≤ 1 / (1 - y) := by
        rw [not_le, div_lt_one hp]; linarith
      rw [if_neg this]
      field_simp
      ring
  exp_pos y := by
    unfold exQ
    by_cases h0 : 0 ≤ y
    · simp only [h0, if_true]; linarith
    · simp only [h0, if_false]
      have hy : y < 0 := not_le.mp h0
      exact div_pos one_pos (by linarith)
  log_lt x y hx hxy := by
    unfold lgQ
    have hy : 0 < y := lt_trans hx hxy
    by_cases h1 : 1 ≤ x
    · rw [if_pos h1, if_pos (by linarith)]; linarith
    · rw [if_neg h1]
      have hx1 : x < 1 := not_le.mp h1
      by_cases h2 : 1 ≤ y
      · rw [if_pos h2]
        have : 1 < 1 / x := by rw [lt_div_iff₀ hx]; linarith
        linarith
      · rw [if_neg h2]
        have : 1 / y < 1 / x := one_div_lt_one_div_of_lt hx hxy
        linarith

/-- a concrete reachable instance of every hypothesis: a LOG-scaled DOUBLE parameter on [1, 4]
over ℚ round-trips the point 2 -/
example : ∃ block, encodeValue (fieldOps lgQ exQ (fun _ => true)) cfgWritten ⟨"lr", .double 1 4, .log⟩ (some (.dbl 2)) = .ok block ∧
    decodeBlock (fieldOps lgQ exQ (fun _ => true)) cfgWritten ⟨"lr", .double 1 4, .log⟩ block = .ok (some (.dbl 2)) :=
  c15_roundtrip_field lgQ exQ (fun _ => true) logExpQ (fun _ => rfl) cfgWritten "lr" 1 4 2 .log (by norm_num)
    (fun _ => by norm_num) (by norm_num) (by norm_num)

/-- … and a continuified INTEGER parameter [3, 20] under reverse-log scaling round-trips 7 -/
example : ∃ block, encodeValue (fieldOps lgQ exQ (fun _ => true)) cfgWritten ⟨"n", .integer 3 20, .reverseLog⟩ (some (.int 7)) = .ok block ∧
    decodeBlock (fieldOps lgQ exQ (fun _ => true)) cfgWritten ⟨"n", .integer 3 20, .reverseLog⟩ block = .ok (some (.int 7)) :=
  c15_roundtrip_exact lgQ exQ (fun _ => true) logExpQ (fun _ => rfl) cfgWritten ⟨"n", .integer 3 20, .reverseLog⟩ (.int 7)
    (by intro lo hi h; cases h) ⟨by norm_num, fun _ => by norm_num⟩ (by simp [inDomain])

end VizierModel.C15
