/-
C13 — a restarted stateful algorithm continues exactly like one that never stopped.
Property theorems only; helper lemmas are in `Lemmas/Restart*.lean`.
-/
import VizierModel.Lemmas.RestartGrid
import Mathlib.Data.Set.Function

namespace VizierModel.C13
open VizierModel.Restart

variable {σ τ ο μ κ : Type}

/-! ## Generic: the `PartiallySerializable` contract lifts to every placement of restarts -/

/-- If `load ∘ dump` (into a freshly constructed instance, whatever the constructor drew from the
environment) is observationally the identity on reachable states, then for every history of
updates and suggestion requests and every subset of steps before which a restart
dump → fresh → load is inserted, the sequence of suggested batches equals the live run's.

This is the PROVED PART of `Designer.RestartTransparent` for designers whose state is numeric
arrays plus library RNG state (eagle strategy, NSGA-II, CMA-ES): for them the hypothesis is not
proved in Lean, it is established per run by the differential check on the real code. -/
theorem c13_restart_transparent (D : Designer σ τ ο μ κ) (h : D.LoadDumpIdentity) :
    D.RestartTransparent :=
  fun k0 steps rs =>
    D.runRestart_eq_runLive h steps rs (D.fresh k0) (D.fresh k0) (.fresh k0) (Designer.ObsEq.refl D _)

/-- same, started from any reachable pair of equivalent states, and the final states are
again equivalent (so the study can go on) -/
theorem c13_restart_transparent_from (D : Designer σ τ ο μ κ) (h : D.LoadDumpIdentity)
    (sA sB : σ) (hB : D.Reach sB) (hE : D.ObsEq sB sA) (steps : List (Step τ)) (rs : List (Option κ)) :
    D.runRestart sB steps rs = D.runLive sA steps ∧
      D.ObsEq (D.endRestart sB steps rs) (D.endLive sA steps) :=
  ⟨D.runRestart_eq_runLive h steps rs sA sB hB hE, (D.endRestart_obsEq_endLive h steps rs sA sB hB hE).2⟩

/-! ## Grid search -/

section Grid
variable {V : Type} [Inhabited V]

/-- the premise for the grid designer: on every reachable state, dump → fresh (with ANY
construction seed) → load gives back the very same state -/
theorem c13_grid_state_roundtrip (τ : Type) (c : GridCfg V) :
    (∀ s, (gridDesigner τ c).Reach s → ∀ k, (gridDesigner τ c).restart k s = s) ∧
      (gridDesigner τ c).LoadDumpIdentity :=
  ⟨fun s hs k => grid_restart_id τ c s k ((grid_inv_and_contract τ c).1 s hs),
    (grid_inv_and_contract τ c).2⟩

theorem c13_grid_restart_transparent (τ : Type) (c : GridCfg V) :
    (gridDesigner τ c).RestartTransparent :=
  c13_restart_transparent _ (c13_grid_state_roundtrip τ c).2

/-- mixed radix: for lengths `l₁..lₙ > 0` and `N = ∏ lᵢ`, `i ↦ digits i`
(`p_index = temp_index % p_length; temp_index //= p_length`) is a bijection between
`{0..N-1}` and the box `∏ [0, lᵢ)` -/
theorem c13_grid_bijection (ls : List Nat) (hpos : ∀ l ∈ ls, 0 < l) :
    Set.BijOn (digits ls) {i | i < ls.prod} {ds | InBox ls ds} := by
  refine ⟨fun i _ => digits_inBox ls hpos i, ?_, ?_⟩
  · intro i hi j hj h
    have := congrArg (undigits ls) h
    rwa [undigits_digits ls i hi, undigits_digits ls j hj] at this
  · intro ds hds
    exact ⟨undigits ls ds, undigits_lt ls ds hds, digits_undigits ls ds hds⟩

/-- the whole suggestion stream of any run with restarts is `pointAt 0, pointAt 1, …` -/
theorem c13_grid_run_enumerates (τ : Type) (c : GridCfg V) (k0 : Option Int)
    (steps : List (Step τ)) (rs : List (Option (Option Int))) :
    ((gridDesigner τ c).runRestart ((gridDesigner τ c).fresh k0) steps rs).flatten =
      (List.range (totalCount steps)).map (pointAt (c.effective k0)) := by
  rw [c13_grid_restart_transparent τ c k0 steps rs, grid_runLive_flatten, List.range_eq_range']
  rfl

/-- Any sequence of batch sizes summing to `N`, with restarts anywhere (and whatever seed the
rebuilt instances are constructed with), suggests every grid point exactly once; the next `N`
suggestions repeat them in the same order. -/
theorem c13_grid_each_point_once (τ : Type) (c : GridCfg V) (k0 : Option Int)
    (hpos : GridPos (c.effective k0)) (hnd : GridNodup (c.effective k0))
    (steps steps' : List (Step τ)) (rs : List (Option (Option Int)))
    (hN : totalCount steps = gridSize (c.effective k0))
    (hN' : totalCount steps' = gridSize (c.effective k0)) :
    let D := gridDesigner τ c
    let out := (D.runRestart (D.fresh k0) (steps ++ steps') rs).flatten
    let first := out.take (gridSize (c.effective k0))
    let next := out.drop (gridSize (c.effective k0))
    first = gridEnum (c.effective k0) ∧ first.Nodup ∧
      (∀ p, p ∈ first ↔ IsGridPoint (c.effective k0) p) ∧ next = first := by
  intro D out first next
  have hT : totalCount (steps ++ steps') = gridSize (c.effective k0) + gridSize (c.effective k0) := by
    simp only [totalCount, List.map_append, List.sum_append] at *
    rw [hN, hN']
  have hout : out = gridEnum (c.effective k0) ++ gridEnum (c.effective k0) := by
    show ((gridDesigner τ c).runRestart ((gridDesigner τ c).fresh k0) (steps ++ steps') rs).flatten = _
    rw [c13_grid_run_enumerates, hT, List.range_eq_range', ← List.range'_append_1, List.map_append,
      map_pointAt_shift]
    simp [gridEnum, List.range_eq_range']
  have hlen : (gridEnum (c.effective k0)).length = gridSize (c.effective k0) := by simp [gridEnum]
  have hfirst : first = gridEnum (c.effective k0) := by
    show out.take _ = _
    rw [hout, List.take_left' hlen]
  have hnext : next = gridEnum (c.effective k0) := by
    show out.drop _ = _
    rw [hout, List.drop_left' hlen]
  refine ⟨hfirst, ?_, ?_, ?_⟩
  · rw [hfirst]; exact gridEnum_nodup _ hpos hnd
  · intro p; rw [hfirst]; exact mem_gridEnum _ hpos p
  · rw [hnext, hfirst]

/-- What the service lets one observe (the trials of one response are created together): after
EVERY request of any run with restarts, no grid point has been suggested two times more often
than another and nothing but grid points has been suggested.  (`firstUnbalanced` applies
`countsBalanced` to every prefix of batches; a prefix of a run is a run.) -/
theorem c13_grid_prefix_balanced [BEq (List (String × V))] [LawfulBEq (List (String × V))]
    (τ : Type) (c : GridCfg V) (k0 : Option Int)
    (hpos : GridPos (c.effective k0)) (hnd : GridNodup (c.effective k0))
    (steps : List (Step τ)) (rs : List (Option (Option Int))) :
    countsBalanced (gridEnum (c.effective k0))
      ((gridDesigner τ c).runRestart ((gridDesigner τ c).fresh k0) steps rs).flatten = true := by
  rw [c13_grid_run_enumerates]
  exact cyc_balanced _ hpos hnd _

omit [Inhabited V] in
/-- The shuffle is only assumed to be a permutation determined by the seed (parameters permuted,
every value list permuted).  Then the shuffled grid has the hypotheses of
`c13_grid_each_point_once` whenever the unshuffled one has, the same number of points, and its
points are — read as dictionaries — exactly the points of the unshuffled grid. -/
theorem c13_shuffled_grid_same_points (c : GridCfg V)
    (hsh : ∀ s, ShuffleOf c.base (c.shuffle s c.base)) (k : Option Int)
    (hpos : GridPos c.base) (hnd : GridNodup c.base) :
    GridPos (c.effective k) ∧ GridNodup (c.effective k) ∧
      gridSize (c.effective k) = gridSize c.base ∧
      (∀ p', IsGridPoint (c.effective k) p' → ∃ p, p.Perm p' ∧ IsGridPoint c.base p) ∧
      (∀ p, IsGridPoint c.base p → ∃ p', p'.Perm p ∧ IsGridPoint (c.effective k) p') := by
  have h : ShuffleOf c.base (c.effective k) := by
    cases k with
    | none => exact ShuffleOf.refl _
    | some s => exact hsh s
  exact ⟨h.gridPos hpos, h.gridNodup hnd, h.gridSize_eq, h.point_iff.1, h.point_iff.2⟩

/-- the judge the check applies to the REAL suggestions is sound and complete for
"is a permutation of the grid enumeration" -/
theorem c13_judge_correct [DecidableEq V] (gv : GridValues V) (hpos : GridPos gv) (hnd : GridNodup gv)
    (obs : List (List (String × V))) :
    eachOnceB (gridEnum gv) obs = true ↔ obs.Perm (gridEnum gv) :=
  ⟨eachOnceB_sound _ _, eachOnceB_complete _ _ (gridEnum_nodup gv hpos hnd)⟩

end Grid

/-! ## Quasi-random search -/

theorem c13_halton_state_roundtrip {P ο : Type} (τ : Type) (c : HaltonCfg P ο) :
    (∀ s, (haltonDesigner τ c).Reach s → ∀ k, (haltonDesigner τ c).restart k s = s) ∧
      (haltonDesigner τ c).LoadDumpIdentity :=
  ⟨fun s hs k => halton_restart_id τ c s k ((halton_inv_and_contract τ c).1 s hs),
    (halton_inv_and_contract τ c).2⟩

theorem c13_halton_restart_transparent {P ο : Type} (τ : Type) (c : HaltonCfg P ο) :
    (haltonDesigner τ c).RestartTransparent :=
  c13_restart_transparent _ (c13_halton_state_roundtrip τ c).2

/-- with restarts anywhere, the `j`-th suggestion of the study is the Halton point number
`skip_points + j` of the seed the study started with: nothing is skipped, nothing repeated -/
theorem c13_halton_sequence {P ο : Type} (τ : Type) (c : HaltonCfg P ο) (k0 : Int)
    (steps : List (Step τ)) (rs : List (Option Int)) :
    ((haltonDesigner τ c).runRestart ((haltonDesigner τ c).fresh k0) steps rs).flatten =
      (List.range' c.skip0 (totalCount steps)).map (fun k => c.toSuggestion (c.H k0 k)) := by
  rw [c13_halton_restart_transparent τ c k0 steps rs, halton_runLive_flatten]
  rfl

/-! ## Evolution template: the phase counter -/

/-- templates.py as written (`dump()` = the population only): the contract FAILS — after a
restart the designer is back in its sampling phase.  Witness: two completed trials delivered,
`first_survival_after = 2`, a restart before the second suggest. -/
theorem c13_evolution_counter_counterexample : ¬ (evoDesigner false 2).RestartTransparent := by
  intro h
  exact absurd (h () [([1, 2], 1), ([], 1)] [none, some ()]) (by decide)

/-- with the counter in the dump the contract holds for every threshold -/
theorem c13_evolution_roundtrip (n : Nat) :
    (evoDesigner true n).LoadDumpIdentity ∧ (evoDesigner true n).RestartTransparent := by
  have h : (evoDesigner true n).LoadDumpIdentity :=
    (Designer.loadDumpIdentity_of_invariant (evoDesigner true n) (fun _ => True)
      (fun _ => trivial) (fun _ _ _ => trivial) (fun _ _ _ => trivial)
      (fun s k _ => by cases s; simp [Designer.restart, evoDesigner])).2
  exact ⟨h, c13_restart_transparent _ h⟩

/-! ## Non-vacuity -/

/-- a concrete grid satisfying the hypotheses, with its enumeration (first parameter fastest) -/
example :
    GridPos ([("a", [0, 1, 2]), ("b", [7, 8])] : GridValues Nat) ∧
    GridNodup ([("a", [0, 1, 2]), ("b", [7, 8])] : GridValues Nat) ∧
    gridEnum ([("a", [0, 1, 2]), ("b", [7, 8])] : GridValues Nat) =
      [[("a", 0), ("b", 7)], [("a", 1), ("b", 7)], [("a", 2), ("b", 7)],
       [("a", 0), ("b", 8)], [("a", 1), ("b", 8)], [("a", 2), ("b", 8)]] := by
  refine ⟨?_, ?_, by decide⟩
  · intro g hg; simp at hg; rcases hg with rfl | rfl <;> simp
  · intro g hg; simp at hg; rcases hg with rfl | rfl <;> decide

/-- a run with a restart in the middle on that grid (batches 2,3,1 then 6) -/
example :
    let c : GridCfg Nat := { base := [("a", [0, 1, 2]), ("b", [7, 8])], shuffle := fun _ g => g.reverse }
    ((gridDesigner Unit c).runRestart ((gridDesigner Unit c).fresh none)
        [((), 2), ((), 3), ((), 1)] [none, some (some 5), some none]).flatten = gridEnum c.base := by
  decide

/-- the permutation hypothesis of `c13_shuffled_grid_same_points` is satisfiable by a genuine
reordering (parameters reversed) -/
example (gv : GridValues Nat) : ShuffleOf gv gv.reverse :=
  ⟨gv, List.forall₂_same.mpr (fun _ _ => ⟨rfl, List.Perm.refl _⟩), List.reverse_perm gv⟩

end VizierModel.C13
