/-
C06 — a failing algorithm is reported and never wedges the study.  Property theorems only.
-/
import VizierModel.Lemmas.ServiceEs

namespace VizierModel.C06
open VizierModel.Svc

/-- MAIN (suggest side): for every history of calls and every algorithm behaviour — raising any
    exception at any call, delivering 0 … N+k suggestions — the repaired service never leaves an
    unfinished suggestion operation in the datastore. -/
theorem c06_no_pending_operation (cfg : Cfg) (hc : cfg.shortDeliveryOk = true) (hc2 : cfg.suggestCatchesAll = true)
    (hc3 : cfg.deleteCascadesOps = true) (h : List Req) :
    ∀ st ∈ (run cfg DB.empty h).studies, ∀ o ∈ st.sugOps, o.done = true :=
  run_pendingFree cfg hc hc2 hc3 DB.empty h (by intro st hst; cases hst)

/-- hence every SuggestTrials call is answered with a NEW, finished operation (never from an
    abandoned one) … -/
theorem c06_answer_is_fresh_and_done (cfg : Cfg) (hc : cfg.shortDeliveryOk = true) (hc2 : cfg.suggestCatchesAll = true)
    (st : Study) (w : String) (n : Nat) (alg : AlgOutcome) (h : PendingFree st) :
    ∃ o, (suggestBody cfg st w n alg).1.opOf = some o ∧ o.done = true ∧ o.client = w ∧
      o.num = (opsOf st w).length + 1 :=
  suggestBody_fresh_done cfg hc hc2 st w n alg h

/-- … and when new trials are needed and the algorithm raises, the caller is told: the finished
    operation carries an error -/
theorem c06_failure_is_reported (cfg : Cfg) (hc2 : cfg.suggestCatchesAll = true) (st : Study) (w : String) (n : Nat)
    (alg : AlgOutcome) (h : PendingFree st) (halg : alg = .raisesRpc ∨ alg = .raisesOther)
    (hneed : (ownActive st w).length + (pool st).length < n) :
    ∃ o, (suggestBody cfg st w n alg).1.opOf = some o ∧ o.done = true ∧ o.result = .error :=
  suggestBody_reports_failure cfg hc2 st w n alg h halg hneed

/-- a short delivery is handed out as it is -/
theorem c06_short_delivery_handed_out (cfg : Cfg) (hc : cfg.shortDeliveryOk = true) (st : Study) (w : String) (n : Nat)
    (sugg : List Sugg) (h : PendingFree st)
    (hshort : (ownActive st w).length + (pool st).length + sugg.length < n) :
    (suggestBody cfg st w n (.suggestions sugg [])).1.handed.length =
      (ownActive st w).length + (pool st).length + sugg.length := by
  rw [suggest_count cfg hc st w n sugg (pendingFree_find st h w)]; omega

/-- whatever was stored before the failure still satisfies the lifecycle invariants: the step
    theorem of C01 holds for every algorithm outcome and every variant -/
theorem c06_failure_preserves_invariants (cfg : Cfg) (h : List Req) (r : Req) :
    Inv (step cfg (run cfg DB.empty h) r).2 :=
  (step_ok cfg _ r (run_inv cfg DB.empty h inv_empty)).1

/-- early-stopping side: an exception from the algorithm finishes the trial's record -/
theorem c06_earlystop_failure_finishes_record (cfg : Cfg) (hc : cfg.esFailureFinishesOp = true) (st : Study) (id : Nat) :
    esOpOf (esCompute cfg st id .raises).2 id = some { trialId := id, active := false, shouldStop := false } :=
  (esCompute_raises_finishes cfg hc st id).2

/-! ### the code at the pinned commit violates the property (kernel-checked witnesses) -/

def legacy : Cfg :=
  { Cfg.fixed with suggestCatchesAll := false, shortDeliveryOk := false, esFailureFinishesOp := false,
                   resumesAbandonedOp := false, esResumesActive := false }

def isStale : Resp → Bool
  | .op _ o _ => !o.done
  | _ => false

/-- in-process Pythia raises once; the operation stays done=False and is returned on every later
    call although the algorithm would now succeed -/
theorem c06_legacy_wedge_counterexample :
    let h := [ Req.createStudy "o" "s" false .active 0 [], .suggest "o" "s" "w" 1 .raisesOther ]
    let db := run legacy DB.empty h
    isStale (step legacy db (.suggest "o" "s" "w" 1 (.suggestions [⟨1, []⟩] []))).1 = true ∧
    (step legacy db (.suggest "o" "s" "w" 1 (.suggestions [⟨1, []⟩] []))).2.studies.map (·.trials.length) = [0] := by
  decide

/-- under-delivery: IndexError, same wedge -/
theorem c06_legacy_short_delivery_counterexample :
    let h := [ Req.createStudy "o" "s" false .active 0 [], .suggest "o" "s" "w" 2 (.suggestions [⟨1, []⟩] []) ]
    let db := run legacy DB.empty h
    isStale (step legacy db (.suggest "o" "s" "w" 2 (.suggestions [⟨2, []⟩, ⟨3, []⟩] []))).1 = true := by
  decide

/-- early stopping: after one failure the ACTIVE record answers every later check, whatever the
    algorithm would say (pinned commit: the failure leaves the record ACTIVE, and an ACTIVE record is
    returned, not recomputed) -/
theorem c06_legacy_earlystop_wedge (cfg : Cfg) (hc : cfg.esFailureFinishesOp = false)
    (hra : cfg.esResumesActive = false) (st : Study) (id : Nat)
    (t : Trial) (o : EsOp) (ht : st.findTrial id = some t) (hm : t.state.mutable = true)
    (ho : esOpOf st id = some o) (hact : o.active = true) (es : EsOutcome) :
    (esCompute cfg st id .raises).2 = st ∧ earlyStopBody cfg st id es = (.earlyStop o.shouldStop, st) :=
  ⟨esCompute_raises_legacy cfg hc st id, earlyStop_active_record_is_returned cfg hra st id t o ht hm ho hact es⟩

end VizierModel.C06
