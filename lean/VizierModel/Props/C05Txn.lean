/-
C05 - the premise of the crash model, decided on the CURRENT source: every method of SQLDataStore is one
transaction.  The per-method control-flow paths are regenerated from the AST of sql_datastore.py on every run
(harness/translators/sql_txn.py -> Generated/SqlTxn.lean).
-/
import VizierModel.Lemmas.SqlTxn

namespace VizierModel.C05
open VizierModel.Generated.SqlTxn VizierModel.SqlTxn

/-- the datastore methods the service calls; each must be present in the regenerated table -/
def expectedSqlMethods : List String :=
  ["create_early_stopping_operation", "create_study", "create_suggestion_operation", "create_trial", "delete_study",
   "delete_trial", "get_early_stopping_operation", "get_suggestion_operation", "get_trial", "list_studies",
   "list_suggestion_operations", "list_trials", "load_study", "max_suggestion_operation_number", "max_trial_id",
   "update_early_stopping_operation", "update_metadata", "update_study", "update_suggestion_operation", "update_trial"]

/-- **Every SQL datastore call is one transaction** (obligation on the regenerated shape): on every
control-flow path of every method - both branches of every `if`, 0 / 1 / 2 loop iterations, every failing
`_write_or_rollback` continued in its handlers - the writes are made durable by at most one `commit()`, the
method returns with nothing pending, and it leaves by an exception only with nothing pending and nothing
committed; the helper rolls back before it re-raises; no method is missing. -/
theorem c05_sql_calls_are_single_transactions :
    (sqlTxnPaths.all fun m => !m.2.isEmpty && m.2.all pathOK) = true ∧
    helperRollsBackThenRaises = true ∧
    (expectedSqlMethods.all fun n => sqlTxnPaths.any (·.1 == n)) = true := by decide

/-- **What the shape buys** (for ANY safe path, not only the ones of today's source): a crash after any
prefix of the path leaves on disk either what was there before the call or what the whole call leaves - a
call is applied as a whole or not at all - and a call that raises has changed nothing. -/
theorem c05_safe_path_all_or_nothing (es : List TxEv) (h : pathOK es = true) (disk : List Nat) (k : Nat) :
    let d0 : Db := { disk := disk, pend := [], next := 0 }
    ((runDb d0 (es.take k)).disk = disk ∨ (runDb d0 (es.take k)).disk = (runDb d0 es).disk) ∧
    (es.getLast? = some .raise → (runDb d0 es).disk = disk) := by
  intro d0
  exact ⟨all_or_nothing_aux es false d0 h (fun _ => rfl) k,
    fun hl => raise_changes_nothing es false d0 h (fun _ => rfl) hl⟩

/-- every path of every method of the current source enjoys it -/
theorem c05_sql_calls_all_or_nothing (name : String) (paths : List (List TxEv)) (hm : (name, paths) ∈ sqlTxnPaths)
    (es : List TxEv) (he : es ∈ paths) (disk : List Nat) (k : Nat) :
    let d0 : Db := { disk := disk, pend := [], next := 0 }
    ((runDb d0 (es.take k)).disk = disk ∨ (runDb d0 (es.take k)).disk = (runDb d0 es).disk) ∧
    (es.getLast? = some .raise → (runDb d0 es).disk = disk) := by
  have hall := c05_sql_calls_are_single_transactions.1
  rw [List.all_eq_true] at hall
  have h1 := hall (name, paths) hm
  simp only [Bool.and_eq_true, List.all_eq_true] at h1
  exact c05_safe_path_all_or_nothing es (h1.2 es he) disk k

/-- non-vacuity / the statements bite: `delete_study`'s four deletes become durable together at the commit
(prefixes before it leave the disk untouched); without the commit, or with a commit after every statement
(driver-level autocommit), or with a raise after a pending write, the path is not safe -/
example :
    pathOK [.r, .wrb, .wrb, .wrb, .wrb, .commit, .ret] = true ∧
    (runDb ⟨[], [], 0⟩ [.r, .wrb, .wrb, .wrb]).disk = [] ∧
    (runDb ⟨[], [], 0⟩ [.r, .wrb, .wrb, .wrb, .wrb, .commit, .ret]).disk = [0, 1, 2, 3] ∧
    pathOK [.r, .wrb, .ret] = false ∧
    pathOK [.r, .wrb, .commit, .wrb, .commit, .ret] = false ∧
    pathOK [.r, .wrb, .r, .raise] = false ∧
    pathOK [.r, .wrb, .r, .rollback, .raise] = true := by decide

end VizierModel.C05
