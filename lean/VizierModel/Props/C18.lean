/-
C18 — output warping keeps the ranking of trials and always yields finite labels.
Property theorems only; the model is `Model/Warp.lean`, helper lemmas are in `Lemmas/Warp*.lean`.

Carrier: an arbitrary linearly ordered field `α`; NaN (an infeasible trial) is `none` and is
the bottom element of the order `leO`/`ltO` on `Option α`.  The library functions are abstract
(`Fns`), constrained only by `FnsOK` (Φ⁻¹ strictly increasing and negative on (0,½), sqrt
positive on positives, log1p strictly increasing on [0,∞), exp∘log1p = 1+·, the gaussian
quantile map weakly increasing) and `OffsetOK` (offset > 1, log offset > 0).
Nothing here is about IEEE arithmetic (D12b is a float-resolution finding of the tie).
-/
import VizierModel.Lemmas.WarpOutlier
import Mathlib.Algebra.Order.Field.Rat

set_option linter.unusedSectionVars false

namespace VizierModel.C18
open VizierModel.Warp

variable {α : Type} [Field α] [LinearOrder α] [IsStrictOrderedRing α]

/-! ## non-vacuity: the hypotheses are satisfiable (by the surrogates the driver uses) -/

theorem ratFns_ok : FnsOK ratFns where
  ppf_strict := by intro p q _ h _; simp only [ratFns]; linarith
  ppf_neg := by intro q _ h; simp only [ratFns]; linarith
  sqrt_nonneg := by intro x h; simpa [ratFns] using h
  sqrt_pos := by intro x h; simpa [ratFns] using h
  log1p_strict := by intro x y _ h; simpa [ratFns] using h
  exp_log1p := by intro x _; simp [ratFns]
  gauss_mono := by intro x y h; simpa [ratFns] using h

theorem ratOffset_ok : OffsetOK ratFns (3 / 2) where
  one_lt := by norm_num
  log_pos := by simp only [ratFns]; norm_num

/-! ## shape -/

/-- `_validate_labels` keeps the length, rejects exactly the arrays containing `+inf`, and
maps `-inf` to NaN -/
theorem c18_validate (raw : List (Raw α)) :
    ((∃ e, validate raw = .error e) ↔ ∃ r ∈ raw, r.isPosInf = true) ∧
      ∀ l, validate raw = .ok l → l.length = raw.length ∧ l = raw.map Raw.toOpt := by
  refine ⟨validate_error_iff raw, ?_⟩
  intro l h
  have := validate_ok h
  subst this
  simp

/-- every component and both pipelines return an array of the length of their input -/
theorem c18_shape (F : Fns α) (o z lo hi : α) (flag : Bool) (l : List (Option α)) :
    (halfRank F flag l).length = l.length ∧ (logWarp F o l).length = l.length ∧
    (infeasible l).length = l.length ∧ (detectOutliers F z l).length = l.length ∧
    (zscore F l).length = l.length ∧ (normalize lo hi l).length = l.length ∧
    (transformToGaussian F l).length = l.length := by
  refine ⟨?_, ?_, ?_, ?_, ?_, ?_, ?_⟩
  · unfold halfRank; split <;> [rfl; (split <;> simp)]
  · unfold logWarp; split <;> simp
  · unfold infeasible; split <;> simp
  · unfold detectOutliers; split <;> simp
  · unfold zscore; simp only; split <;> simp
  · unfold normalize; split <;> simp
  · unfold transformToGaussian; split <;> [(split <;> simp); simp]

theorem c18_shape_pipeline (ws : List (List (Option α) → List (Option α)))
    (hws : ∀ w ∈ ws, ∀ l, (w l).length = l.length) (raw : List (Raw α))
    (out : List (Option α)) (h : pipeline ws raw = .ok out) : out.length = raw.length := by
  unfold pipeline at h
  cases hv : validate raw with
  | error e => simp [hv] at h
  | ok l =>
    have hl : l.length = raw.length := ((c18_validate raw).2 l hv).1
    simp only [hv] at h
    have hfold : ∀ (ws : List (List (Option α) → List (Option α))),
        (∀ w ∈ ws, ∀ l, (w l).length = l.length) → ∀ l : List (Option α),
        (ws.foldl (fun acc w => w acc) l).length = l.length := by
      intro ws
      induction ws with
      | nil => intro _ l; rfl
      | cons w t ih =>
        intro hw l
        rw [List.foldl_cons, ih (fun w' hw' => hw w' (List.mem_cons_of_mem _ hw')),
          hw w List.mem_cons_self]
    split at h
    · cases h; simpa using hl
    · split at h
      · cases h; simpa using hl
      · cases h; rw [hfold ws hws, hl]

/-! ## no component reverses an order -/

/-- index form of "weakly order preserving with NaN at the bottom": same length, and for any
two positions `leO l[i] l[j] → leO out[i] out[j]`.  In particular two finite labels `x ≤ y`
are never mapped to finite labels `a > b`, equal labels get equal images, and if the image of
the larger one is NaN so is the image of the smaller one. -/
def OrderPreserving (l out : List (Option α)) : Prop :=
  out.length = l.length ∧ ∀ (i j : Nat) (u v : Option α), l[i]? = some u → l[j]? = some v →
    leO u v → ∃ u' v', out[i]? = some u' ∧ out[j]? = some v' ∧ leO u' v'

/-- each component on its own: half-rank (documented ranks *and* the NaN-propagating ranks of
the code as written), log, infeasible, outlier detection (any threshold), z-score, normalise,
gaussian transform -/
theorem c18_component_monotone {F : Fns α} (hF : FnsOK F) {o : α} (ho : OffsetOK F o)
    (z : α) {lo hi : α} (hlh : lo ≤ hi) (flag : Bool) (l : List (Option α)) :
    OrderPreserving l (halfRank F flag l) ∧ OrderPreserving l (logWarp F o l) ∧
    OrderPreserving l (infeasible l) ∧ OrderPreserving l (detectOutliers F z l) ∧
    OrderPreserving l (zscore F l) ∧ OrderPreserving l (normalize lo hi l) ∧
    OrderPreserving l (transformToGaussian F l) :=
  ⟨(halfRank_ptMono hF flag l).index, (log_ptMono hF ho l).index,
   (infeasible_ptStrict l).ptMono.index, (detectOutliers_ptMono F z l).index,
   (zscore_ptMono l).index, (normalize_ptMono hlh l).index,
   (transformToGaussian_ptMono hF l).index⟩

/-- both pipelines, either rank variant: never a reversal -/
theorem c18_pipeline_monotone {F : Fns α} (hF : FnsOK F) {o : α} (ho : OffsetOK F o) (z : α)
    (flag : Bool) {raw : List (Raw α)} {l : List (Option α)} (h : validate raw = .ok l) :
    (∃ out, defaultWarp F o flag raw = .ok out ∧ OrderPreserving l out ∧ ∀ u ∈ out, u.isSome) ∧
    (∃ out, outlierWarp F z raw = .ok out ∧ OrderPreserving l out) := by
  obtain ⟨out, e, m, s⟩ := default_ptMono hF ho flag h
  obtain ⟨out2, e2, m2⟩ := outlier_ptMono hF z h
  exact ⟨⟨out, e, m.index, s⟩, ⟨out2, e2, m2.index⟩⟩

/-- the outlier pipeline (detect outliers → infeasible → gaussian) yields finite labels only:
the largest label is never an outlier, so the gaussian transform never divides by zero -/
theorem c18_outlier_finite {F : Fns α} (hF : FnsOK F) {z : α} (hz : 0 ≤ z)
    {raw : List (Raw α)} {l : List (Option α)} (h : validate raw = .ok l) :
    ∃ out, outlierWarp F z raw = .ok out ∧ out.length = raw.length ∧ ∀ u ∈ out, u.isSome := by
  obtain ⟨out, e, hs⟩ := outlier_all_some hF hz h
  obtain ⟨out', e', m⟩ := outlier_ptMono hF z h
  rw [e] at e'
  cases e'
  exact ⟨out, e, by rw [m.index.1, ((c18_validate raw).2 l h).1], hs⟩

/-! ## the default pipeline keeps the ranking exactly and yields finite labels -/

/-- FULL STATEMENT for a rank variant: for every accepted label array the default pipeline
(half-rank → log → infeasible) returns finite labels of the same length; on the finite
(observed) entries `x < y ↔ w x < w y` and `x = y → w x = w y`; every NaN (infeasible) entry
is mapped no higher than any finite entry, and strictly lower when two distinct finite
labels exist. -/
def DefaultStrict (α : Type) [Field α] [LinearOrder α] [IsStrictOrderedRing α] (flag : Bool) :
    Prop :=
  ∀ (F : Fns α) (o : α), FnsOK F → OffsetOK F o → ∀ (raw : List (Raw α)) (l : List (Option α)),
    validate raw = .ok l →
    ∃ out, defaultWarp F o flag raw = .ok out ∧ out.length = l.length ∧ (∀ u ∈ out, u.isSome) ∧
      (∀ (i j : Nat) (x y : α), l[i]? = some (some x) → l[j]? = some (some y) →
        ∃ a b, out[i]? = some (some a) ∧ out[j]? = some (some b) ∧
          (x < y ↔ a < b) ∧ (x = y → a = b)) ∧
      (∀ (i j : Nat) (y : α), l[i]? = some none → l[j]? = some (some y) →
        ∃ a b, out[i]? = some (some a) ∧ out[j]? = some (some b) ∧ a ≤ b ∧
          ((∃ x x', some x ∈ l ∧ some x' ∈ l ∧ x < x') → a < b))

/-- either rank variant, provided the documented ranks are used or the array has no NaN -/
theorem c18_default_strict_general {F : Fns α} (hF : FnsOK F) {o : α} (ho : OffsetOK F o) (flag : Bool)
    {raw : List (Raw α)} {l : List (Option α)} (h : validate raw = .ok l)
    (hflag : flag = true ∨ ∀ u ∈ l, u ≠ none) :
    ∃ out, defaultWarp F o flag raw = .ok out ∧ out.length = l.length ∧ (∀ u ∈ out, u.isSome) ∧
      (∀ (i j : Nat) (x y : α), l[i]? = some (some x) → l[j]? = some (some y) →
        ∃ a b, out[i]? = some (some a) ∧ out[j]? = some (some b) ∧
          (x < y ↔ a < b) ∧ (x = y → a = b)) ∧
      (∀ (i j : Nat) (y : α), l[i]? = some none → l[j]? = some (some y) →
        ∃ a b, out[i]? = some (some a) ∧ out[j]? = some (some b) ∧ a ≤ b ∧
          ((∃ x x', some x ∈ l ∧ some x' ∈ l ∧ x < x') → a < b)) := by
  obtain ⟨g, e, hs, hfin, hle, hlt⟩ := default_strict_pt hF ho flag h hflag
  refine ⟨l.map g, e, by simp, ?_, ?_, ?_⟩
  · intro u hu
    obtain ⟨v, hv, rfl⟩ := List.mem_map.mp hu
    exact hs v hv
  · intro i j x y hi hj
    have hx := mem_of_getElem? hi
    have hy := mem_of_getElem? hj
    obtain ⟨a, ha⟩ := Option.isSome_iff_exists.mp (hs _ hx)
    obtain ⟨b, hb⟩ := Option.isSome_iff_exists.mp (hs _ hy)
    refine ⟨a, b, ?_, ?_, hfin x y hx hy a b ha hb⟩
    · rw [getElem?_map_of hi, ha]
    · rw [getElem?_map_of hj, hb]
  · intro i j y hi hj
    have hx := mem_of_getElem? hi
    have hy := mem_of_getElem? hj
    obtain ⟨a, ha⟩ := Option.isSome_iff_exists.mp (hs _ hx)
    obtain ⟨b, hb⟩ := Option.isSome_iff_exists.mp (hs _ hy)
    refine ⟨a, b, ?_, ?_, hle y hx hy a b ha hb, fun hex => hlt hex y hx hy a b ha hb⟩
    · rw [getElem?_map_of hi, ha]
    · rw [getElem?_map_of hj, hb]

/-- PROVED for the documented ranks ("nans ranked last" = dense ranks of the finite entries),
any length, ties, with or without NaN entries -/
theorem c18_default_strict : DefaultStrict α true := by
  intro F o hF ho raw l h
  exact c18_default_strict_general hF ho true h (Or.inl rfl)

/-- PROVED PART for the code as written (scipy ≥ 1.10 ranks): arrays without NaN / -inf -/
theorem c18_default_strict_asWritten_partial {F : Fns α} (hF : FnsOK F) {o : α}
    (ho : OffsetOK F o) {raw : List (Raw α)} {l : List (Option α)} (h : validate raw = .ok l)
    (hnan : ∀ u ∈ l, u ≠ none) :
    ∃ out, defaultWarp F o false raw = .ok out ∧ out.length = l.length ∧ (∀ u ∈ out, u.isSome) ∧
      (∀ (i j : Nat) (x y : α), l[i]? = some (some x) → l[j]? = some (some y) →
        ∃ a b, out[i]? = some (some a) ∧ out[j]? = some (some b) ∧
          (x < y ↔ a < b) ∧ (x = y → a = b)) :=
  let ⟨out, e, hl, hs, hfin, _⟩ := c18_default_strict_general hF ho false h (Or.inr hnan)
  ⟨out, e, hl, hs, hfin⟩

/-- the witness of D12a -/
def witnessD12a : List (Raw ℚ) := [.fin 1, .fin 2, .fin 3, .fin 4, .fin 5, .nan]

/-- D12a: … and the full statement is FALSE for the code as written: one NaN label makes all
ranks NaN, the labels 1 and 2 (below the median) both end up on the infeasible value -/
theorem c18_default_strict_asWritten_counterexample : ¬ DefaultStrict ℚ false := by
  intro hall
  obtain ⟨out, e, _, _, hfin, _⟩ :=
    hall ratFns (3 / 2) ratFns_ok ratOffset_ok witnessD12a
      [some 1, some 2, some 3, some 4, some 5, none] (by decide +kernel)
  obtain ⟨a, b, ha, hb, hiff, _⟩ := hfin 0 1 1 2 (by simp) (by simp)
  have hc : (match defaultWarp ratFns (3 / 2) false witnessD12a with
      | .ok out => out[0]? == out[1]?
      | .error _ => false) = true := by decide +kernel
  rw [e] at hc
  simp only [ha, hb, beq_iff_eq, Option.some.injEq] at hc
  have : a < b := hiff.mp (by norm_num)
  exact absurd hc (ne_of_lt this)

/-- the half-rank component as written on the witness: below-median labels become NaN -/
theorem c18_halfrank_asWritten_witness :
    halfRank ratFns false [some 1, some 2, some 3, some 4, some 5, none]
      = [none, none, some 3, some 4, some 5, none] ∧
    halfRank ratFns true [some 1, some 2, some 3, some 4, some 5, none]
      = [some (7 / 3), some (8 / 3), some 3, some 4, some 5, none] :=
  ⟨by decide +kernel, by decide +kernel⟩

/-! ## infeasible entries go below every feasible one -/

/-- the infeasible component alone: every NaN entry is mapped strictly below every (shifted)
finite entry, every output is finite, finite entries keep their exact order -/
theorem c18_infeasible_below (l : List (Option α)) :
    (∀ u ∈ infeasible l, u.isSome) ∧
    ∀ (i j : Nat) (y : α), l[i]? = some none → l[j]? = some (some y) →
      ∃ a b, (infeasible l)[i]? = some (some a) ∧ (infeasible l)[j]? = some (some b) ∧ a < b := by
  refine ⟨infeasible_all_some l, ?_⟩
  obtain ⟨g, e, s, _⟩ := infeasible_ptStrict l
  intro i j y hi hj
  have hall := infeasible_all_some l
  rw [e] at hall ⊢
  have hx := mem_of_getElem? hi
  have hy := mem_of_getElem? hj
  obtain ⟨a, ha⟩ := Option.isSome_iff_exists.mp (hall _ (List.mem_map_of_mem hx))
  obtain ⟨b, hb⟩ := Option.isSome_iff_exists.mp (hall _ (List.mem_map_of_mem hy))
  refine ⟨a, b, by rw [getElem?_map_of hi, ha], by rw [getElem?_map_of hj, hb], ?_⟩
  have := s _ hx _ hy (by simp)
  rw [ha, hb] at this
  simpa using this

/-- … and its finite entries are only shifted: strict order kept -/
theorem c18_infeasible_strict (l : List (Option α)) (i j : Nat) (x y : α)
    (hi : l[i]? = some (some x)) (hj : l[j]? = some (some y)) :
    ∃ a b, (infeasible l)[i]? = some (some a) ∧ (infeasible l)[j]? = some (some b) ∧
      (x < y ↔ a < b) := by
  obtain ⟨g, e, s, f⟩ := infeasible_ptStrict l
  have hx := mem_of_getElem? hi
  have hy := mem_of_getElem? hj
  obtain ⟨a, ha⟩ := Option.isSome_iff_exists.mp (f x hx)
  obtain ⟨b, hb⟩ := Option.isSome_iff_exists.mp (f y hy)
  rw [e]
  refine ⟨a, b, by rw [getElem?_map_of hi, ha], by rw [getElem?_map_of hj, hb], ?_⟩
  have := s.iff hx hy
  rw [ha, hb] at this
  simpa using this.symm

/-- the log warper alone is strictly increasing on finite labels as soon as two of them differ
(otherwise `max = min` and the code divides 0 by 0: every label becomes NaN) -/
theorem c18_log_strict {F : Fns α} (hF : FnsOK F) {o : α} (ho : OffsetOK F o)
    (l : List (Option α)) (i j : Nat) (x y : α)
    (hi : l[i]? = some (some x)) (hj : l[j]? = some (some y)) (hxy : x < y) :
    ∃ a b, (logWarp F o l)[i]? = some (some a) ∧ (logWarp F o l)[j]? = some (some b) ∧ a < b := by
  have hx := mem_of_getElem? hi
  have hy := mem_of_getElem? hj
  rcases lmin_lmax_cases (fins l) with ⟨he, _, _⟩ | ⟨mn, mx, h1, h2⟩
  · have := mem_fins.mpr hx; rw [he] at this; simp at this
  · have hmm := lmin_lt_lmax_of_lt h1 h2 (mem_fins.mpr hx) (mem_fins.mpr hy) hxy
    obtain ⟨g, e, s, f⟩ := log_ptStrict hF ho h1 h2 hmm
    obtain ⟨a, ha⟩ := Option.isSome_iff_exists.mp (f x hx)
    obtain ⟨b, hb⟩ := Option.isSome_iff_exists.mp (f y hy)
    rw [e]
    refine ⟨a, b, by rw [getElem?_map_of hi, ha], by rw [getElem?_map_of hj, hb], ?_⟩
    have := s _ hx _ hy (by simpa using hxy)
    rw [ha, hb] at this
    simpa using this

/-- … and when all finite labels coincide every finite label goes to the middle of the range and NaN stays NaN
(the repaired `norm_diff = 0` branch; the pinned commit computed `0/0`, NaN everywhere: for `[3, 3, nan]` the
pipeline then answered all zeros, infeasible = feasible) -/
theorem c18_log_degenerate {F : Fns α} {o : α} (l : List (Option α))
    (hall : ∀ x ∈ fins l, ∀ y ∈ fins l, x = y) :
    logWarp F o l = l.map (fun u => u.map fun _ => half) :=
  log_all_const hall

/-- the log warper and the Gaussian transform on their own never turn a finite label into NaN and never invent a
value for a missing one (no hypothesis on the labels: constant arrays, arrays with NaN, a single label) -/
theorem c18_log_gauss_keep_finite (F : Fns α) (o : α) (l : List (Option α)) (i : Nat) :
    (∀ x, l[i]? = some (some x) → ∃ a, (logWarp F o l)[i]? = some (some a)) ∧
    (l[i]? = some none → (logWarp F o l)[i]? = some none) ∧
    (∀ x, l[i]? = some (some x) → ∃ a, (transformToGaussian F l)[i]? = some (some a)) ∧
    (l[i]? = some none → (transformToGaussian F l)[i]? = some none) := by
  refine ⟨?_, ?_, ?_, ?_⟩
  · intro x hx
    unfold logWarp
    split
    · rw [List.getElem?_map, hx]
      simp only [Option.map_some, logPt]
      split <;> exact ⟨_, rfl⟩
    · exact ⟨x, hx⟩
  · intro hx
    unfold logWarp
    split
    · rw [List.getElem?_map, hx]; rfl
    · exact hx
  · intro x hx
    unfold transformToGaussian
    split
    · split
      · rw [List.getElem?_map, hx]; exact ⟨_, rfl⟩
      · rw [List.getElem?_map, hx]; exact ⟨_, rfl⟩
    · exact ⟨x, hx⟩
  · intro hx
    unfold transformToGaussian
    split
    · split <;> (rw [List.getElem?_map, hx]; rfl)
    · exact hx

/-- the pinned commit's Gaussian transform (`np.min` / `np.max` propagate NaN; constant array is `0/0`): one missing
label makes EVERY output NaN, and a constant array comes back all NaN -/
theorem c18_gauss_legacy_counterexample :
    transformToGaussianLegacy ratFns [some 1, some 2, none] = [none, none, none] ∧
    transformToGaussianLegacy ratFns [some (3 : ℚ), some 3] = [none, none] := by
  constructor <;> decide +kernel

/-- half-rank alone, documented ranks: strictly increasing on finite labels, NaN kept -/
theorem c18_halfrank_strict {F : Fns α} (hF : FnsOK F) (l : List (Option α)) (i j : Nat) (x y : α)
    (hi : l[i]? = some (some x)) (hj : l[j]? = some (some y)) :
    ∃ a b, (halfRank F true l)[i]? = some (some a) ∧ (halfRank F true l)[j]? = some (some b) ∧
      (x < y ↔ a < b) := by
  obtain ⟨g, e, s, f⟩ := halfRank_ptStrict hF true l (Or.inl rfl)
  have hx := mem_of_getElem? hi
  have hy := mem_of_getElem? hj
  obtain ⟨a, ha⟩ := Option.isSome_iff_exists.mp (f x hx)
  obtain ⟨b, hb⟩ := Option.isSome_iff_exists.mp (f y hy)
  rw [e]
  refine ⟨a, b, by rw [getElem?_map_of hi, ha], by rw [getElem?_map_of hj, hb], ?_⟩
  have := s.iff hx hy
  rw [ha, hb] at this
  simpa using this.symm

/-! ## no division by zero under the branch guards -/

/-- every denominator the three default components divide by is non-zero where it is used:
log: `max − min` (guard: two distinct labels), `log offset`, `offset − 1` (unwarp);
half-rank: `denominator ≥ ½` always and `≥ 1` for a label below the median, the good half and
the unique labels are non-empty, `σ > 0` whenever a label lies below the median;
infeasible: the number of feasible labels and `1 + n` -/
theorem c18_defined {F : Fns α} (hF : FnsOK F) {o : α} (ho : OffsetOK F o) (flag : Bool)
    (l : List (Option α)) (hne : fins l ≠ []) :
    (∀ mn mx, lmin (fins l) = some mn → lmax (fins l) = some mx →
        (mn < mx ↔ ∃ x ∈ fins l, ∃ y ∈ fins l, x < y) ∧ (mn < mx → mx - mn ≠ 0)) ∧
    F.log o ≠ 0 ∧ o - 1 ≠ 0 ∧
    (1 : α) / 2 ≤ (hrCtx F flag l).den ∧
    (∃ v ∈ unique (fins l), ¬ v < median (fins l)) ∧
    (((unique (fins l)).length : Nat) : α) ≠ 0 ∧
    (∀ y, some y ∈ l → y < (hrCtx F flag l).med →
        1 ≤ (hrCtx F flag l).den ∧ 0 < (hrCtx F flag l).sd) ∧
    (((fins l).length : Nat) : α) ≠ 0 ∧ (1 : α) + ((l.length : Nat) : α) ≠ 0 := by
  refine ⟨?_, ne_of_gt ho.log_pos, ne_of_gt (sub_pos.mpr ho.one_lt),
    hrCtx_den_ge_half flag hne, good_half_nonempty hne, ?_, ?_, ?_, ?_⟩
  · intro mn mx h1 h2
    refine ⟨⟨fun h => ⟨mn, (lmin_spec h1).1, mx, (lmax_spec h2).1, h⟩, ?_⟩,
      fun h => ne_of_gt (sub_pos.mpr h)⟩
    rintro ⟨x, hx, y, hy, hxy⟩
    exact lmin_lt_lmax_of_lt h1 h2 hx hy hxy
  · have : unique (fins l) ≠ [] := fun e => hne (unique_eq_nil.mp e)
    have : 0 < (unique (fins l)).length := List.length_pos_iff.mpr this
    exact_mod_cast (ne_of_gt this)
  · intro y hy hlt
    have hyu := hr_mem_u (F := F) flag l y hy
    refine ⟨?_, hrCtx_sd_pos hF flag l y hyu hlt⟩
    have h1 : (1 : α) ≤ ((denseRank (hrCtx F flag l).u y : Nat) : α) := by
      have : 1 ≤ denseRank (hrCtx F flag l).u y := Nat.succ_le_succ (Nat.zero_le _)
      exact_mod_cast this
    have h2 : ((denseRank (hrCtx F flag l).u y : Nat) : α)
        ≤ ((countLt (hrCtx F flag l).u (hrCtx F flag l).med : Nat) : α) :=
      Nat.cast_le.mpr (denseRank_le_idx hyu hlt)
    linarith [(hrCtx_ok hF flag l).den_ge]
  · have : 0 < (fins l).length := List.length_pos_iff.mpr hne
    exact_mod_cast (ne_of_gt this)
  · have : (0 : α) ≤ ((l.length : Nat) : α) := Nat.cast_nonneg _
    linarith

/-! ## inverses -/

/-- FULL STATEMENT for the half-rank inverse, by the stored threshold
(`useWarpMedian = true`: the median `warp` used; `false`: the code as written,
`unique_labels[len(unique_labels) // 2]`) -/
def HalfRankUnwarp (α : Type) [Field α] [LinearOrder α] [IsStrictOrderedRing α]
    (useWarpMedian : Bool) : Prop :=
  ∀ (F : Fns α), FnsOK F → ∀ (l : List (Option α)) (x : α), some x ∈ l →
    (hrPt F (hrCtx F true l) (some x)).map
      (hrUnwarpPt (hrUnwarpThr useWarpMedian (hrCtx F true l)) (hrTable F (hrCtx F true l)))
      = some x

/-- un-warping a warped observed label returns the label: log warper (two distinct labels),
infeasible shift, half-rank with the stored threshold equal to the median used by `warp`,
LinearOutputWarper -/
theorem c18_unwarp_warp {F : Fns α} (hF : FnsOK F) {o : α} (ho : OffsetOK F o) :
    (∀ mn mx x : α, mn < mx → x ≤ mx →
      (logPt F o mn mx (some x)).map (logUnwarpPt F o mn mx) = some x) ∧
    (∀ (c : InfCtx α) (x : α), (infPt c (some x)).map (infUnwarpPt c) = some x) ∧
    HalfRankUnwarp α true ∧
    (∀ lo hi mn mx y : α, lo ≠ hi → mn ≠ mx →
      linUnwarp lo hi mn mx (linWarp lo hi mn mx y) = y) :=
  ⟨fun _ _ _ hmm hx => log_unwarp_warp hF ho hmm hx, infeasible_unwarp_warp,
   fun _ hF' l _ hx => hr_unwarp_warp hF' true l (Or.inl rfl) hx,
   fun _ _ _ _ y h1 h2 => lin_unwarp_warp h1 h2 y⟩

/-- the half-rank inverse as written is NOT an inverse on observed labels: for
`[1, 2, 3, 3, 3]` the stored threshold is the median of the *unique* labels (2) while `warp`
used the median of all labels (3); the warped image 8/3 of the label 2 lies in between and
is returned unchanged -/
theorem c18_halfrank_unwarp_asWritten_counterexample : ¬ HalfRankUnwarp ℚ false := by
  intro h
  have := h ratFns ratFns_ok [some 1, some 2, some 3, some 3, some 3] 2 (by simp)
  revert this
  decide +kernel

/-- LinearOutputWarper is strictly increasing -/
theorem c18_linear_strict {lo hi mn mx : α} (hlh : lo < hi) (hmm : mn < mx) {x y : α}
    (h : x < y) : linWarp lo hi mn mx x < linWarp lo hi mn mx y :=
  lin_warp_strict hlh hmm h

end VizierModel.C18
