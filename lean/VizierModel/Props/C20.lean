/-
C20 — benchmark experimenters evaluate faithfully and leave suggestions intact.
Property theorems only (helper lemmas: `Lemmas/Experimenter*.lean`).

Model (`Model/Experimenter.lean`): a stacking `e : Ex α` of the wrapper experimenters over
ABSTRACT base objectives (`Ex.base p f`, `f` any function); `evaluate ops e st ts` is the batch
evaluation (operational: save / transform / delegate / restore; `st` = call counters of the
noise wrappers), `outcome ops e st x` the per-point reading `eval : Params → Outcome`.
`α` is any carrier with a record of operations for the structural theorems, any ordered
field for the arithmetic ones.
-/
import VizierModel.Lemmas.ExperimenterAlg
import VizierModel.Lemmas.ExperimenterSplit

namespace VizierModel.C20
open VizierModel.Exp

variable {α : Type}

/-! ## every given trial is completed, with the suggested parameters -/

/-- For EVERY stacking (induction over the wrapper stack), every noise state and every batch:
one trial comes back per suggestion and its parameters are the suggested ones. -/
theorem c20_params_untouched (ops : Ops α) (e : Ex α) (st : St) (ts : List (Trial α)) :
    (evaluate ops e st ts).1.map (·.params) = ts.map (·.params) :=
  Pw_ext_params (evaluate_ext ops e st ts)

/-- … and `evaluate` never clears an infeasibility mark a trial already carries -/
theorem c20_infeasible_sticky (ops : Ops α) (e : Ex α) (st : St) (t : Trial α) (h : t.infeasible = true) :
    (step ops e st t).1.infeasible = true :=
  (step_ext ops e st t).2 h

/-- For every well-formed stacking (`WF`: base objectives answer with their problem's metric
names; the infeasibility-keeping variants of hyper-cube / switch / multi-objective; children of
switch / multi-objective have an objective; distinct multi-objective keys) and every batch of
points of the search space (`Adm`: switch parameters select existing children): every trial is
completed — it has a final measurement, and unless it is infeasible its metric names are exactly
`outNames e`. -/
theorem c20_completes_all (ops : Ops α) (e : Ex α) (hwf : WF ops e) (st : St) (ts : List (Trial α))
    (hadm : ∀ t ∈ ts, Adm ops e t.params) :
    (evaluate ops e st ts).1.length = ts.length ∧
      ∀ t' ∈ (evaluate ops e st ts).1, Done (outNames ops e) t' := by
  refine ⟨evaluate_length ops e st ts, fun t' ht' => ?_⟩
  obtain ⟨t, ht, h⟩ := Pw_mem_right (good_of_wf ops e hwf st ts) t' ht'
  exact h (hadm t ht)

/-- `outNames e` contains the metric names of the problem statement … -/
theorem c20_names_cover_problem (ops : Ops α) (e : Ex α) (n : String)
    (h : n ∈ (problem ops e).metricNames) : n ∈ outNames ops e :=
  metricNames_sub_outNames ops e n h

/-- … and is exactly that list when no noise wrapper (which adds the documented
`<name>_before_noise` copies) sits on top -/
theorem c20_names_exact (ops : Ops α) (e : Ex α) (h : NoiseFree e) :
    outNames ops e = (problem ops e).metricNames :=
  outNames_eq_metricNames ops e h

/-- FULL STATEMENT for the code as written at the pinned commit (hyper-cube wrapper copying only
the final measurement): completed with the problem's names or infeasible. -/
def CompletesAllAsWritten : Prop :=
  ∀ (e : Ex Int) (x : Params Int),
    Done (outNames intOps (.hypercube false 1 (fun _ => []) e))
      (step intOps (.hypercube false 1 (fun _ => []) e) St.zero (Trial.fresh x)).1

/-- It is false: over a base that marks the point infeasible without metrics (what
`NumpyExperimenter` does for a non-finite value) the as-written hyper-cube wrapper returns a
FEASIBLE trial with no metric at all. -/
theorem c20_hypercube_aswritten_counterexample : ¬ CompletesAllAsWritten := by
  intro h
  have := h (.base { params := [], metrics := [("f", .minimize)] } (fun _ => .infeasible [])) []
  obtain ⟨ms, hf, hn⟩ := this
  have hms : ms = [] := by
    simp [step, evaluate, setParams, Trial.fresh, Trial.completeWith, Trial.complete] at hf
    exact hf
  have := hn (by simp [step, evaluate, setParams, Trial.fresh, Trial.completeWith, Trial.complete])
  rw [hms] at this
  simp [outNames, Problem.metricNames, names] at this

/-- FULL STATEMENT "a point the wrapped experimenter marks infeasible is infeasible for the
wrapper", for the three wrappers that copy results back by hand, as a function of the variant -/
def KeepsInfeasible (wrap : Ex Int → Ex Int) : Prop :=
  (outcome intOps infBase St.zero []).2 = true → (outcome intOps (wrap infBase) St.zero []).2 = true

/-- the repaired variants keep it … -/
theorem c20_keeps_infeasible :
    KeepsInfeasible (fun e => .hypercube true 1 (fun _ => []) e) ∧
      KeepsInfeasible (fun e => .switch "switch" "m" (fun _ => 0) true (.cons "a" e .nil)) ∧
      KeepsInfeasible (fun e => .multi true (.cons "a" e .nil)) := by
  refine ⟨fun _ => ?_, fun _ => ?_, fun _ => ?_⟩ <;> decide

/-- … the code as written at the pinned commit drops it (each is replayed on the real code by
the check to identify the variant of the current tree) -/
theorem c20_aswritten_drops_infeasible :
    ¬ KeepsInfeasible (fun e => .hypercube false 1 (fun _ => []) e) ∧
      ¬ KeepsInfeasible (fun e => .switch "switch" "m" (fun _ => 0) false (.cons "a" e .nil)) ∧
      ¬ KeepsInfeasible (fun e => .multi false (.cons "a" e .nil)) := by
  refine ⟨fun h => ?_, fun h => ?_, fun h => ?_⟩ <;> exact absurd (h (by decide)) (by decide)

/-- in general: the repaired switch reports the point infeasible when the selected child does -/
theorem c20_switch_keeps_infeasible (ops : Ops α) (sw metric : String) (toIdx : Option (PVal α) → Nat)
    (kids : ExList α) (st : St) (t : Trial α) (e : Ex α)
    (hk : kidAt kids (toIdx (lookupS sw t.params)) = some e)
    (hfin : (step ops e (st.kids.getD (toIdx (lookupS sw t.params)) St.zero) t).1.final ≠ none)
    (hinf : (step ops e (st.kids.getD (toIdx (lookupS sw t.params)) St.zero) t).1.infeasible = true) :
    (step ops (.switch sw metric toIdx true kids) st t).1.infeasible = true := by
  rw [step_switch, hk]
  simp only [switchComplete]
  cases hf : (step ops e (st.kids.getD (toIdx (lookupS sw t.params)) St.zero) t).1.final with
  | none => exact absurd hf hfin
  | some ms =>
    simp only
    cases lookupS (objName ops e) ms <;> simp only [Trial.complete, Bool.true_and, hinf, Bool.or_true]

/-- non-vacuity: a well-formed three-level stacking with an admissible point -/
example : WF (fieldOps : Ops Rat)
      (.signFlip true (.hypercube true 1 (fun _ => [])
        (.switch "switch" "m" (fun _ => 0) true
          (.cons "a" (.base { params := [], metrics := [("f", .minimize)] } (fun _ => .metrics [("f", 1)])) .nil)))) ∧
    Adm (fieldOps : Ops Rat)
      (.signFlip true (.hypercube true 1 (fun _ => [])
        (.switch "switch" "m" (fun _ => 0) true
          (.cons "a" (.base { params := [], metrics := [("f", .minimize)] } (fun _ => .metrics [("f", 1)])) .nil)))) [] := by
  refine ⟨?_, ?_⟩
  · simp [WF, WFKids, problem, names, Problem.metricNames]
  · simp [Adm, AdmAt]

/-! ## the problem statement is a value -/

/-- The model's experimenters are immutable values and `problem` is a function of the stacking
alone: whatever a caller does with the problem statement it was handed (`mutate`), and whatever
is evaluated in between, the next `problem_statement()` is the same.  (The content of this
clause is the tie: the real getters must return a deep copy.) -/
theorem c20_problem_by_value (ops : Ops α) (e : Ex α) (mutate : Problem α → Problem α) (st : St)
    (ts : List (Trial α)) :
    let p := problem ops e
    let _p' := mutate p
    let _r := evaluate ops e st ts
    problem ops e = p := rfl

/-! ## batches of any size -/

/-- a batch is evaluated like its trials one by one, in order, threading the noise counters:
for every stacking (third induction over the wrapper stack) -/
theorem c20_batch_sequential (ops : Ops α) (e : Ex α) (st : St) (ts : List (Trial α)) :
    (evaluate ops e st ts).1 = (mapSt (fun st t => step ops e st t) st ts).1 :=
  evaluate_eq_mapSt_step ops e st ts

theorem c20_batch_split (ops : Ops α) (e : Ex α) (st : St) (as bs : List (Trial α)) :
    evaluate ops e st (as ++ bs) =
      ((evaluate ops e st as).1 ++ (evaluate ops e (evaluate ops e st as).2 bs).1,
        (evaluate ops e (evaluate ops e st as).2 bs).2) :=
  evaluate_append ops e st as bs

/-! ## shifting -/

/-- `(Shift s E).eval x = E.eval (clip (x − s))` (`offset` = features of the base space minus the
shift, clipped into the base bounds iff `should_restrict`) -/
theorem c20_shift (ops : Ops α) (s : List α) (restrict : Bool) (e : Ex α) (st : St) (x : Params α) :
    outcome ops (.shift s restrict e) st x =
      outcome ops e st (offset ops (problem ops e).params s restrict x) :=
  outcome_shift ops s restrict e st x

/-- the wrapper's bounds are the documented restricted bounds: `[lo + s, hi]` for `s ≥ 0`,
`[lo, hi + s]` for `s < 0`; unrestricted, the space is the base space -/
theorem c20_shift_bounds (ops : Ops α) (s : List α) (e : Ex α) :
    (problem ops (.shift s true e)).params = restrictParams ops (problem ops e).params s ∧
      (problem ops (.shift s false e)) = problem ops e ∧
      (∀ (lo hi si : α), restrictDom ops si (.double lo hi) =
        if ops.le ops.zero si then .double (ops.add lo si) hi else .double lo (ops.add hi si)) :=
  ⟨rfl, rfl, fun _ _ _ => rfl⟩

section ShiftField
variable [Field α] [LinearOrder α] [IsStrictOrderedRing α]

/-- a coordinate inside the restricted bounds, shifted back, is inside the base bounds … -/
theorem c20_shift_stays_inside (lo hi s v : α)
    (h : inDom (restrictDom fieldOps s (.double lo hi)) v) : lo ≤ v - s ∧ v - s ≤ hi :=
  shift_in_base_bounds lo hi s v h

/-- … so on the restricted search space no clipping happens: the base objective is evaluated
exactly at `x − s` -/
theorem c20_shift_no_clipping (s : List α) (e : Ex α) (st : St) (x : Params α)
    (hx : InRestricted (problem fieldOps e).params s x) :
    outcome fieldOps (.shift s true e) st x =
      outcome fieldOps e st (offset fieldOps (problem fieldOps e).params s false x) := by
  rw [c20_shift, offset_no_clipping _ _ _ hx]

/-- outside it, the point handed to the base is clipped into the base bounds -/
theorem c20_shift_clips (lo hi v : α) (h : lo ≤ hi) :
    lo ≤ clip fieldOps lo hi v ∧ clip fieldOps lo hi v ≤ hi := clip_mem lo hi v h

end ShiftField

/-! ## sign flip -/

/-- metrics negated (the problem's metrics, or all of them), infeasibility untouched -/
theorem c20_signflip (ops : Ops α) (objOnly : Bool) (e : Ex α) (st : St) (x : Params α) :
    outcome ops (.signFlip objOnly e) st x =
      ((outcome ops e st x).1.map (flipMetrics ops objOnly (problem ops e).metricNames),
        (outcome ops e st x).2) :=
  outcome_signFlip ops objOnly e st x

/-- goals swapped, search space untouched -/
theorem c20_signflip_goals (ops : Ops α) (objOnly : Bool) (e : Ex α) :
    (problem ops (.signFlip objOnly e)).metrics = (problem ops e).metrics.map (fun m => (m.1, m.2.flip)) ∧
      (problem ops (.signFlip objOnly e)).params = (problem ops e).params := ⟨rfl, rfl⟩

section Field
variable [Field α] [LinearOrder α] [IsStrictOrderedRing α]

/-- `SignFlip (SignFlip E) ≃ E`: same problem statement, same outcome at every point and state -/
theorem c20_signflip_involution (objOnly : Bool) (e : Ex α) (st : St) (x : Params α) :
    problem fieldOps (.signFlip objOnly (.signFlip objOnly e)) = problem fieldOps e ∧
      outcome fieldOps (.signFlip objOnly (.signFlip objOnly e)) st x = outcome fieldOps e st x := by
  constructor
  · simp only [problem, List.map_map]
    have : ((fun m : String × Goal => (m.1, m.2.flip)) ∘ fun m => (m.1, m.2.flip)) = id := by
      funext m; obtain ⟨n, g⟩ := m; cases g <;> rfl
    rw [this, List.map_id]
  · have h1 := c20_signflip fieldOps objOnly (.signFlip objOnly e) st x
    have h2 := c20_signflip fieldOps objOnly e st x
    have hn : (problem fieldOps (.signFlip objOnly e)).metricNames = (problem fieldOps e).metricNames := by
      simp only [Problem.metricNames, problem]
      exact names_map_val _ _
    rw [h1, h2, hn]
    apply Prod.ext
    · dsimp only
      cases h : (outcome fieldOps e st x).1 with
      | none => rfl
      | some ms => simp [flipMetrics_flipMetrics]
    · rfl

end Field

/-! ## normalising -/

theorem c20_normalise (ops : Ops α) (mu sigma : List (String × α)) (e : Ex α) (st : St) (x : Params α) :
    outcome ops (.normalize mu sigma e) st x =
      ((outcome ops e st x).1.map (normMetrics ops mu sigma), (outcome ops e st x).2) :=
  outcome_normalize ops mu sigma e st x

section NormField
variable [Field α] [LinearOrder α] [IsStrictOrderedRing α]

/-- `σ > 0 → (y₁ ≤ y₂ ↔ norm y₁ ≤ norm y₂)`, also strictly: the order of objective values is
preserved both ways.  (`σ > 0` is checked on the real constructor by the tie.) -/
theorem c20_normalise_monotone (mu sigma y1 y2 : α) (hs : 0 < sigma) :
    (normVal fieldOps mu sigma y1 ≤ normVal fieldOps mu sigma y2 ↔ y1 ≤ y2) ∧
      (normVal fieldOps mu sigma y1 < normVal fieldOps mu sigma y2 ↔ y1 < y2) :=
  ⟨normVal_le_iff mu sigma y1 y2 hs, normVal_lt_iff mu sigma y1 y2 hs⟩

end NormField

/-- without `σ > 0` the statement is false (`σ = 0`-style degenerate normaliser: `σ = -1`) -/
theorem c20_normalise_needs_positive_sigma :
    ¬ (∀ (mu sigma y1 y2 : Rat), (normVal fieldOps mu sigma y1 ≤ normVal fieldOps mu sigma y2 ↔ y1 ≤ y2)) := by
  intro h
  have := (h 0 (-1) 0 1).mpr (by norm_num)
  simp [normVal, fieldOps] at this
  norm_num at this

/-! ## permuting -/

/-- `(Permute π E).eval x = E.eval (π x)` -/
theorem c20_permute (ops : Ops α) (perm : List (String × List (PVal α × PVal α))) (e : Ex α) (st : St)
    (x : Params α) :
    outcome ops (.permute perm e) st x = outcome ops e st (permuteParams ops perm x) :=
  outcome_permute ops perm e st x

/-- `π` is a bijection of the feasible values: when every dictionary is one-to-one (what
`rng.permuted(feasible_values)` produces), `π⁻¹ ∘ π = id` on the points whose permuted
parameters take feasible values, `π` maps them to feasible points of `π⁻¹`, and `π ∘ π⁻¹ = id`
there. -/
theorem c20_permute_bijection (ops : Ops α) (hops : LawfulBeq ops)
    (perm : List (String × List (PVal α × PVal α))) (hinj : Injective perm) :
    (∀ x, KeysIn perm x → permuteParams ops (invPerm perm) (permuteParams ops perm x) = x) ∧
      (∀ x, KeysIn perm x → KeysIn (invPerm perm) (permuteParams ops perm x)) ∧
      (∀ y, KeysIn (invPerm perm) y → permuteParams ops perm (permuteParams ops (invPerm perm) y) = y) := by
  refine ⟨fun x hx => permute_left_inverse hops perm hinj x hx,
    fun x hx => permute_maps_keys hops perm hinj x hx, fun y hy => ?_⟩
  have := permute_left_inverse hops (invPerm perm) (injective_invPerm hinj) y hy
  rwa [invPerm_invPerm] at this

/-! ## discretising, hyper-cube, sparse -/

/-- evaluates the base at the point whose discretised parameters are the floats of the chosen
feasible values -/
theorem c20_discretise (ops : Ops α) (disc : List (String × List (PVal α))) (parse : String → α)
    (e : Ex α) (st : St) (x : Params α) :
    outcome ops (.discretize disc parse e) st x = outcome ops e st (undiscretize disc parse x) :=
  outcome_discretize ops disc parse e st x

theorem c20_discretise_point (disc : List (String × List (PVal α))) (parse : String → α) (x : Params α) :
    undiscretize disc parse x =
      x.map (fun kv => if (names disc).contains kv.1 then (kv.1, PVal.num (asFloat parse kv.2)) else kv) := rfl

/-- evaluates the base at `decode (features x)`; infeasibility is carried over by the repaired
variant (`keepInf = true`) -/
theorem c20_hypercube (ops : Ops α) (keepInf : Bool) (dim : Nat) (dec : List α → Params α) (e : Ex α)
    (st : St) (x : Params α) :
    outcome ops (.hypercube keepInf dim dec e) st x =
      ((outcome ops e st (dec (hfeatures ops dim x))).1,
        keepInf && (outcome ops e st (dec (hfeatures ops dim x))).2) :=
  outcome_hypercube ops keepInf dim dec e st x

/-- with the converter an inverse pair (`dec (enc p) = p`, C15) every base point `p` is reached:
the hyper-cube point with features `enc p` evaluates like `p` -/
theorem c20_hypercube_inverse (ops : Ops α) (dim : Nat) (enc : Params α → List α) (dec : List α → Params α)
    (e : Ex α) (st : St) (p x : Params α) (hinv : dec (enc p) = p) (hx : hfeatures ops dim x = enc p) :
    outcome ops (.hypercube true dim dec e) st x = outcome ops e st p := by
  rw [c20_hypercube, hx, hinv]; simp

theorem c20_sparse (ops : Ops α) (pre : String) (extra : List (PSpec α)) (e : Ex α) (st : St)
    (x : Params α) :
    outcome ops (.sparse pre extra e) st x = outcome ops e st (dropSparse pre x) :=
  outcome_sparse ops pre extra e st x

/-! ## infeasible, switch -/

theorem c20_infeasible (ops : Ops α) (isInf : Params α → Bool) (junk : α) (e : Ex α) (st : St)
    (x : Params α) :
    outcome ops (.infeasibleIf isInf junk e) st x =
      if isInf x then (some ((problem ops e).metricNames.map (fun n => (n, junk))), true)
      else outcome ops e st x :=
  outcome_infeasibleIf ops isInf junk e st x

/-- the switch evaluates the selected child on the same parameters and reports its objective -/
theorem c20_switch (ops : Ops α) (sw metric : String) (toIdx : Option (PVal α) → Nat) (keepInf : Bool)
    (kids : ExList α) (st : St) (t : Trial α) :
    (step ops (.switch sw metric toIdx keepInf kids) st t).1 =
      match kidAt kids (toIdx (lookupS sw t.params)) with
      | some e => switchComplete metric keepInf t (objName ops e)
          (step ops e (st.kids.getD (toIdx (lookupS sw t.params)) St.zero) t).1
      | none => t :=
  step_switch ops sw metric toIdx keepInf kids st t

/-! ## seeded noise -/

/-- The noisy values are the noise function applied at the wrapper's own call counter; two
wrappers with the same noise function (same seed) started at the same counter give identical
trials and end in the same state on any sequence of batches — and the evaluation depends on the
noise function only. -/
theorem c20_noise_reproducible (ops : Ops α) (n1 n2 : Nat → α → α) (h : ∀ k v, n1 k v = n2 k v)
    (e : Ex α) (st : St) (batches : List (List (Trial α))) :
    batches.foldl (fun (acc : List (List (Trial α)) × St) b =>
        let r := evaluate ops (.noisy n1 e) acc.2 b; (acc.1 ++ [r.1], r.2)) ([], st) =
      batches.foldl (fun (acc : List (List (Trial α)) × St) b =>
        let r := evaluate ops (.noisy n2 e) acc.2 b; (acc.1 ++ [r.1], r.2)) ([], st) := by
  have : n1 = n2 := by funext k v; exact h k v
  rw [this]

/-- what the noise wrapper does to one trial: draw number `st.n` … for its metrics in order -/
theorem c20_noise_step (ops : Ops α) (noise : Nat → α → α) (e : Ex α) (st : St) (t : Trial α) :
    step ops (.noisy noise e) st t =
      let u := step ops e st.kid t
      let v := noiseTrial noise st.n u.1
      (v.1, .node v.2 [u.2]) :=
  step_noisy ops noise e st t

/-- a single metric `(n, y)`: the noisy value is `noise k y`, the unnoised one is kept -/
theorem c20_noise_single (noise : Nat → α → α) (k : Nat) (n : String) (y : α)
    (hn : n ≠ n ++ "_before_noise") :
    noiseMetrics noise k [(n, y)] [] = ([(n, noise k y), (n ++ "_before_noise", y)], k + 1) := by
  have h2 : (names [(n, noise k y)]).contains (n ++ "_before_noise") = false := by
    simp only [names, List.map_cons, List.map_nil, List.contains_cons, List.contains_nil, Bool.or_false,
      beq_eq_false_iff_ne, ne_eq]
    exact fun h => hn h.symm
  have e1 : Metrics.insert ([] : Metrics α) n (noise k y) = [(n, noise k y)] := by
    simp [Metrics.insert, names]
  have e2 : Metrics.insert [(n, noise k y)] (n ++ "_before_noise") y
      = [(n, noise k y), (n ++ "_before_noise", y)] := by
    unfold Metrics.insert
    rw [if_neg (by rw [h2]; simp)]
    rfl
  simp only [noiseMetrics, e1, e2]

end VizierModel.C20
