/-
C10 — the `Metadata` class (common.py): every view (`ns()`, `abs_ns()`) writes into ONE tree keyed by
(absolute namespace, key); a write is seen under exactly that key and nowhere else, so distinct
namespaces never collide and entries of other namespaces (an algorithm's reserved namespace vs the
user's) are never disturbed; `update` and `attach` stay inside the namespace / subtree they name.
-/
import VizierModel.Lemmas.MetadataApi

namespace VizierModel.C10
open VizierModel.MetadataApi

/-- read-after-write and frame condition of a single write, for every tree, namespace, key -/
theorem c10_api_get_set (t : Tree) (ns : NSp) (k v : String) (ns' : NSp) (k' : String) :
    (t.set ns k v).get ns' k' = if (ns', k') = (ns, k) then some v else t.get ns' k' :=
  get_set t ns k v ns' k'

/-- two different namespaces never collide: writing under one leaves every key of the other unchanged -/
theorem c10_api_namespaces_do_not_collide (t : Tree) (ns ns' : NSp) (h : ns ≠ ns') (k v k' : String) :
    (t.set ns k v).get ns' k' = t.get ns' k' := by
  rw [get_set]
  have : (ns', k') ≠ (ns, k) := fun e => h (congrArg Prod.fst e).symm
  simp [this]

/-- `update` touches only the listed keys of the namespace it is applied to -/
theorem c10_api_update_frame (t : Tree) (ns : NSp) (kvs : List (String × String)) (ns' : NSp) (k' : String)
    (h : ns' ≠ ns ∨ ∀ kv ∈ kvs, kv.1 ≠ k') : (t.update ns kvs).get ns' k' = t.get ns' k' :=
  get_update_other kvs t ns ns' k' h

/-- `attach` writes only at or below the destination namespace -/
theorem c10_api_attach_frame (t other : Tree) (src dst ns' : NSp) (k' : String)
    (h : ¬ dst.isPrefixOf ns' = true) : (t.attach dst other src).get ns' k' = t.get ns' k' :=
  get_attach_outside other src dst ns' k' h t

/-- non-vacuity: the docstring's example of `attach` -/
example :
    let other := (Tree.empty.set ["x", "y", "z"] "foo" "bar")
    let m := (Tree.empty.set [] "user" "u").attach ["w"] other ["x"]
    m.get ["w", "y", "z"] "foo" = some "bar" ∧ m.get [] "user" = some "u" ∧ m.subnamespaces ["w"] = [["y", "z"]] := by
  decide

end VizierModel.C10
