/-
The Pythia glue — obligations tying the deployment / loader / failure models to the CURRENT source of
`service_policy_supporter.py` and `pythia_service.py`, and what the criteria buy.

* `Generated.supporterShape` / `Generated.supporterCatches` / `Generated.pythiaHandlers` are regenerated from the tree
  under test on every run (`harness/translators/pythia_shape.py`); the first group of theorems is decided by the kernel
  on THOSE tables: they are the tables the models were written against, GetTrials is ONE ListTrials, the supporter
  catches nothing and writes nothing but metadata, `Suggest` wraps every policy exception into the documented class.
  The handler table may be either of two variants: as written (`EarlyStop` does not wrap: a finding, reported by the
  check with a concrete witness) or as intended (both wrap); `pythiaWrapsEverything` holds exactly of the second.
* The second group holds for ALL services, states and calls: the RPC names the modelled supporter issues are a run of
  the Python method as the generated table describes it; the answer of GetTrials depends on ONE trial list only (two
  service states with the same ListTrials answer give the same GetTrials answer), and an id that is not in that list is
  absent from the answer - never an error; the seeded rewrite (one GetTrial per id, skipping NotFoundError) is shown
  to differ by transport on exactly such an id.
-/
import VizierModel.Generated.PythiaShape
import VizierModel.Lemmas.PythiaShape

namespace VizierModel.PythiaShape
open VizierModel

/-! ### the regenerated tables -/

/-- the RPCs extracted from `ServicePolicySupporter` are the ones the models were written against -/
theorem pythiashape_matches : Generated.supporterShape = assumedSupporterShape := by decide

/-- … and so are the exception classes caught inside its methods (none) -/
theorem pythiashape_catches_match : Generated.supporterCatches = assumedSupporterCatches := by decide

/-- the `except` clauses of `PythiaServicer.Suggest` / `EarlyStop` are one of the two variants the models know -/
theorem pythiashape_handlers_known : handlersKnown Generated.pythiaHandlers = true := by decide

/-- GetTrials issues exactly one ListTrials, once, and no other RPC -/
theorem pythiashape_gettrials_single_read : getTrialsSingleRead Generated.supporterShape = true := by decide

/-- GetStudyConfig issues exactly one GetStudy, once -/
theorem pythiashape_getstudyconfig_single_read : getStudyConfigSingleRead Generated.supporterShape = true := by decide

/-- no supporter method catches an exception class (every method has its row) -/
theorem pythiashape_supporter_catches_nothing :
    supporterCatchesNothing Generated.supporterCatches = true ∧
      catchesCoverShape Generated.supporterShape Generated.supporterCatches = true := by decide

/-- the only writing RPC a supporter method may issue is UpdateMetadata -/
theorem pythiashape_supporter_reads_only : supporterReadsOnlyExceptMetadata Generated.supporterShape = true := by decide

/-- every `Exception` raised by `policy.suggest` leaves `PythiaServicer.Suggest` as RuntimeError -/
theorem pythiashape_suggest_wraps : methodWraps Generated.pythiaHandlers "Suggest" = true := by decide

/-- the full criterion holds of the current source exactly when it is the intended variant -/
theorem pythiashape_wraps_everything_iff :
    pythiaWrapsEverything Generated.pythiaHandlers = true ↔ Generated.pythiaHandlers = intendedPythiaHandlers := by decide

/-- the intended variant satisfies `pythiaWrapsEverything` … -/
theorem pythiashape_wraps_everything_intended : pythiaWrapsEverything intendedPythiaHandlers = true := by decide

/-- … the code as written does not: an exception of `policy.early_stop` leaves `EarlyStop` as whatever class it has
    (in-process a `custom_errors.NotFoundError` raised through the supporter makes CheckTrialEarlyStoppingState answer
    NOT_FOUND, behind a Pythia stub the same failure is an RpcError and the answer is UNKNOWN) -/
theorem pythiashape_wraps_everything_counterexample :
    pythiaWrapsEverything assumedPythiaHandlers = false ∧ methodWraps assumedPythiaHandlers "EarlyStop" = false := by decide

/-- **What `Deploy.algFailure` assumes is what the generated handler table gives**: in-process (local and gRPC
    deployments) a failure of `policy.suggest` reaches SuggestTrials as the documented non-RpcError class, behind a Pythia
    stub as an RpcError -/
theorem pythiashape_alg_failure_is_model (t : Deploy.Transport) :
    isAlgFailureOf t (suggestFailure Generated.pythiaHandlers t) = true ∧
      isAlgFailureOf t (some (Deploy.algFailure t)) = true := by
  cases t <;> decide

/-! ### what the criteria buy (any table) -/

/-- **Soundness of `getTrialsSingleRead`**: for ANY table that satisfies it, every complete run of GetTrials issues
    exactly one RPC, a ListTrials -/
theorem pythiashape_single_read_sound (tbl : Table) (h : getTrialsSingleRead tbl = true) (names : List String)
    (hc : conforms tbl "GetTrials" names = true) : names = ["ListTrials"] := by
  unfold getTrialsSingleRead at h
  unfold conforms at hc
  have hl : lookup tbl "GetTrials" = some [("ListTrials", .once)] := by simpa using h
  rw [hl] at hc
  exact (admits_single_once _ _).1 hc

/-- the supporter writes nothing but metadata: in ANY table that satisfies the criterion, a writing RPC named by a
    method's shape is UpdateMetadata -/
theorem pythiashape_reads_only_sound (tbl : Table) (h : supporterReadsOnlyExceptMetadata tbl = true)
    (m : String) (sh : Shape) (hm : (m, sh) ∈ tbl) (r : String) (mu : Mult) (hr : (r, mu) ∈ sh)
    (hw : isWriting r = true) : r = "UpdateMetadata" := by
  unfold supporterReadsOnlyExceptMetadata at h
  rw [List.all_eq_true] at h
  have h1 := h (m, sh) hm
  rw [List.all_eq_true] at h1
  have h2 := h1 (r, mu) hr
  simp [hw] at h2
  exact h2

/-! ### the modelled supporter follows the generated shape -/

/-- **The RPCs a supporter call issues are a complete run of its Python method as the GENERATED table describes it** -
    every service, supporter, state and call -/
theorem pythiashape_model_conforms {σ α : Type} (svc : Service σ α) (self : String) (s : σ) (c : SupCall) :
    conforms Generated.supporterShape (callMethod c) (supExec svc self s c).rpcs = true := by
  rw [pythiashape_matches]
  cases c <;> simp only [callMethod, supExec] <;> decide

/-- **GetTrials depends on ONE trial list**: two service states in which ListTrials of the study answers the same
    give the same GetTrials answer, whatever else differs between them (other studies, operations, metadata, a trial
    deleted and re-created in between) -/
theorem pythiashape_gettrials_one_snapshot {σ α : Type} (svc : Service σ α) (self : String) (s₁ s₂ : σ)
    (g : Option String) (ids : Option (List Nat)) (mn mx : Option Nat) (st : Option Loader.Status)
    (h : svc.listTrials s₁ (g.getD self) = svc.listTrials s₂ (g.getD self)) :
    (supExec svc self s₁ (.getTrials g ids mn mx st)).obs = (supExec svc self s₂ (.getTrials g ids mn mx st)).obs := by
  simp only [supExec, h]

/-- **The answer is the filter model of C12 on that list**, exactly: whenever ListTrials answers, GetTrials answers
    (never an error), with `Loader.getTrialsF` of the list: the trials of the list that pass ids ∧ min ∧ max ∧ status -/
theorem pythiashape_gettrials_is_filter {σ α : Type} (svc : Service σ α) (self : String) (s : σ)
    (g : Option String) (ids : Option (List Nat)) (mn mx : Option Nat) (st : Option Loader.Status) (env : Loader.Env)
    (h : svc.listTrials s (g.getD self) = some env) :
    (supExec svc self s (.getTrials g ids mn mx st)).rpcs = ["ListTrials"] ∧
    ∃ l, (supExec svc self s (.getTrials g ids mn mx st)).obs = .trials l ∧ l = Loader.getTrialsF env ids mn mx st ∧
      ∀ t, t ∈ l ↔ t ∈ env ∧ (∀ r, ids = some r → t.id ∈ r) ∧ (∀ m, mn = some m → m ≤ t.id) ∧
        (∀ m, mx = some m → t.id ≤ m) ∧ (∀ x, st = some x → t.st = x) := by
  refine ⟨rfl, Loader.getTrialsF env ids mn mx st, ?_, rfl, fun t => mem_getTrialsF env ids mn mx st t⟩
  simp only [supExec, h]

/-- **A requested id that is absent from the list is absent from the answer - never an error**: deleted and
    never-created ids leave gaps, the other requested trials are still delivered -/
theorem pythiashape_missing_id_absent {σ α : Type} (svc : Service σ α) (self : String) (s : σ)
    (g : Option String) (ids : Option (List Nat)) (mn mx : Option Nat) (st : Option Loader.Status) (env : Loader.Env)
    (h : svc.listTrials s (g.getD self) = some env) (i : Nat) (hi : ∀ t ∈ env, t.id ≠ i) :
    ∃ l, (supExec svc self s (.getTrials g ids mn mx st)).obs = .trials l ∧ (∀ t ∈ l, t.id ≠ i) ∧
      ∀ t ∈ env, (∀ r, ids = some r → t.id ∈ r) → (∀ m, mn = some m → m ≤ t.id) → (∀ m, mx = some m → t.id ≤ m) →
        (∀ x, st = some x → t.st = x) → t ∈ l := by
  obtain ⟨_, l, hobs, _, hmem⟩ := pythiashape_gettrials_is_filter svc self s g ids mn mx st env h
  refine ⟨l, hobs, ?_, ?_⟩
  · intro t ht
    exact hi t ((hmem t).1 ht).1
  · intro t ht h1 h2 h3 h4
    exact (hmem t).2 ⟨ht, h1, h2, h3, h4⟩

/-- a failing ListTrials (study gone, transport failure) is the only way GetTrials fails, and it fails with that error -/
theorem pythiashape_gettrials_fails_only_with_the_rpc {σ α : Type} (svc : Service σ α) (self : String) (s : σ)
    (g : Option String) (ids : Option (List Nat)) (mn mx : Option Nat) (st : Option Loader.Status) :
    (supExec svc self s (.getTrials g ids mn mx st)).obs = .rpcFailed ↔ svc.listTrials s (g.getD self) = none := by
  simp only [supExec]
  cases svc.listTrials s (g.getD self) <;> simp

/-! ### the rewrite the criterion excludes (seeded change C08_h) -/

/-- one GetTrial per requested id, skipping `custom_errors.NotFoundError` only: with trials 1 and 3 stored (2 was
    deleted) and ids 1, 2, 3 requested, the in-process supporter answers trials 1 and 3, the supporter behind a stub
    fails - and the single-read GetTrials answers 1 and 3 whatever the transport -/
theorem pythiashape_per_id_lookup_counterexample :
    let env : Loader.Env := [⟨1, 1, .completed⟩, ⟨3, 3, .completed⟩]
    let skipsPyNotFound : LookupErr → Bool := fun e => e == .pyNotFound
    getTrialsPerId env (lookupErrOf false) skipsPyNotFound [1, 2, 3] = some env ∧
    getTrialsPerId env (lookupErrOf true) skipsPyNotFound [1, 2, 3] = none ∧
    Loader.getTrialsF env (some [1, 2, 3]) none none none = env := by decide

/-- when every requested id is stored, the per-id rewrite and the filter agree (the difference is confined to gaps) -/
example :
    let env : Loader.Env := [⟨1, 1, .completed⟩, ⟨2, 2, .active⟩, ⟨3, 3, .completed⟩]
    getTrialsPerId env (lookupErrOf true) (fun e => e == .pyNotFound) [1, 3] = some (Loader.getTrialsF env (some [1, 3]) none none none) := by
  decide

/-! ### non-vacuity: the predicates discriminate -/

/-- the seeded GetTrials (ListTrials or a loop of GetTrial, NotFoundError caught) is refused by both criteria -/
example :
    let tbl : Table := [("GetTrials", [("ListTrials", .cond), ("GetTrial", .loop)])]
    getTrialsSingleRead tbl = false ∧ supporterCatchesNothing [("GetTrials", ["NotFoundError"])] = false ∧
      conforms tbl "GetTrials" ["GetTrial", "GetTrial"] = true ∧ conforms assumedSupporterShape "GetTrials" ["GetTrial", "GetTrial"] = false := by
  decide

/-- a second GetStudy, a writing RPC other than UpdateMetadata, a handler that catches only ValueError, a handler that
    swallows, a wrap into an RpcError class: all refused -/
example :
    getStudyConfigSingleRead [("GetStudyConfig", [("GetStudy", .once), ("GetStudy", .once)])] = false ∧
    supporterReadsOnlyExceptMetadata [("SendMetadata", [("UpdateMetadata", .once)])] = true ∧
    supporterReadsOnlyExceptMetadata [("GetTrials", [("ListTrials", .once), ("DeleteTrial", .cond)])] = false ∧
    wrapsAs documentedFailure [(["ValueError"], "reraiseAs RuntimeError")] = false ∧
    wrapsAs documentedFailure [(["KeyError"], "swallow"), (["Exception"], "reraiseAs RuntimeError")] = false ∧
    wrapsAs documentedFailure [(["ValueError"], "reraiseAs RuntimeError"), (["Exception"], "reraiseAs RuntimeError")] = true ∧
    wrapsAs "reraiseAs LocalRpcError" [(["Exception"], "reraiseAs RuntimeError")] = false := by
  decide

/-- the model is not vacuous: a service with one study; GetTrials of ids 1, 2, 9 with trial 2 deleted answers trial 1,
    a missing study fails with the RPC's error -/
example :
    let svc : Service Unit Nat := { getStudy := fun _ g => if g == "owners/o/studies/s" then some 7 else none,
                                    listTrials := fun _ g => if g == "owners/o/studies/s" then some [⟨1, 1, .active⟩, ⟨3, 3, .completed⟩] else none }
    (supExec svc "owners/o/studies/s" () (.getTrials none (some [1, 2, 9]) none none none)).rpcs = ["ListTrials"] ∧
    (match (supExec svc "owners/o/studies/s" () (.getTrials none (some [1, 2, 9]) none none none)).obs with
     | .trials l => l.map (·.id) == [1] | _ => false) = true ∧
    (match (supExec svc "owners/o/studies/s" () (.getTrials (some "owners/o/studies/x") none none none none)).obs with
     | .rpcFailed => true | _ => false) = true := by
  decide

end VizierModel.PythiaShape
