/-
The client layer (`clients.Study` / `clients.Trial` over `VizierClient`, `Model/Client.lean`) —
property theorems only; lemmas in `Lemmas/Client*.lean`.

All theorems quantify over EVERY client history (any number of handles, studies, workers, any
interleaving of the calls of `Client.Call`) — hence over every algorithm behaviour, since `suggest`
and `checkEarlyStopping` calls carry the outcome the algorithm would produce — and over every fuel
given to the polling loop.  `cfg` ranges over the variant flags of M1; where the statement needs the
repaired service the hypothesis `Current cfg` says so (these are the flags the check identifies on
the tree by replaying the witnesses of C06 / C07).
-/
import VizierModel.Lemmas.ClientEffects
import VizierModel.Props.C01
import VizierModel.Props.C02
import VizierModel.Props.C06

namespace VizierModel.ClientLayer
open VizierModel VizierModel.Svc VizierModel.Client

/-- the states client programs can reach from the empty service -/
def creach (cfg : Cfg) (fuel : Nat) (hs : History) : DB := clientRun cfg fuel DB.empty hs

/-- the flags of the service as repaired (what `svccheck.identify_flags` finds on the current tree) -/
structure Current (cfg : Cfg) : Prop where
  short : cfg.shortDeliveryOk = true
  catches : cfg.suggestCatchesAll = true
  cascade : cfg.deleteCascadesOps = true

/-! ### the client layer refines the RPC layer -/

/-- **Every client history is an RPC history of M1**: the state after a client call is the state
    after running the requests it issues with M1's `step`, and the state after a client history is
    the state M1 reaches on the concatenated requests. -/
theorem client_refines_rpc (cfg : Cfg) (fuel : Nat) :
    (∀ (h : Handle) (c : Call) (db : DB),
      (clientStep cfg fuel h c db).2 = run cfg db (clientExec cfg fuel h c db).reqs) ∧
    (∀ hs : History, creach cfg fuel hs = C01.reach cfg (clientTrace cfg fuel DB.empty hs)) :=
  ⟨fun h c db => clientExec_refines cfg fuel h c db, fun hs => clientRun_refines cfg fuel DB.empty hs⟩

/-- hence every invariant of RPC histories holds of client histories; C01's datastore invariant … -/
theorem client_reachable_inv (cfg : Cfg) (fuel : Nat) (hs : History) : Inv (creach cfg fuel hs) := by
  rw [(client_refines_rpc cfg fuel).2]; exact C01.c01_reachable_inv cfg _

/-- … C06: the repaired service never leaves an unfinished suggestion operation behind a client call … -/
theorem client_no_pending_operation (cfg : Cfg) (hc : Current cfg) (fuel : Nat) (hs : History) :
    ∀ st ∈ (creach cfg fuel hs).studies, ∀ o ∈ st.sugOps, o.done = true := by
  rw [(client_refines_rpc cfg fuel).2]
  exact C06.c06_no_pending_operation cfg hc.short hc.catches hc.cascade _

/-- … C02: operations of every (study, worker) are numbered 1, 2, …, k -/
theorem client_op_numbering (cfg : Cfg) (hc : Current cfg) (fuel : Nat) (hs : History) :
    ∀ st ∈ (creach cfg fuel hs).studies, ∀ w : String, (opsOf st w).map (·.num) = List.range' 1 (opsOf st w).length := by
  rw [(client_refines_rpc cfg fuel).2]
  exact C02.c02_op_numbering cfg hc.cascade _

/-- **Lifecycle through the client**: one client call — whichever, through whichever handle, after
    whatever history — evolves every study's trials legally: states move only
    REQUESTED→ACTIVE→(STOPPING→)SUCCEEDED|INFEASIBLE, parameters never change, a completed trial is
    frozen up to metadata, the worker of a trial changes only when it leaves REQUESTED, new trials get
    ids above every existing id, ids stay unique.  (A client call issues at most one writing RPC, so
    C01's per-RPC theorem lifts to calls.) -/
theorem client_call_lifecycle (cfg : Cfg) (fuel : Nat) (hs : History) (h : Handle) (c : Call) :
    ∀ st ∈ (creach cfg fuel hs).studies, ∀ st' ∈ (clientStep cfg fuel h c (creach cfg fuel hs)).2.studies,
      keyOf st = keyOf st' →
        trialsStepOK st.trials st'.trials = true ∧ freshIdsOK st.trials st'.trials = true ∧
          (st'.trials.map (·.id)).Nodup := by
  intro st hst st' hst' hk
  have := (clientExec_stepOK cfg fuel h c (client_reachable_inv cfg fuel hs)).2 st hst st' hst' hk
  exact ⟨this.step, this.fresh, this.nodup⟩

/-- the same, as the executable predicate the check evaluates on REAL datastore snapshots -/
theorem client_call_lifecycleOK (cfg : Cfg) (fuel : Nat) (hs : History) (h : Handle) (c : Call) :
    lifecycleOK (creach cfg fuel hs) (clientStep cfg fuel h c (creach cfg fuel hs)).2 = true := by
  have hstep := clientExec_stepOK cfg fuel h c (client_reachable_inv cfg fuel hs)
  unfold lifecycleOK
  rw [List.all_eq_true]
  intro st' hst'
  have hn : idsNodup st'.trials = true := by
    unfold idsNodup; exact decide_eq_true (hstep.1.ids st' hst')
  rw [Bool.and_eq_true]
  refine ⟨hn, ?_⟩
  split
  · rfl
  · rename_i st hfind
    have hmem := List.mem_of_find?_eq_some hfind
    have hkey : keyOf st = keyOf st' := by
      have := List.find?_some hfind
      simp only [Bool.and_eq_true, beq_iff_eq] at this
      simp [keyOf, this.1, this.2]
    have := hstep.2 st hmem st' hst' hkey
    simp [this.step, this.fresh]

/-! ### `Trial.complete`: infeasible iff a reason is given -/

/-- **`complete(…, infeasible_reason=r)` on an ACTIVE / STOPPING trial of an open study leaves it
    INFEASIBLE with exactly the reason `r` — for EVERY string `r`, the empty one included** — keeps
    its parameters and worker, and returns the stored final measurement. -/
theorem client_complete_infeasible (cfg : Cfg) (fuel : Nat) (h : Handle) (id : Nat) (m : Option Meas) (r : String)
    (db : DB) (st : Study) (t : Trial) (hs : findStudy db h.owner h.sid = some st) (hopen : st.immutable = false)
    (ht : st.findTrial id = some t) (hm : t.state.mutable = true) :
    ∃ t', lookup (clientStep cfg fuel h (.complete id m (some r)) db).2 h id = some t' ∧
      t'.state = .infeasible ∧ t'.reason = r ∧ t'.params = t.params ∧ t'.client = t.client ∧
      (clientStep cfg fuel h (.complete id m (some r)) db).1 = .measurement t'.final :=
  complete_with_reason cfg fuel h id m r db st t hs hopen ht hm

/-- **`complete` without a reason never makes the trial infeasible**: it is SUCCEEDED afterwards, or
    the call failed (no measurement to select) and the trial is what it was. -/
theorem client_complete_feasible (cfg : Cfg) (fuel : Nat) (h : Handle) (id : Nat) (m : Option Meas)
    (db : DB) (st : Study) (t : Trial) (hs : findStudy db h.owner h.sid = some st) (hopen : st.immutable = false)
    (ht : st.findTrial id = some t) (hm : t.state.mutable = true) :
    ∃ t', lookup (clientStep cfg fuel h (.complete id m none) db).2 h id = some t' ∧
      (t'.state = .succeeded ∨ t' = t) ∧ t'.state ≠ .infeasible := by
  obtain ⟨t', hl, h1⟩ := complete_without_reason cfg fuel h id m db st t hs hopen ht hm
  refine ⟨t', hl, h1, ?_⟩
  rcases h1 with h1 | rfl
  · rw [h1]; decide
  · intro e; rw [e] at hm; cases hm

/-- both, as the executable predicate the check evaluates on REAL snapshots: for every state
    (reachable or not), handle, trial id, measurement and reason -/
theorem client_complete_infeasibleOK (cfg : Cfg) (fuel : Nat) (h : Handle) (id : Nat) (m : Option Meas)
    (reason : Option String) (db : DB) :
    infeasibleOK db (clientStep cfg fuel h (.complete id m reason) db).2 h id reason = true :=
  complete_infeasibleOK cfg fuel h id m reason db

/-! ### `Study.suggest`: the asking worker gets the trials -/

theorem creach_pendingFree (cfg : Cfg) (hc : Current cfg) (fuel : Nat) (hs : History) :
    AllStudies PendingFree (creach cfg fuel hs) :=
  fun st hst => client_no_pending_operation cfg hc fuel hs st hst

/-- **The trials `suggest(count, client_id=w)` hands out are stored ACTIVE and assigned to `w`** —
    the worker named in the call, not the handle's own id — after every client history, through every
    handle, whatever the algorithm delivers. -/
theorem client_suggest_worker (cfg : Cfg) (hc : Current cfg) (fuel : Nat) (hs : History) (h : Handle)
    (count : Nat) (w : String) (alg : AlgOutcome) :
    assignedOK (clientStep cfg fuel h (.suggest count w alg) (creach cfg fuel hs)).2 h w
      (clientStep cfg fuel h (.suggest count w alg) (creach cfg fuel hs)).1 = true :=
  getSuggestionsAs_assignedOK cfg hc.short hc.catches fuel h count w alg (client_reachable_inv cfg fuel hs)
    (creach_pendingFree cfg hc fuel hs)

/-- without an override (`VizierClient.get_suggestions(count)`) it is the handle's own id that asks -/
theorem client_get_suggestions_own_id (cfg : Cfg) (hc : Current cfg) (fuel : Nat) (hs : History) (h : Handle)
    (count : Nat) (alg : AlgOutcome) :
    assignedOK (clientStep cfg fuel h (.getSuggestions count alg) (creach cfg fuel hs)).2 h h.cid
      (clientStep cfg fuel h (.getSuggestions count alg) (creach cfg fuel hs)).1 = true :=
  getSuggestionsAs_assignedOK cfg hc.short hc.catches fuel h count h.cid alg (client_reachable_inv cfg fuel hs)
    (creach_pendingFree cfg hc fuel hs)

/-- **Two different workers never receive the same trial.**  After any history `pre`, worker `w1`
    is handed trial `id` of a study; then any client history `mid` runs during which the trial keeps
    existing (it is not deleted, nor its study); then worker `w2` asks — through the same or another
    handle on that study — and is handed `id` as well.  Then `w1 = w2`. -/
theorem client_workers_exclusive (cfg : Cfg) (hc : Current cfg) (fuel : Nat) (pre mid : History)
    (h1 h2 : Handle) (hsame : (h1.owner, h1.sid) = (h2.owner, h2.sid))
    (n1 n2 : Nat) (w1 w2 : String) (a1 a2 : AlgOutcome) (ids1 ids2 : List Nat) (id : Nat)
    (hobs1 : (clientStep cfg fuel h1 (.suggest n1 w1 a1) (creach cfg fuel pre)).1 = .handles ids1)
    (hin1 : id ∈ ids1)
    (hpresent : ∀ k, k ≤ mid.length →
      Present (creach cfg fuel (pre ++ [(h1, .suggest n1 w1 a1)] ++ mid.take k)) (h1.owner, h1.sid) id)
    (hobs2 : (clientStep cfg fuel h2 (.suggest n2 w2 a2)
        (creach cfg fuel (pre ++ [(h1, .suggest n1 w1 a1)] ++ mid))).1 = .handles ids2)
    (hin2 : id ∈ ids2) : w1 = w2 := by
  -- state names
  have e1 : creach cfg fuel (pre ++ [(h1, .suggest n1 w1 a1)]) =
      (clientStep cfg fuel h1 (.suggest n1 w1 a1) (creach cfg fuel pre)).2 := by
    unfold creach; rw [clientRun_append]; rfl
  have emid : ∀ l : History, creach cfg fuel (pre ++ [(h1, .suggest n1 w1 a1)] ++ l) =
      clientRun cfg fuel (creach cfg fuel (pre ++ [(h1, .suggest n1 w1 a1)])) l := by
    intro l; unfold creach; rw [clientRun_append]
  -- after the first call the trial is w1's
  have hA1 : AssignedTo (creach cfg fuel (pre ++ [(h1, .suggest n1 w1 a1)])) (h1.owner, h1.sid) id w1 := by
    have := client_suggest_worker cfg hc fuel pre h1 n1 w1 a1
    rw [hobs1] at this
    rw [e1]
    exact storedActiveFor_assigned (List.all_eq_true.mp this id hin1)
  -- it stays w1's along `mid`
  have hA2 : AssignedTo (creach cfg fuel (pre ++ [(h1, .suggest n1 w1 a1)] ++ mid)) (h1.owner, h1.sid) id w1 := by
    rw [emid]
    apply assigned_stable_run cfg fuel _ id w1 mid (client_reachable_inv cfg fuel _) hA1
    intro k hk
    rw [← emid]; exact hpresent k hk
  -- the second call hands it to w2 …
  have hB : AssignedTo (clientStep cfg fuel h2 (.suggest n2 w2 a2)
      (creach cfg fuel (pre ++ [(h1, .suggest n1 w1 a1)] ++ mid))).2 (h2.owner, h2.sid) id w2 := by
    have := client_suggest_worker cfg hc fuel (pre ++ [(h1, .suggest n1 w1 a1)] ++ mid) h2 n2 w2 a2
    rw [hobs2] at this
    exact storedActiveFor_assigned (List.all_eq_true.mp this id hin2)
  -- … while it is still w1's
  have hstep := clientExec_stepOK cfg fuel h2 (.suggest n2 w2 a2) (client_reachable_inv cfg fuel (pre ++ [(h1, .suggest n1 w1 a1)] ++ mid))
  rw [← hsame] at hB
  have hA3 := assigned_stable hstep hA2 hB.present
  exact assigned_unique hstep.1 hA3 hB

/-! ### `Study.suggest`: a failing algorithm is reported; the polling loop ends -/

/-- **If the algorithm fails during `suggest`, the client raises** (RuntimeError): whenever the
    algorithm had to be consulted (open study, no unfinished operation, fewer own + queued trials than
    asked for) and raised — whichever exception, in-process or behind gRPC — the observation is an
    error, never a value and never the empty list.  Every state, every fuel. -/
theorem client_suggest_reports_failure (cfg : Cfg) (hc : cfg.suggestCatchesAll = true) (fuel : Nat) (h : Handle)
    (count : Nat) (w : String) (alg : AlgOutcome) (db : DB) :
    failureReportedOK db h w count alg (clientStep cfg fuel h (.suggest count w alg) db).1 = true :=
  getSuggestionsAs_failureReportedOK cfg hc fuel h count w alg db

/-- explicit form -/
theorem client_suggest_failure_is_runtime_error (cfg : Cfg) (hc : cfg.suggestCatchesAll = true) (fuel : Nat) (h : Handle)
    (count : Nat) (w : String) (alg : AlgOutcome) (db : DB) (hf : alg = .raisesRpc ∨ alg = .raisesOther)
    (hneed : needsAlgorithm db h w count = true) :
    (clientStep cfg fuel h (.suggest count w alg) db).1 = .exc .runtimeError := by
  have := client_suggest_reports_failure cfg hc fuel h count w alg db
  unfold failureReportedOK at this
  have hfail : algFails alg = true := by rcases hf with rfl | rfl <;> rfl
  simp only [hfail, hneed, Bool.and_self, Bool.not_true, Bool.false_or] at this
  split at this
  · assumption
  · cases this

/-- **The polling loop terminates**: against the repaired service `suggest` issues exactly one request
    (SuggestTrials; the operation it answers is finished, so GetOperation is never needed) and never
    ends "still polling" — after every client history, for every fuel, zero included. -/
theorem client_poll_terminates (cfg : Cfg) (hc : Current cfg) (fuel : Nat) (hs : History) (h : Handle)
    (count : Nat) (w : String) (alg : AlgOutcome) :
    pollOK 0 (clientExec cfg fuel h (.suggest count w alg) (creach cfg fuel hs)) = true := by
  obtain ⟨hreqs, hcases⟩ := getSuggestionsAs_cases cfg hc.short hc.catches fuel h count w alg (creach cfg fuel hs)
    (creach_pendingFree cfg hc fuel hs)
  have hobs : stillPolling (getSuggestionsAs cfg fuel h count w alg (creach cfg fuel hs)).obs = false := by
    rcases hcases with ⟨_, hobs⟩ | ⟨st, _, _, hobs⟩ | ⟨st, o, handed, c, _, _, _, _, _, hobs⟩
    · rw [hobs]; rfl
    · rw [hobs]; rfl
    · rw [hobs]; unfold obsOfDone; split <;> rfl
  show pollOK 0 (getSuggestionsAs cfg fuel h count w alg (creach cfg fuel hs)) = true
  unfold pollOK
  rw [hreqs, hobs]
  rfl

/-- in every state, for every variant of the service: a client call issues at most `fuel + 2` requests
    (the stated fuel bound of the loop) -/
theorem client_requests_bounded (cfg : Cfg) (fuel : Nat) (h : Handle) (c : Call) (db : DB) :
    (clientExec cfg fuel h c db).reqs.length ≤ fuel + 2 :=
  clientExec_reqs_length cfg fuel h c db

/-! ### what the interface promises besides -/

/-- **Promised exceptions / values**: `Study.get_trial` of a trial that does not exist and
    `Study.from_resource_name` of a study that does not exist raise ResourceNotFoundError, `suggest` on a
    study that is not open returns `[]`, `add_trial` of a trial outside the search space raises ValueError —
    every state, every variant. -/
theorem client_promised_exceptions (cfg : Cfg) (fuel : Nat) (h : Handle) (c : Call) (db : DB) :
    promisedOK db h c (clientStep cfg fuel h c db).1 = true := by
  have hsug : ∀ count w alg, openOrNoHandles db h (getSuggestionsAs cfg fuel h count w alg db).obs = true := by
    intro count w alg
    unfold openOrNoHandles
    cases hs : findStudy db h.owner h.sid with
    | none => rfl
    | some st =>
      cases hi : st.immutable with
      | false => simp [hi]
      | true =>
        have hstep : step cfg db (Req.suggest h.owner h.sid w count alg) = (.err .failedPrecondition .handled, db) := by
          simp [step, onStudy, hs, hi]
        have : (getSuggestionsAs cfg fuel h count w alg db).obs = .handles [] := by
          unfold getSuggestionsAs
          simp only [hstep]
          rfl
        simp [this, isNoHandles]
  cases c with
  | getTrial id =>
    simp only [promisedOK]
    cases hl : lookup db h id with
    | some t => simp
    | none =>
      have hstep : (step cfg db (.getTrial h.owner h.sid id)).1 = .err .notFound .raw := by
        unfold lookup at hl
        simp only [step, onStudy]
        split at hl
        · rename_i st hs
          simp [hs, hl]
        · rename_i hs
          simp [hs]
      have : (clientStep cfg fuel h (.getTrial id) db).1 = .exc .resourceNotFound := by
        simp only [clientStep, clientExec, rpc1, hstep]
        rfl
      simp [this, isResourceNotFound]
  | fromResourceName sid =>
    simp only [promisedOK]
    cases hs : findStudy db h.owner sid with
    | some st => simp
    | none =>
      have hstep : step cfg db (.getStudy h.owner sid) = (.err .notFound .raw, db) := by
        simp [step, onStudy, hs]
      have : (clientStep cfg fuel h (.fromResourceName sid) db).1 = .exc .resourceNotFound := by
        simp only [clientStep, clientExec, rpc1, hstep]
      simp [this, isResourceNotFound]
  | suggest count w alg => exact hsug count w alg
  | getSuggestions count alg => exact hsug count h.cid alg
  | addTrial params final inSpace =>
    cases inSpace with
    | true => rfl
    | false => exact addTrial_outOfSpaceOK cfg fuel h params final db
  | _ => rfl

/-- **Documented effect of the single calls**, every state: `add_trial` / `request` on an open study store
    a NEW trial with the given parameters (SUCCEEDED for a completed trial, otherwise REQUESTED = queued) and
    return its handle; a measurement given to `complete` is stored as the final measurement and returned;
    `stop` on an ACTIVE trial leaves it STOPPING; `set_state(s)` stores `s`; `Trial.delete` removes the
    trial and `Study.delete` the study; `update_metadata` for a trial that does not exist raises RuntimeError (all-or-nothing datastore). -/
theorem client_documented_effects (cfg : Cfg) (hc : cfg.metadataAtomic = true) (fuel : Nat) (h : Handle) (c : Call) (db : DB) :
    effectsOK db (clientStep cfg fuel h c db).2 h c (clientStep cfg fuel h c db).1 = true :=
  clientExec_effectsOK cfg hc fuel h c db

def hA : Handle := { owner := "o", sid := "s", cid := "unused_client_id" }

/-- one study, trials 1 and 2 ACTIVE for "w1" without measurements, trial 3 queued -/
def twoActive : History :=
  [ (hA, .fromStudyConfig 0 []),
    (hA, .suggest 2 "w1" (.suggestions [⟨1, []⟩, ⟨2, []⟩, ⟨3, []⟩] [])) ]

/-- **Finding (code as it exists)**: `Trial.complete()` with nothing to select a final measurement from
    does NOT raise the documented `ValueError`: the service reports the ValueError as status UNKNOWN and the
    client passes the `RpcError` on. -/
theorem client_complete_value_error_counterexample :
    nothingToSelect (creach Cfg.fixed 3 twoActive) hA 2 none = true ∧
    valueErrorOK (creach Cfg.fixed 3 twoActive) hA (.complete 2 none none)
      (clientStep Cfg.fixed 3 hA (.complete 2 none none) (creach Cfg.fixed 3 twoActive)).1 = false := by decide

/-- **Finding (code as it exists)**: `Trial.check_early_stopping()` returns True when the algorithm says
    stop, but the trial is not moved to STOPPING as `TrialInterface.check_early_stopping` documents. -/
theorem client_early_stop_counterexample :
    earlyStopOK (clientStep Cfg.fixed 3 hA (.checkEarlyStopping 2 (.decisions [(2, true)] [])) (creach Cfg.fixed 3 twoActive)).2 hA
      (.checkEarlyStopping 2 (.decisions [(2, true)] []))
      (clientStep Cfg.fixed 3 hA (.checkEarlyStopping 2 (.decisions [(2, true)] [])) (creach Cfg.fixed 3 twoActive)).1 = false := by
  decide

/-- the service at the pinned commit after an in-process algorithm failure (C06's wedge witness) -/
def stuckDb : DB :=
  run C06.legacy DB.empty [.createStudy "o" "s" false .active 0 [], .suggest "o" "s" "w" 1 .raisesOther]

def staleOp : SugOp := { client := "w", num := 1, done := false, result := .none }

/-- **Counterexample for the pinned-commit service** (`suggestCatchesAll = false`): after one algorithm
    failure the worker's next `suggest` is answered with the abandoned, unfinished operation and the
    client polls it for ever — for EVERY fuel the call ends "still polling" having spent all of it.
    (This is why the check bounds the number of GetOperation calls of the real client.) -/
theorem client_legacy_poll_never_ends (fuel : Nat) :
    stillPolling (clientExec C06.legacy fuel hA (.suggest 1 "w" (.suggestions [⟨1, []⟩] [])) stuckDb).obs = true ∧
    (clientExec C06.legacy fuel hA (.suggest 1 "w" (.suggestions [⟨1, []⟩] [])) stuckDb).reqs.length = fuel + 1 := by
  have h1 : step C06.legacy stuckDb (Req.suggest hA.owner hA.sid "w" 1 (.suggestions [⟨1, []⟩] [])) =
      (.op "w" staleOp [], stuckDb) := by rfl
  have h2 : step C06.legacy stuckDb (.getOperation hA.owner hA.sid staleOp.client staleOp.num) =
      (.op staleOp.client staleOp [], stuckDb) := by rfl
  have hp := poll_stuck C06.legacy hA staleOp [] stuckDb rfl h2 fuel
  show stillPolling (getSuggestionsAs C06.legacy fuel hA 1 "w" (.suggestions [⟨1, []⟩] []) stuckDb).obs = true ∧
    (getSuggestionsAs C06.legacy fuel hA 1 "w" (.suggestions [⟨1, []⟩] []) stuckDb).reqs.length = fuel + 1
  unfold getSuggestionsAs
  simp only [h1, hp.1, List.length_cons, hp.2]
  exact ⟨rfl, trivial⟩

/-! ### non-vacuity -/

/-- two workers through ONE handle, an over-delivering algorithm, an infeasible completion with the
    EMPTY reason, a completion from an intermediate measurement, a failing algorithm -/
def demo : History :=
  [ (hA, .fromStudyConfig 0 []),
    (hA, .suggest 2 "w1" (.suggestions [⟨1, []⟩, ⟨2, []⟩, ⟨3, []⟩] [])),
    (hA, .suggest 1 "w2" .raisesOther),                 -- served from the queue: the algorithm is not consulted
    (hA, .complete 1 none (some "")),
    (hA, .addMeasurement 2 ⟨7, true⟩),
    (hA, .complete 2 none none) ]

example : ((creach Cfg.fixed 3 demo).studies.map fun st => st.trials.map fun t => (t.id, t.state, t.client, t.reason)) =
    [[(1, .infeasible, "w1", ""), (2, .succeeded, "w1", ""), (3, .active, "w2", "")]] := by decide

/-- the hypotheses of `client_complete_infeasible` are satisfiable, with the empty reason -/
example : completable (creach Cfg.fixed 3 (demo.take 3)) hA 1 = true := by decide

/-- the hypothesis of `client_suggest_failure_is_runtime_error` is satisfiable -/
example : needsAlgorithm (creach Cfg.fixed 3 demo) hA "w3" 1 = true := by decide

example : (match (clientStep Cfg.fixed 0 hA (.suggest 1 "w3" .raisesOther) (creach Cfg.fixed 3 demo)).1 with
    | .exc .runtimeError => true | _ => false) = true := by decide

/-- the hypotheses of `client_workers_exclusive` are satisfiable (with `w1 = w2`, as it must be) -/
example : (match (clientStep Cfg.fixed 0 hA (.suggest 1 "w2" .raisesOther) (creach Cfg.fixed 3 demo)).1 with
    | .handles [3] => true | _ => false) = true := by decide

/-- the predicates are not trivially true: a client that marks the trial infeasible only for a
    NON-EMPTY reason fails `infeasibleOK` on the empty reason … -/
example :
    let db := creach Cfg.fixed 3 (demo.take 3)
    infeasibleOK db (step Cfg.fixed db (.complete "o" "s" 1 (some ⟨5, true⟩) false "")).2 hA 1 (some "") = false := by decide

/-- … and a client that asks under its own id fails `assignedOK` for the worker named in the call -/
example :
    let db := creach Cfg.fixed 3 (demo.take 1)
    assignedOK (step Cfg.fixed db (.suggest "o" "s" "unused_client_id" 1 (.suggestions [⟨1, []⟩] []))).2 hA "w1" (.handles [1]) = false := by
  decide

end VizierModel.ClientLayer
