/-
C02 — SuggestTrials hands out exactly the requested trials, sticky per worker, fresh ids.
Property theorems only.  `suggestBody` is `SuggestTrials` after the study checks, under the
operation lock; the algorithm's answer is an arbitrary parameter of each theorem.
-/
import VizierModel.Lemmas.ServiceOpNums

namespace VizierModel.C02
open VizierModel.Svc

/-- exactly N trials, fewer only if the algorithm delivers fewer -/
theorem c02_count (cfg : Cfg) (hc : cfg.shortDeliveryOk = true) (st : Study) (w : String) (n : Nat) (sugg : List Sugg)
    (hdone : PendingFree st) :
    (suggestBody cfg st w n (.suggestions sugg [])).1.handed.length =
      min n ((ownActive st w).length + (pool st).length + sugg.length) :=
  suggest_count cfg hc st w n sugg (pendingFree_find st hdone w)

/-- sticky: a worker holding ≥ N ACTIVE trials gets its first N own trials back and nothing is
    created or changed — whatever the algorithm would have answered -/
theorem c02_sticky (cfg : Cfg) (st : Study) (w : String) (n : Nat) (alg : AlgOutcome) (hdone : PendingFree st)
    (hown : (ownActive st w).length ≥ n) :
    (suggestBody cfg st w n alg).2.trials = st.trials ∧
      (suggestBody cfg st w n alg).1.handed = (ownActive st w).take n := by
  obtain ⟨h1, o, h2, _, _⟩ := suggest_sticky cfg st w n alg (pendingFree_find st hdone w) hown
  exact ⟨h1, by rw [h2]; rfl⟩

/-- every trial in the response is ACTIVE and assigned to the asking worker, in the order
    own-active ++ assigned-from-queue ++ newly-created -/
theorem c02_handed_active_owned (cfg : Cfg) (hc : cfg.shortDeliveryOk = true) (hc2 : cfg.suggestCatchesAll = true)
    (st : Study) (w : String) (n : Nat) (alg : AlgOutcome) (hdone : PendingFree st) :
    ∀ t ∈ (suggestBody cfg st w n alg).1.handed, t.state = .active ∧ t.client = w := by
  have hown : ∀ t ∈ ownActive st w, t.state = .active ∧ t.client = w := by
    intro t ht
    have := (List.mem_filter.mp ht).2
    simpa using this
  have hassigned : ∀ k p, ∀ t ∈ assignRequested w k p, t.state = .active ∧ t.client = w := by
    intro k p t ht
    obtain ⟨t0, _, rfl⟩ := assignRequested_spec w k p t ht
    exact ⟨rfl, rfl⟩
  rw [suggestBody_of_free _ _ _ _ _ (pendingFree_find st hdone w)]
  unfold suggestRest
  simp only []
  have e1 : (List.filter (fun t => t.state == TState.active && t.client == w) st.trials) = ownActive st w := rfl
  simp only [e1]
  split
  · intro t ht
    exact hown t (List.mem_of_mem_take ht)
  · split
    · intro t ht
      rcases List.mem_append.mp ht with h | h
      · exact hown t h
      · exact hassigned _ _ t h
    · unfold pythiaStage
      split
      · intro t ht; cases ht
      · simp only [hc2, if_true]; intro t ht; cases ht
      · simp only
        split
        · intro t ht; cases ht
        · rw [createStage_handed cfg hc]
          intro t ht
          rcases List.mem_append.mp ht with h | h
          · rcases List.mem_append.mp h with h | h
            · exact hown t h
            · exact hassigned _ _ t h
          · exact takeFromEnd_active _ _ _ _ t h

/-- surplus algorithm output is queued as REQUESTED, nothing is dropped: the suggestions not handed
    out are stored (unassigned, REQUESTED), and handed-out ++ queued are all of the algorithm's output -/
theorem c02_surplus_queued (w : String) (need nextId : Nat) (sugg : List Sugg) :
    let r := takeFromEnd w need nextId sugg
    (∀ t ∈ surplus (nextId + r.1.length) r.2.1, t.state = .requested ∧ t.client = "") ∧
    (surplus (nextId + r.1.length) r.2.1).map (·.params) ++ (r.1.map (·.params)).reverse = sugg.map (·.params) := by
  intro r
  exact ⟨surplus_requested _ _, by rw [surplus_params]; exact takeFromEnd_partition w need nextId sugg⟩

/-- no trial is ever assigned to two workers: once a trial has left REQUESTED its worker never changes
    (for every history; from the lifecycle theorem) -/
theorem c02_exclusive (cfg : Cfg) (h : List Req) (r : Req) :
    ∀ st ∈ (run cfg DB.empty h).studies, ∀ st' ∈ (step cfg (run cfg DB.empty h) r).2.studies, keyOf st = keyOf st' →
      ∀ t ∈ st.trials, ∀ t' ∈ st'.trials, t.id = t'.id → t.state ≠ .requested → t'.client = t.client := by
  intro st hst st' hst' hk t ht t' ht' hid hne
  have := (step_ok cfg _ r (run_inv cfg DB.empty h inv_empty)).2 st hst st' hst' hk
  have h2 := (trialsStepOK_iff _ _).mp this.step t ht t' ht' hid
  exact ((trialStepOK_iff t t').mp h2).2.2.2 hne

/-- every newly created trial gets an id larger than every id already in the study (all RPCs that
    create trials, all histories); with unique ids, ids increase with creation order -/
theorem c02_fresh_ids (cfg : Cfg) (h : List Req) (r : Req) :
    ∀ st ∈ (run cfg DB.empty h).studies, ∀ st' ∈ (step cfg (run cfg DB.empty h) r).2.studies, keyOf st = keyOf st' →
      freshIdsOK st.trials st'.trials = true :=
  fun st hst st' hst' hk => ((step_ok cfg _ r (run_inv cfg DB.empty h inv_empty)).2 st hst st' hst' hk).fresh

/-- operation numbering: after every history the suggestion operations of every (study, worker)
    are numbered 1, 2, …, k in creation order (operation records being deleted with their study) -/
theorem c02_op_numbering (cfg : Cfg) (hc : cfg.deleteCascadesOps = true) (h : List Req) :
    ∀ st ∈ (run cfg DB.empty h).studies, ∀ w : String,
      (opsOf st w).map (·.num) = List.range' 1 (opsOf st w).length :=
  run_opsNumbered cfg hc DB.empty h (by intro st hst; cases hst)

/-- NEVER REFUSED: after every history of calls, a SuggestTrials call for which the documented error table promises
    no error (the study exists and accepts writes) is answered with a finished OPERATION of the asking worker -
    whatever the algorithm does (raise, deliver 0 … N+k suggestions, return metadata that cannot be stored), whatever
    the worker's number of earlier operations (1, 9, 10, 11, …): never with an error status.  Together with
    `c01_error_table` the error table is exact for SuggestTrials. -/
theorem c02_suggest_never_refused (cfg : Cfg) (hc : cfg.shortDeliveryOk = true) (hc2 : cfg.suggestCatchesAll = true)
    (hc3 : cfg.deleteCascadesOps = true) (h : List Req) (o s client : String) (count : Nat) (alg : AlgOutcome)
    (hs : specError (run cfg DB.empty h) (.suggest o s client count alg) = none) :
    ∃ op, (step cfg (run cfg DB.empty h) (.suggest o s client count alg)).1.opOf = some op ∧
      op.done = true ∧ op.client = client := by
  have hpf := run_pendingFree cfg hc hc2 hc3 DB.empty h (by intro st hst; cases hst)
  simp only [specError] at hs
  cases hf : findStudy (run cfg DB.empty h) o s with
  | none => simp [hf] at hs
  | some st =>
    have himm : st.immutable = false := by
      cases hi : st.immutable with
      | false => rfl
      | true => simp [hf, hi] at hs
    have hmem : st ∈ (run cfg DB.empty h).studies := by
      unfold findStudy at hf
      exact List.mem_of_find?_eq_some hf
    obtain ⟨op, h1, h2, h3, _⟩ := suggestBody_fresh_done cfg hc hc2 st client count alg (hpf st hmem)
    refine ⟨op, ?_, h2, h3⟩
    simp only [step, onStudy, hf, himm, Bool.and_false, Bool.false_eq_true, if_false]
    exact h1

/-- non-vacuity of `c02_suggest_never_refused`: the tenth and eleventh operation of one worker, and a failing
    algorithm, are answered with finished operations numbered 10 and 11 -/
example :
    let hist : List Req := .createStudy "o" "s" false .active 0 [] ::
      (List.range 9).map fun i => Req.suggest "o" "s" "w" 1 (.suggestions [⟨i, []⟩] [])
    let db := run Cfg.fixed DB.empty hist
    let r10 := step Cfg.fixed db (.suggest "o" "s" "w" 12 .raisesOther)    -- needs 3 new trials: the algorithm is reached and raises
    let r11 := step Cfg.fixed r10.2 (.suggest "o" "s" "w" 10 (.suggestions [⟨100, []⟩] []))
    (r10.1.opOf.map fun op => (op.num, op.done)) = some (10, true) ∧
    (r11.1.opOf.map fun op => (op.num, op.done)) = some (11, true) := by decide +kernel

/-! non-vacuity: an over-delivering algorithm, two workers -/
example :
    let db := run Cfg.fixed DB.empty
      [ .createStudy "o" "s" false .active 0 [],
        .suggest "o" "s" "w1" 2 (.suggestions [⟨1, []⟩, ⟨2, []⟩, ⟨3, []⟩] []),
        .suggest "o" "s" "w2" 2 (.suggestions [⟨4, []⟩] []) ]
    (db.studies.map fun st => st.trials.map fun t => (t.id, t.state, t.client)) =
      [[(1, .active, "w1"), (2, .active, "w1"), (3, .active, "w2"), (4, .active, "w2")]] := by decide

end VizierModel.C02
