/-
C04, any number of threads — the serial side.

`serRun ts st σ`: the threads `σ` executed one after the other (check and section together), as a fold over
thread numbers; `runN ts st (serialN σ)` has exactly this study and these responses (`runN_serialN`).
`Block`: a stretch of a serial order that only contains SetStudyState sections leading to an immutable study
and checking threads that are refused because the study is immutable.  Such a stretch acts on the study by
overwriting `state` only (`Block.run`), and what its threads observe does not depend on the rest of the study
(`Block.obs_sim`) — this is what lets a state-independent section move in front of it.
-/
import VizierModel.Model.ConcN
import VizierModel.Lemmas.ConcInst

namespace VizierModel.Conc
open VizierModel.Svc

/-- what thread `i` observes according to a response register -/
def obsOf (R : List (Nat × Resp)) (i : Nat) : Option Obs := (R.lookup i).map obs

theorem obsOf_cons (k : Nat) (r : Resp) (R : List (Nat × Resp)) (i : Nat) :
    obsOf ((k, r) :: R) i = if i = k then some (obs r) else obsOf R i := by
  unfold obsOf
  by_cases h : i = k
  · subst h; simp
  · have hb : (i == k) = false := by simpa using h
    simp [List.lookup_cons, hb, h]

theorem obsOf_cons_self (k : Nat) (r : Resp) (R : List (Nat × Resp)) : obsOf ((k, r) :: R) k = some (obs r) := by
  rw [obsOf_cons, if_pos rfl]

theorem obsOf_cons_ne (k : Nat) (r : Resp) (R : List (Nat × Resp)) (i : Nat) (h : i ≠ k) :
    obsOf ((k, r) :: R) i = obsOf R i := by
  rw [obsOf_cons, if_neg h]

/-- one thread executed serially: its check and its section with nothing in between -/
def serStep (t : Crit) (st : Study) : Resp × Study :=
  if t.checks && st.immutable then (refused, st) else t.body st

def serStepN (ts : List Crit) (x : Study × List (Nat × Resp)) (i : Nat) : Study × List (Nat × Resp) :=
  match ts[i]? with
  | none => x
  | some t => ((serStep t x.1).2, (i, (serStep t x.1).1) :: x.2)

/-- the serial execution of the threads `σ` in turn: final study and response register -/
def serRun (ts : List Crit) (st : Study) (σ : List Nat) : Study × List (Nat × Resp) :=
  σ.foldl (serStepN ts) (st, [])

theorem serStepN_some {ts : List Crit} {i : Nat} {t : Crit} (h : ts[i]? = some t) (x : Study × List (Nat × Resp)) :
    serStepN ts x i = ((serStep t x.1).2, (i, (serStep t x.1).1) :: x.2) := by
  simp only [serStepN, h]

theorem serRun_append (ts : List Crit) (st : Study) (P B : List Nat) :
    serRun ts st (P ++ B) = B.foldl (serStepN ts) (serRun ts st P) := by
  unfold serRun
  rw [List.foldl_append]

theorem serRun_snoc (ts : List Crit) (st : Study) (σ : List Nat) (k : Nat) :
    serRun ts st (σ ++ [k]) = serStepN ts (serRun ts st σ) k := by
  rw [serRun_append]; rfl

theorem obsOf_serStepN_ne (ts : List Crit) (x : Study × List (Nat × Resp)) (i k : Nat) (h : k ≠ i) :
    obsOf (serStepN ts x i).2 k = obsOf x.2 k := by
  unfold serStepN
  cases ts[i]? with
  | none => rfl
  | some t => exact obsOf_cons_ne _ _ _ _ h

theorem obsOf_foldl_notMem (ts : List Crit) (B : List Nat) (k : Nat) (hk : k ∉ B) :
    ∀ x : Study × List (Nat × Resp), obsOf (B.foldl (serStepN ts) x).2 k = obsOf x.2 k := by
  induction B with
  | nil => intro x; rfl
  | cons j B ih =>
    intro x
    have h1 : k ∉ B := fun hm => hk (List.mem_cons_of_mem _ hm)
    have h2 : k ≠ j := fun e => hk (by rw [e]; exact List.mem_cons_self)
    rw [List.foldl_cons, ih h1, obsOf_serStepN_ne ts x j k h2]

/-- two steps of the interleaved semantics, `chk i` then `body i`, are one serial step -/
theorem stepN_chk_body (ts : List Crit) (c : CStateN) (i : Nat) :
    (stepN ts (stepN ts c (.chk i)) (.body i)).st = (serStepN ts (c.st, c.resp) i).1 ∧
    (stepN ts (stepN ts c (.chk i)) (.body i)).resp = (serStepN ts (c.st, c.resp) i).2 := by
  cases h : ts[i]? with
  | none => simp [stepN, serStepN, h]
  | some t =>
    cases hb : (t.checks && c.st.immutable) <;>
      simp [stepN, serStepN, h, serStep, hb, CStateN.passOf]

theorem foldl_serialN (ts : List Crit) (π : List Nat) : ∀ c : CStateN,
    ((serialN π).foldl (stepN ts) c).st = (π.foldl (serStepN ts) (c.st, c.resp)).1 ∧
    ((serialN π).foldl (stepN ts) c).resp = (π.foldl (serStepN ts) (c.st, c.resp)).2 := by
  induction π with
  | nil => intro c; exact ⟨rfl, rfl⟩
  | cons i π ih =>
    intro c
    have e : serialN (i :: π) = .chk i :: .body i :: serialN π := by simp [serialN]
    obtain ⟨h1, h2⟩ := stepN_chk_body ts c i
    rw [e, List.foldl_cons, List.foldl_cons, List.foldl_cons]
    have e2 : serStepN ts (c.st, c.resp) i =
        ((stepN ts (stepN ts c (.chk i)) (.body i)).st, (stepN ts (stepN ts c (.chk i)) (.body i)).resp) := by
      rw [h1, h2]
    rw [e2]
    exact ih _

/-- the serial schedule of `π` reaches the study and the response register of `serRun` -/
theorem runN_serialN (ts : List Crit) (st : Study) (π : List Nat) :
    (runN ts st (serialN π)).st = (serRun ts st π).1 ∧ (runN ts st (serialN π)).resp = (serRun ts st π).2 :=
  foldl_serialN ts π { st := st }

/-! ### blocks -/

def immS (s : SState) : Bool := !(s == .active || s == .unspecified)

theorem immutable_eq_immS (st : Study) : st.immutable = immS st.state := rfl

/-- `Block ts s B e`: run serially from a study whose state is `s`, every thread of `B` is a SetStudyState
    section that leaves the study immutable or a checking thread that finds the study immutable (and is
    refused); `e` is the study state after the block -/
inductive Block (ts : List Crit) : SState → List Nat → SState → Prop where
  | nil (s : SState) : Block ts s [] s
  | set {s s' e : SState} {j : Nat} {B : List Nat} :
      ts[j]? = some (critSetState s') → immS s' = true → Block ts s' B e → Block ts s (j :: B) e
  | ref {s e : SState} {j : Nat} {B : List Nat} {t : Crit} :
      ts[j]? = some t → t.checks = true → immS s = true → Block ts s B e → Block ts s (j :: B) e

theorem Block.append {ts : List Crit} {s e e' : SState} {B B' : List Nat} (h : Block ts s B e)
    (h' : Block ts e B' e') : Block ts s (B ++ B') e' := by
  induction h with
  | nil s => exact h'
  | set hj hi _ ih => exact Block.set hj hi (ih h')
  | ref hj hc hi _ ih => exact Block.ref hj hc hi (ih h')

theorem serStepN_setState {ts : List Crit} {j : Nat} {s' : SState} (hj : ts[j]? = some (critSetState s'))
    (st : Study) (R : List (Nat × Resp)) :
    serStepN ts (st, R) j = ({ st with state := s' }, (j, .study { st with state := s' }) :: R) := by
  rw [serStepN_some hj]
  simp [serStep, critSetState]

theorem serStepN_refused {ts : List Crit} {j : Nat} {t : Crit} (hj : ts[j]? = some t) (hc : t.checks = true)
    (st : Study) (hi : st.immutable = true) (R : List (Nat × Resp)) :
    serStepN ts (st, R) j = (st, (j, refused) :: R) := by
  rw [serStepN_some hj]
  simp [serStep, hc, hi]

theorem serStepN_body {ts : List Crit} {j : Nat} {t : Crit} (hj : ts[j]? = some t)
    (st : Study) (hp : (t.checks && st.immutable) = false) (R : List (Nat × Resp)) :
    serStepN ts (st, R) j = ((t.body st).2, (j, (t.body st).1) :: R) := by
  rw [serStepN_some hj]
  simp [serStep, hp]

/-- a block only overwrites the study's state -/
theorem Block.run {ts : List Crit} {s e : SState} {B : List Nat} (h : Block ts s B e) :
    ∀ (st : Study) (R : List (Nat × Resp)), st.state = s →
      (B.foldl (serStepN ts) (st, R)).1 = { st with state := e } := by
  induction h with
  | nil s => intro st R hs; subst hs; rfl
  | set hj hi _ ih =>
    intro st R hs
    rw [List.foldl_cons, serStepN_setState hj, ih _ _ rfl]
  | ref hj hc hi _ ih =>
    intro st R hs
    have him : st.immutable = true := by rw [immutable_eq_immS, hs]; exact hi
    rw [List.foldl_cons, serStepN_refused hj hc st him, ih _ _ hs]

/-- what the threads of a block (and everybody before it) observe does not depend on the rest of the study -/
theorem Block.obs_sim {ts : List Crit} {s e : SState} {B : List Nat} (h : Block ts s B e) (k : Nat) :
    ∀ (st1 st2 : Study) (R1 R2 : List (Nat × Resp)), st1.state = s → st2.state = s →
      (∀ j, j ≠ k → obsOf R1 j = obsOf R2 j) →
      ∀ j, j ≠ k → obsOf (B.foldl (serStepN ts) (st1, R1)).2 j = obsOf (B.foldl (serStepN ts) (st2, R2)).2 j := by
  induction h with
  | nil s => intro st1 st2 R1 R2 _ _ hR; exact hR
  | @set s s' e i B hj hi _ ih =>
    intro st1 st2 R1 R2 h1 h2 hR
    rw [List.foldl_cons, List.foldl_cons, serStepN_setState hj, serStepN_setState hj]
    apply ih _ _ _ _ rfl rfl
    intro j hjk
    rw [obsOf_cons, obsOf_cons, hR j hjk]
    rfl
  | @ref s e i B t hj hc hi _ ih =>
    intro st1 st2 R1 R2 h1 h2 hR
    have him1 : st1.immutable = true := by rw [immutable_eq_immS, h1]; exact hi
    have him2 : st2.immutable = true := by rw [immutable_eq_immS, h2]; exact hi
    rw [List.foldl_cons, List.foldl_cons, serStepN_refused hj hc st1 him1, serStepN_refused hj hc st2 him2]
    apply ih _ _ _ _ h1 h2
    intro j hjk
    rw [obsOf_cons, obsOf_cons, hR j hjk]

end VizierModel.Conc
