/-
Mutual exclusion ⇒ atomic critical sections, for ANY number of threads (C04).

`Lemmas/ConcLock.lean` proves it for two threads by following the schedule.  Here: `n` threads, thread `i`
running `acquire L; ops i …; release L` with arbitrary operations on the shared state and its own local
state, scheduled step by step by an arbitrary list of thread numbers.  If the schedule is admitted by the
lock and runs every thread to completion, the final shared state and every thread's final local state are
those of the SERIAL execution of the sections in some order — the order in which the lock was acquired —
and that order is a permutation of the threads.  Invariant proof (no induction on a particular schedule
shape), core Lean only.
-/
import VizierModel.Lemmas.ConcLock

namespace VizierModel.ConcLockN
open VizierModel.ConcLock

variable {σ κ : Type}

structure GN (σ κ : Type) where
  sh : σ
  holder : Option Nat
  ths : Nat → Th κ

def setTh (ths : Nat → Th κ) (t : Nat) (x : Th κ) : Nat → Th κ := fun i => if i = t then x else ths i

/-- one scheduling step of thread `t`; `none` = no such thread, finished, or waiting for the lock -/
def stepN (n : Nat) (progs : Nat → List (σ → κ → σ × κ)) (g : GN σ κ) (t : Nat) : Option (GN σ κ) :=
  if t < n then
    match (section_ (progs t))[(g.ths t).pc]? with
    | none => none
    | some .acq =>
      if g.holder.isNone then some { g with holder := some t, ths := setTh g.ths t { g.ths t with pc := (g.ths t).pc + 1 } }
      else none
    | some .rel =>
      if g.holder == some t then some { g with holder := none, ths := setTh g.ths t { g.ths t with pc := (g.ths t).pc + 1 } }
      else none
    | some (.op f) =>
      let r := f g.sh (g.ths t).loc
      some { g with sh := r.1, ths := setTh g.ths t { pc := (g.ths t).pc + 1, loc := r.2 } }
  else none

def runN (n : Nat) (progs : Nat → List (σ → κ → σ × κ)) : GN σ κ → List Nat → Option (GN σ κ)
  | g, [] => some g
  | g, t :: ts => match stepN n progs g t with
    | none => none
    | some g' => runN n progs g' ts

/-- the sections executed one after the other in the given order -/
def serialStep (progs : Nat → List (σ → κ → σ × κ)) (x : σ × (Nat → κ)) (i : Nat) : σ × (Nat → κ) :=
  let r := exec (progs i) x.1 (x.2 i)
  (r.1, fun j => if j = i then r.2 else x.2 j)

def serialN (progs : Nat → List (σ → κ → σ × κ)) (s0 : σ) (locs0 : Nat → κ) (order : List Nat) : σ × (Nat → κ) :=
  order.foldl (serialStep progs) (s0, locs0)

theorem serialN_append (progs : Nat → List (σ → κ → σ × κ)) (s0 : σ) (locs0 : Nat → κ) (order : List Nat) (h : Nat) :
    serialN progs s0 locs0 (order ++ [h]) = serialStep progs (serialN progs s0 locs0 order) h := by
  unfold serialN
  rw [List.foldl_append]
  rfl

theorem foldl_loc_notin (progs : Nat → List (σ → κ → σ × κ)) (order : List Nat) (i : Nat) (hi : i ∉ order) :
    ∀ x : σ × (Nat → κ), (order.foldl (serialStep progs) x).2 i = x.2 i := by
  induction order with
  | nil => intro x; rfl
  | cons h l ih =>
    intro x
    have h1 : i ∉ l := fun hm => hi (List.mem_cons_of_mem _ hm)
    have h2 : i ≠ h := fun e => hi (by rw [e]; exact List.mem_cons_self)
    rw [List.foldl_cons, ih h1]
    simp only [serialStep, h2, if_false]

theorem serialN_loc_notin (progs : Nat → List (σ → κ → σ × κ)) (s0 : σ) (locs0 : Nat → κ) (order : List Nat) (i : Nat)
    (hi : i ∉ order) : (serialN progs s0 locs0 order).2 i = locs0 i :=
  foldl_loc_notin progs order i hi (s0, locs0)

theorem exec_take_succ (ops : List (σ → κ → σ × κ)) (j : Nat) (hj : j < ops.length) (s : σ) (k : κ) :
    exec (ops.take (j + 1)) s k = ops[j] (exec (ops.take j) s k).1 (exec (ops.take j) s k).2 := by
  unfold exec
  rw [List.take_succ_eq_append_getElem hj, List.foldl_append]
  rfl

/-- the invariant: `order` = the sections completed so far, in the order the lock was acquired -/
structure Inv (n : Nat) (progs : Nat → List (σ → κ → σ × κ)) (s0 : σ) (locs0 : Nat → κ) (g : GN σ κ)
    (order : List Nat) : Prop where
  nodup : order.Nodup
  lt : ∀ i ∈ order, i < n
  done : ∀ i ∈ order, (g.ths i).pc = (progs i).length + 2 ∧ (g.ths i).loc = (serialN progs s0 locs0 order).2 i
  idle : ∀ i, i ∉ order → g.holder ≠ some i → (g.ths i).pc = 0 ∧ (g.ths i).loc = locs0 i
  free : g.holder = none → g.sh = (serialN progs s0 locs0 order).1
  held : ∀ h, g.holder = some h → h < n ∧ h ∉ order ∧ ∃ j, j ≤ (progs h).length ∧ (g.ths h).pc = j + 1 ∧
    (g.sh, (g.ths h).loc) = exec ((progs h).take j) (serialN progs s0 locs0 order).1 (locs0 h)

theorem inv_init (n : Nat) (progs : Nat → List (σ → κ → σ × κ)) (s0 : σ) (locs0 : Nat → κ) :
    Inv n progs s0 locs0 { sh := s0, holder := none, ths := fun i => ⟨0, locs0 i⟩ } [] where
  nodup := List.nodup_nil
  lt := by intro i hi; cases hi
  done := by intro i hi; cases hi
  idle := by intro i _ _; exact ⟨rfl, rfl⟩
  free := by intro _; rfl
  held := by intro h hh; cases hh

/-- where a thread stands, read off the invariant -/
theorem where_ (n : Nat) (progs : Nat → List (σ → κ → σ × κ)) (s0 : σ) (locs0 : Nat → κ) (g : GN σ κ) (order : List Nat)
    (I : Inv n progs s0 locs0 g order) (t : Nat) :
    (t ∈ order ∧ (g.ths t).pc = (progs t).length + 2) ∨
    (t ∉ order ∧ g.holder ≠ some t ∧ (g.ths t).pc = 0) ∨
    (t ∉ order ∧ g.holder = some t) := by
  by_cases hm : t ∈ order
  · exact Or.inl ⟨hm, (I.done t hm).1⟩
  · by_cases hh : g.holder = some t
    · exact Or.inr (Or.inr ⟨hm, hh⟩)
    · exact Or.inr (Or.inl ⟨hm, hh, (I.idle t hm hh).1⟩)

theorem step_inv (n : Nat) (progs : Nat → List (σ → κ → σ × κ)) (s0 : σ) (locs0 : Nat → κ) (g g' : GN σ κ)
    (order : List Nat) (I : Inv n progs s0 locs0 g order) (t : Nat) (hs : stepN n progs g t = some g') :
    ∃ order', Inv n progs s0 locs0 g' order' := by
  unfold stepN at hs
  by_cases htn : t < n
  · simp only [htn, if_true] at hs
    rcases where_ n progs s0 locs0 g order I t with ⟨hm, hpc⟩ | ⟨hm, hh, hpc⟩ | ⟨hm, hh⟩
    · -- finished: no step
      rw [hpc, get_section_done] at hs
      cases hs
    · -- idle: the step is the acquire
      rw [hpc, get_section_zero] at hs
      simp only at hs
      by_cases hfree : g.holder.isNone = true
      · simp only [hfree, if_true, Option.some.injEq] at hs
        subst hs
        have hnone : g.holder = none := by
          cases hg : g.holder with
          | none => rfl
          | some x => rw [hg] at hfree; cases hfree
        refine ⟨order, ⟨I.nodup, I.lt, ?_, ?_, ?_, ?_⟩⟩
        · intro i hi
          have hne : i ≠ t := fun e => hm (e ▸ hi)
          simp only [setTh, hne, if_false]
          exact I.done i hi
        · intro i hi hhi
          have hne : i ≠ t := fun e => hhi (by rw [e])
          simp only [setTh, hne, if_false]
          exact I.idle i hi (by rw [hnone]; intro e; cases e)
        · intro e; cases e
        · intro h hh'
          simp only [Option.some.injEq] at hh'
          subst hh'
          refine ⟨htn, hm, 0, Nat.zero_le _, ?_, ?_⟩
          · simp [setTh, hpc]
          · simp only [setTh, if_true, List.take_zero, exec, List.foldl_nil]
            rw [I.free hnone, (I.idle t hm hh).2]
      · simp only [hfree, if_false] at hs
        cases hs
    · -- inside the section
      obtain ⟨_, _, j, hj, hpc, hex⟩ := I.held t hh
      rw [hpc, get_section] at hs
      by_cases hlt : j < (progs t).length
      · -- an operation
        simp only [hlt, dif_pos] at hs
        simp only [Option.some.injEq] at hs
        subst hs
        refine ⟨order, ⟨I.nodup, I.lt, ?_, ?_, ?_, ?_⟩⟩
        · intro i hi
          have hne : i ≠ t := fun e => hm (e ▸ hi)
          simp only [setTh, hne, if_false]
          exact I.done i hi
        · intro i hi hhi
          have hne : i ≠ t := fun e => hhi (by rw [e]; exact hh)
          simp only [setTh, hne, if_false]
          exact I.idle i hi hhi
        · intro e; simp only at e; rw [hh] at e; cases e
        · intro h hh'
          simp only at hh'
          rw [hh] at hh'
          simp only [Option.some.injEq] at hh'
          subst hh'
          refine ⟨htn, hm, j + 1, hlt, ?_, ?_⟩
          · simp [setTh, hpc]
          · simp only [setTh, if_true]
            rw [exec_take_succ (progs t) j hlt, ← hex]
      · -- the release
        have hj' : j = (progs t).length := Nat.le_antisymm hj (Nat.le_of_not_lt hlt)
        rw [dif_neg hlt, if_pos hj'] at hs
        simp only at hs
        have hb : (g.holder == some t) = true := by rw [hh]; simp
        simp only [hb, if_true, Option.some.injEq] at hs
        subst hs
        have htake : (progs t).take j = progs t := by rw [hj']; exact List.take_length
        rw [htake] at hex
        have hser : serialN progs s0 locs0 (order ++ [t]) =
            (g.sh, fun i => if i = t then (g.ths t).loc else (serialN progs s0 locs0 order).2 i) := by
          rw [serialN_append]
          simp only [serialStep]
          rw [serialN_loc_notin progs s0 locs0 order t hm, ← hex]
        refine ⟨order ++ [t], ⟨?_, ?_, ?_, ?_, ?_, ?_⟩⟩
        · rw [List.nodup_append]
          refine ⟨I.nodup, by simp, ?_⟩
          intro a ha b hb' e
          rw [List.mem_singleton] at hb'
          exact hm (by rw [← hb', ← e]; exact ha)
        · intro i hi
          rcases List.mem_append.mp hi with h1 | h1
          · exact I.lt i h1
          · rw [List.mem_singleton.mp h1]; exact htn
        · intro i hi
          rw [hser]
          rcases List.mem_append.mp hi with h1 | h1
          · have hne : i ≠ t := fun e => hm (e ▸ h1)
            simp only [setTh, hne, if_false]
            exact I.done i h1
          · have he : i = t := List.mem_singleton.mp h1
            subst he
            simp [setTh, hpc, hj']
        · intro i hi _
          have h1 : i ∉ order := fun hmm => hi (List.mem_append_left _ hmm)
          have hne : i ≠ t := fun e => hi (by rw [e]; exact List.mem_append_right _ (List.mem_singleton.mpr rfl))
          simp only [setTh, hne, if_false]
          exact I.idle i h1 (by rw [hh]; intro e; exact hne (Option.some.inj e).symm)
        · intro _
          rw [hser]
        · intro h hh'
          cases hh'
  · simp only [htn, if_false] at hs
    cases hs

theorem run_inv (n : Nat) (progs : Nat → List (σ → κ → σ × κ)) (s0 : σ) (locs0 : Nat → κ) (sched : List Nat) :
    ∀ (g g' : GN σ κ) (order : List Nat), Inv n progs s0 locs0 g order → runN n progs g sched = some g' →
      ∃ order', Inv n progs s0 locs0 g' order' := by
  induction sched with
  | nil =>
    intro g g' order I h
    simp only [runN, Option.some.injEq] at h
    subst h
    exact ⟨order, I⟩
  | cons t ts ih =>
    intro g g' order I h
    simp only [runN] at h
    cases hs : stepN n progs g t with
    | none => rw [hs] at h; cases h
    | some g1 =>
      rw [hs] at h
      obtain ⟨o1, I1⟩ := step_inv n progs s0 locs0 g g1 order I t hs
      exact ih g1 g' o1 I1 h

/-- **n threads**: every schedule the lock admits that runs all `n` sections to completion ends in the
    shared state and the local states of the serial execution of the sections in SOME order, and that
    order contains every thread exactly once. -/
theorem critical_sections_atomic_n (n : Nat) (progs : Nat → List (σ → κ → σ × κ)) (s0 : σ) (locs0 : Nat → κ)
    (sched : List Nat) (g' : GN σ κ)
    (h : runN n progs { sh := s0, holder := none, ths := fun i => ⟨0, locs0 i⟩ } sched = some g')
    (hfin : ∀ i, i < n → (g'.ths i).pc = (progs i).length + 2) :
    ∃ order : List Nat, order.Nodup ∧ (∀ i, i ∈ order ↔ i < n) ∧
      g'.sh = (serialN progs s0 locs0 order).1 ∧
      ∀ i, i < n → (g'.ths i).loc = (serialN progs s0 locs0 order).2 i := by
  obtain ⟨order, I⟩ := run_inv n progs s0 locs0 sched _ g' [] (inv_init n progs s0 locs0) h
  have hnone : g'.holder = none := by
    cases hg : g'.holder with
    | none => rfl
    | some x =>
      obtain ⟨hx, _, j, hj, hpc, _⟩ := I.held x hg
      have := hfin x hx
      omega
  have hall : ∀ i, i < n → i ∈ order := by
    intro i hi
    by_cases hm : i ∈ order
    · exact hm
    · have := (I.idle i hm (by rw [hnone]; intro e; cases e)).1
      have h2 := hfin i hi
      omega
  exact ⟨order, I.nodup, fun i => ⟨I.lt i, hall i⟩, I.free hnone, fun i hi => (I.done i (hall i hi)).2⟩

end VizierModel.ConcLockN
