import VizierModel.Lemmas.MetaStore
namespace VizierModel.Meta

variable {κ ν : Type} [DecidableEq κ]

def SpecEq (a b : Spec κ ν) : Prop := a.ids = b.ids ∧ ∀ t k, a.f t k = b.f t k

theorem SpecEq.refl (a : Spec κ ν) : SpecEq a a := ⟨rfl, fun _ _ => rfl⟩

theorem SpecEq.trans {a b c : Spec κ ν} (h1 : SpecEq a b) (h2 : SpecEq b c) : SpecEq a c :=
  ⟨h1.1.trans h2.1, fun t k => (h1.2 t k).trans (h2.2 t k)⟩

theorem specStep_congr {a b : Spec κ ν} (h : SpecEq a b) (op : Op κ ν) :
    SpecEq (specStep a op) (specStep b op) := by
  obtain ⟨hi, hf⟩ := h
  cases op with
  | update us =>
    simp only [specStep, hi]
    split
    · exact ⟨rfl, fun t k => by simp only [hf]⟩
    · exact ⟨hi, hf⟩
  | addTrial id md =>
    simp only [specStep, hi]
    split
    · exact ⟨hi, hf⟩
    · exact ⟨by simp [hi], fun t k => by simp only [hf]⟩
  | delTrial id =>
    simp only [specStep]
    exact ⟨by simp [hi], fun t k => by simp only [hf]⟩

theorem tview_append_new (ts : List (Nat × List (κ × ν))) (id : Nat) (md : List (κ × ν)) (j : Nat) (k : κ)
    (hnew : ts.any (·.1 = id) = false) :
    tview (ts ++ [(id, md)]) j k = if j = id then lookupLast md k else tview ts j k := by
  unfold tview
  rw [List.find?_append]
  by_cases hj : j = id
  · subst hj
    have : List.find? (fun t => decide (t.1 = j)) ts = none := by
      rw [List.find?_eq_none]
      intro x hx
      have := List.any_eq_false.mp hnew x hx
      simpa using this
    simp [this, List.find?]
  · have hji : ¬ id = j := fun e => hj e.symm
    cases h : List.find? (fun t => decide (t.1 = j)) ts with
    | some x => simp [hj]
    | none => simp [List.find?, hj, hji]

theorem tview_filter (ts : List (Nat × List (κ × ν))) (id j : Nat) (k : κ) :
    tview (ts.filter (·.1 ≠ id)) j k = if j = id then none else tview ts j k := by
  induction ts with
  | nil => simp [tview]
  | cons t ts ih =>
    unfold tview at *
    rw [List.filter_cons]
    by_cases ht : t.1 = id
    · simp only [ht, ne_eq, not_true_eq_false, decide_false, Bool.false_eq_true, if_false, List.find?_cons]
      by_cases hj : j = id
      · simpa [hj] using ih
      · have : ¬ id = j := fun e => hj e.symm
        simp only [this, decide_false, hj, if_false]
        simpa [hj] using ih
    · simp only [ne_eq, ht, not_false_eq_true, decide_true, if_true, List.find?_cons]
      by_cases htj : t.1 = j
      · have : ¬ j = id := fun e => ht (htj.trans e)
        simp [htj, this]
      · simp only [htj, decide_false]
        exact ih

theorem foldl_specStep_congr {a b : Spec κ ν} (h : SpecEq a b) (ops : List (Op κ ν)) :
    SpecEq (ops.foldl specStep a) (ops.foldl specStep b) := by
  induction ops generalizing a b with
  | nil => exact h
  | cons o os ih => exact ih (specStep_congr h o)

/-- one step of the store refines one step of the last-writer-wins specification -/
theorem step_refines {lt : κ → κ → Bool} (hl : StrictTotal lt) (s : Store κ ν) (op : Op κ ν) :
    SpecEq (abs (step lt s op)) (specStep (abs s) op) := by
  cases op with
  | update us =>
    simp only [step, specStep]
    have hall : ((namedIds us).all fun i => (abs s).ids.contains i) = (namedIds us).all (hasTrial s) := by
      congr 1; funext i; rw [hasTrial_eq]; rfl
    rw [hall]
    cases hu : updateAtomic lt s us with
    | ok s' =>
      have hok : (namedIds us).all (hasTrial s) = true := by
        unfold updateAtomic at hu
        by_cases h : (namedIds us).all (hasTrial s) = true
        · exact h
        · rw [if_neg h] at hu; cases hu
      rw [if_pos hok]
      refine ⟨ids_updateAtomic s s' us hu, ?_⟩
      intro t k
      exact (view_updateAtomic hl s s' us hu t k).1
    | error e =>
      have hbad : ¬ (namedIds us).all (hasTrial s) = true := by
        intro h
        unfold updateAtomic at hu
        rw [if_pos h] at hu; cases hu
      rw [if_neg hbad]
      exact SpecEq.refl _
  | addTrial id md =>
    simp only [step, specStep]
    have hc : (abs s).ids.contains id = hasTrial s id := by rw [hasTrial_eq]; rfl
    rw [hc]
    by_cases hp : hasTrial s id = true
    · simp only [hp, if_true]; exact SpecEq.refl _
    · have hp' : hasTrial s id = false := by
        cases h : hasTrial s id with
        | true => exact absurd h hp
        | false => rfl
      simp only [hp', Bool.false_eq_true, if_false]
      refine ⟨by simp [abs], ?_⟩
      intro t k
      cases t with
      | study => simp [abs, view]
      | trial j =>
        show tview (s.trials ++ [(id, md)]) j k = _
        rw [tview_append_new _ _ _ _ _ hp']
        by_cases hj : j = id
        · simp [hj]
        · have : ¬ (Target.trial j = Target.trial id) := fun e => hj (by cases e; rfl)
          simp [hj, this, abs, view_trial]
  | delTrial id =>
    simp only [step, specStep]
    refine ⟨by simp only [abs, List.filter_map]; rfl, ?_⟩
    intro t k
    cases t with
    | study => simp [abs, view]
    | trial j =>
      show tview (s.trials.filter (·.1 ≠ id)) j k = _
      rw [tview_filter]
      by_cases hj : j = id
      · simp [hj]
      · have : ¬ (Target.trial j = Target.trial id) := fun e => hj (by cases e; rfl)
        simp [hj, this, abs, view_trial]

end VizierModel.Meta
