/-
Client layer, part 3: per-call facts — `complete` and infeasibility, `suggest` and the asking worker,
`suggest` and a failing algorithm, termination of the polling loop — and stability of a worker
assignment along client histories.
-/
import VizierModel.Lemmas.ClientSuggest

namespace VizierModel.Client
open VizierModel VizierModel.Svc

/-! ### lookups after a write -/

theorem find?_map_replace {α : Type} (p : α → Bool) (b : α) (hb : p b = true) (l : List α) {a : α}
    (h : l.find? p = some a) : (l.map fun x => if p x then b else x).find? p = some b := by
  induction l with
  | nil => cases h
  | cons x xs ih =>
    by_cases hx : p x = true
    · simp [List.map_cons, hx, List.find?_cons_of_pos, hb]
    · have hx' : p x = false := by simpa using hx
      rw [List.find?_cons_of_neg hx] at h
      simp only [List.map_cons, hx', Bool.false_eq_true, if_false]
      rw [List.find?_cons_of_neg hx]
      exact ih h

theorem findStudy_putStudy {db : DB} {o s : String} {st st' : Study} (hf : findStudy db o s = some st)
    (hk : st'.owner = o ∧ st'.sid = s) : findStudy (putStudy db st') o s = some st' := by
  unfold findStudy putStudy
  simp only [hk.1, hk.2]
  exact find?_map_replace (isStudy o s) st' (by simp [isStudy, hk.1, hk.2]) db.studies hf

theorem findTrial_putTrial {st : Study} {id : Nat} {t t2 : Trial} (hf : st.findTrial id = some t) (hid : t2.id = id) :
    (st.putTrial t2).findTrial id = some t2 := by
  unfold Study.findTrial at hf
  unfold Study.findTrial Study.putTrial
  simp only [hid]
  exact find?_map_replace (fun x => x.id == id) t2 (by simp [hid]) st.trials hf

theorem handle_key {db : DB} {o s : String} {st : Study} (hf : findStudy db o s = some st) :
    st.owner = o ∧ st.sid = s := by
  have := (findStudy_some hf).2
  simpa [keyOf, Prod.ext_iff] using this

theorem findTrial_of_mem {st : Study} (hn : Nodup' st.trials) {t : Trial} (ht : t ∈ st.trials) :
    st.findTrial t.id = some t := by
  unfold Study.findTrial
  cases hfind : st.trials.find? (fun x => x.id == t.id) with
  | none =>
    have := List.find?_eq_none.mp hfind t ht
    simp at this
  | some u =>
    have hu : u ∈ st.trials := List.mem_of_find?_eq_some hfind
    have hid : u.id = t.id := by simpa using List.find?_some hfind
    rw [nodup_mem_eq hn hu ht hid]

theorem lookup_putStudy {db : DB} {h : Handle} {st st' : Study} (hs : findStudy db h.owner h.sid = some st)
    (hk : st'.owner = h.owner ∧ st'.sid = h.sid) (id : Nat) : lookup (putStudy db st') h id = st'.findTrial id := by
  unfold lookup
  rw [findStudy_putStudy hs hk]

/-- what `onStudy` leaves for the study it worked on -/
theorem onStudy_open {db : DB} {o s : String} {st : Study} (f : Study → Resp × Study)
    (hf : findStudy db o s = some st) (hopen : st.immutable = false) (guard : Bool) :
    onStudy db o s guard f = ((f st).1, putStudy db (f st).2) := by
  unfold onStudy
  simp [hf, hopen]

/-! ### `Trial.complete` -/

theorem chooseFinal_infeasible (t : Trial) (m : Option Meas) : ∃ t1, chooseFinal t m true = some t1 := by
  unfold chooseFinal
  simp only
  split
  · exact ⟨_, rfl⟩
  · exact ⟨_, rfl⟩

/-- **infeasible iff a reason is given**, explicit form with a reason — every string, also "" -/
theorem complete_with_reason (cfg : Cfg) (fuel : Nat) (h : Handle) (id : Nat) (m : Option Meas) (r : String) (db : DB)
    (st : Study) (t : Trial) (hs : findStudy db h.owner h.sid = some st) (hopen : st.immutable = false)
    (ht : st.findTrial id = some t) (hm : t.state.mutable = true) :
    ∃ t', lookup (clientExec cfg fuel h (.complete id m (some r)) db).db h id = some t' ∧
      t'.state = .infeasible ∧ t'.reason = r ∧ t'.params = t.params ∧ t'.client = t.client ∧
      (clientExec cfg fuel h (.complete id m (some r)) db).obs = .measurement t'.final := by
  obtain ⟨t1, h1⟩ := chooseFinal_infeasible t m
  have ht1 := chooseFinal_some h1
  have hidt := (findTrial_some ht).2
  have hbody : completeBody st id m true r =
      (.trial (markCompleted t1 true r), st.putTrial (markCompleted t1 true r)) := by
    unfold completeBody
    simp [ht, hm, h1]
  have hstep : step cfg db (completeReq h id m (some r)) =
      (.trial (markCompleted t1 true r), putStudy db (st.putTrial (markCompleted t1 true r))) := by
    simp only [completeReq, step, Option.isSome_some, Option.getD_some]
    rw [onStudy_open _ hs hopen, hbody]
  have hid2 : (markCompleted t1 true r).id = id := by
    unfold markCompleted; rw [ht1]; simpa using hidt
  refine ⟨markCompleted t1 true r, ?_, ?_, ?_, ?_, ?_, ?_⟩
  · show lookup (step cfg db (completeReq h id m (some r))).2 h id = _
    rw [hstep]
    show lookup (putStudy db (st.putTrial (markCompleted t1 true r))) h id = _
    rw [lookup_putStudy (st' := st.putTrial (markCompleted t1 true r)) hs ⟨(handle_key hs).1, (handle_key hs).2⟩]
    exact findTrial_putTrial ht hid2
  · simp [markCompleted]
  · simp [markCompleted]
  · unfold markCompleted; rw [ht1]; rfl
  · unfold markCompleted; rw [ht1]; rfl
  · simp only [clientExec, rpc1]
    rw [hstep]
    rfl

/-- … and without a reason: the trial is SUCCEEDED, or the call failed and it is what it was -/
theorem complete_without_reason (cfg : Cfg) (fuel : Nat) (h : Handle) (id : Nat) (m : Option Meas) (db : DB)
    (st : Study) (t : Trial) (hs : findStudy db h.owner h.sid = some st) (hopen : st.immutable = false)
    (ht : st.findTrial id = some t) (hm : t.state.mutable = true) :
    ∃ t', lookup (clientExec cfg fuel h (.complete id m none) db).db h id = some t' ∧
      (t'.state = .succeeded ∨ t' = t) := by
  have hidt := (findTrial_some ht).2
  have hkey : st.owner = h.owner ∧ st.sid = h.sid := handle_key hs
  cases hcf : chooseFinal t m false with
  | none =>
    have hbody : completeBody st id m false "" = (.err .unknown .handled, st) := by
      unfold completeBody; simp [ht, hm, hcf]
    refine ⟨t, ?_, Or.inr rfl⟩
    show lookup (step cfg db (completeReq h id m none)).2 h id = _
    simp only [completeReq, step, Option.isSome_none, Option.getD_none]
    rw [onStudy_open _ hs hopen, hbody]
    show lookup (putStudy db st) h id = _
    rw [lookup_putStudy hs hkey]
    exact ht
  | some t1 =>
    have ht1 := chooseFinal_some hcf
    have hbody : completeBody st id m false "" =
        (.trial (markCompleted t1 false ""), st.putTrial (markCompleted t1 false "")) := by
      unfold completeBody; simp [ht, hm, hcf]
    have hid2 : (markCompleted t1 false "").id = id := by
      unfold markCompleted; rw [ht1]; simpa using hidt
    refine ⟨markCompleted t1 false "", ?_, Or.inl (by simp [markCompleted])⟩
    show lookup (step cfg db (completeReq h id m none)).2 h id = _
    simp only [completeReq, step, Option.isSome_none, Option.getD_none]
    rw [onStudy_open _ hs hopen, hbody]
    show lookup (putStudy db (st.putTrial (markCompleted t1 false ""))) h id = _
    rw [lookup_putStudy (st' := st.putTrial (markCompleted t1 false "")) hs ⟨hkey.1, hkey.2⟩]
    exact findTrial_putTrial ht hid2

theorem completable_spec {db : DB} {h : Handle} {id : Nat} (hc : completable db h id = true) :
    ∃ st t, findStudy db h.owner h.sid = some st ∧ st.immutable = false ∧ st.findTrial id = some t ∧
      t.state.mutable = true := by
  unfold completable at hc
  split at hc
  · rename_i st hs
    simp only [Bool.and_eq_true, Bool.not_eq_true'] at hc
    obtain ⟨h1, h2⟩ := hc
    split at h2
    · rename_i t ht
      exact ⟨st, t, hs, h1, ht, h2⟩
    · cases h2
  · cases hc

/-- the executable predicate judged on real runs holds of the model, for every state and call -/
theorem complete_infeasibleOK (cfg : Cfg) (fuel : Nat) (h : Handle) (id : Nat) (m : Option Meas) (reason : Option String)
    (db : DB) : infeasibleOK db (clientExec cfg fuel h (.complete id m reason) db).db h id reason = true := by
  unfold infeasibleOK
  cases hc : completable db h id with
  | false => rfl
  | true =>
    obtain ⟨st, t, hs, hopen, ht, hm⟩ := completable_spec hc
    cases reason with
    | some r =>
      obtain ⟨t', hl, h1, h2, _⟩ := complete_with_reason cfg fuel h id m r db st t hs hopen ht hm
      simp [hl, h1, h2]
    | none =>
      obtain ⟨t', hl, h1⟩ := complete_without_reason cfg fuel h id m db st t hs hopen ht hm
      rcases h1 with h1 | rfl
      · simp [hl, h1]
      · have : t'.state ≠ .infeasible := by
          intro e; rw [e] at hm; cases hm
        simp [hl, this]

/-! ### `Study.suggest` -/

theorem poll_done (cfg : Cfg) (h : Handle) (fuel : Nat) (o : SugOp) (handed : List Trial) (db : DB)
    (hd : o.done = true) : poll cfg h fuel o handed db = (.done o handed, [], db) := by
  cases fuel <;> simp [poll, hd]

theorem opOf_some {r : Resp} {o : SugOp} (h : r.opOf = some o) : ∃ c handed, r = .op c o handed := by
  cases r <;> simp [Resp.opOf] at h
  subst h
  exact ⟨_, _, rfl⟩

/-- the only ways `get_suggestions` can end when no study has an unfinished operation -/
theorem getSuggestionsAs_cases (cfg : Cfg) (hc : cfg.shortDeliveryOk = true) (hc2 : cfg.suggestCatchesAll = true)
    (fuel : Nat) (h : Handle) (count : Nat) (w : String) (alg : AlgOutcome) (db : DB)
    (hpf : AllStudies PendingFree db) :
    (getSuggestionsAs cfg fuel h count w alg db).reqs = [Req.suggest h.owner h.sid w count alg] ∧
    ((findStudy db h.owner h.sid = none ∧ (getSuggestionsAs cfg fuel h count w alg db).obs = .exc .notFound) ∨
     (∃ st, findStudy db h.owner h.sid = some st ∧ st.immutable = true ∧
        (getSuggestionsAs cfg fuel h count w alg db).obs = .handles []) ∨
     (∃ st o handed c, findStudy db h.owner h.sid = some st ∧ st.immutable = false ∧
        (suggestBody cfg st w count alg).1 = .op c o handed ∧ o.done = true ∧
        (getSuggestionsAs cfg fuel h count w alg db).db = putStudy db (suggestBody cfg st w count alg).2 ∧
        (getSuggestionsAs cfg fuel h count w alg db).obs =
          obsOfDone o handed)) := by
  cases hs : findStudy db h.owner h.sid with
  | none =>
    have hstep : step cfg db (Req.suggest h.owner h.sid w count alg) = (.err .notFound .raw, db) := by
      simp [step, onStudy, hs]
    have : getSuggestionsAs cfg fuel h count w alg db =
        { obs := .exc .notFound, reqs := [Req.suggest h.owner h.sid w count alg], db := db } := by
      unfold getSuggestionsAs
      simp only [hstep]
      rfl
    rw [this]
    exact ⟨rfl, Or.inl ⟨rfl, rfl⟩⟩
  | some st =>
    cases hi : st.immutable with
    | true =>
      have hstep : step cfg db (Req.suggest h.owner h.sid w count alg) = (.err .failedPrecondition .handled, db) := by
        simp [step, onStudy, hs, hi]
      have : getSuggestionsAs cfg fuel h count w alg db =
          { obs := .handles [], reqs := [Req.suggest h.owner h.sid w count alg], db := db } := by
        unfold getSuggestionsAs
        simp only [hstep]
        rfl
      rw [this]
      exact ⟨rfl, Or.inr (Or.inl ⟨st, rfl, hi, rfl⟩)⟩
    | false =>
      have hpfst : PendingFree st := hpf st (findStudy_some hs).1
      obtain ⟨o, ho, hdone, _, _⟩ := suggestBody_fresh_done cfg hc hc2 st w count alg hpfst
      obtain ⟨c, handed, hresp⟩ := opOf_some ho
      have hstep : step cfg db (Req.suggest h.owner h.sid w count alg) =
          (.op c o handed, putStudy db (suggestBody cfg st w count alg).2) := by
        simp only [step]
        rw [onStudy_open _ hs hi, hresp]
      have : getSuggestionsAs cfg fuel h count w alg db =
          { obs := obsOfDone o handed,
            reqs := [Req.suggest h.owner h.sid w count alg],
            db := putStudy db (suggestBody cfg st w count alg).2 } := by
        unfold getSuggestionsAs
        simp only [hstep, poll_done cfg h fuel o handed _ hdone]
      rw [this]
      exact ⟨rfl, Or.inr (Or.inr ⟨st, o, handed, c, rfl, hi, hresp, hdone, rfl, rfl⟩)⟩

/-- **suggested trials belong to the asking worker** (the predicate judged on real runs) -/
theorem getSuggestionsAs_assignedOK (cfg : Cfg) (hc : cfg.shortDeliveryOk = true) (hc2 : cfg.suggestCatchesAll = true)
    (fuel : Nat) (h : Handle) (count : Nat) (w : String) (alg : AlgOutcome) {db : DB} (hi : Inv db)
    (hpf : AllStudies PendingFree db) :
    assignedOK (getSuggestionsAs cfg fuel h count w alg db).db h w (getSuggestionsAs cfg fuel h count w alg db).obs = true := by
  obtain ⟨_, hcases⟩ := getSuggestionsAs_cases cfg hc hc2 fuel h count w alg db hpf
  rcases hcases with ⟨_, hobs⟩ | ⟨st, _, _, hobs⟩ | ⟨st, o, handed, c, hs, hopen, hbody, hdone, hdb, hobs⟩
  · rw [hobs]; rfl
  · rw [hobs]; rfl
  · rw [hobs, hdb]
    have hst := findStudy_some hs
    have hn : Nodup' st.trials := hi.ids st hst.1
    have hn' : Nodup' (suggestBody cfg st w count alg).2.trials := (suggestBody_ok cfg st w count alg hn).nodup
    have hkey : (suggestBody cfg st w count alg).2.owner = h.owner ∧ (suggestBody cfg st w count alg).2.sid = h.sid := by
      have := (keeps_suggest cfg w count alg st).trans hst.2
      simpa [keyOf, Prod.ext_iff] using this
    have hheld := suggestBody_handed_stored cfg hc hc2 st w count alg (hpf st hst.1)
    rw [hbody] at hheld
    unfold obsOfDone
    split
    · rfl
    · simp only [assignedOK, List.all_eq_true, List.mem_map, forall_exists_index, and_imp]
      intro id t ht hid
      subst hid
      obtain ⟨t', ht', hid', hact, hcl⟩ := hheld t ht
      have hl : lookup (putStudy db (suggestBody cfg st w count alg).2) h t'.id = some t' := by
        rw [lookup_putStudy hs hkey]
        exact findTrial_of_mem hn' ht'
      unfold storedActiveFor
      rw [← hid', hl]
      simp [hact, hcl]

theorem needsAlgorithm_spec {db : DB} {h : Handle} {w : String} {count : Nat} (hn : needsAlgorithm db h w count = true) :
    ∃ st, findStudy db h.owner h.sid = some st ∧ st.immutable = false ∧ PendingFree st ∧
      (ownActive st w).length + (pool st).length < count := by
  unfold needsAlgorithm at hn
  split at hn
  · rename_i st hs
    simp only [Bool.and_eq_true, Bool.not_eq_true', List.all_eq_true, decide_eq_true_eq] at hn
    exact ⟨st, hs, hn.1.1, fun o ho => hn.1.2 o ho, hn.2⟩
  · cases hn

/-- **an algorithm failure reaches the caller** (the predicate judged on real runs): no state, no
    fuel, no count for which the client returns a value instead of raising -/
theorem getSuggestionsAs_failureReportedOK (cfg : Cfg) (hc2 : cfg.suggestCatchesAll = true)
    (fuel : Nat) (h : Handle) (count : Nat) (w : String) (alg : AlgOutcome) (db : DB) :
    failureReportedOK db h w count alg (getSuggestionsAs cfg fuel h count w alg db).obs = true := by
  unfold failureReportedOK
  cases hf : algFails alg with
  | false => rfl
  | true =>
    cases hna : needsAlgorithm db h w count with
    | false => rfl
    | true =>
      obtain ⟨st, hs, hopen, hpf, hneed⟩ := needsAlgorithm_spec hna
      have halg : alg = .raisesRpc ∨ alg = .raisesOther := by
        cases alg with
        | suggestions l d => simp [algFails] at hf
        | raisesRpc => exact Or.inl rfl
        | raisesOther => exact Or.inr rfl
      obtain ⟨o, ho, hdone, herr⟩ := suggestBody_reports_failure cfg hc2 st w count alg hpf halg hneed
      obtain ⟨c, handed, hresp⟩ := opOf_some ho
      have hstep : step cfg db (Req.suggest h.owner h.sid w count alg) =
          (.op c o handed, putStudy db (suggestBody cfg st w count alg).2) := by
        simp only [step]
        rw [onStudy_open _ hs hopen, hresp]
      have : (getSuggestionsAs cfg fuel h count w alg db).obs = .exc .runtimeError := by
        unfold getSuggestionsAs
        simp only [hstep, poll_done cfg h fuel o handed _ hdone, obsOfDone, herr]
      simp [this]

/-! ### the polling loop is bounded by its fuel -/

theorem poll_length (cfg : Cfg) (h : Handle) (fuel : Nat) (o : SugOp) (handed : List Trial) (db : DB) :
    (poll cfg h fuel o handed db).2.1.length ≤ fuel := by
  induction fuel generalizing o handed db with
  | zero => simp [poll]
  | succ n ih =>
    unfold poll
    split
    · simp
    · simp only
      split
      · simp only [List.length_cons]
        exact Nat.succ_le_succ (ih _ _ _)
      · simp

/-- an unfinished operation that `GetOperation` keeps returning: the loop uses all its fuel, whatever it is -/
theorem poll_stuck (cfg : Cfg) (h : Handle) (o : SugOp) (handed : List Trial) (db : DB) (hnd : o.done = false)
    (hget : step cfg db (.getOperation h.owner h.sid o.client o.num) = (.op o.client o handed, db)) :
    ∀ fuel, (poll cfg h fuel o handed db).1 = .exhausted ∧ (poll cfg h fuel o handed db).2.1.length = fuel := by
  intro fuel
  induction fuel with
  | zero => simp [poll, hnd]
  | succ n ih =>
    unfold poll
    simp only [hnd, Bool.false_eq_true, if_false, hget, List.length_cons]
    exact ⟨ih.1, by rw [ih.2]⟩

theorem clientExec_reqs_length (cfg : Cfg) (fuel : Nat) (h : Handle) (c : Call) (db : DB) :
    (clientExec cfg fuel h c db).reqs.length ≤ fuel + 2 := by
  have hsug : ∀ count ov alg, (getSuggestions cfg fuel h count ov alg db).reqs.length ≤ fuel + 2 := by
    intro count ov alg
    unfold getSuggestions getSuggestionsAs
    simp only
    split
    · rename_i c o handed heq
      simp only [List.length_cons]
      have := poll_length cfg h fuel o handed (step cfg db (Req.suggest h.owner h.sid (askingId h ov) count alg)).2
      omega
    · simp
  cases c with
  | suggest count worker alg => exact hsug count (some worker) alg
  | getSuggestions count alg => exact hsug count none alg
  | addTrial params final inSpace =>
    simp only [clientExec]
    split
    · simp
    · split <;> simp
  | _ => simp [clientExec, rpc1]

/-! ### a worker assignment is stable while the trial exists -/

/-- trial `id` of study `k` exists, has left REQUESTED and belongs to worker `w` -/
def AssignedTo (db : DB) (k : String × String) (id : Nat) (w : String) : Prop :=
  ∃ st ∈ db.studies, keyOf st = k ∧ ∃ t ∈ st.trials, t.id = id ∧ t.state ≠ .requested ∧ t.client = w

def Present (db : DB) (k : String × String) (id : Nat) : Prop :=
  ∃ st ∈ db.studies, keyOf st = k ∧ ∃ t ∈ st.trials, t.id = id

theorem AssignedTo.present {db : DB} {k : String × String} {id : Nat} {w : String} (h : AssignedTo db k id w) :
    Present db k id := by
  obtain ⟨st, hst, hk, t, ht, hid, _⟩ := h
  exact ⟨st, hst, hk, t, ht, hid⟩

theorem legal_not_requested {a b : TState} (h : legal a b = true) (ha : a ≠ .requested) : b ≠ .requested := by
  cases a <;> cases b <;> simp_all [legal]

theorem assigned_stable {db db' : DB} {k : String × String} {id : Nat} {w : String} (hs : StepOK db db')
    (h : AssignedTo db k id w) (hp : Present db' k id) : AssignedTo db' k id w := by
  obtain ⟨st, hst, hk, t, ht, hid, hreq, hcl⟩ := h
  obtain ⟨st', hst', hk', t', ht', hid'⟩ := hp
  have hok := (hs.2 st hst st' hst' (hk.trans hk'.symm)).step
  have h1 := (trialsStepOK_iff _ _).mp hok t ht t' ht' (hid.trans hid'.symm)
  obtain ⟨hlegal, _, _, hclient⟩ := (trialStepOK_iff t t').mp h1
  exact ⟨st', hst', hk', t', ht', hid', legal_not_requested hlegal hreq, (hclient hreq).trans hcl⟩

theorem assigned_unique {db : DB} (hi : Inv db) {k : String × String} {id : Nat} {w1 w2 : String}
    (h1 : AssignedTo db k id w1) (h2 : AssignedTo db k id w2) : w1 = w2 := by
  obtain ⟨st, hst, hk, t, ht, hid, _, hcl⟩ := h1
  obtain ⟨st', hst', hk', t', ht', hid', _, hcl'⟩ := h2
  have e : st = st' := key_unique hi hst hst' (hk.trans hk'.symm)
  subst e
  have e2 : t = t' := nodup_mem_eq (hi.ids st hst) ht ht' (hid.trans hid'.symm)
  subst e2
  exact hcl.symm.trans hcl'

/-- along a client history in which the trial exists after every call, its worker never changes -/
theorem assigned_stable_run (cfg : Cfg) (fuel : Nat) (k : String × String) (id : Nat) (w : String) (hs : History) :
    ∀ {db : DB}, Inv db → AssignedTo db k id w →
      (∀ n, n ≤ hs.length → Present (clientRun cfg fuel db (hs.take n)) k id) →
      AssignedTo (clientRun cfg fuel db hs) k id w := by
  induction hs with
  | nil => intro db _ h _; exact h
  | cons hc rest ih =>
    intro db hi h hp
    rw [clientRun_cons]
    have hstep := clientExec_stepOK cfg fuel hc.1 hc.2 hi
    apply ih hstep.1
    · apply assigned_stable hstep h
      have := hp 1 (by simp)
      simpa [clientRun] using this
    · intro n hn
      have := hp (n + 1) (by simpa using hn)
      simpa [List.take_succ_cons, clientRun_cons] using this

/-- what a `storedActiveFor` verdict means -/
theorem storedActiveFor_assigned {db : DB} {h : Handle} {w : String} {id : Nat} (hs : storedActiveFor db h w id = true) :
    AssignedTo db (h.owner, h.sid) id w := by
  unfold storedActiveFor lookup at hs
  split at hs
  · rename_i t hl
    split at hl
    · rename_i st hst
      have ht := findTrial_some hl
      have : t.state = .active ∧ t.client = w := by simpa using hs
      exact ⟨st, (findStudy_some hst).1, (findStudy_some hst).2, t, ht.1, ht.2, by rw [this.1]; decide, this.2⟩
    · cases hl
  · cases hs

end VizierModel.Client
