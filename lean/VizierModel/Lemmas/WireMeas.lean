/-
C09 lemmas: measurement (elapsed seconds ↔ Duration) and time stamps.
-/
import VizierModel.Lemmas.WireMeta
import Mathlib.Tactic.Ring
import Mathlib.Tactic.FieldSimp
import Mathlib.Algebra.Order.Field.Rat

namespace VizierModel.Wire

/-- `q` is a whole number of nanoseconds -/
def WholeNanos (q : Rat) : Prop := ∃ n : Int, q = (n : Rat) / nanosPerSec

/-- `q` is a whole number of seconds -/
def WholeSecs (q : Rat) : Prop := ∃ n : Int, q = (n : Rat)

theorem nanosPerSec_ne_zero : nanosPerSec ≠ 0 := by decide +kernel

/-- seconds + nanos / 1e9 reconstructs an elapsed time given in whole nanoseconds -/
theorem elapsed_roundtrip (q : Rat) (h : WholeNanos q) :
    ((truncNonneg q : Int) : Rat) + ((truncNonneg (nanosPerSec * (q - (truncNonneg q : Int))) : Int) : Rat) / nanosPerSec = q := by
  obtain ⟨n, hn⟩ := h
  have hne := nanosPerSec_ne_zero
  have hm : nanosPerSec * (q - ((truncNonneg q : Int) : Rat)) = ((n - 1000000000 * truncNonneg q : Int) : Rat) := by
    rw [hn]
    push_cast
    unfold nanosPerSec at *
    field_simp
  rw [hm]
  unfold truncNonneg at *
  rw [Rat.floor_intCast]
  rw [hn]
  push_cast
  unfold nanosPerSec at *
  field_simp
  ring

/-- dropping the nanos is harmless exactly for whole seconds -/
theorem elapsed_secs_only (q : Rat) (h : WholeSecs q) : ((truncNonneg q : Int) : Rat) = q := by
  obtain ⟨n, hn⟩ := h
  rw [hn]; unfold truncNonneg; rw [Rat.floor_intCast]

theorem fromTs_toTs (t : Nat) : fromTs (toTs t) = t := by
  unfold fromTs toTs
  simp only
  omega

end VizierModel.Wire
