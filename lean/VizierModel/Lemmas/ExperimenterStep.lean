/-
C20 helper lemmas, part 2: what each wrapper does to ONE suggestion (`step`) and to the
per-point reading `outcome` (the `eval : Params → Outcome` of DESIGN.md), derived from the
operational batch model `evaluate` with the help of `evaluate_singleton`.
-/
import VizierModel.Lemmas.Experimenter

set_option linter.unusedSimpArgs false

namespace VizierModel.Exp

variable {α : Type}

@[simp] theorem onFinal_final (g : Metrics α → Metrics α) (t : Trial α) :
    (onFinal g t).final = t.final.map g := by
  unfold Exp.onFinal; cases h : t.final <;> simp [h]

@[simp] theorem onFinal_infeasible (g : Metrics α → Metrics α) (t : Trial α) :
    (onFinal g t).infeasible = t.infeasible := by
  unfold Exp.onFinal; cases t.final <;> rfl

@[simp] theorem onFinal_params (g : Metrics α → Metrics α) (t : Trial α) :
    (onFinal g t).params = t.params := by
  unfold Exp.onFinal; cases t.final <;> rfl

theorem evaluate_single_exists (ops : Ops α) (e : Ex α) (st : St) (t : Trial α) :
    ∃ u, (evaluate ops e st [t]).1 = [u] := by
  obtain ⟨u, hu, _⟩ := Pw_singleton_left (evaluate_ext ops e st [t])
  exact ⟨u, hu⟩

theorem step_fst_snd (ops : Ops α) (e : Ex α) (st : St) (t : Trial α) :
    evaluate ops e st [t] = ([(step ops e st t).1], (step ops e st t).2) := by
  have h := evaluate_singleton ops e st t
  exact Prod.ext h rfl

theorem step_shift (ops : Ops α) (s : List α) (r : Bool) (e : Ex α) (st : St) (t : Trial α) :
    step ops (.shift s r e) st t =
      let u := step ops e st { t with params := offset ops (problem ops e).params s r t.params }
      ({ u.1 with params := t.params }, u.2) := by
  obtain ⟨u, hu⟩ := evaluate_single_exists ops e st { t with params := offset ops (problem ops e).params s r t.params }
  simp only [step, evaluate, setParams, List.map, restore, hu, zipUpd_cons, List.headD_cons]

theorem step_permute (ops : Ops α) (perm : List (String × List (PVal α × PVal α))) (e : Ex α) (st : St)
    (t : Trial α) :
    step ops (.permute perm e) st t =
      let u := step ops e st { t with params := permuteParams ops perm t.params }
      ({ u.1 with params := t.params }, u.2) := by
  obtain ⟨u, hu⟩ := evaluate_single_exists ops e st { t with params := permuteParams ops perm t.params }
  simp only [step, evaluate, setParams, List.map, restore, hu, zipUpd_cons, List.headD_cons]

theorem step_discretize (ops : Ops α) (disc : List (String × List (PVal α))) (parse : String → α)
    (e : Ex α) (st : St) (t : Trial α) :
    step ops (.discretize disc parse e) st t =
      let u := step ops e st { t with params := undiscretize disc parse t.params }
      ({ u.1 with params := t.params }, u.2) := by
  obtain ⟨u, hu⟩ := evaluate_single_exists ops e st { t with params := undiscretize disc parse t.params }
  simp only [step, evaluate, setParams, List.map, restore, hu, zipUpd_cons, List.headD_cons]

theorem step_sparse (ops : Ops α) (pre : String) (extra : List (PSpec α)) (e : Ex α) (st : St)
    (t : Trial α) :
    step ops (.sparse pre extra e) st t =
      let u := step ops e st { t with params := dropSparse pre t.params }
      ({ u.1 with params := t.params }, u.2) := by
  obtain ⟨u, hu⟩ := evaluate_single_exists ops e st { t with params := dropSparse pre t.params }
  simp only [step, evaluate, setParams, List.map, restore, hu, zipUpd_cons, List.headD_cons]

theorem step_signFlip (ops : Ops α) (b : Bool) (e : Ex α) (st : St) (t : Trial α) :
    step ops (.signFlip b e) st t =
      (onFinal (flipMetrics ops b (problem ops e).metricNames) (step ops e st t).1, (step ops e st t).2) := by
  obtain ⟨u, hu⟩ := evaluate_single_exists ops e st t
  simp only [step, evaluate, hu, List.map, mapSt_cons, mapSt_nil, List.headD_cons]

theorem step_normalize (ops : Ops α) (mu sigma : List (String × α)) (e : Ex α) (st : St) (t : Trial α) :
    step ops (.normalize mu sigma e) st t =
      (onFinal (normMetrics ops mu sigma) (step ops e st t).1, (step ops e st t).2) := by
  obtain ⟨u, hu⟩ := evaluate_single_exists ops e st t
  simp only [step, evaluate, hu, List.map, mapSt_cons, mapSt_nil, List.headD_cons]

theorem step_noisy (ops : Ops α) (noise : Nat → α → α) (e : Ex α) (st : St) (t : Trial α) :
    step ops (.noisy noise e) st t =
      let u := step ops e st.kid t
      let v := noiseTrial noise st.n u.1
      (v.1, .node v.2 [u.2]) := by
  obtain ⟨u, hu⟩ := evaluate_single_exists ops e st.kid t
  simp only [step, evaluate, hu, List.map, mapSt_cons, mapSt_nil, List.headD_cons]

theorem step_hypercube (ops : Ops α) (keep : Bool) (dim : Nat) (dec : List α → Params α) (e : Ex α)
    (st : St) (t : Trial α) :
    step ops (.hypercube keep dim dec e) st t =
      let u := step ops e st { t with params := dec (hfeatures ops dim t.params) }
      ({ t with final := u.1.final, infeasible := t.infeasible || (keep && u.1.infeasible) }, u.2) := by
  obtain ⟨u, hu⟩ := evaluate_single_exists ops e st { t with params := dec (hfeatures ops dim t.params) }
  simp only [step, evaluate, setParams, List.map, hu, zipUpd_cons, List.headD_cons]

theorem step_infeasibleIf (ops : Ops α) (isInf : Params α → Bool) (junk : α) (e : Ex α) (st : St)
    (t : Trial α) :
    step ops (.infeasibleIf isInf junk e) st t =
      if isInf t.params then
        (t.complete ((problem ops e).metricNames.map (fun n => (n, junk))) true, st)
      else step ops e st t := by
  simp only [step, evaluate, mapSt_cons, mapSt_nil]
  by_cases h : isInf t.params = true <;> simp [h]

/-- the `i`-th experimenter of a switch / multi-objective node -/
def kidAt : ExList α → Nat → Option (Ex α)
  | .nil, _ => none
  | .cons _ e _, 0 => some e
  | .cons _ _ rest, i + 1 => kidAt rest i

theorem evalAt_fst (ops : Ops α) : ∀ (kids : ExList α) (i : Nat) (sts : List St) (t : Trial α),
    (evalAt ops kids i sts t).1 =
      (kidAt kids i).map (fun e => (objName ops e, (step ops e (sts.getD i St.zero) t).1))
  | .nil, _, _, _ => rfl
  | .cons _ e _, 0, sts, t => by
    cases sts <;> simp [evalAt, kidAt, step]
  | .cons _ _ rest, i + 1, sts, t => by
    simp only [evalAt, kidAt, evalAt_fst ops rest i sts.tail t]
    cases sts <;> simp

theorem step_switch (ops : Ops α) (sw metric : String) (toIdx : Option (PVal α) → Nat) (keep : Bool)
    (kids : ExList α) (st : St) (t : Trial α) :
    (step ops (.switch sw metric toIdx keep kids) st t).1 =
      match kidAt kids (toIdx (lookupS sw t.params)) with
      | some e => switchComplete metric keep t (objName ops e)
          (step ops e (st.kids.getD (toIdx (lookupS sw t.params)) St.zero) t).1
      | none => t := by
  simp only [step, evaluate, mapSt_cons, mapSt_nil, List.headD_cons, evalAt_fst]
  cases kidAt kids (toIdx (lookupS sw t.params)) <;> rfl

/-! ### the per-point reading -/

theorem outcome_eq (ops : Ops α) (e : Ex α) (st : St) (x : Params α) :
    outcome ops e st x =
      ((step ops e st (Trial.fresh x)).1.final, (step ops e st (Trial.fresh x)).1.infeasible) := rfl

theorem outcome_shift (ops : Ops α) (s : List α) (r : Bool) (e : Ex α) (st : St) (x : Params α) :
    outcome ops (.shift s r e) st x = outcome ops e st (offset ops (problem ops e).params s r x) := by
  simp only [outcome_eq, step_shift]; rfl

theorem outcome_permute (ops : Ops α) (perm : List (String × List (PVal α × PVal α))) (e : Ex α)
    (st : St) (x : Params α) :
    outcome ops (.permute perm e) st x = outcome ops e st (permuteParams ops perm x) := by
  simp only [outcome_eq, step_permute]; rfl

theorem outcome_discretize (ops : Ops α) (disc : List (String × List (PVal α))) (parse : String → α)
    (e : Ex α) (st : St) (x : Params α) :
    outcome ops (.discretize disc parse e) st x = outcome ops e st (undiscretize disc parse x) := by
  simp only [outcome_eq, step_discretize]; rfl

theorem outcome_sparse (ops : Ops α) (pre : String) (extra : List (PSpec α)) (e : Ex α) (st : St)
    (x : Params α) :
    outcome ops (.sparse pre extra e) st x = outcome ops e st (dropSparse pre x) := by
  simp only [outcome_eq, step_sparse]; rfl

theorem outcome_signFlip (ops : Ops α) (b : Bool) (e : Ex α) (st : St) (x : Params α) :
    outcome ops (.signFlip b e) st x =
      ((outcome ops e st x).1.map (flipMetrics ops b (problem ops e).metricNames), (outcome ops e st x).2) := by
  simp [outcome_eq, step_signFlip]

theorem outcome_normalize (ops : Ops α) (mu sigma : List (String × α)) (e : Ex α) (st : St)
    (x : Params α) :
    outcome ops (.normalize mu sigma e) st x =
      ((outcome ops e st x).1.map (normMetrics ops mu sigma), (outcome ops e st x).2) := by
  simp [outcome_eq, step_normalize]

theorem outcome_hypercube (ops : Ops α) (keep : Bool) (dim : Nat) (dec : List α → Params α) (e : Ex α)
    (st : St) (x : Params α) :
    outcome ops (.hypercube keep dim dec e) st x =
      ((outcome ops e st (dec (hfeatures ops dim x))).1,
        keep && (outcome ops e st (dec (hfeatures ops dim x))).2) := by
  simp only [outcome_eq, step_hypercube]
  simp [Trial.fresh]

theorem outcome_infeasibleIf (ops : Ops α) (isInf : Params α → Bool) (junk : α) (e : Ex α) (st : St)
    (x : Params α) :
    outcome ops (.infeasibleIf isInf junk e) st x =
      if isInf x then (some ((problem ops e).metricNames.map (fun n => (n, junk))), true)
      else outcome ops e st x := by
  simp only [outcome_eq, step_infeasibleIf]
  by_cases h : isInf x = true <;> simp [h, Trial.fresh, Trial.complete]

end VizierModel.Exp
